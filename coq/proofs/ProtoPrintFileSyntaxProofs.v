(* ProtoPrintFileSyntaxProofs.v — the syntax layer of the file model of C05:
   the parser of model/ProtoParseFile.v reads back every syntactic file that model/ProtoPrintFile.v emits,
     parse_file (emit_file s) = Some s      for every well-formed s (messages nested to any depth). *)
From Coq Require Import String List Arith NArith ZArith Bool Lia ZifyN ZifyNat ZifyBool.
From J5V.lib Require Import Outcome Corr.
From J5V.model Require Import ProtoPrintLit ProtoPrint ProtoPrintFile ProtoParseFile.
From J5V.proofs Require Import ProtoPrintLitProofs ProtoPrintProofs.
Import ListNotations.

(* ------------------------------------------------------------------ option values (raw trees) *)
Fixpoint praw_fields (l : list (ident * rawval)) : list token :=
  match l with [] => [] | (k, x) :: r => TIdent k :: TColon :: print_raw x ++ praw_fields r end.
Fixpoint praw_elems (l : list rawval) : list token :=
  match l with [] => [] | [x] => print_raw x | x :: r => print_raw x ++ TComma :: praw_elems r end.
Fixpoint praw_more (l : list rawval) : list token :=
  match l with [] => [] | x :: r => TComma :: print_raw x ++ praw_more r end.

(* the fuel parse_raw needs: siblings share the fuel, so this is a depth, not a size *)
Fixpoint rsize (v : rawval) : nat :=
  match v with
  | RScalar _ => 1%nat
  | RMsg fs => S ((fix go (l : list (ident * rawval)) : nat :=
                     match l with [] => 1%nat | (_, x) :: r => S (Nat.max (rsize x) (go r)) end) fs)
  | RList items => S ((fix go (l : list rawval) : nat :=
                         match l with [] => 1%nat | x :: r => S (Nat.max (rsize x) (go r)) end) items)
  end.
Fixpoint rsize_fields (l : list (ident * rawval)) : nat :=
  match l with [] => 1%nat | (_, x) :: r => S (Nat.max (rsize x) (rsize_fields r)) end.
Fixpoint rsize_elems (l : list rawval) : nat :=
  match l with [] => 1%nat | x :: r => S (Nat.max (rsize x) (rsize_elems r)) end.

(* leaves are identifiers or literals *)
Fixpoint wf_raw (v : rawval) : Prop :=
  match v with
  | RScalar t => is_scalar_token t = true
  | RMsg fs => (fix go (l : list (ident * rawval)) : Prop :=
                  match l with [] => True | (_, x) :: r => wf_raw x /\ go r end) fs
  | RList items => (fix go (l : list rawval) : Prop :=
                      match l with [] => True | x :: r => wf_raw x /\ go r end) items
  end.
Fixpoint wf_raw_fields (l : list (ident * rawval)) : Prop :=
  match l with [] => True | (_, x) :: r => wf_raw x /\ wf_raw_fields r end.
Fixpoint wf_raw_elems (l : list rawval) : Prop :=
  match l with [] => True | x :: r => wf_raw x /\ wf_raw_elems r end.

Lemma print_raw_msg fs : print_raw (RMsg fs) = TLBrace :: praw_fields fs ++ [TRBrace].
Proof. reflexivity. Qed.
Lemma print_raw_list l : print_raw (RList l) = TLBrack :: praw_elems l ++ [TRBrack].
Proof. reflexivity. Qed.
Lemma rsize_msg fs : rsize (RMsg fs) = S (rsize_fields fs).
Proof. reflexivity. Qed.
Lemma rsize_list l : rsize (RList l) = S (rsize_elems l).
Proof. reflexivity. Qed.
Lemma wf_raw_msg fs : wf_raw (RMsg fs) <-> wf_raw_fields fs.
Proof. split; intro H; exact H. Qed.
Lemma wf_raw_list l : wf_raw (RList l) <-> wf_raw_elems l.
Proof. split; intro H; exact H. Qed.

Lemma praw_elems_cons x r : praw_elems (x :: r) = print_raw x ++ praw_more r.
Proof.
  revert x. induction r as [|y r IH]; intro x.
  - cbn [praw_elems praw_more]. rewrite app_nil_r. reflexivity.
  - change (praw_elems (x :: y :: r)) with (print_raw x ++ TComma :: praw_elems (y :: r)). rewrite IH. reflexivity.
Qed.

Definition starts_val (t : token) : bool :=
  match t with TIdent _ | TLit _ | TLBrace | TLBrack => true | _ => false end.

Lemma print_raw_head v : wf_raw v -> exists t tl, print_raw v = t :: tl /\ starts_val t = true.
Proof.
  destruct v as [t|fs|l]; intro H.
  - cbn in H. exists t, []. split; [reflexivity|]. destruct t; try discriminate H; reflexivity.
  - rewrite print_raw_msg. eexists; eexists; split; reflexivity.
  - rewrite print_raw_list. eexists; eexists; split; reflexivity.
Qed.

Lemma parse_raw_all : forall fuel,
  (forall v rest, wf_raw v -> (rsize v <= fuel)%nat -> parse_raw fuel (print_raw v ++ rest) = Some (v, rest)) /\
  (forall fs rest, wf_raw_fields fs -> (rsize_fields fs <= fuel)%nat ->
     parse_fields fuel (praw_fields fs ++ TRBrace :: rest) = Some (fs, rest)) /\
  (forall l rest, wf_raw_elems l -> (rsize_elems l <= fuel)%nat ->
     parse_more fuel (praw_more l ++ TRBrack :: rest) = Some (l, rest)).
Proof.
  induction fuel as [|f (IHv & IHf & IHm)].
  - split; [|split].
    + intros v rest _ H. destruct v; cbn in H; lia.
    + intros fs rest _ H. destruct fs as [|[k x] r]; cbn in H; lia.
    + intros l rest _ H. destruct l; cbn in H; lia.
  - split; [|split].
    + intros v rest Hw Hs. destruct v as [t|fs|l].
      * cbn in Hw. destruct t; try discriminate Hw; reflexivity.
      * rewrite print_raw_msg. rewrite rsize_msg in Hs. apply wf_raw_msg in Hw.
        cbn [app]. rewrite <- app_assoc. cbn [app parse_raw].
        rewrite IHf by (auto; lia). reflexivity.
      * rewrite print_raw_list. rewrite rsize_list in Hs. apply wf_raw_list in Hw.
        destruct l as [|x r].
        -- reflexivity.
        -- rewrite praw_elems_cons. cbn [rsize_elems] in Hs. destruct Hw as [Hx Hr].
           destruct (print_raw_head x Hx) as (t & tl & Ex & Ht).
           cbn [app]. rewrite <- !app_assoc. cbn [app].
           assert (Hp : parse_raw f (print_raw x ++ praw_more r ++ TRBrack :: rest)
                        = Some (x, praw_more r ++ TRBrack :: rest)) by (apply IHv; [exact Hx|lia]).
           assert (Hm : parse_more f (praw_more r ++ TRBrack :: rest) = Some (r, rest)) by (apply IHm; [exact Hr|lia]).
           rewrite Ex in Hp |- *. cbn [app] in Hp |- *.
           destruct t; try discriminate Ht; cbn [parse_raw]; rewrite Hp, Hm; reflexivity.
    + intros fs rest Hw Hs. destruct fs as [|[k x] r].
      * reflexivity.
      * cbn [praw_fields rsize_fields wf_raw_fields] in *. destruct Hw as [Hx Hr].
        cbn [app]. rewrite <- app_assoc. cbn [parse_fields].
        rewrite IHv by (auto; lia). rewrite IHf by (auto; lia). reflexivity.
    + intros l rest Hw Hs. destruct l as [|x r].
      * reflexivity.
      * cbn [praw_more rsize_elems wf_raw_elems] in *. destruct Hw as [Hx Hr].
        cbn [app]. rewrite <- app_assoc. cbn [parse_more].
        rewrite IHv by (auto; lia). rewrite IHm by (auto; lia). reflexivity.
Qed.

Lemma rsize_pos v : (1 <= rsize v)%nat.
Proof. destruct v; cbn; lia. Qed.

(* one unit of fuel per token is enough *)
Section TokenBound.
  Variable n : nat.
  Hypothesis IH : forall v, (rsize v <= n)%nat -> (rsize v <= length (print_raw v))%nat.

  Lemma fields_bound : forall fs, (rsize_fields fs <= S n)%nat -> (rsize_fields fs <= S (length (praw_fields fs)))%nat.
  Proof.
    induction fs as [|[k x] r IHr]; intro H; [cbn; lia|].
    cbn [rsize_fields praw_fields length] in *. rewrite app_length.
    assert (Hx : (rsize x <= length (print_raw x))%nat) by (apply IH; lia).
    assert (Hr : (rsize_fields r <= S (length (praw_fields r)))%nat) by (apply IHr; lia). lia.
  Qed.

  Lemma more_bound : forall r, (rsize_elems r <= S n)%nat -> (rsize_elems r <= S (length (praw_more r)))%nat.
  Proof.
    induction r as [|y r' IHr']; intro H; [cbn; lia|].
    cbn [rsize_elems praw_more length] in *. rewrite app_length.
    assert (Hy : (rsize y <= length (print_raw y))%nat) by (apply IH; lia).
    assert (Hr : (rsize_elems r' <= S (length (praw_more r')))%nat) by (apply IHr'; lia). lia.
  Qed.
End TokenBound.

Lemma rsize_le_tokens : forall n v, (rsize v <= n)%nat -> (rsize v <= length (print_raw v))%nat.
Proof.
  induction n as [|n IH]; intros v Hn; [destruct v; cbn in Hn; lia|].
  destruct v as [t|fs|l].
  - cbn. lia.
  - rewrite print_raw_msg, rsize_msg in *. cbn [length]. rewrite app_length. cbn [length].
    assert (G := fields_bound n IH fs ltac:(lia)). lia.
  - rewrite print_raw_list, rsize_list in *. cbn [length]. rewrite app_length. cbn [length].
    destruct l as [|x r]; [cbn; lia|].
    rewrite praw_elems_cons, app_length. cbn [rsize_elems] in *.
    assert (Hx : (rsize x <= length (print_raw x))%nat) by (apply IH; lia).
    assert (Hp := rsize_pos x).
    assert (G := more_bound n IH r ltac:(lia)). lia.
Qed.

Theorem parse_value_print v rest : wf_raw v -> parse_value (print_raw v ++ rest) = Some (v, rest).
Proof.
  intro Hw. unfold parse_value. apply (proj1 (parse_raw_all _)); [exact Hw|].
  pose proof (rsize_le_tokens (rsize v) v (le_n _)) as H. rewrite app_length. lia.
Qed.

Ltac norm_app := repeat first [rewrite <- !app_assoc | progress cbn [app]].

(* ------------------------------------------------------------------ names *)
(* the token after a dotted name never continues it *)
Definition no_dot_ident (ts : list token) : Prop :=
  match ts with TDot :: TIdent _ :: _ => False | _ => True end.

Lemma parse_dots_stop ts : no_dot_ident ts -> parse_dots ts = ([], ts).
Proof.
  destruct ts as [|t r]; [reflexivity|]. destruct t; try reflexivity.
  destruct r as [|t' r']; [reflexivity|]. destruct t'; try reflexivity. intros [].
Qed.

Lemma parse_dots_emit q rest : no_dot_ident rest -> parse_dots (emit_dots q ++ rest) = (q, rest).
Proof.
  intro H. induction q as [|a q IH]; [exact (parse_dots_stop rest H)|].
  cbn [emit_dots app parse_dots]. rewrite IH. reflexivity.
Qed.

Lemma parse_qname_emit q rest : q <> [] -> no_dot_ident rest -> parse_qname (emit_qname q ++ rest) = Some (q, rest).
Proof.
  intros Hq H. destruct q as [|a q]; [contradiction|].
  cbn [emit_qname app parse_qname]. rewrite (parse_dots_emit q rest H). reflexivity.
Qed.

Definition wf_pn (p : printed_name) : Prop := pn_name p <> [].

Lemma parse_pn_emit p rest : wf_pn p -> no_dot_ident rest -> parse_pn (emit_pn p ++ rest) = Some (p, rest).
Proof.
  destruct p as [abs nm]. unfold wf_pn, emit_pn. cbn [pn_abs pn_name]. intros Hn H.
  destruct nm as [|a q]; [contradiction|]. destruct abs.
  - cbn [emit_dots app parse_pn]. rewrite (parse_dots_emit q rest H). reflexivity.
  - cbn [emit_qname app parse_pn]. rewrite (parse_dots_emit q rest H). reflexivity.
Qed.

(* ------------------------------------------------------------------ options *)
Definition wf_oname (n : oname) : Prop := match n with OExt p _ => wf_pn p | OPlain _ => True end.
Definition wf_sopt (o : sopt) : Prop := wf_oname (fst o) /\ wf_raw (snd o).

Lemma parse_oname_emit n rest : wf_oname n -> no_dot_ident rest -> parse_oname (emit_oname n ++ rest) = Some (n, rest).
Proof.
  destruct n as [p sub|k]; intros Hw H.
  - cbn [emit_oname app parse_oname]. rewrite <- app_assoc. cbn [app].
    rewrite (parse_pn_emit p (TRParen :: emit_dots sub ++ rest) Hw I). rewrite (parse_dots_emit sub rest H). reflexivity.
  - reflexivity.
Qed.

Lemma parse_opt_emit o rest : wf_sopt o -> parse_opt (emit_opt o ++ rest) = Some (o, rest).
Proof.
  destruct o as [n v]. intros [Hn Hv]. unfold emit_opt, parse_opt. cbn [fst snd] in *.
  rewrite <- app_assoc. cbn [app]. rewrite (parse_oname_emit n (TEq :: print_raw v ++ rest) Hn I).
  rewrite (parse_value_print v rest Hv). reflexivity.
Qed.

Lemma emit_more_length l : (length l <= length (emit_more_opts l))%nat.
Proof. induction l as [|o r IH]; [cbn; lia|]. cbn [emit_more_opts length]. rewrite app_length. lia. Qed.

Lemma parse_more_opts_emit : forall l fuel rest, Forall wf_sopt l -> (length l < fuel)%nat ->
  parse_more_opts fuel (emit_more_opts l ++ TRBrack :: rest) = Some (l, rest).
Proof.
  induction l as [|o r IH]; intros fuel rest Hw Hf; (destruct fuel as [|f]; [lia|]).
  - reflexivity.
  - inversion Hw as [|? ? Ho Hr]; subst. cbn [emit_more_opts app parse_more_opts length] in *.
    rewrite <- app_assoc. rewrite (parse_opt_emit o _ Ho). rewrite IH by (auto; lia). reflexivity.
Qed.

Lemma parse_bracket_emit l rest : Forall wf_sopt l ->
  parse_bracket (emit_bracket l ++ TSemi :: rest) = Some (l, TSemi :: rest).
Proof.
  intro Hw. destruct l as [|o r]; [reflexivity|]. inversion Hw as [|? ? Ho Hr]; subst.
  cbn [emit_bracket app parse_bracket]. rewrite <- !app_assoc. rewrite (parse_opt_emit o _ Ho).
  cbn [app]. rewrite parse_more_opts_emit; [reflexivity|exact Hr|].
  rewrite app_length. pose proof (emit_more_length r). lia.
Qed.

(* the statement after the options of a block does not start with the keyword option *)
Definition not_option_start (ts : list token) : Prop := kw_head kw_option ts = None.

Lemma parse_opt_stmts_emit : forall l fuel rest, Forall wf_sopt l -> not_option_start rest -> (length l < fuel)%nat ->
  parse_opt_stmts fuel (flat_map emit_opt_stmt l ++ rest) = Some (l, rest).
Proof.
  induction l as [|o r IH]; intros fuel rest Hw Hr Hf; (destruct fuel as [|f]; [lia|]).
  - cbn [flat_map app parse_opt_stmts]. unfold not_option_start in Hr. rewrite Hr. reflexivity.
  - inversion Hw as [|? ? Ho Hr']; subst. cbn [flat_map length] in *. unfold emit_opt_stmt at 1.
    cbn [app parse_opt_stmts]. change (kw_head kw_option (TIdent kw_option :: ?x)) with (Some x).
    cbn [kw_head]. change (ident_eqb kw_option kw_option) with true. cbv iota.
    rewrite <- !app_assoc. rewrite (parse_opt_emit o _ Ho). cbn [app].
    rewrite IH by (auto; lia). reflexivity.
Qed.

Lemma opt_stmt_length l : (length l <= length (flat_map emit_opt_stmt l))%nat.
Proof. induction l as [|o r IH]; [cbn; lia|]. cbn [flat_map length]. rewrite app_length. unfold emit_opt_stmt at 1. cbn [length]. lia. Qed.

Lemma opt_stmts_emit l rest : Forall wf_sopt l -> not_option_start rest ->
  opt_stmts (flat_map emit_opt_stmt l ++ rest) = Some (l, rest).
Proof.
  intros Hw Hr. unfold opt_stmts. apply parse_opt_stmts_emit; auto.
  rewrite app_length. pose proof (opt_stmt_length l). lia.
Qed.

(* ------------------------------------------------------------------ items up to the closing brace *)
Definition item_start (ts : list token) : Prop :=
  match ts with [] => False | TRBrace :: _ => False | _ => True end.

Lemma many_emit {A} (p : list token -> ptok A) (emit : A -> list token) :
  forall (l : list A) fuel rest,
  (forall x, In x l -> forall r, p (emit x ++ r) = Some (x, r)) ->
  (forall x, In x l -> item_start (emit x)) ->
  (length l < fuel)%nat ->
  many fuel p (flat_map emit l ++ TRBrace :: rest) = Some (l, rest).
Proof.
  induction l as [|x r IH]; intros fuel rest Hp Hs Hf; (destruct fuel as [|f]; [lia|]).
  - reflexivity.
  - cbn [flat_map length] in *. rewrite <- app_assoc.
    assert (Hx := Hp x (or_introl eq_refl) (flat_map emit r ++ TRBrace :: rest)).
    assert (Hi := Hs x (or_introl eq_refl)).
    assert (Hrec : many f p (flat_map emit r ++ TRBrace :: rest) = Some (r, rest)).
    { apply IH; [intros y Hy; apply Hp; right; exact Hy|intros y Hy; apply Hs; right; exact Hy|lia]. }
    destruct (emit x) as [|t tl] eqn:E; [destruct Hi|].
    cbn [app] in *. destruct t; try (destruct Hi); cbn [many]; rewrite Hx, Hrec; reflexivity.
Qed.

Lemma flat_map_length_ge {A} (emit : A -> list token) (l : list A) :
  (forall x, In x l -> item_start (emit x)) -> (length l <= length (flat_map emit l))%nat.
Proof.
  induction l as [|x r IH]; intro Hs; [cbn; lia|]. cbn [flat_map length]. rewrite app_length.
  assert (Hi := Hs x (or_introl eq_refl)). destruct (emit x) as [|t tl]; [destruct Hi|].
  assert (Hr : (length r <= length (flat_map emit r))%nat) by (apply IH; intros y Hy; apply Hs; right; exact Hy).
  cbn [length]. lia.
Qed.

Lemma many_emit_len {A} (p : list token -> ptok A) (emit : A -> list token) (l : list A) rest :
  (forall x, In x l -> forall r, p (emit x ++ r) = Some (x, r)) ->
  (forall x, In x l -> item_start (emit x)) ->
  many (S (length (flat_map emit l ++ TRBrace :: rest))) p (flat_map emit l ++ TRBrace :: rest) = Some (l, rest).
Proof.
  intros Hp Hs. apply many_emit; auto. rewrite app_length. pose proof (flat_map_length_ge emit l Hs). lia.
Qed.

(* ------------------------------------------------------------------ comments *)
Definition no_cmt_start (ts : list token) : Prop :=
  match ts with TDetached _ :: _ | TLeading _ :: _ => False | _ => True end.

Lemma parse_det_emit det ts : no_cmt_start ts \/ (exists l r, ts = TLeading l :: r) ->
  parse_det (map TDetached det ++ ts) = (det, ts).
Proof.
  intro H. induction det as [|c r IH].
  - cbn [map app]. destruct ts as [|t r]; [reflexivity|]. destruct t; try reflexivity.
    destruct H as [H|(l & r' & E)]; [destruct H|discriminate E].
  - cbn [map app parse_det]. rewrite IH. reflexivity.
Qed.

Lemma parse_cmt_emit c ts : no_cmt_start ts -> parse_cmt (emit_cmt c ++ ts) = (c, ts).
Proof.
  intro H. destruct c as [det lead]. unfold emit_cmt, parse_cmt. cbn [c_det c_lead].
  rewrite <- app_assoc. destruct lead as [|b l].
  - cbn [app]. rewrite (parse_det_emit det ts (or_introl H)).
    destruct ts as [|t r]; [reflexivity|]. destruct t; try reflexivity; destruct H.
  - cbn [app]. rewrite (parse_det_emit det (TLeading (b :: l) :: ts)); [reflexivity|].
    right. exists (b :: l), ts. reflexivity.
Qed.

(* ------------------------------------------------------------------ fields *)
(* the first identifier of a relative type name is not one of the words that start another statement *)
Definition head_ok (p : printed_name) : Prop :=
  pn_abs p = true \/
  match pn_name p with
  | a :: _ => ident_eqb a kw_repeated = false /\ ident_eqb a kw_optional = false /\ ident_eqb a kw_option = false
  | [] => False
  end.

Definition wf_stype (t : stype) : Prop :=
  match t with SNamed p => wf_pn p /\ head_ok p | SMap k v => wf_pn k /\ wf_pn v end.

Definition wf_field (f : sfield) : Prop := wf_stype (sf_type f) /\ Forall wf_sopt (sf_opts f).

Definition field_tail (name : ident) (num : N) (opts : list sopt) (rest : list token) : list token :=
  TIdent name :: TEq :: TLit (print_uint num) :: emit_bracket opts ++ TSemi :: rest.

Lemma parse_stype_emit t name r : wf_stype t ->
  parse_stype (emit_stype t ++ TIdent name :: r) = Some (t, TIdent name :: r).
Proof.
  destruct t as [p|k v]; intro Hw.
  - destruct Hw as [Hp _]. unfold parse_stype.
    assert (Hm : map_head (emit_stype (SNamed p) ++ TIdent name :: r) = None).
    { destruct p as [abs nm]. unfold wf_pn in Hp. cbn [pn_name] in Hp. destruct nm as [|a q]; [contradiction|].
      destruct abs; [reflexivity|]. destruct q; reflexivity. }
    rewrite Hm. cbn [emit_stype]. rewrite (parse_pn_emit p (TIdent name :: r) Hp I). reflexivity.
  - destruct Hw as [Hk Hv]. unfold parse_stype. cbn [emit_stype app map_head].
    change (ident_eqb kw_map kw_map) with true. cbv iota.
    rewrite <- !app_assoc. cbn [app]. rewrite <- !app_assoc. cbn [app].
    rewrite (parse_pn_emit k) by (exact Hk || exact I).
    rewrite (parse_pn_emit v) by (exact Hv || exact I). reflexivity.
Qed.

Lemma parse_label_emit l t rest : wf_stype t ->
  parse_label (emit_label l ++ emit_stype t ++ rest) = (l, emit_stype t ++ rest).
Proof.
  intro Hw. destruct l; [|reflexivity|reflexivity].
  cbn [emit_label app]. destruct t as [p|k v].
  - destruct Hw as [Hp Hh]. destruct p as [abs nm]. unfold wf_pn in Hp. unfold head_ok in Hh. cbn [pn_abs pn_name] in *.
    destruct nm as [|a q]; [contradiction|]. destruct abs; [reflexivity|].
    destruct Hh as [Hh|(H1 & H2 & _)]; [discriminate Hh|].
    cbn [emit_stype emit_pn pn_abs pn_name emit_qname app parse_label]. rewrite H1, H2. reflexivity.
  - reflexivity.
Qed.

Lemma parse_field_body_emit c f rest : wf_field f ->
  parse_field_body c (emit_label (sf_label f) ++ emit_stype (sf_type f) ++ field_tail (sf_name f) (sf_num f) (sf_opts f) rest)
  = Some ({| sf_cm := c; sf_label := sf_label f; sf_type := sf_type f; sf_name := sf_name f; sf_num := sf_num f;
             sf_opts := sf_opts f |}, rest).
Proof.
  intros [Ht Ho]. unfold parse_field_body. rewrite (parse_label_emit _ _ _ Ht).
  unfold field_tail. rewrite (parse_stype_emit _ _ _ Ht). rewrite parse_print_uint.
  rewrite (parse_bracket_emit _ rest Ho). reflexivity.
Qed.

Lemma emit_field_eq f rest :
  emit_field f ++ rest
  = emit_cmt (sf_cm f) ++ emit_label (sf_label f) ++ emit_stype (sf_type f) ++ field_tail (sf_name f) (sf_num f) (sf_opts f) rest.
Proof. unfold emit_field, field_tail. rewrite <- !app_assoc. cbn [app]. rewrite <- !app_assoc. reflexivity. Qed.

Lemma field_no_cmt l t tail : wf_stype t -> no_cmt_start (emit_label l ++ emit_stype t ++ tail).
Proof.
  intro Hw. destruct l; cbn [emit_label app]; try exact I.
  destruct t as [[abs nm]|k v]; [|exact I]. destruct Hw as [Hp _]. unfold wf_pn in Hp. cbn [pn_name] in Hp.
  destruct nm as [|a q]; [contradiction|]. destruct abs; exact I.
Qed.

Lemma field_block_head l t name num opts rest : wf_stype t ->
  block_head (emit_label l ++ emit_stype t ++ field_tail name num opts rest) = None.
Proof.
  intro Hw. unfold field_tail. destruct t as [[abs nm]|k v].
  - destruct Hw as [Hp _]. unfold wf_pn in Hp. cbn [pn_name] in Hp. destruct nm as [|a q]; [contradiction|].
    destruct l, abs; try reflexivity; destruct q; reflexivity.
  - destruct l; reflexivity.
Qed.

Lemma field_not_option l t tail : wf_stype t -> not_option_start (emit_label l ++ emit_stype t ++ tail).
Proof.
  intro Hw. unfold not_option_start. destruct l; [|reflexivity|reflexivity].
  destruct t as [[abs nm]|k v]; [|reflexivity].
  destruct Hw as [Hp Hh]. unfold wf_pn in Hp. unfold head_ok in Hh. cbn [pn_abs pn_name] in *.
  destruct nm as [|a q]; [contradiction|]. destruct abs; [reflexivity|].
  destruct Hh as [Hh|(_ & _ & H3)]; [discriminate Hh|].
  cbn [emit_label emit_stype emit_pn pn_abs pn_name emit_qname app kw_head]. rewrite H3. reflexivity.
Qed.

Lemma parse_field_emit f rest : wf_field f -> parse_field (emit_field f ++ rest) = Some (f, rest).
Proof.
  intro Hw. rewrite emit_field_eq. unfold parse_field.
  rewrite parse_cmt_emit by (apply field_no_cmt; exact (proj1 Hw)).
  rewrite (parse_field_body_emit _ f rest Hw). destruct f; reflexivity.
Qed.

Lemma cmt_then_start c ts : item_start ts -> no_cmt_start ts -> item_start (emit_cmt c ++ ts).
Proof.
  intros Hi _. destruct c as [det lead]. unfold emit_cmt. cbn [c_det c_lead].
  destruct det as [|d r]; [|exact I]. destruct lead; [exact Hi|exact I].
Qed.

Lemma cmt_not_option c ts : not_option_start ts -> not_option_start (emit_cmt c ++ ts).
Proof.
  intro H. destruct c as [det lead]. unfold emit_cmt. cbn [c_det c_lead].
  destruct det as [|d r]; [|reflexivity]. destruct lead; [exact H|reflexivity].
Qed.

Lemma field_item_start l t tail : wf_stype t -> item_start (emit_label l ++ emit_stype t ++ tail).
Proof.
  intro Hw. destruct l; cbn [emit_label app]; try exact I.
  destruct t as [[abs nm]|k v]; [|exact I]. destruct Hw as [Hp _]. unfold wf_pn in Hp. cbn [pn_name] in Hp.
  destruct nm as [|a q]; [contradiction|]. destruct abs; exact I.
Qed.

Lemma emit_field_item_start f : wf_field f -> item_start (emit_field f).
Proof.
  intros [Ht _]. rewrite <- (app_nil_r (emit_field f)). rewrite emit_field_eq.
  apply cmt_then_start; [apply field_item_start; exact Ht|apply field_no_cmt; exact Ht].
Qed.

Lemma emit_field_not_option f rest : wf_field f -> not_option_start (emit_field f ++ rest).
Proof. intros [Ht _]. rewrite emit_field_eq. apply cmt_not_option. apply field_not_option. exact Ht. Qed.

Lemma fields_not_option fs rest : Forall wf_field fs -> not_option_start (flat_map emit_field fs ++ TRBrace :: rest).
Proof.
  intro H. destruct fs as [|f r]; [reflexivity|]. inversion H; subst. cbn [flat_map]. rewrite <- app_assoc.
  apply emit_field_not_option. assumption.
Qed.

Lemma many_fields fs rest : Forall wf_field fs ->
  many (S (length (flat_map emit_field fs ++ TRBrace :: rest))) parse_field (flat_map emit_field fs ++ TRBrace :: rest)
  = Some (fs, rest).
Proof.
  intro H. rewrite Forall_forall in H. apply many_emit_len.
  - intros x Hx r. apply parse_field_emit. apply H. exact Hx.
  - intros x Hx. apply emit_field_item_start. apply H. exact Hx.
Qed.

(* ------------------------------------------------------------------ enum values *)
Definition wf_value (v : svalue) : Prop := ident_eqb (sv_name v) kw_option = false /\ Forall wf_sopt (sv_opts v).

Lemma emit_value_eq v rest :
  emit_value v ++ rest
  = emit_cmt (sv_cm v) ++ TIdent (sv_name v) :: TEq :: TLit (print_int (sv_num v)) :: emit_bracket (sv_opts v) ++ TSemi :: rest.
Proof. unfold emit_value. rewrite <- !app_assoc. cbn [app]. rewrite <- !app_assoc. reflexivity. Qed.

Lemma parse_evalue_emit v rest : wf_value v -> parse_evalue (emit_value v ++ rest) = Some (v, rest).
Proof.
  intros [_ Ho]. rewrite emit_value_eq. unfold parse_evalue. rewrite parse_cmt_emit by exact I.
  rewrite parse_print_int. rewrite (parse_bracket_emit _ rest Ho). destruct v; reflexivity.
Qed.

Lemma emit_value_item_start v : item_start (emit_value v).
Proof. rewrite <- (app_nil_r (emit_value v)). rewrite emit_value_eq. apply cmt_then_start; exact I. Qed.

Lemma values_not_option vs rest : Forall wf_value vs -> not_option_start (flat_map emit_value vs ++ TRBrace :: rest).
Proof.
  intro H. destruct vs as [|v r]; [reflexivity|]. inversion H as [|? ? [Hn _] ?]; subst. cbn [flat_map]. rewrite <- app_assoc.
  rewrite emit_value_eq. apply cmt_not_option. unfold not_option_start. cbn [kw_head]. rewrite Hn. reflexivity.
Qed.

Lemma many_values vs rest : Forall wf_value vs ->
  many (S (length (flat_map emit_value vs ++ TRBrace :: rest))) parse_evalue (flat_map emit_value vs ++ TRBrace :: rest)
  = Some (vs, rest).
Proof.
  intro H. rewrite Forall_forall in H. apply many_emit_len.
  - intros x Hx r. apply parse_evalue_emit. apply H. exact Hx.
  - intros x _. apply emit_value_item_start.
Qed.

(* ------------------------------------------------------------------ methods *)
Definition wf_method (m : smethod) : Prop := wf_pn (sm_in m) /\ wf_pn (sm_out m) /\ Forall wf_sopt (sm_opts m).

Lemma emit_method_eq m rest :
  emit_method m ++ rest
  = emit_cmt (sm_cm m) ++ TIdent kw_rpc :: TIdent (sm_name m) :: TLParen :: emit_pn (sm_in m)
    ++ TRParen :: TIdent kw_returns :: TLParen :: emit_pn (sm_out m)
    ++ TRParen :: TLBrace :: flat_map emit_opt_stmt (sm_opts m) ++ TRBrace :: rest.
Proof. unfold emit_method. norm_app. reflexivity. Qed.

Lemma parse_method_emit m rest : wf_method m -> parse_method (emit_method m ++ rest) = Some (m, rest).
Proof.
  intros (Hi & Ho & Hs). rewrite emit_method_eq. unfold parse_method. rewrite parse_cmt_emit by exact I.
  change (ident_eqb kw_rpc kw_rpc) with true. cbv iota.
  rewrite (parse_pn_emit (sm_in m)) by (exact Hi || exact I).
  change (ident_eqb kw_returns kw_returns) with true. cbv iota.
  rewrite (parse_pn_emit (sm_out m)) by (exact Ho || exact I).
  rewrite (opt_stmts_emit (sm_opts m) (TRBrace :: rest) Hs eq_refl). destruct m; reflexivity.
Qed.

Lemma emit_method_item_start m : item_start (emit_method m).
Proof. rewrite <- (app_nil_r (emit_method m)). rewrite emit_method_eq. apply cmt_then_start; exact I. Qed.

Lemma methods_not_option ms rest : not_option_start (flat_map emit_method ms ++ TRBrace :: rest).
Proof.
  destruct ms as [|m r]; [reflexivity|]. cbn [flat_map]. rewrite <- app_assoc.
  rewrite emit_method_eq. apply cmt_not_option. reflexivity.
Qed.

Lemma many_methods ms rest : Forall wf_method ms ->
  many (S (length (flat_map emit_method ms ++ TRBrace :: rest))) parse_method (flat_map emit_method ms ++ TRBrace :: rest)
  = Some (ms, rest).
Proof.
  intro H. rewrite Forall_forall in H. apply many_emit_len.
  - intros x Hx r. apply parse_method_emit. apply H. exact Hx.
  - intros x _. apply emit_method_item_start.
Qed.

(* ------------------------------------------------------------------ elements *)
Fixpoint wf_elem (e : selem) : Prop :=
  match e with
  | SField f => wf_field f
  | SOneof _ _ opts fs => Forall wf_sopt opts /\ Forall wf_field fs
  | SMsg _ _ opts body =>
      Forall wf_sopt opts /\ (fix go (l : list selem) : Prop := match l with [] => True | x :: r => wf_elem x /\ go r end) body
  | SEnum _ _ opts vs => Forall wf_sopt opts /\ Forall wf_value vs
  | SService _ _ opts ms => Forall wf_sopt opts /\ Forall wf_method ms
  end.
Fixpoint wf_elems (l : list selem) : Prop := match l with [] => True | x :: r => wf_elem x /\ wf_elems r end.

(* nesting depth of messages: the fuel parse_elem needs *)
Fixpoint depth (e : selem) : nat :=
  match e with
  | SMsg _ _ _ body => S ((fix go (l : list selem) : nat := match l with [] => 1%nat | x :: r => Nat.max (depth x) (go r) end) body)
  | _ => 1%nat
  end.
Fixpoint depths (l : list selem) : nat := match l with [] => 1%nat | x :: r => Nat.max (depth x) (depths r) end.

Lemma wf_elems_In l : wf_elems l -> forall x, In x l -> wf_elem x.
Proof. induction l as [|y r IH]; intros H x Hx; [destruct Hx|]. destruct H as [Hy Hr]. destruct Hx as [->|Hx]; auto. Qed.
Lemma depths_In l : forall x, In x l -> (depth x <= depths l)%nat.
Proof. induction l as [|y r IH]; intros x Hx; [destruct Hx|]. cbn [depths]. destruct Hx as [->|Hx]; [lia|]. specialize (IH x Hx). lia. Qed.
Lemma depth_pos e : (1 <= depth e)%nat.
Proof. destruct e; cbn; lia. Qed.

Lemma emit_block_eq c kw n opts inner rest :
  emit_block c kw n opts inner ++ rest
  = emit_cmt c ++ TIdent kw :: TIdent n :: TLBrace :: flat_map emit_opt_stmt opts ++ inner ++ TRBrace :: rest.
Proof. unfold emit_block. norm_app. reflexivity. Qed.

Lemma emit_elem_msg c n opts body : emit_elem (SMsg c n opts body) = emit_block c kw_message n opts (flat_map emit_elem body).
Proof. reflexivity. Qed.
Lemma emit_elems_flat l : emit_elems l = flat_map emit_elem l.
Proof. induction l as [|x r IH]; [reflexivity|]. cbn [emit_elems flat_map]. rewrite IH. reflexivity. Qed.

Definition is_kw_block (kw : ident) : Prop :=
  kw = kw_message \/ kw = kw_enum \/ kw = kw_oneof \/ kw = kw_service.

Lemma block_not_option c kw n opts inner rest : is_kw_block kw ->
  not_option_start (emit_block c kw n opts inner ++ rest).
Proof.
  intro H. rewrite emit_block_eq. apply cmt_not_option.
  destruct H as [-> | [-> | [-> | ->]]]; reflexivity.
Qed.
Lemma block_item_start c kw n opts inner : item_start (emit_block c kw n opts inner).
Proof. rewrite <- (app_nil_r (emit_block c kw n opts inner)). rewrite emit_block_eq. apply cmt_then_start; exact I. Qed.

Lemma elem_not_option e rest : wf_elem e -> not_option_start (emit_elem e ++ rest).
Proof.
  destruct e as [f|c n o fs|c n o body|c n o vs|c n o ms]; intro Hw.
  - apply emit_field_not_option. exact Hw.
  - apply block_not_option. right; right; left; reflexivity.
  - rewrite emit_elem_msg. apply block_not_option. left; reflexivity.
  - apply block_not_option. right; left; reflexivity.
  - apply block_not_option. right; right; right; reflexivity.
Qed.
Lemma elem_item_start e : wf_elem e -> item_start (emit_elem e).
Proof.
  destruct e as [f|c n o fs|c n o body|c n o vs|c n o ms]; intro Hw.
  - apply emit_field_item_start. exact Hw.
  - apply block_item_start.
  - rewrite emit_elem_msg. apply block_item_start.
  - apply block_item_start.
  - apply block_item_start.
Qed.
Lemma elems_not_option body rest : wf_elems body -> not_option_start (flat_map emit_elem body ++ TRBrace :: rest).
Proof.
  intro H. destruct body as [|x r]; [reflexivity|]. destruct H as [Hx _]. cbn [flat_map]. rewrite <- app_assoc.
  apply elem_not_option. exact Hx.
Qed.

Theorem parse_elem_emit : forall fuel e rest, wf_elem e -> (depth e <= fuel)%nat ->
  parse_elem fuel (emit_elem e ++ rest) = Some (e, rest).
Proof.
  induction fuel as [|f IH]; intros e rest Hw Hd; [pose proof (depth_pos e); lia|].
  destruct e as [fl|c n o fs|c n o body|c n o vs|c n o ms].
  - cbn [emit_elem]. rewrite emit_field_eq. cbn [parse_elem].
    rewrite parse_cmt_emit by (apply field_no_cmt; exact (proj1 Hw)).
    rewrite field_block_head by exact (proj1 Hw).
    rewrite (parse_field_body_emit _ fl rest Hw). destruct fl; reflexivity.
  - destruct Hw as [Ho Hf]. cbn [emit_elem]. rewrite emit_block_eq. cbn [parse_elem].
    rewrite parse_cmt_emit by exact I. cbn [block_head].
    rewrite (opt_stmts_emit o _ Ho (fields_not_option fs rest Hf)).
    change (ident_eqb kw_oneof kw_message) with false. change (ident_eqb kw_oneof kw_enum) with false.
    change (ident_eqb kw_oneof kw_oneof) with true. cbv iota.
    rewrite (many_fields fs rest Hf). reflexivity.
  - destruct Hw as [Ho Hb]. change (wf_elems body) in Hb. rewrite emit_elem_msg, emit_block_eq. cbn [parse_elem].
    rewrite parse_cmt_emit by exact I. cbn [block_head].
    rewrite (opt_stmts_emit o _ Ho (elems_not_option body rest Hb)).
    change (ident_eqb kw_message kw_message) with true. cbv iota.
    change (depth (SMsg c n o body)) with (S (depths body)) in Hd.
    rewrite many_emit_len; [reflexivity| |].
    + intros x Hx r. apply IH; [exact (wf_elems_In body Hb x Hx)|]. pose proof (depths_In body x Hx). lia.
    + intros x Hx. apply elem_item_start. exact (wf_elems_In body Hb x Hx).
  - destruct Hw as [Ho Hv]. cbn [emit_elem]. rewrite emit_block_eq. cbn [parse_elem].
    rewrite parse_cmt_emit by exact I. cbn [block_head].
    rewrite (opt_stmts_emit o _ Ho (values_not_option vs rest Hv)).
    change (ident_eqb kw_enum kw_message) with false. change (ident_eqb kw_enum kw_enum) with true. cbv iota.
    rewrite (many_values vs rest Hv). reflexivity.
  - destruct Hw as [Ho Hm]. cbn [emit_elem]. rewrite emit_block_eq. cbn [parse_elem].
    rewrite parse_cmt_emit by exact I. cbn [block_head].
    rewrite (opt_stmts_emit o _ Ho (methods_not_option ms rest)).
    change (ident_eqb kw_service kw_message) with false. change (ident_eqb kw_service kw_enum) with false.
    change (ident_eqb kw_service kw_oneof) with false. change (ident_eqb kw_service kw_service) with true. cbv iota.
    rewrite (many_methods ms rest Hm). reflexivity.
Qed.

(* ------------------------------------------------------------------ depth is bounded by the number of tokens *)
Lemma emit_block_length c kw n opts inner :
  (4 + length inner <= length (emit_block c kw n opts inner))%nat.
Proof. unfold emit_block. rewrite !app_length. cbn [length]. rewrite !app_length. cbn [length]. lia. Qed.

Lemma depth_le_tokens : forall n e, (depth e <= n)%nat -> (depth e <= length (emit_elem e))%nat.
Proof.
  induction n as [|n IH]; intros e Hn; [pose proof (depth_pos e); lia|].
  destruct e as [fl|c k o fs|c k o body|c k o vs|c k o ms].
  - cbn [depth emit_elem]. pose proof (emit_field_item_start fl) as H. unfold emit_field. rewrite !app_length. cbn [length]. lia.
  - cbn [depth emit_elem]. pose proof (emit_block_length c kw_oneof k o (flat_map emit_field fs)). lia.
  - rewrite emit_elem_msg. change (depth (SMsg c k o body)) with (S (depths body)) in *.
    pose proof (emit_block_length c kw_message k o (flat_map emit_elem body)) as Hb.
    assert (G : (depths body <= S (length (flat_map emit_elem body)))%nat).
    { assert (Hd : (depths body <= n)%nat) by lia. clear Hn Hb.
      induction body as [|x r IHr]; [cbn; lia|].
      cbn [depths flat_map] in *. rewrite app_length.
      assert (Hx : (depth x <= length (emit_elem x))%nat) by (apply IH; lia).
      assert (Hr : (depths r <= S (length (flat_map emit_elem r)))%nat) by (apply IHr; lia). lia. }
    lia.
  - cbn [depth emit_elem]. pose proof (emit_block_length c kw_enum k o (flat_map emit_value vs)). lia.
  - cbn [depth emit_elem]. pose proof (emit_block_length c kw_service k o (flat_map emit_method ms)). lia.
Qed.

(* ------------------------------------------------------------------ the elements of the file *)
Lemma parse_top_emit : forall l fuel d, wf_elems l -> (forall x, In x l -> (depth x <= d)%nat) -> (length l < fuel)%nat ->
  parse_top fuel d (emit_elems l) = Some l.
Proof.
  induction l as [|x r IH]; intros fuel d Hw Hd Hf; (destruct fuel as [|f]; [lia|]).
  - reflexivity.
  - destruct Hw as [Hx Hr]. cbn [emit_elems length] in *.
    assert (Px : parse_elem d (emit_elem x ++ emit_elems r) = Some (x, emit_elems r)).
    { apply parse_elem_emit; [exact Hx|apply Hd; left; reflexivity]. }
    assert (Pr : parse_top f d (emit_elems r) = Some r).
    { apply IH; [exact Hr|intros y Hy; apply Hd; right; exact Hy|lia]. }
    pose proof (elem_item_start x Hx) as Hi.
    destruct (emit_elem x) as [|t tl] eqn:E; [destruct Hi|].
    cbn [app] in *. cbn [parse_top]. rewrite Px, Pr. reflexivity.
Qed.

(* ------------------------------------------------------------------ the head of the file *)
Lemma unquote_quote p : unquote (quote p) = Some p.
Proof.
  unfold quote, unquote. rewrite rev_app_distr. cbn [rev app]. rewrite rev_involutive. reflexivity.
Qed.

Lemma parse_imports_emit : forall l fuel rest, import_head rest = None -> (length l < fuel)%nat ->
  parse_imports fuel (flat_map emit_import l ++ rest) = Some (l, rest).
Proof.
  induction l as [|p r IH]; intros fuel rest Hs Hf; (destruct fuel as [|f]; [lia|]).
  - cbn [flat_map app parse_imports]. rewrite Hs. reflexivity.
  - cbn [flat_map length] in *. unfold emit_import at 1. cbn [app parse_imports import_head].
    change (ident_eqb kw_import kw_import) with true. cbv iota.
    rewrite unquote_quote. rewrite IH by (auto; lia). reflexivity.
Qed.

Definition wf_fopt (o : ident * token) : Prop := is_scalar_token (snd o) = true.

Lemma parse_fopts_emit : forall l fuel rest, Forall wf_fopt l -> fopt_head rest = None -> (length l < fuel)%nat ->
  parse_fopts fuel (flat_map emit_fopt l ++ rest) = Some (l, rest).
Proof.
  induction l as [|[name v] r IH]; intros fuel rest Hw Hs Hf; (destruct fuel as [|f]; [lia|]).
  - cbn [flat_map app parse_fopts]. rewrite Hs. reflexivity.
  - inversion Hw as [|? ? Hv Hr]; subst. unfold wf_fopt in Hv. cbn [snd] in Hv.
    cbn [flat_map length] in *. unfold emit_fopt at 1. cbn [fst snd app parse_fopts fopt_head].
    change (ident_eqb kw_option kw_option) with true. rewrite Hv. cbn [andb].
    rewrite IH by (auto; lia). reflexivity.
Qed.

Definition wf_ext (x : sext) : Prop := sx_extendee x <> [] /\ Forall wf_field (sx_fields x).

Lemma parse_exts_emit : forall l fuel rest, Forall wf_ext l -> kw_head kw_extend rest = None -> (length l < fuel)%nat ->
  parse_exts fuel (flat_map emit_ext l ++ rest) = Some (l, rest).
Proof.
  induction l as [|x r IH]; intros fuel rest Hw Hs Hf; (destruct fuel as [|f]; [lia|]).
  - cbn [flat_map app parse_exts]. rewrite Hs. reflexivity.
  - inversion Hw as [|? ? [Hx Hfs] Hr]; subst. cbn [flat_map length] in *. unfold emit_ext at 1.
    norm_app. cbn [parse_exts kw_head]. change (ident_eqb kw_extend kw_extend) with true. cbv iota.
    rewrite (parse_qname_emit (sx_extendee x)) by (exact Hx || exact I).
    rewrite (many_fields (sx_fields x) _ Hfs). rewrite IH by (auto; lia). destruct x; reflexivity.
Qed.

Lemma imports_length l : (length l <= length (flat_map emit_import l))%nat.
Proof. induction l as [|p r IH]; [cbn; lia|]. cbn [flat_map length]. rewrite app_length. unfold emit_import at 1. cbn [length]. lia. Qed.
Lemma fopts_length l : (length l <= length (flat_map emit_fopt l))%nat.
Proof. induction l as [|p r IH]; [cbn; lia|]. cbn [flat_map length]. rewrite app_length. unfold emit_fopt at 1. cbn [length]. lia. Qed.
Lemma exts_length l : (length l <= length (flat_map emit_ext l))%nat.
Proof. induction l as [|p r IH]; [cbn; lia|]. cbn [flat_map length]. rewrite app_length. unfold emit_ext at 1. cbn [length]. lia. Qed.

(* the elements of a file are messages, enums and services *)
Definition is_top (e : selem) : Prop :=
  match e with SMsg _ _ _ _ | SEnum _ _ _ _ | SService _ _ _ _ => True | _ => False end.

(* what follows the imports / file options / extend blocks: the first word is the keyword of one of the
   later sections, after comments possibly *)
Definition top_kw (k : ident) : Prop := k = kw_message \/ k = kw_enum \/ k = kw_service.

Inductive later_start : list token -> Prop :=
| LS_nil : later_start []
| LS_det c r : later_start (TDetached c :: r)
| LS_lead c r : later_start (TLeading c :: r)
| LS_kw k n r : top_kw k -> later_start (TIdent k :: TIdent n :: TLBrace :: r).

Lemma body_later_start body : Forall is_top body -> later_start (emit_elems body).
Proof.
  intro H. destruct body as [|x r]; [constructor|]. inversion H as [|? ? Hx _]; subst. cbn [emit_elems].
  assert (G : forall c kw n o inner rest, top_kw kw -> later_start (emit_block c kw n o inner ++ rest)).
  { intros c kw n o inner rest Hk. rewrite emit_block_eq. destruct c as [det lead]. unfold emit_cmt. cbn [c_det c_lead].
    destruct det as [|d ds]; [|constructor]. destruct lead; [|constructor]. cbn [map app]. constructor. exact Hk. }
  destruct x as [f|c n o fs|c n o b|c n o vs|c n o ms]; try destruct Hx.
  - rewrite emit_elem_msg. apply G. left; reflexivity.
  - apply G. right; left; reflexivity.
  - apply G. right; right; reflexivity.
Qed.

Lemma later_no_extend ts : later_start ts -> kw_head kw_extend ts = None.
Proof. intro H. destruct H as [| | |k n r [-> | [-> | ->]]]; reflexivity. Qed.
Lemma later_no_fopt ts : later_start ts -> fopt_head ts = None.
Proof. intro H. destruct H; reflexivity. Qed.
Lemma later_no_import ts : later_start ts -> import_head ts = None.
Proof. intro H. destruct H; reflexivity. Qed.

Lemma exts_no_fopt exts rest : Forall wf_ext exts -> later_start rest -> fopt_head (flat_map emit_ext exts ++ rest) = None.
Proof.
  intros Hw Hr. destruct exts as [|x r]; [exact (later_no_fopt rest Hr)|].
  inversion Hw as [|? ? [Hx _] _]; subst. cbn [flat_map]. unfold emit_ext at 1. norm_app.
  destruct (sx_extendee x) as [|a q]; [contradiction|]. destruct q; reflexivity.
Qed.
Lemma exts_no_import exts rest : Forall wf_ext exts -> later_start rest -> import_head (flat_map emit_ext exts ++ rest) = None.
Proof.
  intros Hw Hr. destruct exts as [|x r]; [exact (later_no_import rest Hr)|].
  inversion Hw as [|? ? [Hx _] _]; subst. cbn [flat_map]. unfold emit_ext at 1. norm_app.
  destruct (sx_extendee x) as [|a q]; [contradiction|]. reflexivity.
Qed.
Lemma fopts_no_import fopts rest : import_head rest = None -> import_head (flat_map emit_fopt fopts ++ rest) = None.
Proof. intro H. destruct fopts as [|o r]; [exact H|reflexivity]. Qed.

Definition wf_file (s : sfile) : Prop :=
  s_pkg s <> [] /\ Forall wf_fopt (s_fopts s) /\ Forall wf_ext (s_exts s)
  /\ wf_elems (s_body s) /\ Forall is_top (s_body s).

Theorem parse_file_emit s : wf_file s -> parse_file (emit_file s) = Some s.
Proof.
  intros (Hp & Hfo & Hx & Hb & Ht). unfold emit_file, parse_file.
  cbn [parse_cmt parse_det snd file_head].
  change (ident_eqb kw_syntax kw_syntax) with true. change (bytes_eqb lit_proto3 lit_proto3) with true.
  change (ident_eqb kw_package kw_package) with true. cbn [andb].
  rewrite (parse_qname_emit (s_pkg s)) by (exact Hp || exact I).
  pose proof (body_later_start (s_body s) Ht) as Hls.
  rewrite parse_imports_emit;
    [|apply fopts_no_import; apply exts_no_import; assumption
     |rewrite app_length; pose proof (imports_length (s_imports s)); lia].
  rewrite parse_fopts_emit;
    [|exact Hfo|apply exts_no_fopt; assumption|rewrite app_length; pose proof (fopts_length (s_fopts s)); lia].
  rewrite parse_exts_emit;
    [|exact Hx|apply later_no_extend; exact Hls|rewrite app_length; pose proof (exts_length (s_exts s)); lia].
  rewrite parse_top_emit; [destruct s; reflexivity|exact Hb| |].
  - intros x Hx'. pose proof (depth_le_tokens (depth x) x (le_n _)) as H1.
    assert (H2 : (length (emit_elem x) <= length (emit_elems (s_body s)))%nat).
    { clear -Hx'. induction (s_body s) as [|y r IH]; [destruct Hx'|]. cbn [emit_elems]. rewrite app_length.
      destruct Hx' as [->|Hx']; [lia|]. specialize (IH Hx'). lia. }
    lia.
  - rewrite emit_elems_flat. pose proof (flat_map_length_ge emit_elem (s_body s)) as H.
    assert (Hi : forall x, In x (s_body s) -> item_start (emit_elem x)).
    { intros x Hx'. apply elem_item_start. exact (wf_elems_In _ Hb x Hx'). }
    specialize (H Hi). lia.
Qed.

(* EntityClientProofs.v — the client API groups the expansion of an entity into exactly the
   StateEntity the declaration promises, whatever order the objects are visited in. *)
From Coq Require Import String List NArith Bool Lia Permutation.
From J5V.lib Require Import Outcome Strcase.
From J5V.model Require Import Entity EntityClient.
From J5V.proofs Require Import StrcaseProofs EntityProofs.
Import ListNotations.
Local Open Scope bool_scope.
Local Open Scope N_scope.

(* ---- what the expansion contains ------------------------------------------------------------ *)
Lemma main_messages_eq : forall cs, main_messages cs = msgs_of_file 0 cs.
Proof.
  intros cs. unfold main_messages, msgs_of_file. apply flat_map_ext'. intros [f m|n vs|f s]; try reflexivity.
  destruct f as [|p]; reflexivity.
Qed.

Lemma main_messages_expand : forall e fl,
  main_messages (expand_with e fl) =
    [keys_msg e; data_msg e; state_msg e fl; event_type_msg e; event_msg e] ++ map schema_msg (e_schemas e).
Proof. intros. rewrite main_messages_eq. apply main_file_messages. Qed.

Lemma services_of_app : forall a b, services_of (a ++ b) = services_of a ++ services_of b.
Proof. intros. apply flat_map_app. Qed.

Definition query_service (e : entity) : osvc :=
  mkSvc ((query_prefix e ++ bs "Query") ++ bs "Service") (SQuery (snake_name e))
        (map snd
           (let n := query_prefix e in
            let base := [47] ++ base_url e ++ bs "/q" in
            let events_in_get := match e_query e with Some q => q_events_in_get q | None => false end in
            [ method_components base (n ++ bs "Get") 1 (join [47] (key_path (get_keys e)))
                (map of_ufield (get_keys e))
                (Some (mkF (to_lower_camel (snake_name e)) (local_obj e "State") false true false false None None
                       :: (if events_in_get then [array_field (bs "events") (local_obj e "Event") false] else []))) 1;
              method_components base (n ++ bs "List") 1 (join [47] (key_path (list_keys e)))
                (map of_ufield (list_keys e) ++ [page_request; query_request])
                (Some [array_field (to_lower_camel (snake_name e)) (local_obj e "State") true; page_response]) 2;
              method_components base (n ++ bs "Events") 1 (join [47] (key_path (get_keys e) ++ [bs "events"]))
                (map of_ufield (get_keys e) ++ [page_request; query_request])
                (Some [array_field (bs "events") (local_obj e "Event") false; page_response]) 3 ])).

Definition command_service (e : entity) (c : command) : osvc :=
  mkSvc (command_service_name e c ++ bs "Service") (SCommand (snake_name e))
        (map snd (map (fun m => method_components (command_base e c) (md_name m) (md_verb m) (md_path m)
                                  (map of_ufield (md_request m)) (option_map (map of_ufield) (md_response m)) 0)
                      (c_methods c))).

Lemma services_of_methods : forall (ms : list (list component * omethod)),
  (forall m, In m ms -> services_of (fst m) = []) -> services_of (flat_map fst ms) = [].
Proof.
  induction ms as [|m ms IH]; intros H; [reflexivity|]. cbn [flat_map].
  rewrite services_of_app, (H m (or_introl eq_refl)), IH; [reflexivity|]. intros x Hx. apply H. now right.
Qed.

Lemma services_of_query : forall e, services_of (query_components e) = [query_service e].
Proof.
  intros e. unfold query_components, service_components. rewrite services_of_app.
  rewrite services_of_methods; [reflexivity|]. intros m [<-|[<-|[<-|[]]]]; reflexivity.
Qed.

Lemma services_of_command : forall e c, services_of (command_components e c) = [command_service e c].
Proof.
  intros e c. unfold command_components, service_components. rewrite services_of_app.
  rewrite services_of_methods; [reflexivity|]. intros m Hm. apply in_map_iff in Hm. destruct Hm as [md [<- _]].
  unfold method_components. cbn [fst]. destruct (option_map _ (md_response md)); reflexivity.
Qed.

Lemma services_of_flat_map : forall {A} (g : A -> list component) (h : A -> list osvc) l,
  (forall x, services_of (g x) = h x) -> services_of (flat_map g l) = flat_map h l.
Proof.
  intros A g h l H. induction l as [|x l IH]; [reflexivity|]. cbn [flat_map].
  now rewrite services_of_app, H, IH.
Qed.

Lemma services_of_expand : forall e fl,
  services_of (expand_with e fl) = query_service e :: map (command_service e) (e_commands e).
Proof.
  intros e fl. unfold expand_with. rewrite !services_of_app, services_of_query.
  rewrite (services_of_flat_map _ (fun c => [command_service e c]) _ (services_of_command e)).
  rewrite (services_of_flat_map _ (fun _ => []) _ (fun s => eq_refl : services_of (summary_components e s) = [])).
  assert (E1 : services_of (map (fun sc => CMsg 0 (mkMsg (fst sc) None false (map of_ufield (snd sc)) []))
                                (e_schemas e)) = []).
  { induction (e_schemas e) as [|sc l IH]; [reflexivity|]. cbn [map]. exact IH. }
  assert (E2 : forall l : list summary, flat_map (fun _ : summary => @nil osvc) l = []).
  { induction l; [reflexivity|assumption]. }
  assert (E3 : forall l, flat_map (fun c => [command_service e c]) l = map (command_service e) l).
  { induction l as [|c l IH]; [reflexivity|]. cbn [flat_map map app]. now rewrite IH. }
  rewrite E1, E2, E3, !app_nil_r. reflexivity.
Qed.

(* ---- includeEntity over any visiting order --------------------------------------------------- *)
Definition the_entity (e : entity) (fl : list bytes) : centity :=
  mkCEnt (snake_name e) (Some (keys_msg e)) (Some (state_msg e fl)) (Some (event_msg e)) None [].

(* the last message of [l] annotated with part [p] *)
Fixpoint last_part (p : N) (l : list omsg) : option omsg :=
  match l with
  | [] => None
  | m :: r => match last_part p r with
              | Some x => Some x
              | None => match m_psm m with Some (_, q) => if q =? p then Some m else None | None => None end
              end
  end.
Definition annotated (l : list omsg) : bool := existsb (fun m => match m_psm m with Some _ => true | None => false end) l.

Definition good_parts (en : bytes) (l : list omsg) : Prop :=
  forall m a q, In m l -> m_psm m = Some (a, q) -> a = en /\ (q = 1 \/ q = 2 \/ q = 3 \/ q = 4).

Lemma last_part_app : forall p a b,
  last_part p (a ++ b) = match last_part p b with Some x => Some x | None => last_part p a end.
Proof.
  induction a as [|m a IH]; intros b; cbn [app last_part].
  - destruct (last_part p b); reflexivity.
  - rewrite IH. destruct (last_part p b); reflexivity.
Qed.

Lemma not_annotated_last : forall p l, annotated l = false -> last_part p l = None.
Proof.
  induction l as [|m l IH]; intros H; [reflexivity|]. unfold annotated in H. cbn [existsb] in H.
  apply orb_false_iff in H. destruct H as [Hm Hl]. cbn [last_part]. rewrite (IH Hl).
  destruct (m_psm m); [discriminate|reflexivity].
Qed.

Lemma include_all_single : forall en l, good_parts en l ->
  include_all m_psm l =
    Some (if annotated l then [mkCEnt en (last_part 1 l) (last_part 2 l) (last_part 3 l) None []] else []).
Proof.
  intros en l. induction l as [|m l IH] using rev_ind; intros Hg; [reflexivity|].
  unfold include_all in *. rewrite fold_left_app. cbn [fold_left].
  rewrite IH by (intros x a q Hx; apply Hg; apply in_or_app; now left).
  unfold include_with. unfold annotated. rewrite existsb_app. cbn [existsb]. rewrite orb_false_r.
  fold (annotated l). rewrite !last_part_app. cbn [last_part].
  destruct (m_psm m) as [[a q]|] eqn:Em.
  - assert (Hin : In m (l ++ [m])) by (apply in_or_app; right; now left).
    destruct (Hg m a q Hin Em) as [-> Hq].
    rewrite orb_true_r. destruct (annotated l) eqn:Ea.
    + cbn [upsert cn_name]. rewrite bytes_eqb_refl. unfold set_part.
      cbn [cn_name cn_keys cn_state cn_event cn_query cn_commands].
      destruct Hq as [->|[->|[->| ->]]]; reflexivity.
    + rewrite !(not_annotated_last _ l Ea). cbn [upsert]. unfold set_part, empty_entity.
      cbn [cn_name cn_keys cn_state cn_event cn_query cn_commands].
      destruct Hq as [->|[->|[->| ->]]]; reflexivity.
  - rewrite orb_false_r. reflexivity.
Qed.

(* ---- permutations of the visited objects -------------------------------------------------------- *)
Definition has_part (p : N) (m : omsg) : bool :=
  match m_psm m with Some (_, q) => q =? p | None => false end.

Fixpoint last_opt {A} (l : list A) : option A :=
  match l with [] => None | x :: r => match last_opt r with Some y => Some y | None => Some x end end.

Lemma last_part_filter : forall p l, last_part p l = last_opt (filter (has_part p) l).
Proof.
  induction l as [|m l IH]; [reflexivity|]. cbn [last_part filter]. rewrite IH. unfold has_part at 2.
  destruct (m_psm m) as [[a q]|]; [|destruct (last_opt (filter (has_part p) l)); reflexivity].
  destruct (q =? p); [cbn [last_opt]|]; destruct (last_opt (filter (has_part p) l)); reflexivity.
Qed.

Lemma Permutation_filter' : forall {A} (f : A -> bool) l l',
  Permutation l l' -> Permutation (filter f l) (filter f l').
Proof.
  intros A f l l' H. induction H as [|x l l' H IH|x y l|l l' l'' H1 IH1 H2 IH2].
  - constructor.
  - cbn [filter]. destruct (f x); [now constructor|assumption].
  - cbn [filter]. destruct (f x), (f y); try apply Permutation_refl. apply perm_swap.
  - eapply Permutation_trans; eassumption.
Qed.

Lemma last_part_perm : forall p l l', Permutation l l' ->
  (length (filter (has_part p) l) <= 1)%nat -> last_part p l' = last_part p l.
Proof.
  intros p l l' HP Hlen. rewrite !last_part_filter.
  pose proof (Permutation_filter' (has_part p) l l' HP) as HF.
  destruct (filter (has_part p) l) as [|x [|y r]] eqn:E.
  - apply Permutation_nil in HF. now rewrite HF.
  - apply Permutation_length_1_inv in HF. now rewrite HF.
  - cbn in Hlen. lia.
Qed.

Lemma annotated_perm : forall l l', Permutation l l' -> annotated l' = annotated l.
Proof.
  intros l l' H. unfold annotated.
  destruct (existsb _ l) eqn:E1, (existsb _ l') eqn:E2; try reflexivity.
  - apply existsb_exists in E1. destruct E1 as [x [Hx Hp]].
    assert (E : existsb (fun m => match m_psm m with Some _ => true | None => false end) l' = true).
    { apply existsb_exists. exists x. split; [eapply Permutation_in; eassumption|assumption]. }
    congruence.
  - apply existsb_exists in E2. destruct E2 as [x [Hx Hp]].
    assert (E : existsb (fun m => match m_psm m with Some _ => true | None => false end) l = true).
    { apply existsb_exists. exists x. split; [eapply Permutation_in; [apply Permutation_sym|]; eassumption|assumption]. }
    congruence.
Qed.

(* ---- the expansion has exactly one KEYS, one STATE, one EVENT object ---------------------------- *)
Lemma filter_schemas_nil : forall p l, filter (has_part p) (map schema_msg l) = [].
Proof. intros p l. induction l as [|sc l IH]; [reflexivity|]. cbn [map filter]. exact IH. Qed.

Lemma good_parts_expand : forall e fl, good_parts (snake_name e) (main_messages (expand_with e fl)).
Proof.
  intros e fl m a q Hin Hm. rewrite main_messages_expand in Hin.
  apply in_app_or in Hin. destruct Hin as [Hin|Hin].
  - cbn [In] in Hin. destruct Hin as [<-|[<-|[<-|[<-|[<-|[]]]]]]; cbn in Hm; inversion Hm; subst;
      split; auto.
  - apply in_map_iff in Hin. destruct Hin as [sc [<- _]]. discriminate.
Qed.

Theorem include_any_order : forall e fl objs,
  Permutation (main_messages (expand_with e fl)) objs ->
  include_all m_psm objs = Some [the_entity e fl].
Proof.
  intros e fl objs HP.
  assert (Hg : good_parts (snake_name e) objs).
  { intros m a q Hin Hm. apply (good_parts_expand e fl m a q); [|assumption].
    eapply Permutation_in; [apply Permutation_sym|]; eassumption. }
  rewrite (include_all_single _ _ Hg), (annotated_perm _ _ HP).
  assert (Hone : forall p, (length (filter (has_part p) (main_messages (expand_with e fl))) <= 1)%nat).
  { intros p. rewrite main_messages_expand, filter_app, filter_schemas_nil, app_nil_r.
    cbn [filter has_part keys_msg data_msg state_msg event_type_msg event_msg m_psm].
    unfold part_keys, part_data, part_state, part_event.
    destruct (1 =? p) eqn:E1, (4 =? p) eqn:E4, (2 =? p) eqn:E2, (3 =? p) eqn:E3; cbn; try lia;
      apply N.eqb_eq in E1 || apply N.eqb_eq in E4 || idtac;
      try (apply N.eqb_eq in E2); try (apply N.eqb_eq in E3); try (apply N.eqb_eq in E4); lia. }
  rewrite !(last_part_perm _ _ _ HP (Hone _)).
  rewrite main_messages_expand.
  assert (Hs : forall p, last_part p (map schema_msg (e_schemas e)) = None).
  { intros p. rewrite last_part_filter, filter_schemas_nil. reflexivity. }
  rewrite !last_part_app, !Hs. unfold annotated. rewrite existsb_app. reflexivity.
Qed.

(* ---- the service loop ------------------------------------------------------------------------- *)
Lemma attach_commands : forall e cmds c,
  cn_name c = snake_name e ->
  fold_left attach (map (command_service e) cmds) (Some [c]) =
    Some [mkCEnt (cn_name c) (cn_keys c) (cn_state c) (cn_event c) (cn_query c)
                 (cn_commands c ++ map (command_service e) cmds)].
Proof.
  intros e cmds. induction cmds as [|cmd l IH]; intros c Hc.
  - cbn. rewrite app_nil_r. destruct c; reflexivity.
  - cbn [map fold_left]. unfold attach at 2. cbn [sv_ann command_service existsb].
    rewrite Hc, bytes_eqb_refl. cbn [orb upsert]. rewrite Hc, bytes_eqb_refl.
    rewrite IH by reflexivity. cbn [cn_name cn_keys cn_state cn_event cn_query cn_commands].
    rewrite <- app_assoc. reflexivity.
Qed.

Lemma bytes_eqb_app_head : forall c a b, bytes_eqb (c ++ a) (c ++ b) = bytes_eqb a b.
Proof. induction c as [|x c IH]; intros a b; [reflexivity|]. cbn. now rewrite N.eqb_refl, IH. Qed.

Lemma primary_json : forall ks,
  map f_json (filter f_primary (map (fun k => of_ufield (k_def k)) ks))
  = map uf_name (filter is_primary (map k_def ks)).
Proof.
  induction ks as [|[[n [pt k|nm|p f t] r o] s] ks IH]; [reflexivity| | |]; cbn [map filter k_def].
  - exact IH.
  - exact IH.
  - cbn [of_ufield uf_kind f_primary is_primary uf_name]. destruct p; cbn [map f_json]; [f_equal|]; exact IH.
Qed.

Lemma command_methods_names : forall e c,
  map mt_name (sv_methods (command_service e c)) = map md_name (c_methods c).
Proof. intros e c. cbn [command_service sv_methods]. rewrite !map_map. apply map_ext. reflexivity. Qed.

(* THE grouping theorem: whatever order the package's objects are visited in, the client API
   shows exactly one state entity, with the declared name, State schema, primary keys in
   declaration order, one event per declared event, the query service with Get/List/Events and
   the declared command services in order *)
Theorem client_groups_any_order : forall e fl objs,
  Permutation (main_messages (expand_with e fl)) objs ->
  client_of_ordered msg_entity (e_pkg e) (expand_with e fl) objs = Some [grouping_view e].
Proof.
  intros e fl objs HP. unfold client_of_ordered.
  change (msg_entity (main_messages (expand_with e fl))) with m_psm.
  rewrite (include_any_order e fl objs HP). cbn [forallb the_entity complete cn_keys cn_state cn_event andb].
  rewrite services_of_expand. cbn [fold_left]. unfold attach at 2.
  cbn [sv_ann query_service existsb cn_name the_entity]. rewrite bytes_eqb_refl. cbn [orb upsert cn_name].
  rewrite bytes_eqb_refl. unfold the_entity. cbn [cn_query cn_name cn_keys cn_state cn_event cn_commands].
  rewrite attach_commands by reflexivity.
  cbn [map all_some cn_name cn_keys cn_state cn_event cn_query cn_commands app].
  unfold to_grouping. cbn [cn_keys cn_state cn_event cn_name cn_query cn_commands].
  (* the "event" property of the Event schema is the oneof *)
  assert (Ef : find (fun f => bytes_eqb (f_json f) (bs "event")) (m_fields (event_msg e))
               = Some (mkF (bs "event") (TOneof [] (component_name e (bs "EventType"))) false true false false None (Some []))).
  { reflexivity. }
  rewrite Ef. cbn [f_type mkF].
  (* ... and names the EventType message, which no earlier message shares its name with *)
  assert (Em : find_msg (main_messages (expand_with e fl)) (component_name e (bs "EventType"))
               = Some (event_type_msg e)).
  { rewrite main_messages_expand. unfold find_msg, component_name.
    cbn [app find keys_msg data_msg state_msg event_type_msg m_name component_name event_type_name].
    unfold component_name. rewrite !bytes_eqb_app_head.
    change (bytes_eqb (to_camel (bs "Keys")) (to_camel (bs "EventType"))) with false.
    change (bytes_eqb (to_camel (bs "Data")) (to_camel (bs "EventType"))) with false.
    change (bytes_eqb (to_camel (bs "State")) (to_camel (bs "EventType"))) with false.
    rewrite bytes_eqb_refl. reflexivity. }
  rewrite Em. cbn [all_some]. f_equal. f_equal. unfold grouping_view.
  cbn [keys_msg event_type_msg state_msg m_fields m_name sv_name sv_methods query_service].
  f_equal.
  - apply primary_json.
  - now rewrite map_map.
  - now rewrite <- app_assoc.
  - rewrite map_map. apply map_ext. intros c. f_equal. apply command_methods_names.
Qed.

Corollary client_groups : forall e fl, client_of (e_pkg e) (expand_with e fl) = Some [grouping_view e].
Proof. intros e fl. apply client_groups_any_order. apply Permutation_refl. Qed.

(* the defect repaired by fix 2072988: with the pre-fix inference of findPSMOptions an object
   that embeds the keys becomes a second KEYS candidate and, for some visiting orders, replaces
   the entity's keys schema: the reported primary key differs from the declared one *)
Definition hijack_sample : entity :=
  mkE (bs "foo.v1") (bs "Foo") []
      [mkK (mkU (bs "fooId") (KKey true None None) false false) false]
      [mkU (bs "snap") (KObject (bs "Snapshot")) false false]
      [bs "ACTIVE"] [mkEv (bs "Create") []] [] [] None
      [(bs "Snapshot", [mkU (bs "keys") (KObject (bs "FooKeys")) false false])].

Theorem legacy_inference_refuted :
  let cs := expand_with hijack_sample [] in
  exists o1 o2,
    Permutation (main_messages cs) o1 /\ Permutation (main_messages cs) o2
    /\ client_of_ordered legacy_msg_entity (e_pkg hijack_sample) cs o1 = Some [grouping_view hijack_sample]
    /\ (exists g, client_of_ordered legacy_msg_entity (e_pkg hijack_sample) cs o2 = Some [g]
                  /\ g_primary_key g = [] /\ g_primary_key (grouping_view hijack_sample) = [bs "fooId"]).
Proof.
  cbv zeta. exists (rev (main_messages (expand_with hijack_sample []))), (main_messages (expand_with hijack_sample [])).
  split; [apply Permutation_rev|]. split; [apply Permutation_refl|].
  split; [vm_compute; reflexivity|]. eexists. split; [vm_compute; reflexivity|]. split; reflexivity.
Qed.

(* EntityClientProofs.v — the client API groups the expansion of an entity into exactly the
   StateEntity the declaration promises, whatever order the objects are visited in. *)
From Coq Require Import String List NArith Bool Lia Permutation.
From J5V.lib Require Import Outcome Strcase.
From J5V.model Require Import Entity EntityClient.
From J5V.proofs Require Import StrcaseProofs EntityProofs.
Import ListNotations.
Local Open Scope bool_scope.
Local Open Scope N_scope.

(* ---- what the expansion contains ------------------------------------------------------------ *)
Lemma main_messages_eq : forall cs, main_messages cs = msgs_of_file 0 cs.
Proof.
  intros cs. unfold main_messages, msgs_of_file. apply flat_map_ext'. intros [f m|n vs|f s]; try reflexivity.
  destruct f as [|p]; reflexivity.
Qed.

Lemma main_messages_expand : forall e fl,
  main_messages (expand_with e fl) =
    [keys_msg e; data_msg e; state_msg e fl; event_type_msg e; event_msg e] ++ flat_map schema_msgs (e_schemas e).
Proof. intros. rewrite main_messages_eq. apply main_file_messages. Qed.

Lemma services_of_app : forall a b, services_of (a ++ b) = services_of a ++ services_of b.
Proof. intros. apply flat_map_app. Qed.

Definition query_service (e : entity) : osvc :=
  mkSvc ((query_prefix e ++ bs "Query") ++ bs "Service") (SQuery (snake_name e))
        (map snd
           (let n := query_prefix e in
            let base := [47] ++ base_url e ++ bs "/q" in
            let events_in_get := match e_query e with Some q => q_events_in_get q | None => false end in
            [ method_components base (n ++ bs "Get") 1 (join [47] (key_path (get_keys e)))
                (map of_ufield (get_keys e))
                (Some (mkF (to_lower_camel (snake_name e)) (local_obj e "State") false true false false None None
                       :: (if events_in_get then [array_field (bs "events") (local_obj e "Event") false] else []))) 1;
              method_components base (n ++ bs "List") 1 (join [47] (key_path (list_keys e)))
                (map of_ufield (list_keys e) ++ [page_request; query_request])
                (Some [array_field (to_lower_camel (snake_name e)) (local_obj e "State") true; page_response]) 2;
              method_components base (n ++ bs "Events") 1 (join [47] (key_path (get_keys e) ++ [bs "events"]))
                (map of_ufield (get_keys e) ++ [page_request; query_request])
                (Some [array_field (bs "events") (local_obj e "Event") false; page_response]) 3 ])).

Definition command_service (e : entity) (c : command) : osvc :=
  mkSvc (command_service_name e c ++ bs "Service") (SCommand (snake_name e))
        (map snd (map (fun m => method_components (command_base e c) (md_name m) (md_verb m) (md_path m)
                                  (map of_ufield (md_request m)) (option_map (map of_ufield) (md_response m)) 0)
                      (c_methods c))).

Lemma services_of_methods : forall (ms : list (list component * omethod)),
  (forall m, In m ms -> services_of (fst m) = []) -> services_of (flat_map fst ms) = [].
Proof.
  induction ms as [|m ms IH]; intros H; [reflexivity|]. cbn [flat_map].
  rewrite services_of_app, (H m (or_introl eq_refl)), IH; [reflexivity|]. intros x Hx. apply H. now right.
Qed.

Lemma services_of_query : forall e, services_of (query_components e) = [query_service e].
Proof.
  intros e. unfold query_components, service_components. rewrite services_of_app.
  rewrite services_of_methods; [reflexivity|]. intros m [<-|[<-|[<-|[]]]]; reflexivity.
Qed.

Lemma services_of_command : forall e c, services_of (command_components e c) = [command_service e c].
Proof.
  intros e c. unfold command_components, service_components. rewrite services_of_app.
  rewrite services_of_methods; [reflexivity|]. intros m Hm. apply in_map_iff in Hm. destruct Hm as [md [<- _]].
  unfold method_components. cbn [fst]. destruct (option_map _ (md_response md)); reflexivity.
Qed.

Lemma services_of_flat_map : forall {A} (g : A -> list component) (h : A -> list osvc) l,
  (forall x, services_of (g x) = h x) -> services_of (flat_map g l) = flat_map h l.
Proof.
  intros A g h l H. induction l as [|x l IH]; [reflexivity|]. cbn [flat_map].
  now rewrite services_of_app, H, IH.
Qed.

Lemma services_of_expand : forall e fl,
  services_of (expand_with e fl) = query_service e :: map (command_service e) (e_commands e).
Proof.
  intros e fl. unfold expand_with. rewrite !services_of_app, services_of_query.
  rewrite (services_of_flat_map _ (fun c => [command_service e c]) _ (services_of_command e)).
  rewrite (services_of_flat_map _ (fun _ => []) _ (fun s => eq_refl : services_of (summary_components e s) = [])).
  assert (E1 : services_of (map schema_component (e_schemas e)) = []).
  { induction (e_schemas e) as [|sc l IH]; [reflexivity|]. cbn [map].
    change (schema_component sc :: map schema_component l) with ([schema_component sc] ++ map schema_component l).
    rewrite services_of_app, IH. destruct sc; reflexivity. }
  assert (E2 : forall l : list summary, flat_map (fun _ : summary => @nil osvc) l = []).
  { induction l; [reflexivity|assumption]. }
  assert (E3 : forall l, flat_map (fun c => [command_service e c]) l = map (command_service e) l).
  { induction l as [|c l IH]; [reflexivity|]. cbn [flat_map map app]. now rewrite IH. }
  rewrite E1, E2, E3, !app_nil_r. reflexivity.
Qed.

(* ---- includeEntity over any visiting order --------------------------------------------------- *)
Definition the_entity (e : entity) (fl : list bytes) : centity :=
  mkCEnt (snake_name e) (Some (keys_msg e)) (Some (state_msg e fl)) (Some (event_msg e)) None [].

(* the last message of [l] annotated with part [p] *)
Fixpoint last_part (p : N) (l : list omsg) : option omsg :=
  match l with
  | [] => None
  | m :: r => match last_part p r with
              | Some x => Some x
              | None => match m_psm m with Some (_, q) => if q =? p then Some m else None | None => None end
              end
  end.
Definition annotated (l : list omsg) : bool := existsb (fun m => match m_psm m with Some _ => true | None => false end) l.

Definition good_parts (en : bytes) (l : list omsg) : Prop :=
  forall m a q, In m l -> m_psm m = Some (a, q) -> a = en /\ (q = 1 \/ q = 2 \/ q = 3 \/ q = 4).

Lemma last_part_app : forall p a b,
  last_part p (a ++ b) = match last_part p b with Some x => Some x | None => last_part p a end.
Proof.
  induction a as [|m a IH]; intros b; cbn [app last_part].
  - destruct (last_part p b); reflexivity.
  - rewrite IH. destruct (last_part p b); reflexivity.
Qed.

Lemma not_annotated_last : forall p l, annotated l = false -> last_part p l = None.
Proof.
  induction l as [|m l IH]; intros H; [reflexivity|]. unfold annotated in H. cbn [existsb] in H.
  apply orb_false_iff in H. destruct H as [Hm Hl]. cbn [last_part]. rewrite (IH Hl).
  destruct (m_psm m); [discriminate|reflexivity].
Qed.

Lemma include_all_single : forall en l, good_parts en l ->
  include_all m_psm l =
    Some (if annotated l then [mkCEnt en (last_part 1 l) (last_part 2 l) (last_part 3 l) None []] else []).
Proof.
  intros en l. induction l as [|m l IH] using rev_ind; intros Hg; [reflexivity|].
  unfold include_all in *. rewrite fold_left_app. cbn [fold_left].
  rewrite IH by (intros x a q Hx; apply Hg; apply in_or_app; now left).
  unfold include_with. unfold annotated. rewrite existsb_app. cbn [existsb]. rewrite orb_false_r.
  fold (annotated l). rewrite !last_part_app. cbn [last_part].
  destruct (m_psm m) as [[a q]|] eqn:Em.
  - assert (Hin : In m (l ++ [m])) by (apply in_or_app; right; now left).
    destruct (Hg m a q Hin Em) as [-> Hq].
    rewrite orb_true_r. destruct (annotated l) eqn:Ea.
    + cbn [upsert cn_name]. rewrite bytes_eqb_refl. unfold set_part.
      cbn [cn_name cn_keys cn_state cn_event cn_query cn_commands].
      destruct Hq as [->|[->|[->| ->]]]; reflexivity.
    + rewrite !(not_annotated_last _ l Ea). cbn [upsert]. unfold set_part, empty_entity.
      cbn [cn_name cn_keys cn_state cn_event cn_query cn_commands].
      destruct Hq as [->|[->|[->| ->]]]; reflexivity.
  - rewrite orb_false_r. reflexivity.
Qed.

(* ---- permutations of the visited objects -------------------------------------------------------- *)
Definition has_part (p : N) (m : omsg) : bool :=
  match m_psm m with Some (_, q) => q =? p | None => false end.

Fixpoint last_opt {A} (l : list A) : option A :=
  match l with [] => None | x :: r => match last_opt r with Some y => Some y | None => Some x end end.

Lemma last_part_filter : forall p l, last_part p l = last_opt (filter (has_part p) l).
Proof.
  induction l as [|m l IH]; [reflexivity|]. cbn [last_part filter]. rewrite IH. unfold has_part at 2.
  destruct (m_psm m) as [[a q]|]; [|destruct (last_opt (filter (has_part p) l)); reflexivity].
  destruct (q =? p); [cbn [last_opt]|]; destruct (last_opt (filter (has_part p) l)); reflexivity.
Qed.

Lemma Permutation_filter' : forall {A} (f : A -> bool) l l',
  Permutation l l' -> Permutation (filter f l) (filter f l').
Proof.
  intros A f l l' H. induction H as [|x l l' H IH|x y l|l l' l'' H1 IH1 H2 IH2].
  - constructor.
  - cbn [filter]. destruct (f x); [now constructor|assumption].
  - cbn [filter]. destruct (f x), (f y); try apply Permutation_refl. apply perm_swap.
  - eapply Permutation_trans; eassumption.
Qed.

Lemma last_part_perm : forall p l l', Permutation l l' ->
  (length (filter (has_part p) l) <= 1)%nat -> last_part p l' = last_part p l.
Proof.
  intros p l l' HP Hlen. rewrite !last_part_filter.
  pose proof (Permutation_filter' (has_part p) l l' HP) as HF.
  destruct (filter (has_part p) l) as [|x [|y r]] eqn:E.
  - apply Permutation_nil in HF. now rewrite HF.
  - apply Permutation_length_1_inv in HF. now rewrite HF.
  - cbn in Hlen. lia.
Qed.

Lemma annotated_perm : forall l l', Permutation l l' -> annotated l' = annotated l.
Proof.
  intros l l' H. unfold annotated.
  destruct (existsb _ l) eqn:E1, (existsb _ l') eqn:E2; try reflexivity.
  - apply existsb_exists in E1. destruct E1 as [x [Hx Hp]].
    assert (E : existsb (fun m => match m_psm m with Some _ => true | None => false end) l' = true).
    { apply existsb_exists. exists x. split; [eapply Permutation_in; eassumption|assumption]. }
    congruence.
  - apply existsb_exists in E2. destruct E2 as [x [Hx Hp]].
    assert (E : existsb (fun m => match m_psm m with Some _ => true | None => false end) l = true).
    { apply existsb_exists. exists x. split; [eapply Permutation_in; [apply Permutation_sym|]; eassumption|assumption]. }
    congruence.
Qed.

(* ---- the expansion has exactly one KEYS, one STATE, one EVENT object ---------------------------- *)
Lemma filter_schemas_nil : forall p l, filter (has_part p) (flat_map schema_msgs l) = [].
Proof.
  intros p l. induction l as [|sc l IH]; [reflexivity|]. cbn [flat_map]. rewrite filter_app, IH.
  destruct sc; reflexivity.
Qed.

Lemma schema_msgs_unannotated : forall l m, In m (flat_map schema_msgs l) -> m_psm m = None.
Proof.
  intros l m H. apply in_flat_map in H. destruct H as [sc [_ H]].
  destruct sc as [n fs|n fs|n os]; cbn in H; [destruct H as [<-|[]]|destruct H as [<-|[]]|destruct H]; reflexivity.
Qed.

Lemma good_parts_expand : forall e fl, good_parts (snake_name e) (main_messages (expand_with e fl)).
Proof.
  intros e fl m a q Hin Hm. rewrite main_messages_expand in Hin.
  apply in_app_or in Hin. destruct Hin as [Hin|Hin].
  - cbn [In] in Hin. destruct Hin as [<-|[<-|[<-|[<-|[<-|[]]]]]]; cbn in Hm; inversion Hm; subst;
      split; auto.
  - rewrite (schema_msgs_unannotated _ _ Hin) in Hm. discriminate.
Qed.

Theorem include_any_order : forall e fl objs,
  Permutation (main_messages (expand_with e fl)) objs ->
  include_all m_psm objs = Some [the_entity e fl].
Proof.
  intros e fl objs HP.
  assert (Hg : good_parts (snake_name e) objs).
  { intros m a q Hin Hm. apply (good_parts_expand e fl m a q); [|assumption].
    eapply Permutation_in; [apply Permutation_sym|]; eassumption. }
  rewrite (include_all_single _ _ Hg), (annotated_perm _ _ HP).
  assert (Hone : forall p, (length (filter (has_part p) (main_messages (expand_with e fl))) <= 1)%nat).
  { intros p. rewrite main_messages_expand, filter_app, filter_schemas_nil, app_nil_r.
    cbn [filter has_part keys_msg data_msg state_msg event_type_msg event_msg m_psm].
    unfold part_keys, part_data, part_state, part_event.
    destruct (1 =? p) eqn:E1, (4 =? p) eqn:E4, (2 =? p) eqn:E2, (3 =? p) eqn:E3; cbn; try lia;
      apply N.eqb_eq in E1 || apply N.eqb_eq in E4 || idtac;
      try (apply N.eqb_eq in E2); try (apply N.eqb_eq in E3); try (apply N.eqb_eq in E4); lia. }
  rewrite !(last_part_perm _ _ _ HP (Hone _)).
  rewrite main_messages_expand.
  assert (Hs : forall p, last_part p (flat_map schema_msgs (e_schemas e)) = None).
  { intros p. rewrite last_part_filter, filter_schemas_nil. reflexivity. }
  rewrite !last_part_app, !Hs. unfold annotated. rewrite existsb_app. reflexivity.
Qed.

(* ---- the service loop ------------------------------------------------------------------------- *)
Lemma attach_commands : forall e cmds c,
  cn_name c = snake_name e ->
  fold_left attach (map (command_service e) cmds) (Some [c]) =
    Some [mkCEnt (cn_name c) (cn_keys c) (cn_state c) (cn_event c) (cn_query c)
                 (cn_commands c ++ map (command_service e) cmds)].
Proof.
  intros e cmds. induction cmds as [|cmd l IH]; intros c Hc.
  - cbn. rewrite app_nil_r. destruct c; reflexivity.
  - cbn [map fold_left]. unfold attach at 2. cbn [sv_ann command_service existsb].
    rewrite Hc, bytes_eqb_refl. cbn [orb upsert]. rewrite Hc, bytes_eqb_refl.
    rewrite IH by reflexivity. cbn [cn_name cn_keys cn_state cn_event cn_query cn_commands].
    rewrite <- app_assoc. reflexivity.
Qed.

Lemma bytes_eqb_app_head : forall c a b, bytes_eqb (c ++ a) (c ++ b) = bytes_eqb a b.
Proof. induction c as [|x c IH]; intros a b; [reflexivity|]. cbn. now rewrite N.eqb_refl, IH. Qed.

Lemma primary_json : forall ks,
  map f_json (filter f_primary (map (fun k => of_ufield (k_def k)) ks))
  = map uf_name (filter is_primary (map k_def ks)).
Proof.
  induction ks as [|[[n [pt k|nm|nm|nm|p f t|tn k|i|i|fs|fs|os|tk tfs] r o] s] ks IH]; [reflexivity| | | | | | | | | | | |]; cbn [map filter k_def];
    try exact IH.
  cbn [of_ufield uf_kind f_primary is_primary uf_name]. destruct p; cbn [map f_json]; [f_equal|]; exact IH.
Qed.

Lemma command_methods_names : forall e c,
  map mt_name (sv_methods (command_service e c)) = map md_name (c_methods c).
Proof. intros e c. cbn [command_service sv_methods]. rewrite !map_map. apply map_ext. reflexivity. Qed.

(* THE grouping theorem: whatever order the package's objects are visited in, the client API
   shows exactly one state entity, with the declared name, State schema, primary keys in
   declaration order, one event per declared event, the query service with Get/List/Events and
   the declared command services in order *)
Theorem client_groups_any_order : forall e fl objs,
  Permutation (main_messages (expand_with e fl)) objs ->
  client_of_ordered msg_entity (e_pkg e) (expand_with e fl) objs = Some [grouping_view e].
Proof.
  intros e fl objs HP. unfold client_of_ordered.
  change (msg_entity (main_messages (expand_with e fl))) with m_psm.
  rewrite (include_any_order e fl objs HP). cbn [forallb the_entity complete cn_keys cn_state cn_event andb].
  rewrite services_of_expand. cbn [fold_left]. unfold attach at 2.
  cbn [sv_ann query_service existsb cn_name the_entity]. rewrite bytes_eqb_refl. cbn [orb upsert cn_name].
  rewrite bytes_eqb_refl. unfold the_entity. cbn [cn_query cn_name cn_keys cn_state cn_event cn_commands].
  rewrite attach_commands by reflexivity.
  cbn [map all_some cn_name cn_keys cn_state cn_event cn_query cn_commands app].
  unfold to_grouping. cbn [cn_keys cn_state cn_event cn_name cn_query cn_commands].
  (* the "event" property of the Event schema is the oneof *)
  assert (Ef : find (fun f => bytes_eqb (f_json f) (bs "event")) (m_fields (event_msg e))
               = Some (mkF (bs "event") (TOneof [] (component_name e (bs "EventType"))) false true false false None (Some []))).
  { reflexivity. }
  rewrite Ef. cbn [f_type mkF].
  (* ... and names the EventType message, which no earlier message shares its name with *)
  assert (Em : find_msg (main_messages (expand_with e fl)) (component_name e (bs "EventType"))
               = Some (event_type_msg e)).
  { rewrite main_messages_expand. unfold find_msg, component_name.
    cbn [app find keys_msg data_msg state_msg event_type_msg m_name component_name event_type_name].
    unfold component_name. rewrite !bytes_eqb_app_head.
    change (bytes_eqb (to_camel (bs "Keys")) (to_camel (bs "EventType"))) with false.
    change (bytes_eqb (to_camel (bs "Data")) (to_camel (bs "EventType"))) with false.
    change (bytes_eqb (to_camel (bs "State")) (to_camel (bs "EventType"))) with false.
    rewrite bytes_eqb_refl. reflexivity. }
  rewrite Em. cbn [all_some]. f_equal. f_equal. unfold grouping_view.
  cbn [keys_msg event_type_msg state_msg m_fields m_name sv_name sv_methods query_service].
  f_equal.
  - apply primary_json.
  - now rewrite map_map.
  - now rewrite <- app_assoc.
  - rewrite map_map. apply map_ext. intros c. f_equal. apply command_methods_names.
Qed.

Corollary client_groups : forall e fl, client_of (e_pkg e) (expand_with e fl) = Some [grouping_view e].
Proof. intros e fl. apply client_groups_any_order. apply Permutation_refl. Qed.

(* the defect repaired by fix 2072988: with the pre-fix inference of findPSMOptions an object
   that embeds the keys becomes a second KEYS candidate and, for some visiting orders, replaces
   the entity's keys schema: the reported primary key differs from the declared one *)
Definition hijack_sample : entity :=
  mkE (bs "foo.v1") (bs "Foo") []
      [mkK (mkU (bs "fooId") (KKey true None None) false false) false]
      [mkU (bs "snap") (KObject (bs "Snapshot")) false false]
      [bs "ACTIVE"] [mkEv (bs "Create") []] [] [] None
      [SObject (bs "Snapshot") [mkU (bs "keys") (KObject (bs "FooKeys")) false false]].

Theorem legacy_inference_refuted :
  let cs := expand_with hijack_sample [] in
  exists o1 o2,
    Permutation (main_messages cs) o1 /\ Permutation (main_messages cs) o2
    /\ client_of_ordered legacy_msg_entity (e_pkg hijack_sample) cs o1 = Some [grouping_view hijack_sample]
    /\ (exists g, client_of_ordered legacy_msg_entity (e_pkg hijack_sample) cs o2 = Some [g]
                  /\ g_primary_key g = [] /\ g_primary_key (grouping_view hijack_sample) = [bs "fooId"]).
Proof.
  cbv zeta. exists (rev (main_messages (expand_with hijack_sample []))), (main_messages (expand_with hijack_sample [])).
  split; [apply Permutation_rev|]. split; [apply Permutation_refl|].
  split; [vm_compute; reflexivity|]. eexists. split; [vm_compute; reflexivity|]. split; reflexivity.
Qed.

(* ---- several entities in one package ----------------------------------------------------------- *)
Definition names (l : list centity) : list bytes := map cn_name l.

Lemma upsert_at : forall name f l1 c l2 c',
  ~ In name (names l1) -> cn_name c = name -> f c = Some c' ->
  upsert name f (l1 ++ c :: l2) = Some (l1 ++ c' :: l2).
Proof.
  intros name f l1. induction l1 as [|x l1 IH]; intros c l2 c' Hn Hc Hf.
  - cbn [app upsert]. rewrite Hc, bytes_eqb_refl, Hf. reflexivity.
  - cbn [app upsert]. destruct (bytes_eqb (cn_name x) name) eqn:E.
    + apply bytes_eqb_eq in E. exfalso. apply Hn. left. exact E.
    + rewrite (IH c l2 c'); [reflexivity| |assumption|assumption].
      intros H. apply Hn. now right.
Qed.

Lemma upsert_fresh : forall name f l c',
  ~ In name (names l) -> f (empty_entity name) = Some c' ->
  upsert name f l = Some (l ++ [c']).
Proof.
  intros name f l. induction l as [|x l IH]; intros c' Hn Hf.
  - cbn [upsert app]. now rewrite Hf.
  - cbn [app upsert]. destruct (bytes_eqb (cn_name x) name) eqn:E.
    + apply bytes_eqb_eq in E. exfalso. apply Hn. left. exact E.
    + rewrite (IH c'); [reflexivity| |assumption]. intros H. apply Hn. now right.
Qed.

Lemma fold_include_unannotated : forall l acc,
  (forall m, In m l -> m_psm m = None) ->
  fold_left (include_with m_psm) l (Some acc) = Some acc.
Proof.
  induction l as [|m l IH]; intros acc H; [reflexivity|]. cbn [fold_left include_with].
  rewrite (H m (or_introl eq_refl)). apply IH. intros x Hx. apply H. now right.
Qed.

(* the objects of one entity, visited after those of others, add exactly its entry *)
Lemma include_block : forall e fl acc,
  ~ In (snake_name e) (names acc) ->
  fold_left (include_with m_psm) (main_messages (expand_with e fl)) (Some acc)
  = Some (acc ++ [the_entity e fl]).
Proof.
  intros e fl acc Hn. rewrite main_messages_expand, fold_left_app. cbn [fold_left].
  set (c1 := mkCEnt (snake_name e) (Some (keys_msg e)) None None None []).
  set (c2 := mkCEnt (snake_name e) (Some (keys_msg e)) (Some (state_msg e fl)) None None []).
  assert (S1 : include_with m_psm (Some acc) (keys_msg e) = Some (acc ++ [c1])).
  { unfold include_with. cbn [keys_msg m_psm]. now apply upsert_fresh. }
  assert (S2 : include_with m_psm (Some (acc ++ [c1])) (data_msg e) = Some (acc ++ [c1])).
  { unfold include_with. cbn [data_msg m_psm]. now apply upsert_at. }
  assert (S3 : include_with m_psm (Some (acc ++ [c1])) (state_msg e fl) = Some (acc ++ [c2])).
  { unfold include_with. cbn [state_msg m_psm]. now apply upsert_at. }
  assert (S4 : include_with m_psm (Some (acc ++ [c2])) (event_type_msg e) = Some (acc ++ [c2])).
  { reflexivity. }
  assert (S5 : include_with m_psm (Some (acc ++ [c2])) (event_msg e) = Some (acc ++ [the_entity e fl])).
  { unfold include_with. cbn [event_msg m_psm]. now apply upsert_at. }
  rewrite S1, S2, S3, S4, S5.
  apply fold_include_unannotated. intros m Hm. now apply (schema_msgs_unannotated (e_schemas e)).
Qed.

Definition file_components (l : list (entity * list bytes)) : list component :=
  flat_map (fun p => expand_with (fst p) (snd p)) l.

Lemma main_messages_app : forall a b, main_messages (a ++ b) = main_messages a ++ main_messages b.
Proof. intros. apply flat_map_app. Qed.

Lemma include_file_acc : forall l acc,
  NoDup (map (fun p => snake_name (fst p)) l) ->
  (forall p, In p l -> ~ In (snake_name (fst p)) (names acc)) ->
  fold_left (include_with m_psm) (main_messages (file_components l)) (Some acc)
  = Some (acc ++ map (fun p => the_entity (fst p) (snd p)) l).
Proof.
  induction l as [|p l IH]; intros acc Hnd Hacc.
  - cbn. now rewrite app_nil_r.
  - cbn [file_components flat_map]. rewrite main_messages_app, fold_left_app.
    rewrite include_block by (apply Hacc; now left).
    fold (file_components l). inversion Hnd as [|? ? Hnin Hnd']; subst.
    rewrite IH; [cbn [map]; now rewrite <- app_assoc|assumption|].
    intros q Hq Hin. unfold names in Hin. rewrite map_app in Hin. apply in_app_or in Hin.
    destruct Hin as [Hin|Hin].
    + apply (Hacc q (or_intror Hq)). exact Hin.
    + cbn in Hin. destruct Hin as [Hin|[]]. apply Hnin. rewrite Hin.
      apply (in_map (fun p0 => snake_name (fst p0)) l q Hq).
Qed.

Definition full_entity (e : entity) (fl : list bytes) : centity :=
  mkCEnt (snake_name e) (Some (keys_msg e)) (Some (state_msg e fl)) (Some (event_msg e))
         (Some (query_service e)) (map (command_service e) (e_commands e)).

Lemma attach_commands_at : forall e cmds l1 c l2,
  ~ In (snake_name e) (names l1) -> cn_name c = snake_name e ->
  fold_left attach (map (command_service e) cmds) (Some (l1 ++ c :: l2)) =
    Some (l1 ++ mkCEnt (cn_name c) (cn_keys c) (cn_state c) (cn_event c) (cn_query c)
                       (cn_commands c ++ map (command_service e) cmds) :: l2).
Proof.
  intros e cmds. induction cmds as [|cmd l IH]; intros l1 c l2 Hn Hc.
  - cbn. rewrite app_nil_r. destruct c; reflexivity.
  - cbn [map fold_left]. unfold attach at 2. cbn [sv_ann command_service].
    assert (Hex : existsb (fun c0 => bytes_eqb (cn_name c0) (snake_name e)) (l1 ++ c :: l2) = true).
    { apply existsb_exists. exists c. split; [apply in_or_app; right; now left|]. rewrite Hc. apply bytes_eqb_refl. }
    rewrite Hex.
    erewrite upsert_at; [|exact Hn|exact Hc|reflexivity].
    rewrite IH by (assumption || reflexivity).
    cbn [cn_name cn_keys cn_state cn_event cn_query cn_commands]. rewrite <- app_assoc. reflexivity.
Qed.

Lemma attach_entity_block : forall e fl l1 l2,
  ~ In (snake_name e) (names l1) ->
  fold_left attach (query_service e :: map (command_service e) (e_commands e))
            (Some (l1 ++ the_entity e fl :: l2))
  = Some (l1 ++ full_entity e fl :: l2).
Proof.
  intros e fl l1 l2 Hn. cbn [fold_left]. unfold attach at 2. cbn [sv_ann query_service].
  assert (Hex : existsb (fun c0 => bytes_eqb (cn_name c0) (snake_name e)) (l1 ++ the_entity e fl :: l2) = true).
  { apply existsb_exists. exists (the_entity e fl). split; [apply in_or_app; right; now left|apply bytes_eqb_refl]. }
  rewrite Hex.
  erewrite upsert_at; [|exact Hn|reflexivity|reflexivity].
  rewrite attach_commands_at by (assumption || reflexivity). reflexivity.
Qed.

Lemma services_of_file : forall l,
  services_of (file_components l)
  = flat_map (fun p => query_service (fst p) :: map (command_service (fst p)) (e_commands (fst p))) l.
Proof.
  induction l as [|p l IH]; [reflexivity|]. cbn [file_components flat_map].
  rewrite services_of_app, services_of_expand. fold (file_components l). now rewrite IH.
Qed.

Lemma attach_file_acc : forall l done,
  NoDup (map (fun p => snake_name (fst p)) l) ->
  (forall p, In p l -> ~ In (snake_name (fst p)) (names done)) ->
  fold_left attach
    (flat_map (fun p => query_service (fst p) :: map (command_service (fst p)) (e_commands (fst p))) l)
    (Some (done ++ map (fun p => the_entity (fst p) (snd p)) l))
  = Some (done ++ map (fun p => full_entity (fst p) (snd p)) l).
Proof.
  induction l as [|p l IH]; intros done Hnd Hd; [reflexivity|].
  cbn [flat_map map]. rewrite fold_left_app.
  rewrite attach_entity_block by (apply Hd; now left).
  inversion Hnd as [|? ? Hnin Hnd']; subst.
  change (done ++ full_entity (fst p) (snd p) :: map (fun p0 => the_entity (fst p0) (snd p0)) l)
    with (done ++ [full_entity (fst p) (snd p)] ++ map (fun p0 => the_entity (fst p0) (snd p0)) l).
  rewrite app_assoc, IH; [now rewrite <- app_assoc|assumption|].
  intros q Hq Hin. unfold names in Hin. rewrite map_app in Hin. apply in_app_or in Hin.
  destruct Hin as [Hin|Hin].
  - apply (Hd q (or_intror Hq)). exact Hin.
  - cbn in Hin. destruct Hin as [Hin|[]]. apply Hnin. rewrite Hin.
    apply (in_map (fun p0 => snake_name (fst p0)) l q Hq).
Qed.

Lemma find_msg_nodup : forall ms m,
  NoDup (map m_name ms) -> In m ms -> find_msg ms (m_name m) = Some m.
Proof.
  induction ms as [|x ms IH]; intros m Hnd Hin; [destruct Hin|].
  inversion Hnd as [|? ? Hnin Hnd']; subst. unfold find_msg. cbn [find].
  destruct Hin as [->|Hin].
  - now rewrite bytes_eqb_refl.
  - destruct (bytes_eqb (m_name x) (m_name m)) eqn:E.
    + apply bytes_eqb_eq in E. exfalso. apply Hnin. rewrite E. now apply in_map.
    + now apply IH.
Qed.

Lemma to_grouping_full : forall ms e fl,
  find_msg ms (component_name e (bs "EventType")) = Some (event_type_msg e) ->
  to_grouping (e_pkg e) ms (full_entity e fl) = Some (grouping_view e).
Proof.
  intros ms e fl Hf. unfold to_grouping, full_entity.
  cbn [cn_keys cn_state cn_event cn_name cn_query cn_commands].
  assert (Ef : find (fun f => bytes_eqb (f_json f) (bs "event")) (m_fields (event_msg e))
               = Some (mkF (bs "event") (TOneof [] (component_name e (bs "EventType"))) false true false false None (Some []))).
  { reflexivity. }
  rewrite Ef. cbn [f_type mkF]. rewrite Hf. f_equal. unfold grouping_view.
  cbn [keys_msg event_type_msg state_msg m_fields m_name sv_name sv_methods query_service].
  f_equal.
  - apply primary_json.
  - now rewrite map_map.
  - now rewrite <- app_assoc.
  - rewrite map_map. apply map_ext. intros c. f_equal. apply command_methods_names.
Qed.

Lemma in_main_file : forall l p m,
  In p l -> In m (main_messages (expand_with (fst p) (snd p))) -> In m (main_messages (file_components l)).
Proof.
  induction l as [|q l IH]; intros p m Hp Hm; [destruct Hp|].
  cbn [file_components flat_map]. rewrite main_messages_app. apply in_or_app.
  destruct Hp as [->|Hp]; [now left|right]. fold (file_components l). now apply (IH p).
Qed.

Lemma all_some_map : forall {A B} (f : A -> option B) (g : A -> B) l,
  (forall x, In x l -> f x = Some (g x)) -> all_some (map f l) = Some (map g l).
Proof.
  intros A B f g l H. induction l as [|x l IH]; [reflexivity|]. cbn [map all_some].
  rewrite (H x (or_introl eq_refl)), IH; [reflexivity|]. intros y Hy. apply H. now right.
Qed.

(* several entities of one package: distinct entity names and no clash between the names of the
   generated (and user) messages; the client shows one state entity per declaration, in order *)
Theorem client_groups_file : forall pkg (l : list (entity * list bytes)),
  (forall p, In p l -> e_pkg (fst p) = pkg) ->
  NoDup (map (fun p => snake_name (fst p)) l) ->
  NoDup (map m_name (main_messages (file_components l))) ->
  client_of pkg (file_components l) = Some (map (fun p => grouping_view (fst p)) l).
Proof.
  intros pkg l Hpkg Hnd Hnames. unfold client_of, client_of_ordered.
  change (msg_entity (main_messages (file_components l))) with m_psm.
  unfold include_all.
  rewrite (include_file_acc l [] Hnd) by (intros p _ H; exact H). cbn [app].
  assert (Hc : forallb complete (map (fun p => the_entity (fst p) (snd p)) l) = true).
  { apply forallb_forall. intros c Hc. apply in_map_iff in Hc. destruct Hc as [p [<- _]]. reflexivity. }
  rewrite Hc, services_of_file.
  pose proof (attach_file_acc l [] Hnd (fun p _ H => H)) as Ha. cbn [app] in Ha. rewrite Ha.
  rewrite map_map.
  assert (Hg : forall p, In p l ->
            to_grouping pkg (main_messages (file_components l)) (full_entity (fst p) (snd p))
            = Some (grouping_view (fst p))).
  { intros p Hp. rewrite <- (Hpkg p Hp). apply to_grouping_full.
    change (component_name (fst p) (bs "EventType")) with (m_name (event_type_msg (fst p))).
    apply find_msg_nodup; [assumption|].
    apply (in_main_file l p); [assumption|]. rewrite main_messages_expand.
    apply in_or_app. left. cbn. auto. }
  apply all_some_map. exact Hg.
Qed.

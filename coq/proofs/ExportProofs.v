(* ExportProofs.v — lemmas behind props/C15.v.
   The export and import models copy exactly the members the Go composite literals name
   (gen/ReflectGen.v).  The inverse lemmas below evaluate those tables: if a copy line is missing
   on either side, the corresponding [xc ... = true] / [ic ... = true] obligation fails. *)
From Coq Require Import String List Arith NArith ZArith Bool Lia Permutation.
From J5V.lib Require Import Outcome.
From J5V.model Require Import ReflectDesc ReflectSchema Reflect Export ExportFields.
From J5V.gen Require ReflectGen.
From J5V.proofs Require Import ReflectProofs.
Import ListNotations.
Local Open Scope bool_scope.

(* evaluate every table lookup in the goal; fails if some member is not copied *)
Ltac copies_true :=
  repeat match goal with
         | |- context [xc ?a ?b ?c] =>
             let H := fresh "Hc" in
             assert (H : xc a b c = true) by (vm_compute; reflexivity); rewrite H; clear H
         | |- context [ic ?a ?b ?c] =>
             let H := fresh "Hc" in
             assert (H : ic a b c = true) by (vm_compute; reflexivity); rewrite H; clear H
         | |- context [assigns ?t ?a ?b] =>
             let H := fresh "Hc" in
             assert (H : assigns t a b = true) by (vm_compute; reflexivity); rewrite H; clear H
         end.

(* ---------------------------------------------------------------- the export keeps everything but Kind / WKT name *)
(* the plain embedding of the reader's objects into the source-API form: no table look-up *)
Fixpoint form_of_field (f : fschema) : xfield :=
  match f with
  | FScalar _ p => XScalar p
  | FAny od ts lr => XAny od ts lr
  | FEnum r rules lr ext => XEnum (XRef r) rules lr ext
  | FObject r fl rules ext => XObject (XRef r) fl rules ext
  | FOneof r rules lr ext => XOneof (XRef r) rules lr ext
  | FMap it r e => XMap (form_of_field it) r e
  | FArray it r e => XArray (form_of_field it) r e
  end.
Definition form_of_prop (p : prop) : xprop :=
  match p with Prop_ j path rq eo d s => XProp j path rq eo d (form_of_field s) end.
Definition form_of_option (o : enumoption) : xoption :=
  match o with EnumOption n num d info => XOption n num d info end.
Definition form_of_root (r : root) : xroot :=
  match r with
  | RObject n d e a ps => XObjectR n d e a (map form_of_prop ps)
  | ROneof n d ps => XOneofR n d (map form_of_prop ps)
  | REnum n d p o i => XEnumR n d p (map form_of_option o) i
  end.

Lemma export_field_form f : export_field f = form_of_field f.
Proof.
  induction f as [kw p|od ts lr|r rules lr ext|r fl rules ext|r rules lr ext|it IH rules ext|it IH rules ext];
    cbn [export_field form_of_field]; copies_true; cbn [keep keepl keepb]; try reflexivity;
    try (destruct od; reflexivity); try (destruct fl; reflexivity); rewrite IH; reflexivity.
Qed.

Lemma export_prop_form p : export_prop p = form_of_prop p.
Proof.
  destruct p as [j path rq eo d s]. cbn [export_prop form_of_prop]. copies_true.
  cbn [keeps keepl keepb]. rewrite export_field_form. destruct rq, eo; reflexivity.
Qed.

Lemma export_option_form o : export_option o = form_of_option o.
Proof. destruct o as [name num d info]. cbn [export_option form_of_option]. copies_true. reflexivity. Qed.

Lemma export_root_form r : export_root r = form_of_root r.
Proof.
  destruct r as [n d e a ps|n d ps|n d p o i]; cbn [export_root form_of_root]; copies_true;
    cbn [keeps keepl keep].
  - f_equal; try (apply map_ext; apply export_prop_form).
  - f_equal; try (apply map_ext; apply export_prop_form).
  - f_equal; try (apply map_ext; apply export_option_form).
Qed.

(* ---------------------------------------------------------------- import (export f) *)
Lemma field_importable_form f : xfield_importable (form_of_field f) = field_importable f.
Proof. induction f as [kw p| | | | |it IH r e|it IH r e]; cbn [form_of_field xfield_importable field_importable xschema_importable]; try reflexivity; exact IH. Qed.

(* the inverse lemma for every field class: importing an exported field succeeds (for the formats
   the import knows) and yields a field that exports to the same form *)
Lemma import_export_field f :
  field_importable f = true ->
  exists f', import_field (export_field f) = ROk f' /\ export_field f' = export_field f.
Proof.
  rewrite export_field_form.
  induction f as [kw p|od ts lr|r rules lr ext|r fl rules ext|r rules lr ext|it IH rules ext|it IH rules ext];
    intros Himp; cbn [form_of_field import_field import_schema].
  - (* scalars: the whole description is kept; Kind is recomputed from the type *)
    cbn [field_importable] in Himp. unfold import_scalar.
    destruct p as [rl lr|fmt rl lr|fmt rl lr|rl|fo rl lr|fo en lr|rl lr|rl lr|rl lr];
      cbn [scalar_site]; copies_true; cbn [rbind].
    all: try (eexists; split; [reflexivity|rewrite export_field_form; reflexivity]).
    + destruct (int_kind fmt) as [k|]; [|discriminate]. cbn [rbind].
      eexists; split; [reflexivity|rewrite export_field_form; reflexivity].
    + destruct (float_kind fmt) as [k|]; [|discriminate]. cbn [rbind].
      eexists; split; [reflexivity|rewrite export_field_form; reflexivity].
  - copies_true. cbn [keep keepl keepb]. eexists; split; [reflexivity|].
    rewrite export_field_form. destruct od; reflexivity.
  - copies_true. cbn [keep rbind]. eexists; split; [reflexivity|]. rewrite export_field_form. reflexivity.
  - copies_true. cbn [keep keepb rbind]. eexists; split; [reflexivity|]. rewrite export_field_form. destruct fl; reflexivity.
  - copies_true. cbn [keep rbind]. eexists; split; [reflexivity|]. rewrite export_field_form. reflexivity.
  - cbn [field_importable] in Himp. destruct (IH Himp) as (it' & Hi & He). rewrite Hi. cbn [rbind].
    copies_true. cbn [keep]. eexists; split; [reflexivity|].
    rewrite export_field_form in *. cbn [form_of_field]. rewrite He. reflexivity.
  - cbn [field_importable] in Himp. destruct (IH Himp) as (it' & Hi & He). rewrite Hi. cbn [rbind].
    copies_true. cbn [keep]. eexists; split; [reflexivity|].
    rewrite export_field_form in *. cbn [form_of_field]. rewrite He. reflexivity.
Qed.

Lemma import_export_prop p :
  field_importable (p_schema p) = true ->
  exists p', import_prop (export_prop p) = ROk p' /\ export_prop p' = export_prop p.
Proof.
  destruct p as [j path rq eo d s]. cbn [p_schema]. intros Himp.
  destruct (import_export_field s Himp) as (s' & Hi & He).
  rewrite export_prop_form. cbn [form_of_prop import_prop].
  rewrite export_field_form in Hi. rewrite Hi. cbn [rbind]. copies_true. cbn [keeps keepl keepb].
  eexists; split; [reflexivity|]. rewrite export_prop_form. cbn [form_of_prop].
  rewrite !export_field_form in He. rewrite He. destruct rq, eo; reflexivity.
Qed.

Lemma import_export_props ps :
  forallb (fun p => field_importable (p_schema p)) ps = true ->
  exists ps', import_props (map export_prop ps) = ROk ps' /\ map export_prop ps' = map export_prop ps.
Proof.
  induction ps as [|p r IH]; intros H; cbn [map import_props].
  - exists []. split; reflexivity.
  - cbn [forallb] in H. apply andb_prop in H as [Hp Hr].
    destruct (import_export_prop p Hp) as (p' & Hi & He). destruct (IH Hr) as (r' & Hri & Hre).
    rewrite Hi. cbn [rbind]. rewrite Hri. cbn [rbind]. exists (p' :: r'). split; [reflexivity|].
    cbn [map]. rewrite He, Hre. reflexivity.
Qed.

(* an enum option survives export and import unchanged *)
Lemma import_export_option o : import_option (export_option o) = o.
Proof. destruct o as [name num d info]. cbn [export_option]. copies_true. cbn [import_option]. copies_true. reflexivity. Qed.

Lemma map_ext_id {A} (f : A -> A) l : (forall x, f x = x) -> map f l = l.
Proof. intros H. induction l as [|x r IH]; cbn [map]; [reflexivity|]. rewrite H, IH. reflexivity. Qed.

(* roots: objects with entity marker and any-membership, oneofs, enums with prefix, option info and
   info field definitions *)
Lemma import_export_root r :
  root_importable r = true ->
  exists r', import_root (export_root r) = ROk r' /\ export_root r' = export_root r.
Proof.
  unfold root_importable. destruct r as [n d e a ps|n d ps|n d p o i]; cbn [root_props]; intros Himp.
  - destruct (import_export_props ps Himp) as (ps' & Hi & He).
    cbn [export_root]. copies_true. cbn [keeps keep keepl import_root]. rewrite Hi. cbn [rbind].
    copies_true. cbn [keeps keep keepl]. eexists; split; [reflexivity|].
    cbn [export_root]. copies_true. cbn [keeps keep keepl]. rewrite He. reflexivity.
  - destruct (import_export_props ps Himp) as (ps' & Hi & He).
    cbn [export_root]. copies_true. cbn [keeps keep keepl import_root]. rewrite Hi. cbn [rbind].
    copies_true. cbn [keeps keep keepl]. eexists; split; [reflexivity|].
    cbn [export_root]. copies_true. cbn [keeps keep keepl]. rewrite He. reflexivity.
  - cbn [export_root]. copies_true. cbn [keeps keep keepl import_root]. copies_true. cbn [keeps keep keepl].
    eexists; split; [reflexivity|]. cbn [export_root]. copies_true. cbn [keeps keep keepl].
    assert (Hio : map import_option (map export_option o) = o)
      by (rewrite map_map; apply map_ext_id; exact import_export_option).
    rewrite Hio. reflexivity.
Qed.

(* an enum (no scalar Kind inside) comes back exactly *)
Lemma import_export_enum n d p o i :
  import_root (export_root (REnum n d p o i)) = ROk (REnum n d p o i).
Proof.
  cbn [export_root]. copies_true. cbn [keeps keep keepl import_root]. copies_true. cbn [keeps keep keepl].
  assert (Hio : map import_option (map export_option o) = o)
    by (rewrite map_map; apply map_ext_id; exact import_export_option).
  rewrite Hio. reflexivity.
Qed.

(* the import does not touch references *)
Lemma import_field_refs f f' : import_field f = ROk f' -> field_refs f' = xfield_refs f.
Proof.
  revert f'. induction f as [p|od ts lr|sch rules lr ext|sch fl rules ext|sch rules lr ext|it IH rules ext|it IH rules ext];
    intros f' H; cbn [import_field] in H.
  - unfold import_scalar in H. destruct p; cbn in H;
      repeat match type of H with context [match ?x with _ => _ end] => destruct x; cbn in H end;
      try discriminate; inversion H; reflexivity.
  - inversion H; reflexivity.
  - destruct sch as [r| |]; cbn [import_schema rbind] in H; try discriminate. revert H. copies_true. intros H. inversion H; reflexivity.
  - destruct sch as [r| |]; cbn [import_schema rbind] in H; try discriminate. revert H. copies_true. intros H. inversion H; reflexivity.
  - destruct sch as [r| |]; cbn [import_schema rbind] in H; try discriminate. revert H. copies_true. intros H. inversion H; reflexivity.
  - destruct (import_field it) as [it'|c]; cbn [rbind] in H; [|discriminate].
    destruct (assigns _ _ _); [|discriminate]. inversion H; subst. cbn [field_refs xfield_refs]. apply IH. reflexivity.
  - destruct (import_field it) as [it'|c]; cbn [rbind] in H; [|discriminate].
    destruct (assigns _ _ _); [|discriminate]. inversion H; subst. cbn [field_refs xfield_refs]. apply IH. reflexivity.
Qed.

(* an inline or unset schema anywhere in a field is rejected *)
Lemma import_inline_rejected rules lr ext :
  (exists c, import_field (XEnum XInline rules lr ext) = RErr c) /\
  (exists c, import_field (XEnum XUnset rules lr ext) = RErr c).
Proof. split; eexists; reflexivity. Qed.

(* ---------------------------------------------------------------- the import succeeds on every importable root *)
Lemma import_field_total f :
  xfield_importable f = true -> exists f', import_field f = ROk f' /\ field_refs f' = xfield_refs f.
Proof.
  induction f as [p|od ts lr|sch rules lr ext|sch fl rules ext|sch rules lr ext|it IH rules ext|it IH rules ext];
    intros Himp; cbn [import_field].
  - cbn [xfield_importable] in Himp. unfold import_scalar.
    destruct p as [rl lr|fmt rl lr|fmt rl lr|rl|fo rl lr|fo en lr|rl lr|rl lr|rl lr];
      cbn [scalar_site]; copies_true; cbn [rbind];
      try (eexists; split; reflexivity).
    + destruct (int_kind fmt); [|discriminate]. cbn [rbind]. eexists; split; reflexivity.
    + destruct (float_kind fmt); [|discriminate]. cbn [rbind]. eexists; split; reflexivity.
  - eexists; split; reflexivity.
  - destruct sch as [r| |]; try discriminate. cbn [import_schema]. copies_true. cbn [rbind]. eexists; split; reflexivity.
  - destruct sch as [r| |]; try discriminate. cbn [import_schema]. copies_true. cbn [rbind]. eexists; split; reflexivity.
  - destruct sch as [r| |]; try discriminate. cbn [import_schema]. copies_true. cbn [rbind]. eexists; split; reflexivity.
  - cbn [xfield_importable] in Himp. destruct (IH Himp) as (it' & Hi & Hr). rewrite Hi. cbn [rbind]. copies_true.
    eexists; split; [reflexivity|exact Hr].
  - cbn [xfield_importable] in Himp. destruct (IH Himp) as (it' & Hi & Hr). rewrite Hi. cbn [rbind]. copies_true.
    eexists; split; [reflexivity|exact Hr].
Qed.

Lemma import_props_total ps :
  forallb (fun p => xfield_importable (xp_schema p)) ps = true ->
  exists ps', import_props ps = ROk ps' /\
              flat_map (fun p => field_refs (p_schema p)) ps' = flat_map (fun p => xfield_refs (xp_schema p)) ps.
Proof.
  induction ps as [|p r IH]; intros H; cbn [import_props].
  - exists []. split; reflexivity.
  - cbn [forallb] in H. apply andb_prop in H as [Hp Hr]. destruct p as [j path rq eo d s]. cbn [xp_schema] in Hp.
    destruct (import_field_total s Hp) as (s' & Hs & Hsr). destruct (IH Hr) as (r' & Hri & Hrr).
    cbn [import_prop]. rewrite Hs. cbn [rbind]. copies_true. rewrite Hri. cbn [rbind].
    eexists; split; [reflexivity|]. cbn [flat_map p_schema xp_schema]. rewrite Hsr, Hrr. reflexivity.
Qed.

Lemma import_root_total r :
  xroot_importable r = true -> exists r', import_root r = ROk r' /\ root_refs r' = xroot_refs r.
Proof.
  unfold xroot_importable, root_refs, xroot_refs. destruct r as [n d e a ps|n d ps|n d p o i]; cbn [xroot_props import_root]; intros Himp.
  - destruct (import_props_total ps Himp) as (ps' & Hi & Hr). rewrite Hi. cbn [rbind]. copies_true. cbn [keepl root_props].
    eexists; split; [reflexivity|exact Hr].
  - destruct (import_props_total ps Himp) as (ps' & Hi & Hr). rewrite Hi. cbn [rbind]. copies_true. cbn [keepl root_props].
    eexists; split; [reflexivity|exact Hr].
  - eexists; split; reflexivity.
Qed.

(* ---------------------------------------------------------------- buildSchemas over the ref environment *)
Definition memr (l : list ref) (k' : ref) : bool := existsb (fun k => ref_eqb k k') l.

Lemma lookup_ref_to st k k' :
  lookup (fst (ref_to st k)) k' =
  match lookup st k' with Some e => Some e | None => if ref_eqb k k' then Some Placeholder else None end.
Proof.
  unfold ref_to. destruct (lookup st k) as [e|] eqn:E; cbn [fst].
  - destruct (lookup st k') eqn:E'; [reflexivity|]. destruct (ref_eqb k k') eqn:Ek; [|reflexivity].
    apply ref_eqb_eq in Ek. subst. congruence.
  - rewrite lookup_cons. destruct (ref_eqb k k') eqn:Ek.
    + apply ref_eqb_eq in Ek. subst. rewrite E. reflexivity.
    + destruct (lookup st k'); reflexivity.
Qed.

Lemma lookup_add_refs rs : forall st k',
  lookup (add_refs st rs) k' =
  match lookup st k' with Some e => Some e | None => if memr rs k' then Some Placeholder else None end.
Proof.
  induction rs as [|k r IH]; intros st k'; cbn [add_refs memr existsb].
  - destruct (lookup st k'); reflexivity.
  - rewrite IH, lookup_ref_to. destruct (lookup st k') as [e|]; [reflexivity|].
    destruct (ref_eqb k k'); cbn [orb]; reflexivity.
Qed.

Definition entry_refs (entries : list (ref * root)) : list ref := flat_map (fun kr => root_refs (snd kr)) entries.
Definition xentry_refs (entries : list (ref * xroot)) : list ref := flat_map (fun kr => xroot_refs (snd kr)) entries.

Lemma memr_app a b k : memr (a ++ b) k = memr a k || memr b k.
Proof. unfold memr. apply existsb_app. Qed.

Definition not_linked (st : sset) (k : ref) : Prop := forall r', lookup st k <> Some (Linked r').

Lemma build_schemas_spec : forall entries st,
  NoDup (map fst entries) ->
  (forall k r, In (k, r) entries -> xroot_importable r = true) ->
  (forall k, In k (map fst entries) -> not_linked st k) ->
  exists st', build_schemas st entries = ROk st' /\
    (forall k r, In (k, r) entries -> exists r', import_root r = ROk r' /\ lookup st' k = Some (Linked r')) /\
    (forall k, ~ In k (map fst entries) ->
       lookup st' k = match lookup st k with
                      | Some e => Some e
                      | None => if memr (xentry_refs entries) k then Some Placeholder else None
                      end).
Proof.
  induction entries as [|[k r] rest IH]; intros st Hnd Himp Hnl; cbn [build_schemas].
  - exists st. split; [reflexivity|]. split; [intros k r []|]. intros k _. cbn. destruct (lookup st k); reflexivity.
  - cbn [map fst] in Hnd. inversion Hnd as [|? ? Hnotin Hnd']; subst.
    assert (Hl1 : forall r', lookup (fst (ref_to st k)) k <> Some (Linked r')).
    { intros r'. rewrite lookup_ref_to, ref_eqb_refl. pose proof (Hnl k (or_introl eq_refl) r') as H.
      destruct (lookup st k) as [e|]; [exact H|discriminate]. }
    destruct (lookup (fst (ref_to st k)) k) as [[|rr]|] eqn:E1; try (exfalso; eapply Hl1; reflexivity).
    + destruct (import_root_total r (Himp k r (or_introl eq_refl))) as (r' & Hir & Hrr). rewrite Hir. cbn [rbind].
      set (st3 := update (add_refs (fst (ref_to st k)) (root_refs r')) k (Linked r')).
      assert (Hl3 : forall k0, lookup st3 k0 =
                     if ref_eqb k k0 then Some (Linked r')
                     else match lookup st k0 with Some e => Some e | None => if memr (xroot_refs r) k0 then Some Placeholder else None end).
      { intros k0. unfold st3. rewrite lookup_update, lookup_add_refs, lookup_ref_to, ref_eqb_refl, Hrr.
        destruct (ref_eqb k k0) eqn:Ek.
        - destruct (lookup st k); reflexivity.
        - rewrite lookup_add_refs, lookup_ref_to, Ek. destruct (lookup st k0); reflexivity. }
      destruct (IH st3 Hnd') as (st' & Hb & Hin & Hout).
      * intros k2 r2 H2. apply (Himp k2 r2). right. exact H2.
      * intros k2 H2 r2. rewrite Hl3. destruct (ref_eqb k k2) eqn:Ek.
        -- apply ref_eqb_eq in Ek. subst. contradiction.
        -- pose proof (Hnl k2 (or_intror H2) r2) as H. destruct (lookup st k2); [exact H|].
           destruct (memr (xroot_refs r) k2); discriminate.
      * exists st'. split; [exact Hb|]. split.
        -- intros k2 r2 [H2|H2].
           ++ inversion H2; subst. exists r'. split; [exact Hir|]. rewrite (Hout k2 Hnotin), Hl3, ref_eqb_refl. reflexivity.
           ++ apply Hin. exact H2.
        -- intros k0 Hk0. cbn [map fst] in Hk0.
           assert (Hne : k <> k0) by (intros ->; apply Hk0; left; reflexivity).
           assert (Hk0' : ~ In k0 (map fst rest)) by (intros H; apply Hk0; right; exact H).
           rewrite (Hout k0 Hk0'), Hl3. apply ref_eqb_neq in Hne. rewrite Hne.
           cbn [xentry_refs flat_map snd]. rewrite memr_app. fold (xentry_refs rest).
           destruct (lookup st k0); [reflexivity|]. destruct (memr (xroot_refs r) k0); cbn [orb]; reflexivity.
    + (* the entry was absent: ref_to has just created the placeholder, so this case is impossible *)
      rewrite lookup_ref_to, ref_eqb_refl in E1. destruct (lookup st k); discriminate.
Qed.

(* ---------------------------------------------------------------- keys of a schema set are distinct *)
Lemma lookup_None_notin st k : lookup st k = None -> ~ In k (map fst st).
Proof.
  induction st as [|[k0 e0] r IH]; cbn [lookup map fst]; intros H; [intros []|].
  destruct (ref_eqb k0 k) eqn:E; [discriminate|]. intros [->|Hin]; [rewrite ref_eqb_refl in E; discriminate|].
  apply (IH H Hin).
Qed.
Lemma lookup_In st : NoDup (map fst st) -> forall k e, In (k, e) st -> lookup st k = Some e.
Proof.
  induction st as [|[k0 e0] r IH]; intros Hnd k e Hin; [destruct Hin|].
  cbn [map fst] in Hnd. inversion Hnd as [|? ? Hnot Hnd']; subst. cbn [lookup].
  destruct Hin as [Heq|Hin].
  - inversion Heq; subst. rewrite ref_eqb_refl. reflexivity.
  - destruct (ref_eqb k0 k) eqn:E; [|apply IH; assumption].
    apply ref_eqb_eq in E. subst. exfalso. apply Hnot. apply (in_map fst) in Hin. exact Hin.
Qed.
Lemma keys_update st k e : map fst (update st k e) = map fst st.
Proof.
  induction st as [|[k0 e0] r IH]; cbn [update map fst]; [reflexivity|].
  destruct (ref_eqb k0 k); cbn [map fst]; [reflexivity|]. rewrite IH. reflexivity.
Qed.
Lemma nodup_ref_to st k : NoDup (map fst st) -> NoDup (map fst (fst (ref_to st k))).
Proof.
  intros H. unfold ref_to. destruct (lookup st k) eqn:E; cbn [fst]; [exact H|].
  cbn [map fst]. constructor; [apply lookup_None_notin; exact E|exact H].
Qed.
Lemma nodup_add_refs rs : forall st, NoDup (map fst st) -> NoDup (map fst (add_refs st rs)).
Proof. induction rs as [|k r IH]; intros st H; cbn [add_refs]; [exact H|]. apply IH, nodup_ref_to, H. Qed.
Lemma nodup_build_schemas : forall entries st st',
  NoDup (map fst st) -> build_schemas st entries = ROk st' -> NoDup (map fst st').
Proof.
  induction entries as [|[k r] rest IH]; intros st st' Hnd H; cbn [build_schemas] in H.
  - inversion H; subst. exact Hnd.
  - destruct (lookup (fst (ref_to st k)) k) as [[|rr]|]; try discriminate;
      (destruct (import_root r) as [r'|c]; cbn [rbind] in H; [|discriminate];
       eapply IH; [|exact H]; rewrite keys_update; apply nodup_add_refs, nodup_ref_to, Hnd).
Qed.

Lemma memr_In l k : memr l k = true <-> In k l.
Proof.
  unfold memr. rewrite existsb_exists. split.
  - intros (x & Hx & He). apply ref_eqb_eq in He. subst. exact Hx.
  - intros H. exists k. split; [exact H|apply ref_eqb_refl].
Qed.

Lemma ref_eq_dec (a b : ref) : {a = b} + {a <> b}.
Proof.
  destruct (ref_eqb a b) eqn:E; [left; apply ref_eqb_eq; exact E|right; apply ref_eqb_neq; exact E].
Qed.

(* every reference names an entry *)
Definition closed (entries : list (ref * root)) : Prop :=
  forall k, In k (entry_refs entries) -> In k (map fst entries).
Definition all_importable (entries : list (ref * root)) : Prop :=
  forall k r, In (k, r) entries -> root_importable r = true.
(* the same for an API in the source form *)
Definition xclosed (entries : list (ref * xroot)) : Prop :=
  forall k, In k (xentry_refs entries) -> In k (map fst entries).
Definition xall_importable (entries : list (ref * xroot)) : Prop :=
  forall k r, In (k, r) entries -> xroot_importable r = true.

Lemma forallb_In {A} (f : A -> bool) l : (forall x, In x l -> f x = true) -> forallb f l = true.
Proof. intros H. apply forallb_forall. exact H. Qed.

(* PackageSetFromSourceAPI on a closed, importable API with distinct names: every schema is built and
   linked under its name, nothing else is in the set, and every reference is resolved *)
Theorem import_api_spec entries :
  NoDup (map fst entries) -> xall_importable entries -> xclosed entries ->
  exists st', import_api entries = ROk st' /\
    (forall k r, In (k, r) entries -> exists r', import_root r = ROk r' /\ lookup st' k = Some (Linked r')) /\
    (forall k, ~ In k (map fst entries) -> lookup st' k = None) /\
    refs_resolved st' = true.
Proof.
  intros Hnd Himp Hcl.
  destruct (build_schemas_spec entries [] Hnd Himp) as (st' & Hb & Hin & Hout).
  { intros k _ r'. cbn. discriminate. }
  assert (Hnd' : NoDup (map fst st')) by (apply (nodup_build_schemas entries [] st' (NoDup_nil _) Hb)).
  assert (Hnone : forall k, ~ In k (map fst entries) -> lookup st' k = None).
  { intros k Hk. rewrite (Hout k Hk). cbn [lookup]. destruct (memr (xentry_refs entries) k) eqn:E; [|reflexivity].
    apply memr_In in E. apply Hcl in E. contradiction. }
  assert (Hkeys : forall k e, In (k, e) st' -> In k (map fst entries)).
  { intros k e Hke. destruct (in_dec ref_eq_dec k (map fst entries)) as [H|H]; [exact H|].
    pose proof (lookup_In st' Hnd' k e Hke) as Hl. rewrite (Hnone k H) in Hl. discriminate. }
  assert (Hlinked : forall k e, In (k, e) st' -> exists r r', In (k, r) entries /\ import_root r = ROk r' /\ e = Linked r').
  { intros k e Hke. pose proof (Hkeys k e Hke) as Hk. apply in_map_iff in Hk as ([k0 r] & Hf & Hkr). cbn [fst] in Hf. subst k0.
    destruct (Hin k r Hkr) as (r' & Hir & Hl). exists r, r'. split; [exact Hkr|]. split; [exact Hir|].
    pose proof (lookup_In st' Hnd' k e Hke) as Hl'. congruence. }
  exists st'. unfold import_api. rewrite Hb. cbn [rbind].
  assert (Hall : all_linked st' = true).
  { unfold all_linked. apply forallb_In. intros [k e] Hke. cbn [snd].
    destruct (Hlinked k e Hke) as (r & r' & _ & _ & ->). reflexivity. }
  rewrite Hall. split; [reflexivity|]. split; [exact Hin|]. split; [exact Hnone|].
  unfold refs_resolved. apply forallb_In. intros [k e] Hke. cbn [snd].
  destruct (Hlinked k e Hke) as (r & r' & Hkr & Hir & ->).
  apply forallb_In. intros k2 Hk2.
  destruct (import_root_total r (Himp k r Hkr)) as (r'' & Hir' & Hrr). rewrite Hir in Hir'. inversion Hir'; subst r''.
  rewrite Hrr in Hk2.
  assert (Hk2in : In k2 (map fst entries)).
  { apply Hcl. unfold xentry_refs. apply in_flat_map. exists (k, r). split; [exact Hkr|exact Hk2]. }
  apply in_map_iff in Hk2in as ([k0 r2] & Hf & Hk2r). cbn [fst] in Hf. subst k0.
  destruct (Hin k2 r2 Hk2r) as (r2' & _ & Hl2). rewrite Hl2. reflexivity.
Qed.

(* the order in which buildSchemas meets the schemas (Go map iteration) does not matter *)
Theorem import_api_order_independent e1 e2 :
  Permutation e1 e2 -> NoDup (map fst e1) -> xall_importable e1 -> xclosed e1 ->
  exists st1 st2, import_api e1 = ROk st1 /\ import_api e2 = ROk st2 /\ forall k, lookup st1 k = lookup st2 k.
Proof.
  intros Hp Hnd Himp Hcl.
  assert (Hnd2 : NoDup (map fst e2)) by (eapply Permutation_NoDup; [apply Permutation_map; exact Hp|exact Hnd]).
  assert (Himp2 : xall_importable e2) by (intros k r H; apply (Himp k r); eapply Permutation_in; [apply Permutation_sym; exact Hp|exact H]).
  assert (Hcl2 : xclosed e2).
  { intros k Hk. unfold xentry_refs in Hk. apply in_flat_map in Hk as (kr & Hkr & Hr).
    assert (In k (map fst e1)).
    { apply Hcl. unfold xentry_refs. apply in_flat_map. exists kr. split; [|exact Hr].
      eapply Permutation_in; [apply Permutation_sym; exact Hp|exact Hkr]. }
    eapply Permutation_in; [apply Permutation_map; exact Hp|assumption]. }
  destruct (import_api_spec e1 Hnd Himp Hcl) as (st1 & H1 & Hin1 & Hout1 & _).
  destruct (import_api_spec e2 Hnd2 Himp2 Hcl2) as (st2 & H2 & Hin2 & Hout2 & _).
  exists st1, st2. split; [exact H1|]. split; [exact H2|]. intros k.
  destruct (in_dec ref_eq_dec k (map fst e1)) as [Hk|Hk].
  - apply in_map_iff in Hk as ([k0 r] & Hf & Hkr). cbn [fst] in Hf. subst k0.
    destruct (Hin1 k r Hkr) as (r1 & Hi1 & Hl1).
    assert (Hkr2 : In (k, r) e2) by (eapply Permutation_in; eauto).
    destruct (Hin2 k r Hkr2) as (r2 & Hi2 & Hl2). congruence.
  - rewrite (Hout1 k Hk). symmetry. apply Hout2. intros H. apply Hk.
    eapply Permutation_in; [apply Permutation_map, Permutation_sym; exact Hp|exact H].
Qed.

(* ---------------------------------------------------------------- the round trip of a schema set *)
Definition export_entries (S : list (ref * root)) : list (ref * xroot) :=
  map (fun kr => (fst kr, export_root (snd kr))) S.

Lemma form_of_field_refs f : xfield_refs (form_of_field f) = field_refs f.
Proof. induction f; cbn [form_of_field field_refs xfield_refs xschema_refs]; try reflexivity; exact IHf. Qed.
Lemma export_root_refs r : xroot_refs (export_root r) = root_refs r.
Proof.
  rewrite export_root_form. unfold root_refs, xroot_refs.
  destruct r as [n d e a ps|n d ps|n d p o i]; cbn [form_of_root root_props xroot_props]; try reflexivity;
    (induction ps as [|q r IH]; cbn [map flat_map]; [reflexivity|];
     rewrite IH; destruct q; cbn [form_of_prop p_schema xp_schema]; rewrite form_of_field_refs; reflexivity).
Qed.
Lemma export_root_importable r : xroot_importable (export_root r) = root_importable r.
Proof.
  rewrite export_root_form. unfold root_importable, xroot_importable.
  destruct r as [n d e a ps|n d ps|n d p o i]; cbn [form_of_root root_props xroot_props]; try reflexivity;
    (induction ps as [|q r IH]; cbn [map forallb]; [reflexivity|];
     rewrite IH; destruct q; cbn [form_of_prop p_schema xp_schema]; rewrite field_importable_form; reflexivity).
Qed.

Lemma export_entries_refs S : xentry_refs (export_entries S) = entry_refs S.
Proof.
  unfold entry_refs, xentry_refs, export_entries. induction S as [|[k r] rest IH]; cbn [map flat_map snd]; [reflexivity|].
  rewrite export_root_refs, IH. reflexivity.
Qed.

(* C15 for a schema set S given as (name, schema) pairs with distinct names, importable formats and
   no dangling reference: importing its export succeeds, every schema is found again under its name
   and exports to exactly the same form, nothing is added, every reference is resolved *)
Theorem export_import_roundtrip (S : list (ref * root)) :
  NoDup (map fst S) -> all_importable S -> closed S ->
  exists S', import_api (export_entries S) = ROk S' /\
    (forall k r, In (k, r) S -> exists r', lookup S' k = Some (Linked r') /\ export_root r' = export_root r) /\
    (forall k, ~ In k (map fst S) -> lookup S' k = None) /\
    refs_resolved S' = true.
Proof.
  intros Hnd Himp Hcl.
  assert (Hkeys : map fst (export_entries S) = map fst S).
  { unfold export_entries. rewrite map_map. apply map_ext. intros [k r]. reflexivity. }
  pose proof (export_entries_refs S) as Hrefs.
  destruct (import_api_spec (export_entries S)) as (S' & Hi & Hin & Hout & Hres).
  - rewrite Hkeys. exact Hnd.
  - intros k r H. unfold export_entries in H. apply in_map_iff in H as ([k0 r0] & Hf & H0). cbn [fst snd] in Hf.
    inversion Hf; subst k r. rewrite export_root_importable. apply (Himp k0 r0 H0).
  - intros k Hk. rewrite Hrefs in Hk. rewrite Hkeys. apply Hcl. exact Hk.
  - exists S'. split; [exact Hi|]. split; [|split; [rewrite <- Hkeys; exact Hout|exact Hres]].
    intros k r Hkr.
    assert (Hx : In (k, export_root r) (export_entries S)).
    { unfold export_entries. apply in_map_iff. exists (k, r). split; [reflexivity|exact Hkr]. }
    destruct (Hin k (export_root r) Hx) as (r' & Hir & Hl).
    destruct (import_export_root r (Himp k r Hkr)) as (r'' & Hir' & He). rewrite Hir in Hir'. inversion Hir'; subst r''.
    exists r'. split; [exact Hl|exact He].
Qed.

(* ---------------------------------------------------------------- the Go copy lines read the member the model copies *)
Lemma import_rhs_ok : rhs_table_ok expected_import ReflectGen.import_rhs = true.
Proof. vm_compute. reflexivity. Qed.
Lemma export_rhs_ok : rhs_table_ok (fun _ => expected_export) ReflectGen.export_rhs = true.
Proof. vm_compute. reflexivity. Qed.
Lemma export_rhs_complete : export_table_complete ReflectGen.export_rhs = true.
Proof. vm_compute. reflexivity. Qed.
(* every member the model treats as copied has an expected source text (so the check above is not vacuous) *)
Lemma import_rhs_covers :
  forallb (fun e => match e with (site, typ, kvs) =>
             forallb (fun kv => match expected_import site typ (fst kv) with
                                | Some _ => true
                                | None => existsb (String.eqb (fst kv))
                                            ["fieldContext"; "Ref"; "Kind"; "WellKnownTypeName"; "Properties"; "rootSchema"; "pkg";
                                             "Parent"; "parent"; "nameInParent"]%string
                                end) kvs end) ReflectGen.import_rhs = true.
Proof. vm_compute. reflexivity. Qed.
(* the Kind each scalar import site sets is the one the model sets *)
Lemma import_kind_ok :
  forallb (fun e => match e with (site, typ, kvs) =>
             if String.eqb typ "ScalarSchema" then
               match expected_kind_text site with
               | Some want => existsb (fun kv => String.eqb (fst kv) "Kind" && String.eqb (snd kv) want) kvs
               | None => false
               end
             else true end) ReflectGen.import_rhs = true.
Proof. vm_compute. reflexivity. Qed.
(* intKinds / floatKinds of schema_from_desc.go are the model's int_kind / float_kind *)
Lemma int_kinds_agree :
  map (fun fmt => (int_format_name fmt ++ "=>" ++ match int_kind fmt with Some k => kind_go_name k | None => "" end)%string)
      [1%N; 2%N; 3%N; 4%N] = ReflectGen.intKinds /\
  int_kind 0 = None /\ int_kind 5 = None.
Proof. repeat split; vm_compute; reflexivity. Qed.
Lemma float_kinds_agree :
  map (fun fmt => (float_format_name fmt ++ "=>" ++ match float_kind fmt with Some k => kind_go_name k | None => "" end)%string)
      [1%N; 2%N] = ReflectGen.floatKinds /\
  float_kind 0 = None /\ float_kind 3 = None.
Proof. repeat split; vm_compute; reflexivity. Qed.

(* ---------------------------------------------------------------- the round trip when the API lists the export in another order *)
Lemma export_entries_hyps S :
  NoDup (map fst S) -> all_importable S -> closed S ->
  NoDup (map fst (export_entries S)) /\ xall_importable (export_entries S) /\ xclosed (export_entries S).
Proof.
  intros Hnd Himp Hcl.
  assert (Hkeys : map fst (export_entries S) = map fst S).
  { unfold export_entries. rewrite map_map. apply map_ext. intros [k r]. reflexivity. }
  split; [rewrite Hkeys; exact Hnd|]. split.
  - intros k r H. unfold export_entries in H. apply in_map_iff in H as ([k0 r0] & Hf & H0). cbn [fst snd] in Hf.
    inversion Hf; subst k r. rewrite export_root_importable. apply (Himp k0 r0 H0).
  - intros k Hk. rewrite export_entries_refs in Hk. rewrite Hkeys. apply Hcl. exact Hk.
Qed.

Lemma xhyps_perm e1 e2 :
  Permutation e1 e2 -> NoDup (map fst e1) -> xall_importable e1 -> xclosed e1 ->
  NoDup (map fst e2) /\ xall_importable e2 /\ xclosed e2.
Proof.
  intros Hp Hnd Himp Hcl. split; [|split].
  - eapply Permutation_NoDup; [apply Permutation_map; exact Hp|exact Hnd].
  - intros k r H. apply (Himp k r). eapply Permutation_in; [apply Permutation_sym; exact Hp|exact H].
  - intros k Hk. unfold xentry_refs in Hk. apply in_flat_map in Hk as (kr & Hkr & Hr).
    assert (In k (map fst e1)).
    { apply Hcl. unfold xentry_refs. apply in_flat_map. exists kr. split; [|exact Hr].
      eapply Permutation_in; [apply Permutation_sym; exact Hp|exact Hkr]. }
    eapply Permutation_in; [apply Permutation_map; exact Hp|assumption].
Qed.

Theorem export_import_roundtrip_perm (S : list (ref * root)) (E : list (ref * xroot)) :
  Permutation E (export_entries S) ->
  NoDup (map fst S) -> all_importable S -> closed S ->
  exists S', import_api E = ROk S' /\
    (forall k x, In (k, x) E -> exists r', lookup S' k = Some (Linked r') /\ export_root r' = x) /\
    (forall k, ~ In k (map fst E) -> lookup S' k = None) /\
    refs_resolved S' = true.
Proof.
  intros Hp Hnd Himp Hcl.
  destruct (export_entries_hyps S Hnd Himp Hcl) as (X1 & X2 & X3).
  destruct (xhyps_perm _ _ (Permutation_sym Hp) X1 X2 X3) as (E1 & E2 & E3).
  destruct (import_api_spec E E1 E2 E3) as (S' & Hi & Hin & Hout & Hres).
  exists S'. split; [exact Hi|]. split; [|split; [exact Hout|exact Hres]].
  intros k x Hkx. destruct (Hin k x Hkx) as (r' & Hir & Hl). exists r'. split; [exact Hl|].
  assert (Hx : In (k, x) (export_entries S)) by (eapply Permutation_in; eauto).
  unfold export_entries in Hx. apply in_map_iff in Hx as ([k0 r0] & Hf & H0). cbn [fst snd] in Hf. inversion Hf; subst k x.
  destruct (import_export_root r0 (Himp k0 r0 H0)) as (r'' & Hir' & He). rewrite Hir in Hir'. inversion Hir'; subst r''. exact He.
Qed.

(* ---------------------------------------------------------------- the round trip against schema.proto's own field list *)
(* every struct of schema.pb.go (messages of j5/schema/v1/schema.proto and their oneof wrappers, regenerated
   from /repo) is classified Built / Whole / Never (model/ExportFields.v); every member of a Built struct is
   set by an export literal of that type and read by a selector expression of the import, or is on an
   explicit dropped list (ObjectField.entity; MapField.key_schema on the import side) and then is NOT
   set / read; the export literals set no member the struct does not have and build no Whole / Never struct *)
Lemma export_import_cover_schema_proto :
  classes_cover = true /\ export_covers = true /\ import_covers = true /\ dropped_exact = true /\
  export_builds_only_built = true.
Proof. repeat split; vm_compute; reflexivity. Qed.

(* CmpbFrontProofs.v — the C07 front end (model/CmpbFront.v): the position plumbing of sourcewalk /
   addError, the error list of the converter model against its error counter, and the composition with
   C11's theorems about the BCL lexer + parser (proofs/BclParserProofs.v). *)
From Coq Require Import Ascii String List NArith ZArith Bool Arith Lia.
From J5V.lib Require Import Text Outcome Corr.
From J5V.model Require Import BclLexer BclParser CmpbFields CmpbDecls CmpbFront.
From J5V.proofs Require Import BclPosProofs BclLexerProofs BclParserProofs BclBytesProofs CmpbFieldsProofs CmpbDeclsProofs.
Import ListNotations.
Local Open Scope string_scope.
Local Open Scope bool_scope.
Local Open Scope list_scope.

(* ------------------------------------------------------------------ child / GetPos *)
Lemma spans_head t : In (loc_span t) (spans t).
Proof. destruct t as [sp cs]. cbn. left. reflexivity. Qed.

Lemma spans_child : forall cs k c sp s0, find_child k cs = Some c -> In sp (spans c) -> In sp (spans (Loc s0 cs)).
Proof.
  induction cs as [|[k' c'] r IH]; intros k c sp s0 Hf Hin; cbn in Hf; [discriminate|].
  cbn [spans]. right. destruct (String.eqb k k').
  - injection Hf as <-. apply in_or_app. left. exact Hin.
  - apply in_or_app. right. specialize (IH k c sp s0 Hf Hin). cbn [spans] in IH.
    destruct IH as [E|IH]; [|exact IH].
    (* the head of (Loc s0 r) is s0, not necessarily sp: use the tail part only *)
    clear -Hf Hin. revert Hf. induction r as [|[k2 c2] r2 IH2]; cbn; intro Hf; [discriminate|].
    destruct (String.eqb k k2).
    + injection Hf as <-. apply in_or_app. left. exact Hin.
    + apply in_or_app. right. apply IH2. exact Hf.
Qed.

(* the position addError attaches is a span stored in the location tree: the one of the node itself, or
   of the nearest enclosing node the walker recorded *)
Theorem child_span_in : forall p t, In (child_span p t) (spans t).
Proof.
  induction p as [|k r IH]; intro t; cbn [child_span]; [apply spans_head|].
  destruct (String.eqb k "-"); [apply spans_head|].
  destruct (find_child k (loc_children t)) as [c|] eqn:E; [|apply spans_head].
  destruct t as [s0 cs]. cbn in E. eapply spans_child; [exact E|apply IH].
Qed.

(* ------------------------------------------------------------------ paths *)
Lemma is_prefix_refl a : is_prefix a a = true.
Proof. induction a as [|x r IH]; cbn; [reflexivity|]. rewrite String.eqb_refl. exact IH. Qed.
Lemma is_prefix_trans : forall a b c, is_prefix a b = true -> is_prefix b c = true -> is_prefix a c = true.
Proof.
  induction a as [|x r IH]; intros b c H1 H2; [reflexivity|].
  destruct b as [|y s]; [discriminate|]. destruct c as [|z u]; [discriminate|].
  cbn in *. apply andb_prop in H1. destruct H1 as [E1 P1]. apply andb_prop in H2. destruct H2 as [E2 P2].
  apply String.eqb_eq in E1. apply String.eqb_eq in E2. subst. rewrite String.eqb_refl. cbn. eapply IH; eassumption.
Qed.

(* ------------------------------------------------------------------ the error list vs the error counter *)
Lemma iso_nerr_le_1_all : forallb (fun p => Nat.leb (iso_nerr p) 1) all_props = true.
Proof. vm_compute. reflexivity. Qed.
Lemma iso_nerr_le_1 p : iso_nerr p <= 1.
Proof. apply Nat.leb_le. apply (by_enumeration (fun p => Nat.leb (iso_nerr p) 1) iso_nerr_le_1_all). Qed.

Lemma prop_errors_length lp : length (prop_errors lp) = d_nerr (prop_state (lp_prop lp)).
Proof.
  unfold prop_errors, prop_state. destruct (o_verdict (compile_iso (lp_prop lp))); cbn; try reflexivity.
  apply repeat_length.
Qed.
(* a failing property records exactly one error *)
Lemma prop_errors_at_most_one lp : length (prop_errors lp) <= 1.
Proof.
  unfold prop_errors. destruct (o_verdict (compile_iso (lp_prop lp))); cbn; try lia.
  rewrite repeat_length. apply iso_nerr_le_1.
Qed.

Lemma nerr_props_sum props : forall s,
  d_nerr (fold_left (fun s p => merge s (prop_state p)) (map lp_prop props) s)
  = d_nerr s + length (flat_map prop_errors props).
Proof.
  induction props as [|lp r IH]; intro s; cbn [map fold_left flat_map]; [cbn; lia|].
  rewrite IH, nerr_merge, app_length, prop_errors_length. lia.
Qed.

Lemma nerr_object_shell entity : d_nerr (compile_object_shell entity) = 0.
Proof. unfold compile_object_shell. destruct entity; rewrite ?nerr_set, ?nerr_ens; reflexivity. Qed.
Lemma nerr_oneof_shell : d_nerr compile_oneof_shell = 0.
Proof. unfold compile_oneof_shell. rewrite nerr_set, nerr_ens. reflexivity. Qed.

Lemma nerr_enum_fold l : forall s,
  d_nerr (fold_left (fun s (b : bool) => if b then set_d st_enum_value s else s) l s) = d_nerr s.
Proof.
  induction l as [|b r IH]; intro s; cbn [fold_left]; [reflexivity|].
  rewrite IH. destruct b; [apply nerr_set|reflexivity].
Qed.
Lemma nerr_enum e : d_nerr (compile_enum e) = 0.
Proof.
  unfold compile_enum. rewrite nerr_enum_fold.
  destruct (existsb (fun b : bool => b) (en_option_infos e)); destruct (en_info e);
    rewrite ?nerr_ens, ?nerr_set, ?nerr_ens; reflexivity.
Qed.
Lemma nerr_topic t : d_nerr (compile_topic t) = 0.
Proof.
  unfold compile_topic.
  repeat first [rewrite nerr_ens | rewrite nerr_set
               | match goal with |- context [if ?b then _ else _] => destruct b end]; reflexivity.
Qed.

(* visit_method adds its errors to whatever was there *)
Lemma nerr_err s : d_nerr (err_d s) = S (d_nerr s). Proof. reflexivity. Qed.
Lemma visit_method_errcount s m : d_nerr (visit_method s m) = d_nerr s + method_errcount m.
Proof.
  unfold method_errcount, visit_method.
  destruct (m_request m); cbn [negb]; [|rewrite !nerr_err, !nerr_ens; cbn; lia].
  destruct (m_raw_response m), (m_path_params_ok m), (m_http m), (m_options m), (m_list_request m);
    repeat first [rewrite nerr_set | rewrite nerr_ens | rewrite nerr_err]; cbn; lia.
Qed.
Lemma nerr_methods ms : forall s,
  d_nerr (fold_left visit_method (map fst ms) s)
  = d_nerr s + length (flat_map (fun mp : method * path => repeat (snd mp) (method_errcount (fst mp))) ms).
Proof.
  induction ms as [|[m p] r IH]; intro s; cbn [map fold_left flat_map fst snd]; [cbn; lia|].
  rewrite IH, visit_method_errcount, app_length, repeat_length. lia.
Qed.
Lemma nerr_service o ms :
  d_nerr (compile_service (mkService (map fst ms) o))
  = length (flat_map (fun mp : method * path => repeat (snd mp) (method_errcount (fst mp))) ms).
Proof.
  unfold compile_service, visit_io_objects; cbn [sv_methods sv_options].
  destruct (existsb m_request (map fst ms)); destruct o;
    rewrite ?nerr_set, ?nerr_ens, ?nerr_set, ?nerr_ens, nerr_methods; reflexivity.
Qed.

Lemma decl_errors_length d : length (decl_errors d) = d_nerr (decl_state (erase d)).
Proof.
  destruct d as [p entity props|p props|p e|p o ms|p t]; cbn [decl_errors erase decl_state].
  - rewrite nerr_props_sum, nerr_object_shell. reflexivity.
  - rewrite nerr_props_sum, nerr_oneof_shell. reflexivity.
  - rewrite nerr_enum. reflexivity.
  - rewrite nerr_service. reflexivity.
  - rewrite nerr_topic. reflexivity.
Qed.

Lemma list_sum_cons x l : list_sum (x :: l) = x + list_sum l.
Proof. reflexivity. Qed.

Lemma nerr_file_state t ds : forall s,
  d_nerr (fold_left (fun s d => if target_eqb (decl_target d) t then merge s (decl_state d) else s) ds s)
  = d_nerr s + list_sum (map (fun d => if target_eqb (decl_target d) t then d_nerr (decl_state d) else 0) ds).
Proof.
  induction ds as [|d r IH]; intro s; cbn [fold_left map]; [cbn; lia|].
  rewrite IH, list_sum_cons. destruct (target_eqb (decl_target d) t); [rewrite nerr_merge|]; lia.
Qed.

(* the errors listed are exactly the errors counted by the converter model (model/CmpbDecls.v file_nerr) *)
Theorem file_errors_length lf : length (file_errors lf) = file_nerr (map erase lf).
Proof.
  unfold file_nerr, file_state. rewrite !nerr_file_state. cbn [d_nerr d0].
  unfold file_errors. induction lf as [|d r IH]; [reflexivity|].
  cbn [flat_map map]. rewrite !list_sum_cons, app_length, IH, decl_errors_length.
  destruct (decl_target (erase d)); cbn [target_eqb]; lia.
Qed.

Lemma file_errors_nil_iff lf : file_errors lf = [] <-> file_nerr (map erase lf) = 0.
Proof.
  rewrite <- file_errors_length. destruct (file_errors lf); cbn; split; intro H; try reflexivity; discriminate.
Qed.

(* ------------------------------------------------------------------ every converter error is positioned at its declaration *)
Lemma in_repeat {A} (x y : A) n : In x (repeat y n) -> x = y.
Proof. apply repeat_spec. Qed.

Lemma prop_error_path dp lp e : lprop_wf dp lp = true -> In e (prop_errors lp) -> is_prefix dp e = true.
Proof.
  unfold lprop_wf, prop_errors. intros Hwf Hin. apply andb_prop in Hwf. destruct Hwf as [H1 H2].
  destruct (o_verdict (compile_iso (lp_prop lp))); try contradiction.
  apply in_repeat in Hin. subst e. destruct (fails_at_ref (lp_prop lp)); [eapply is_prefix_trans; eassumption|exact H1].
Qed.

Lemma decl_error_path d e : ldecl_wf d = true -> In e (decl_errors d) -> is_prefix (ldecl_path d) e = true.
Proof.
  destruct d as [p entity props|p props|p en|p o ms|p t]; cbn [ldecl_wf decl_errors ldecl_path]; intros Hwf Hin;
    try contradiction.
  - apply in_flat_map in Hin. destruct Hin as [lp [Hlp He]]. rewrite forallb_forall in Hwf.
    eapply prop_error_path; [apply Hwf; exact Hlp|exact He].
  - apply in_flat_map in Hin. destruct Hin as [lp [Hlp He]]. rewrite forallb_forall in Hwf.
    eapply prop_error_path; [apply Hwf; exact Hlp|exact He].
  - apply in_flat_map in Hin. destruct Hin as [mp [Hmp He]]. rewrite forallb_forall in Hwf.
    apply in_repeat in He. subst e. apply Hwf. exact Hmp.
Qed.

(* every error the converter model emits carries the SourceNode of (a part of) the offending declaration,
   and the position attached to it is that node's span in the location tree (or the nearest recorded
   enclosing one): a span the walker stored *)
Theorem compile_errors_positioned : forall t lf, forallb ldecl_wf lf = true ->
  forall e, In e (conv_errors t lf) ->
    (exists d, In d lf /\ In (fst e) (decl_errors d) /\ is_prefix (ldecl_path d) (fst e) = true)
    /\ snd e = child_span (fst e) t
    /\ In (snd e) (spans t).
Proof.
  intros t lf Hwf e Hin. unfold conv_errors in Hin. apply in_map_iff in Hin.
  destruct Hin as [p [<- Hp]]. cbn [fst snd]. split; [|split; [reflexivity|apply child_span_in]].
  unfold file_errors in Hp. apply in_flat_map in Hp. destruct Hp as [d [Hd He]].
  exists d. split; [exact Hd|]. split; [exact He|].
  rewrite forallb_forall in Hwf. apply decl_error_path; [apply Hwf; exact Hd|exact He].
Qed.

Lemma conv_errors_length t lf : length (conv_errors t lf) = file_nerr (map erase lf).
Proof. unfold conv_errors. rewrite map_length. apply file_errors_length. Qed.

(* ------------------------------------------------------------------ points of the tree are positions of the input *)
Lemma pos_eqb_eq a b : pos_eqb a b = true -> a = b.
Proof.
  unfold pos_eqb. intro H. apply andb_prop in H. destruct H as [H1 H2].
  apply Z.eqb_eq in H1. apply Z.eqb_eq in H2. destruct a, b; cbn in *; subst; reflexivity.
Qed.

Lemma node_points_valid data body :
  Forall (node_wf data) (flat_map stmt_nodes body) -> forall p, In p (node_points body) -> valid_pos data p.
Proof.
  intros Hwf p [<-|Hin]; [apply valid_pos0|].
  apply in_flat_map in Hin. destruct Hin as [n [Hn Hp]]. rewrite Forall_forall in Hwf.
  specialize (Hwf n Hn). destruct n as [[k s] e]. destruct Hwf as [Hs [He _]].
  cbn in Hp. destruct Hp as [<-|[<-|[]]]; assumption.
Qed.

Definition span_inside (data : list N) (sp : span) : Prop := valid_pos data (fst sp) /\ valid_pos data (snd sp).

Lemma span_from_inside data body sp :
  Forall (node_wf data) (flat_map stmt_nodes body) -> span_from body sp = true -> span_inside data sp.
Proof.
  intros Hwf H. unfold span_from, point_from in H. apply andb_prop in H. destruct H as [H1 H2].
  apply existsb_exists in H1. destruct H1 as [p1 [I1 E1]]. apply pos_eqb_eq in E1.
  apply existsb_exists in H2. destruct H2 as [p2 [I2 E2]]. apply pos_eqb_eq in E2.
  split; [rewrite E1|rewrite E2]; eapply node_points_valid; eassumption.
Qed.

Lemma node_points_strict_sub body p : In p (node_points_strict body) -> In p (node_points body).
Proof.
  intro H. right. unfold node_points_strict in H. apply in_flat_map in H. destruct H as [n [Hn Hp]].
  apply filter_In in Hn. destruct Hn as [Hn _]. apply in_flat_map. exists n. split; assumption.
Qed.
Lemma node_ends_sub body p : In p (node_ends body) -> In p (node_points_strict body).
Proof.
  unfold node_ends, node_points_strict. intro H. apply in_flat_map in H. destruct H as [n [Hn Hp]].
  apply in_flat_map. exists n. split; [exact Hn|].
  destruct (N.eqb (fst (fst n)) 8); [exact Hp|]. destruct Hp as [<-|[]]. right. left. reflexivity.
Qed.
Lemma err_span_from_span_from body sp : err_span_from body sp = true -> span_from body sp = true.
Proof.
  unfold err_span_from, span_from, point_from. intro H. apply andb_prop in H. destruct H as [H1 H2].
  apply existsb_exists in H1. destruct H1 as [p1 [I1 E1]].
  apply andb_true_intro. split.
  - apply existsb_exists. exists p1. split; [apply node_points_strict_sub; exact I1|exact E1].
  - apply orb_prop in H2. destruct H2 as [H2|H2].
    + apply existsb_exists in H2. destruct H2 as [p2 [I2 E2]]. apply existsb_exists. exists p2.
      split; [apply node_points_strict_sub, node_ends_sub; exact I2|exact E2].
    + apply andb_prop in H2. destruct H2 as [H2 _]. apply existsb_exists. exists pos0.
      split; [left; reflexivity|exact H2].
Qed.

(* ------------------------------------------------------------------ the composed front end *)
Definition walker_returns (walk : list stmt -> outcome walk_out) : Prop := forall body, exists w, walk body = Ok w.
Definition walker_contract (walk : list stmt -> outcome walk_out) : Prop :=
  forall body w, walk body = Ok w -> walk_out_ok body w = true.

(* totality: with a walker that returns, the front end returns for EVERY byte string and both parser modes.  The
   converter itself cannot panic (file_never_panics: since fix 985f10a a list request is an error) *)
Theorem front_end_total : forall walk ff input, walker_returns walk ->
  exists out, front_end walk ff input = Ok out.
Proof.
  intros walk ff input Hret. unfold front_end, parse_file.
  destruct (parse_runes_total ff (utf8_decode input)) as [p Hp]. rewrite Hp.
  destruct (pdiags p) as [|d ds] eqn:Ed; [|eexists; reflexivity].
  destruct (parse_runes_tree_or_diags ff _ p Hp) as [[[body Hb] _]|Hne]; [|rewrite Ed in Hne; contradiction].
  rewrite Hb. destruct (Hret body) as [w Hw]. rewrite Hw. destruct w as [es|t lf]; [eexists; reflexivity|].
  rewrite file_never_panics. destruct (conv_errors t lf); eexists; reflexivity.
Qed.

Lemma file_panics_verdict ds : file_panics ds = true <-> file_verdict ds = VPanic.
Proof.
  unfold file_verdict. destruct (file_panics ds); [split; reflexivity|].
  split; [discriminate|]. destruct (Nat.ltb 0 (file_nerr ds)); [discriminate|].
  destruct (links_d (file_state FMain ds) && links_d (file_state FService ds) && links_d (file_state FTopic ds)); discriminate.
Qed.

(* positions: every error of the parse, walk and convert stages carries a position whose two ends are
   positions of the input (C11: hence inside the file, in lines and columns), and an error result is never empty *)
Theorem front_end_errors_positioned : forall walk ff input st es, walker_contract walk ->
  front_end walk ff input = Ok (FEErrors st es) ->
  es <> [] /\ Forall (span_inside (utf8_decode input)) es.
Proof.
  intros walk ff input st es Hc. unfold front_end, parse_file.
  destruct (parse_runes ff (utf8_decode input)) as [p|c|s|] eqn:Hp; try discriminate.
  destruct (parse_runes_positions ff _ p Hp) as [Hd Hn].
  destruct (pdiags p) as [|d ds] eqn:Ed.
  - destruct (ptree p) as [body|] eqn:Hb; [|discriminate].
    specialize (Hn body eq_refl).
    destruct (walk body) as [w|c|s|] eqn:Hw; try discriminate.
    specialize (Hc body w Hw). destruct w as [es'|t lf]; cbn [walk_out_ok] in Hc.
    + intro H. injection H as <- <-. apply andb_prop in Hc. destruct Hc as [Hne Hall]. split.
      * destruct es'; [discriminate|discriminate].
      * apply Forall_forall. intros sp Hsp. rewrite forallb_forall in Hall.
        eapply span_from_inside; [exact Hn|apply err_span_from_span_from; apply Hall; exact Hsp].
    + apply andb_prop in Hc. destruct Hc as [Hall Hwf].
      destruct (file_panics (map erase lf)); [discriminate|].
      destruct (conv_errors t lf) as [|e0 er] eqn:Ec; [discriminate|].
      intro H. injection H as <- <-. split; [discriminate|].
      apply Forall_forall. intros sp Hsp. change (snd e0 :: map snd er) with (map snd (e0 :: er)) in Hsp.
      apply in_map_iff in Hsp. destruct Hsp as [e [<- He]].
      rewrite <- Ec in He. destruct (compile_errors_positioned t lf Hwf e He) as (_ & _ & Hin).
      rewrite forallb_forall in Hall. eapply span_from_inside; [exact Hn|apply Hall; exact Hin].
  - intro H. injection H as <- <-. split; [discriminate|].
    rewrite Forall_forall in Hd. apply Forall_forall. intros sp Hsp.
    change (diag_span d :: map diag_span ds) with (map diag_span (d :: ds)) in Hsp. apply in_map_iff in Hsp.
    destruct Hsp as [d' [<- Hd']]. destruct (Hd d' Hd') as [H1 [H2 _]]. split; assumption.
Qed.

(* ... in lines and columns of the byte string (strings.Split(input, "\n"), columns in runes) *)
Corollary front_end_errors_inside_bytes : forall walk ff input st es, walker_contract walk ->
  front_end walk ff input = Ok (FEErrors st es) ->
  Forall (fun sp => inside_bytes input (fst sp) /\ inside_bytes input (snd sp)) es.
Proof.
  intros walk ff input st es Hc H. destruct (front_end_errors_positioned walk ff input st es Hc H) as [_ Hall].
  eapply Forall_impl; [|exact Hall]. intros sp [H1 H2]. split; apply valid_inside_bytes; assumption.
Qed.

(* "descriptors or errors": when no error is reported the converter built every output file and, without
   list requests, each of them links *)
Theorem front_end_descriptors : forall walk ff input v lf,
  front_end walk ff input = Ok (FEConverted v lf) ->
  v = VOk /\ file_nerr (map erase lf) = 0.
Proof.
  intros walk ff input v lf. unfold front_end.
  destruct (parse_file input ff) as [p|c|s|]; try discriminate.
  destruct (pdiags p); [|discriminate]. destruct (ptree p) as [body|]; [|discriminate].
  destruct (walk body) as [w|c|s|]; try discriminate. destruct w as [es|t lf']; [discriminate|].
  destruct (file_panics (map erase lf')); [discriminate|].
  destruct (conv_errors t lf') as [|e0 er] eqn:Ec; [|discriminate].
  intro H. injection H as <- <-.
  assert (Hn : file_nerr (map erase lf') = 0).
  { rewrite <- (conv_errors_length t lf'), Ec. reflexivity. }
  split; [|exact Hn]. destruct (file_total_links_all (map erase lf')) as [Hnp Hnle].
  unfold file_verdict in *. destruct (file_panics (map erase lf')); [contradiction|].
  rewrite Hn in *. cbn [Nat.ltb Nat.leb] in *.
  destruct (links_d (file_state FMain (map erase lf')) && links_d (file_state FService (map erase lf')) && links_d (file_state FTopic (map erase lf')));
    [reflexivity|contradiction].
Qed.

(* ------------------------------------------------------------------ the demo walker satisfies the contract *)
Lemma demo_walk_returns : walker_returns demo_walk.
Proof. intro body. unfold demo_walk. destruct (demo_decls 0 body) as [cs ds]. eexists. reflexivity. Qed.

Lemma is_prefix_app a x : is_prefix a (a ++ x) = true.
Proof. induction a as [|y r IH]; cbn; [reflexivity|]. rewrite String.eqb_refl. exact IH. Qed.
Lemma pos_eqb_refl a : pos_eqb a a = true.
Proof. unfold pos_eqb. rewrite !Z.eqb_refl. reflexivity. Qed.
Lemma point_from_in body p : In p (node_points body) -> point_from body p = true.
Proof. intro H. unfold point_from. apply existsb_exists. exists p. split; [exact H|apply pos_eqb_refl]. Qed.
Lemma span0_from body : span_from body span0 = true.
Proof. unfold span_from, span0; cbn [fst snd]. rewrite point_from_in; [reflexivity|left; reflexivity]. Qed.
Lemma header_span_from body h b : In (SBlock h b) body -> span_from body (hstart h, hend h) = true.
Proof.
  intro Hin. unfold span_from; cbn [fst snd].
  assert (Hn : In (1%N, hstart h, hend h) (flat_map stmt_nodes body)).
  { apply in_flat_map. exists (SBlock h b). split; [exact Hin|]. cbn [stmt_nodes]. apply in_or_app. left.
    unfold header_nodes. left. reflexivity. }
  rewrite !point_from_in; [reflexivity| |].
  - right. apply in_flat_map. exists (1%N, hstart h, hend h). split; [exact Hn|cbn; right; left; reflexivity].
  - right. apply in_flat_map. exists (1%N, hstart h, hend h). split; [exact Hn|cbn; left; reflexivity].
Qed.

Lemma demo_decls_ok body0 : forall r i cs ds, (forall s, In s r -> In s body0) -> demo_decls i r = (cs, ds) ->
  forallb (span_from body0) (spans (Loc span0 cs)) = true /\ forallb ldecl_wf ds = true.
Proof.
  induction r as [|s r IH]; intros i cs ds Hsub H; cbn [demo_decls] in H.
  - injection H as <- <-. cbn [spans forallb]. rewrite span0_from. split; reflexivity.
  - assert (Hsub' : forall s0, In s0 r -> In s0 body0) by (intros s0 H0; apply Hsub; right; exact H0).
    destruct s as [h b|a|d].
    + destruct (demo_decls (S i) r) as [cs' ds'] eqn:E. injection H as <- <-.
      destruct (IH (S i) cs' ds' Hsub' E) as [H1 H2]. split.
      * cbn [spans] in H1 |- *. cbn [forallb] in H1 |- *. apply andb_prop in H1. destruct H1 as [H0 H1].
        rewrite H0. cbn [andb app forallb]. rewrite (header_span_from body0 h b); [exact H1|apply Hsub; left; reflexivity].
      * cbn [forallb]. rewrite H2, andb_true_r. cbn [ldecl_wf].
        destruct (lit_is (htype h) [98%N; 97%N; 100%N]); [|reflexivity].
        unfold lprop_wf; cbn [forallb lp_path lp_ref app is_prefix]. rewrite !String.eqb_refl. reflexivity.
    + exact (IH (S i) cs ds Hsub' H).
    + exact (IH (S i) cs ds Hsub' H).
Qed.

Lemma demo_walk_contract : walker_contract demo_walk.
Proof.
  intros body w H. unfold demo_walk in H. destruct (demo_decls 0 body) as [cs ds] eqn:E. injection H as <-.
  destruct (demo_decls_ok body body 0 cs ds (fun s H => H) E) as [H1 H2].
  cbn [walk_out_ok]. rewrite H2, andb_true_r.
  cbn [spans] in H1 |- *. cbn [forallb] in H1 |- *. apply andb_prop in H1. destruct H1 as [H0 H1].
  rewrite H0. cbn [andb]. rewrite app_nil_r. cbn [forallb]. rewrite H0. exact H1.
Qed.

(* ------------------------------------------------------------------ the first sentence of C07, for a given walker *)
(* "for any source text, parsing and compiling returns either descriptors or errors that carry a position
   inside the offending file; it never panics or hangs" — for one source file through parse, walk, convert *)
Definition front_end_statement (walk : list stmt -> outcome walk_out) : Prop :=
  forall ff input, exists out,
    front_end walk ff input = Ok out /\
    match out with
    | FEErrors _ es =>
        es <> [] /\ Forall (fun sp => inside_bytes input (fst sp) /\ inside_bytes input (snd sp)) es
    | FEConverted v _ => v = VOk
    end.

(* what is proved: it holds for EVERY walker that returns and respects the position contract.
   Missing for the real compiler: that the real walker returns (never panics / hangs) and respects the
   contract — not modelled; explored by the crash stream, tied by the CFrontFile / CFrontErrs correspondence
   and the reviewed census *)
Theorem front_end_statement_partial : forall walk,
  walker_returns walk -> walker_contract walk -> front_end_statement walk.
Proof.
  intros walk Hret Hc ff input.
  destruct (front_end_total walk ff input Hret) as [out Hout]. exists out. split; [exact Hout|].
  destruct out as [st es|v lf].
  - split; [exact (proj1 (front_end_errors_positioned walk ff input st es Hc Hout))|].
    exact (front_end_errors_inside_bytes walk ff input st es Hc Hout).
  - exact (proj1 (front_end_descriptors walk ff input v lf Hout)).
Qed.

(* a method with a list request is reported with a position (it panicked before fix 985f10a): the converter
   records one error on the method's node *)
Definition listreq_walk (body : list stmt) : outcome walk_out :=
  Ok (WalkFile (Loc span0 []) [LService ["elements"; "0"; "service"] false
        [(mkMethod true HGet false true false true, ["elements"; "0"; "service"; "methods"; "0"; "request"])]]).
Lemma listreq_is_a_positioned_error : front_end listreq_walk true [] = Ok (FEErrors SConvert [span0]).
Proof. vm_compute. reflexivity. Qed.


(* ProtoPrintFileWfProofs.v — the computable test of model/ProtoPrintFileWf.v implies the hypotheses of
   the file theorem of C05: a descriptor that passes it is inside C05_token_roundtrip. *)
From Coq Require Import String List Arith NArith ZArith Bool Lia ZifyN ZifyNat ZifyBool.
From J5V.lib Require Import Outcome Corr.
From J5V.model Require Import ProtoPrintLit ProtoPrint ProtoPrintFile ProtoParseFile ProtoPrintFileWf.
From J5V.proofs Require Import ProtoPrintLitProofs ProtoPrintProofs ProtoPrintFileSyntaxProofs ProtoPrintFileSortProofs
  ProtoPrintFileSemProofs ProtoPrintFileFullProofs.
Import ListNotations.
Local Open Scope N_scope.
Local Open Scope bool_scope.

Lemma is_nil_false {A} (l : list A) : is_nil l = false -> l <> [].
Proof. destruct l; [discriminate|intros _; discriminate]. Qed.

Lemma wf_raw_b_sound : forall n v, (rsize v <= n)%nat -> wf_raw_b v = true -> wf_raw v.
Proof.
  induction n as [|n IH]; intros v Hn H; [pose proof (rsize_pos v); lia|].
  destruct v as [t|fs|l].
  - exact H.
  - apply wf_raw_msg. rewrite rsize_msg in Hn.
    change (wf_raw_b (RMsg fs)) with ((fix go (l : list (ident * rawval)) : bool :=
                  match l with [] => true | (_, x) :: r => wf_raw_b x && go r end) fs) in H.
    assert (Hs : (rsize_fields fs <= n)%nat) by lia. clear Hn.
    induction fs as [|[k x] r IHr]; [exact I|]. cbn [rsize_fields] in Hs. apply andb_true_iff in H as [H1 H2].
    cbn [wf_raw_fields]. split; [apply IH; [lia|exact H1]|apply IHr; [exact H2|lia]].
  - apply wf_raw_list. rewrite rsize_list in Hn.
    change (wf_raw_b (RList l)) with ((fix go (l : list rawval) : bool :=
                      match l with [] => true | x :: r => wf_raw_b x && go r end) l) in H.
    assert (Hs : (rsize_elems l <= n)%nat) by lia. clear Hn.
    induction l as [|x r IHr]; [exact I|]. cbn [rsize_elems] in Hs. apply andb_true_iff in H as [H1 H2].
    cbn [wf_raw_elems]. split; [apply IH; [lia|exact H1]|apply IHr; [exact H2|lia]].
Qed.

Lemma wf_dopt_b_sound o : wf_dopt_b o = true -> wf_dopt o.
Proof.
  unfold wf_dopt_b. intro H. apply andb_true_iff in H as [H H3]. apply andb_true_iff in H as [H1 H2].
  split; [apply qname_eqb_eq; exact H1|]. split.
  - unfold wf_pn. apply is_nil_false. apply negb_true_iff. exact H2.
  - apply (wf_raw_b_sound (rsize (o_val o))); [lia|exact H3].
Qed.

Lemma forallb_Forall {A} (f : A -> bool) (P : A -> Prop) (l : list A) :
  (forall x, f x = true -> P x) -> forallb f l = true -> Forall P l.
Proof. intros H Hf. rewrite forallb_forall in Hf. rewrite Forall_forall. intros x Hx. apply H. apply Hf. exact Hx. Qed.

Lemma wf_target_b_sound st pkg rp path : wf_target_b st pkg rp path = true -> wf_target st pkg rp path.
Proof.
  unfold wf_target_b, wf_target. destruct (qname_eqb pkg rp) eqn:E; intro H; split; intro E'; try discriminate.
  - intros k Hk. unfold wf_ref_b in H. rewrite forallb_forall in H. apply H. apply in_seq. lia.
  - apply andb_true_iff in H as [H H3]. apply andb_true_iff in H as [H1 H2].
    split; [apply is_nil_false; apply negb_true_iff; exact H1|]. split; [|exact H3].
    apply existsb_exists in H2 as (q & Hq & Eq). apply qname_eqb_eq in Eq. subst q. exact Hq.
Qed.

Lemma wf_tref_b_sound x pkg rp path : wf_tref_b x pkg rp path = true -> wf_tref x pkg rp path.
Proof.
  unfold wf_tref_b. intro H. apply andb_true_iff in H as [H H3].
  apply andb_true_iff in H as [H1 H2]. split; [apply is_nil_false; apply negb_true_iff; exact H1|].
  split; [apply wf_target_b_sound; exact H2|].
  apply existsb_exists in H3 as (e & He & Ee). unfold entry_eqb in Ee. cbn [fst snd] in Ee.
  apply andb_true_iff in Ee as [E1 E2]. apply qname_eqb_eq in E1, E2. destruct e as [a b]. cbn [fst snd] in *. subst. exact He.
Qed.

Lemma wf_dvt_b_sound x pkg t : wf_dvt_b x pkg t = true -> wf_dvt x pkg t.
Proof. destruct t; cbn [wf_dvt_b wf_dvt]; [auto|apply wf_tref_b_sound]. Qed.

Lemma wf_dfield_b_sound x pkg f : wf_dfield_b x pkg f = true -> wf_dfield x pkg f.
Proof.
  unfold wf_dfield_b, wf_dfield. intro H. apply andb_true_iff in H as [H1 H2]. split.
  - destruct (f_type f) as [v|k entry v]; cbn [wf_dtype_b wf_dtype] in *.
    + apply wf_dvt_b_sound. exact H1.
    + apply andb_true_iff in H1 as [H1 Hv]. apply andb_true_iff in H1 as [Hk He].
      split; [exact Hk|]. split; [apply ident_eqb_eq; exact He|apply wf_dvt_b_sound; exact Hv].
  - apply (forallb_Forall wf_dopt_b); [exact wf_dopt_b_sound|exact H2].
Qed.

Lemma wf_delem_b_sound x pkg : forall n e, (ddepth e <= n)%nat -> wf_delem_b x pkg e = true -> wf_delem x pkg e.
Proof.
  induction n as [|n IH]; intros e Hn H; [pose proof (ddepth_pos e); lia|].
  destruct e as [f|k c nm o fs|k c nm o body|k c nm o vs|k c nm o ms]; cbn [wf_delem_b] in H.
  - apply wf_dfield_b_sound. exact H.
  - apply andb_true_iff in H as [H1 H2]. split; [apply (forallb_Forall wf_dopt_b); [exact wf_dopt_b_sound|exact H1]|].
    apply (forallb_Forall (wf_dfield_b x pkg)); [apply wf_dfield_b_sound|exact H2].
  - apply andb_true_iff in H as [H1 H2]. apply wf_delem_msg.
    split; [apply (forallb_Forall wf_dopt_b); [exact wf_dopt_b_sound|exact H1]|].
    change (ddepth (DMsg k c nm o body)) with (S (ddepths body)) in Hn.
    assert (Hd : (ddepths body <= n)%nat) by lia. clear Hn H1.
    induction body as [|y r IHr]; [exact I|]. cbn [ddepths] in Hd. apply andb_true_iff in H2 as [Hy Hr].
    cbn [wf_delems]. split; [apply IH; [lia|exact Hy]|apply IHr; [exact Hr|lia]].
  - apply andb_true_iff in H as [H1 H2]. split; [apply (forallb_Forall wf_dopt_b); [exact wf_dopt_b_sound|exact H1]|].
    apply (forallb_Forall wf_dvalue_b); [|exact H2]. intros v Hv. unfold wf_dvalue_b in Hv. apply andb_true_iff in Hv as [A B].
    split; [apply negb_true_iff; exact A|apply (forallb_Forall wf_dopt_b); [exact wf_dopt_b_sound|exact B]].
  - apply andb_true_iff in H as [H1 H2]. split; [apply (forallb_Forall wf_dopt_b); [exact wf_dopt_b_sound|exact H1]|].
    apply (forallb_Forall (wf_dmethod_b x pkg)); [|exact H2]. intros m Hm. unfold wf_dmethod_b in Hm.
    apply andb_true_iff in Hm as [Hm C]. apply andb_true_iff in Hm as [A B].
    split; [apply wf_tref_b_sound; exact A|]. split; [apply wf_tref_b_sound; exact B|].
    apply (forallb_Forall wf_dopt_b); [exact wf_dopt_b_sound|exact C].
Qed.

Lemma flat_unique_b_sound x : flat_unique_b x = true -> flat_unique x.
Proof.
  unfold flat_unique_b, flat_unique. intros H e1 e2 H1 H2 E. rewrite forallb_forall in H. specialize (H e1 H1).
  rewrite forallb_forall in H. specialize (H e2 H2). apply orb_true_iff in H as [H|H].
  - apply negb_true_iff in H. rewrite E, qname_eqb_refl in H. discriminate.
  - unfold entry_eqb in H. apply andb_true_iff in H as [A B]. apply qname_eqb_eq in A, B.
    destruct e1, e2. cbn [fst snd] in *. subst. reflexivity.
Qed.

Theorem wf_dfile_b_sound imp d : wf_dfile_b imp d = true -> wf_dfile imp d.
Proof.
  unfold wf_dfile_b, wf_dfile. cbv zeta. intro H.
  apply andb_true_iff in H as [H H6]. apply andb_true_iff in H as [H H5]. apply andb_true_iff in H as [H H4].
  apply andb_true_iff in H as [H H3]. apply andb_true_iff in H as [H1 H2].
  split; [apply is_nil_false; apply negb_true_iff; exact H1|]. split; [apply flat_unique_b_sound; exact H2|].
  split; [apply (forallb_Forall (fun o : ident * token => is_scalar_token (snd o))); [intros o Ho; exact Ho|exact H3]|].
  split.
  - apply (forallb_Forall (wf_dext_b (dfile_symtab imp d) (d_pkg d))); [|exact H4]. intros xf Hx. unfold wf_dext_b in Hx.
    apply andb_true_iff in Hx as [Hx C]. apply andb_true_iff in Hx as [A B].
    split; [apply is_nil_false; apply negb_true_iff; exact A|]. split; [apply wf_dfield_b_sound; exact B|apply bytes_eqb_eq; exact C].
  - split.
    + clear -H5. induction (d_body d) as [|e r IH]; [exact I|]. cbn [forallb] in H5. apply andb_true_iff in H5 as [He Hr].
      cbn [wf_delems]. split; [apply (wf_delem_b_sound _ _ (ddepth e)); [lia|exact He]|apply IH; exact Hr].
    + apply (forallb_Forall is_dtop_b); [|exact H6]. intros e He. destruct e; try discriminate He; exact I.
Qed.

(* CodecDecOneofReorder.v — the members of a oneof body ("!type" and the arm key, null members) in any
   order: the body is the chain of its non-type member steps followed by the checks of decodeOneofInner,
   which only look at the set of keys found and at the "!type" value.  With at most one "!type" member
   every permutation of the body decodes alike. *)
From Coq Require Import String List NArith ZArith Bool Lia Permutation.
From J5V.lib Require Import Outcome Json.
From J5V.model Require Import CodecTypes CodecDecScalar CodecDec CodecDecTree.
From J5V.proofs Require Import CodecDecProofs CodecDecStored CodecDecMsgSorted CodecDecSupport CodecDecLocal
                               CodecDecTreeUnfold CodecDecTreeFuel CodecDecReorder CodecDecFaults.
Import ListNotations.
Local Open Scope N_scope.

Definition is_type (kv : bytes * jvalue) : bool := bytes_eqb (fst kv) type_key.
Definition nontype (ms : list (bytes * jvalue)) : list (bytes * jvalue) := filter (fun kv => negb (is_type kv)) ms.
Definition type_count (ms : list (bytes * jvalue)) : nat := length (filter is_type ms).
Definition types_ok (ms : list (bytes * jvalue)) : Prop :=
  Forall (fun kv => is_type kv = true -> exists s, snd kv = JStr s) ms.

Lemma filter_perm {A} (f : A -> bool) l l' : Permutation l l' -> Permutation (filter f l) (filter f l').
Proof.
  induction 1 as [|x l l' P IH|x y l|l l' l'' P1 IH1 P2 IH2]; cbn [filter].
  - constructor.
  - destruct (f x); [constructor|]; exact IH.
  - destruct (f x), (f y); try apply Permutation_refl. apply perm_swap.
  - eapply perm_trans; eassumption.
Qed.

Lemma type_count_perm ms ms' : Permutation ms ms' -> type_count ms = type_count ms'.
Proof. intros P. unfold type_count. apply Permutation_length. apply filter_perm. exact P. Qed.

Lemma type_count_cons k v l :
  type_count ((k, v) :: l) = if bytes_eqb k type_key then S (type_count l) else type_count l.
Proof. unfold type_count. cbn [filter]. unfold is_type at 1. cbn [fst]. destruct (bytes_eqb k type_key); reflexivity. Qed.

Lemma last_type_perm ms ms' : Permutation ms ms' -> (type_count ms <= 1)%nat -> forall c, last_type ms c = last_type ms' c.
Proof.
  induction 1 as [|[k v] l l' P IH|[k1 v1] [k2 v2] l|l l' l'' P1 IH1 P2 IH2]; intros Hc c.
  - reflexivity.
  - cbn [last_type]. rewrite type_count_cons in Hc.
    destruct (bytes_eqb k type_key); [destruct v; apply IH; lia|apply IH; exact Hc].
  - cbn [last_type]. rewrite !type_count_cons in Hc.
    destruct (bytes_eqb k1 type_key), (bytes_eqb k2 type_key); try lia; reflexivity.
  - rewrite IH1 by exact Hc. apply IH2. rewrite <- (type_count_perm _ _ P1). exact Hc.
Qed.

Lemma oneof_post_perm props m found found' c : Permutation found found' ->
  oneof_post props m found c = oneof_post props m found' c.
Proof.
  intros P. unfold oneof_post. rewrite <- (Permutation_length P).
  destruct (N.of_nat (length found) =? 0) eqn:E0; [reflexivity|].
  destruct (1 <? N.of_nat (length found)) eqn:E1; [reflexivity|].
  destruct found as [|k [|k2 r]].
  - cbn in E0. discriminate.
  - apply Permutation_length_1_inv in P. subst found'. reflexivity.
  - cbn [length] in E1. apply N.ltb_ge in E1. lia.
Qed.

Section OneofReorder.
  Variable orc : oracles.
  Variable e : env.

  Lemma nontype_cons kv r : nontype (kv :: r) = if is_type kv then nontype r else kv :: nontype r.
  Proof. unfold nontype. cbn [filter]. destruct (is_type kv); reflexivity. Qed.

  (* a oneof body = its non-type member steps, then the checks *)
  Lemma tr_oneof_decomp f : forall d props ms m seen found c m'',
    tr_oneof orc e f d props ms m seen found c = Ok m'' ->
    types_ok ms /\ exists m1, orun orc e d props (nontype ms) m seen m1 /\
                              oneof_post props m1 (found ++ map fst (nontype ms)) (last_type ms c) = Ok m''.
  Proof.
    induction f as [|f IH]; intros d props ms m seen found c m'' H; [discriminate|].
    rewrite tr_oneof_S in H. destruct ms as [|[key v] r].
    - split; [constructor|]. exists m. split; [constructor|]. cbn [nontype filter map last_type]. rewrite app_nil_r. exact H.
    - rewrite nontype_cons. unfold is_type. cbn [fst last_type]. destruct (bytes_eqb key type_key) eqn:Ek.
      + destruct v; try discriminate. destruct (IH _ _ _ _ _ _ _ _ H) as (T & m1 & R & Hp).
        split; [constructor; [intros _; eexists; reflexivity|exact T]|]. exists m1. split; assumption.
      + destruct (find_prop props key) as [p|] eqn:Ep; [|discriminate].
        destruct (tr_member d (tr_present orc e f (d + 1) p) p v m seen) as [[m1 s1]| | |] eqn:Em; cbn [obind fst snd] in H; try discriminate.
        destruct (IH _ _ _ _ _ _ _ _ H) as (T & m2 & R & Hp).
        split; [constructor; [unfold is_type; cbn [fst]; rewrite Ek; discriminate|exact T]|].
        exists m2. split.
        * econstructor; [exists p, f; split; [exact Ep|exact Em]|exact R].
        * cbn [map fst].
          replace (found ++ key :: map fst (nontype r)) with ((found ++ [key]) ++ map fst (nontype r))
            by (rewrite <- app_assoc; reflexivity).
          exact Hp.
  Qed.

  Lemma tr_oneof_compose d props : forall ms m seen found c m1 m'',
    types_ok ms -> orun orc e d props (nontype ms) m seen m1 ->
    oneof_post props m1 (found ++ map fst (nontype ms)) (last_type ms c) = Ok m'' ->
    exists f, tr_oneof orc e f d props ms m seen found c = Ok m''.
  Proof.
    induction ms as [|[key v] r IH]; intros m seen found c m1 m'' T R Hp.
    - cbn [nontype filter map last_type] in *. rewrite app_nil_r in Hp. inversion R; subst. exists 1%nat. exact Hp.
    - inversion T as [|kv l Hkv Tr]; subst. rewrite nontype_cons in R, Hp. unfold is_type in *. cbn [fst snd last_type] in *.
      destruct (bytes_eqb key type_key) eqn:Ek.
      + destruct (Hkv eq_refl) as [s ->].
        destruct (IH m seen found (Some s) m1 m'' Tr R Hp) as (f & H). exists (S f). rewrite tr_oneof_S, Ek. exact H.
      + inversion R as [|kv0 r0 m0 s0 m2 s2 m0' (p & f1 & Ep & Em) Rr]; subst. cbn [fst snd] in Ep, Em.
        cbn [map fst] in Hp.
        replace (found ++ key :: map fst (nontype r)) with ((found ++ [key]) ++ map fst (nontype r)) in Hp
          by (rewrite <- app_assoc; reflexivity).
        destruct (IH m2 s2 (found ++ [key]) c m1 m'' Tr Rr Hp) as (f2 & H).
        exists (S (f1 + f2)). rewrite tr_oneof_S, Ek, Ep.
        rewrite (tr_member_more_fuel orc e d p v m seen f1 f2 _ Em). cbn [obind fst snd].
        rewrite Nat.add_comm. apply (tr_oneof_more_fuel orc e f2 f1); [exact H|discriminate].
  Qed.

  Theorem reordered_oneof d props ms ms' m seen found c m'' f :
    props_commute e props -> Permutation ms ms' -> (type_count ms <= 1)%nat -> wf m ->
    tr_oneof orc e f d props ms m seen found c = Ok m'' ->
    exists f', tr_oneof orc e f' d props ms' m seen found c = Ok m''.
  Proof.
    intros PC P Hc W H. destruct (tr_oneof_decomp f _ _ _ _ _ _ _ _ H) as (T & m1 & R & Hp).
    apply (tr_oneof_compose d props ms' m seen found c m1 m'').
    - unfold types_ok in *. exact (Permutation_Forall P T).
    - apply (orun_perm orc e d props (nontype ms) (nontype ms') PC (filter_perm _ _ _ P) m seen seen m1 W (seen_eq_refl seen) R).
    - rewrite <- (last_type_perm ms ms' P Hc c).
      rewrite <- (oneof_post_perm props m1 (found ++ map fst (nontype ms)) (found ++ map fst (nontype ms')) (last_type ms c)); [exact Hp|].
      apply Permutation_app_head. apply Permutation_map. apply filter_perm. exact P.
  Qed.
End OneofReorder.

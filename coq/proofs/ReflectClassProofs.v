(* ReflectClassProofs.v — cache transparency, the other half: a SchemaCache with any history answers
   a message exactly when a fresh cache does (hypothesis wf_keys). Together with ReflectDeclProofs
   (the answers are the same schema) the answer of SchemaCache.Schema does not depend on the calls
   made before. The core is a completion lemma: if a message is linked in some good state [sa], then
   building it from any good state [sb] that lacks it succeeds, because every local check is decided
   by the descriptors (the declared schema exists), every nested message it needs is linked in [sa]
   as well, and a flatten cycle found on the [sb] side would be a cycle of [sa]. *)
From Coq Require Import String List Arith NArith ZArith Bool Lia.
From J5V.lib Require Import Outcome.
From J5V.model Require Import ReflectDesc ReflectSchema Reflect ReflectSpec Export ReflectDecl.
From J5V.proofs Require Import ReflectProofs ExportProofs ReflectInvProofs ReflectPathProofs ReflectFlattenProofs ReflectDeclProofs.
Import ListNotations.
Local Open Scope bool_scope.

(* ---------------------------------------------------------------- an exposed oneof's entry only next to its message's *)
Section Owner.
Variable D : desc.
Hypothesis Hwf : wf_keys D.

Definition Owner (st : sset) : Prop :=
  forall n k, In n (d_msgs D) -> exposed_key_b n k = true -> has_key st k = true -> has_key st (msg_key n) = true.

Lemma Owner_nil : Owner [].
Proof. intros n k _ _ H. discriminate. Qed.

Lemma has_key_update st k e k' : has_key (update st k e) k' = has_key st k'.
Proof.
  unfold has_key. rewrite lookup_update. destruct (ref_eqb k k') eqn:E; [|reflexivity].
  apply ref_eqb_eq in E. subst k'. destruct (lookup st k); reflexivity.
Qed.

Lemma Owner_update st k e : Owner st -> Owner (update st k e).
Proof. intros H n k' Hn Hk Hh. rewrite has_key_update in *. eapply H; eauto. Qed.

Lemma Owner_cons_msg st m e : Owner st -> In m (d_msgs D) -> Owner ((msg_key m, e) :: st).
Proof.
  intros H Hm n k Hn Hk Hh. rewrite has_key_cons in *. apply orb_true_iff in Hh as [Hh|Hh].
  - apply ref_eqb_eq in Hh. subst k. exfalso. eapply (K2 D Hwf m n); eauto.
  - apply orb_true_iff. right. eapply H; eauto.
Qed.

Lemma Owner_cons_enum st e en : Owner st -> In e (d_enums D) -> Owner ((enum_key e, en) :: st).
Proof.
  intros H He n k Hn Hk Hh. rewrite has_key_cons in *. apply orb_true_iff in Hh as [Hh|Hh].
  - apply ref_eqb_eq in Hh. subst k. exfalso. eapply (K5 D Hwf e n); eauto.
  - apply orb_true_iff. right. eapply H; eauto.
Qed.

Lemma Owner_cons_oneof st m0 k en :
  Owner st -> In m0 (d_msgs D) -> exposed_key_b m0 k = true -> has_key st (msg_key m0) = true -> Owner ((k, en) :: st).
Proof.
  intros H Hm0 Hk0 Hown n k' Hn Hk Hh. rewrite has_key_cons in *. apply orb_true_iff. right.
  apply orb_true_iff in Hh as [Hh|Hh].
  - apply ref_eqb_eq in Hh. subst k'. assert (n = m0) by (eapply (K4 D Hwf); eauto). subst n. exact Hown.
  - eapply H; eauto.
Qed.

(* --- the pass over the reader *)
Lemma build_enum_field_own st f x st1 s :
  Owner st -> build_enum_field D st f x = Ok (st1, s) -> Owner st1.
Proof.
  intros HO H. unfold build_enum_field in H.
  destruct (f_ty f) as [|full|full]; try discriminate.
  destruct (find_enum D full) as [e|] eqn:Ef; [|discriminate].
  assert (He : In e (d_enums D)) by (eapply find_enum_In; eauto).
  destruct (enum_ref st e) as [st0| | |] eqn:Er; cbn [obind] in H; try discriminate.
  assert (HO0 : Owner st0).
  { destruct (enum_ref_inv st e st0 Er) as [[-> _]|(_ & r & _ & ->)]; [exact HO|apply Owner_cons_enum; assumption]. }
  match type of H with obind ?o _ = _ => destruct o as [rules| | |]; cbn [obind] in H; try discriminate end.
  inversion H; subst. exact HO0.
Qed.

Section LevelOwn.
Variable rec : sset -> msgd -> outcome (sset * root).
Hypothesis HrecO : forall st m st1 r, In m (d_msgs D) -> Owner st -> has_key st (msg_key m) = true ->
  rec st m = Ok (st1, r) -> Owner st1.

Lemma build_message_field_own st f x st1 s :
  Owner st -> build_message_field D rec st f x = Ok (st1, s) -> Owner st1.
Proof.
  intros HO H. unfold build_message_field in H.
  destruct (f_ty f) as [|full|full]; try discriminate.
  destruct (wkt_schema full x) as [[w|]|cls]; cbn [lift obind] in H; try discriminate.
  - inversion H; subst. exact HO.
  - destruct (has_prefix s_google_protobuf full); [discriminate|].
    destruct (find_msg D full) as [m|] eqn:Ef; [|discriminate].
    assert (Hm : In m (d_msgs D)) by (eapply find_msg_In; eauto).
    destruct (lookup st (msg_key m)) as [en|] eqn:El; [destruct (is_enum_entry en); cbn [obind] in H; [discriminate|]|cbn [obind] in H].
    + inversion H; subst. exact HO.
    + destruct (rec ((msg_key m, Placeholder) :: st) m) as [[st2 r]| | |] eqn:Er; cbn [obind] in H; try discriminate.
      inversion H; subst st1 s. apply Owner_update.
      eapply HrecO; [exact Hm|exact (Owner_cons_msg st m Placeholder HO Hm)| |exact Er].
      rewrite has_key_cons, ref_eqb_refl. reflexivity.
Qed.

Lemma build_schema_own st f x st1 s :
  Owner st -> build_schema D rec st f x = Ok (st1, s) -> Owner st1.
Proof.
  intros HO H. unfold build_schema in H.
  destruct (f_kind f);
    try (destruct (build_scalar _ x) as [p|cls]; cbn [lift obind] in H; [|discriminate]; inversion H; subst; exact HO).
  - eapply build_enum_field_own; eauto.
  - eapply build_message_field_own; eauto.
Qed.

Lemma build_field_prop_own st f st1 p :
  Owner st -> build_field_prop D rec st f = Ok (st1, p) -> Owner st1.
Proof.
  intros HO H. unfold build_field_prop in H.
  assert (Hk : forall x (mk : fschema -> prop),
             obind (build_schema D rec st f x) (fun '(st1, s) => Ok (st1, mk s)) = Ok (st1, p) -> Owner st1).
  { intros x mk H'. destruct (build_schema D rec st f x) as [[a b]| | |] eqn:Eb; cbn [obind] in H'; try discriminate.
    inversion H'; subst. eapply build_schema_own; eauto. }
  destruct (f_card f) as [| | |kk]; try (eapply Hk; exact H).
  - destruct (x_vty (field_exts f)); cbn in *; eapply Hk; exact H.
  - destruct (negb (kind_eqb kk KString)); [discriminate|]. destruct (x_vty (field_exts f)); cbn in *; eapply Hk; exact H.
Qed.

Lemma fields_loop_own m fs : forall st exs st2 exs2 ps,
  Owner st -> fields_loop D rec m st exs fs = Ok (st2, exs2, ps) -> Owner st2.
Proof.
  induction fs as [|f r IH]; intros st exs st2 exs2 ps HO H; cbn [fields_loop] in H.
  - inversion H; subst. exact HO.
  - destruct (build_field_prop D rec st f) as [[st1 p]| | |] eqn:Eb; cbn [obind] in H; try discriminate.
    pose proof (build_field_prop_own _ _ _ _ HO Eb) as HO1.
    assert (Hd : forall exs' (q : list prop -> list prop),
              obind (fields_loop D rec m st1 exs' r) (fun '(st2, exs2, ps) => Ok (st2, exs2, q ps)) = Ok (st2, exs2, ps) -> Owner st2).
    { intros exs' q H'. destruct (fields_loop D rec m st1 exs' r) as [[[a b] c]| | |] eqn:E; cbn [obind] in H'; try discriminate.
      inversion H'; subst. eapply IH; eauto. }
    destruct (f_card f); try (apply (Hd exs (cons p)); exact H);
      (destruct (f_oneof f) as [idx|]; [|apply (Hd exs (cons p)); exact H];
       destruct (oneof_is_synthetic m idx); [apply (Hd exs (cons p)); exact H|];
       destruct (add_to_exposed exs idx p) as [[exs1 pending]|]; [|apply (Hd exs (cons p)); exact H];
       apply (Hd exs1 (fun ps => match pending with Some pp => pp :: ps | None => ps end)); exact H).
Qed.

Lemma register_oneofs_own m : In m (d_msgs D) -> forall os idx st st1 exs,
  (forall o, In o os -> In o (m_oneofs m)) -> Owner st -> has_key st (msg_key m) = true ->
  register_oneofs m st idx os = ROk (st1, exs) -> Owner st1.
Proof.
  intros Hm. induction os as [|[name jname syn ext0 d] r IH]; intros idx st st1 exs Hsub HO Hown H; cbn [register_oneofs] in H.
  - inversion H; subst. exact HO.
  - assert (Hr : forall o, In o r -> In o (m_oneofs m)) by (intros o Ho; apply Hsub; right; exact Ho).
    destruct syn; [eapply IH; eauto|].
    destruct ext0 as [[|]|]; try (eapply IH; eauto; fail).
    destruct (lookup st (oneof_key m name)) eqn:El; [discriminate|].
    destruct (register_oneofs m _ (N.succ idx) r) as [[st2 exs2]|] eqn:E; cbn [rbind] in H; [|discriminate].
    inversion H; subst st1 exs. eapply IH; [exact Hr| | |exact E].
    + eapply Owner_cons_oneof; [exact HO|exact Hm| |exact Hown].
      eapply exposed_key_intro. apply Hsub. left. reflexivity.
    + rewrite has_key_cons, Hown. apply orb_true_r.
Qed.

Lemma finish_oneofs_own : forall exs st, Owner st -> Owner (finish_oneofs st exs).
Proof.
  unfold finish_oneofs. induction exs as [|e r IH]; intros st HO; cbn [fold_left]; [exact HO|].
  destruct (lookup st (ex_key e)) as [[|[| nm dd ps|]]|]; try (apply IH; exact HO).
  apply IH. apply Owner_update. exact HO.
Qed.

Lemma build_root_own st m st1 r :
  In m (d_msgs D) -> Owner st -> has_key st (msg_key m) = true -> build_root D rec st m = Ok (st1, r) -> Owner st1.
Proof.
  intros Hm HO Hown H. unfold build_root, message_properties in H.
  destruct (register_oneofs m st 0 (m_oneofs m)) as [[sta exs]|cls] eqn:Ereg; cbn [lift obind] in H; [|discriminate].
  pose proof (register_oneofs_own m Hm _ _ _ _ _ (fun o Ho => Ho) HO Hown Ereg) as HOa.
  destruct (fields_loop D rec m sta exs (m_fields m)) as [[[stb exs2] ps]| | |] eqn:Ef; cbn [obind] in H; try discriminate.
  pose proof (fields_loop_own m _ _ _ _ _ _ HOa Ef) as HOb.
  destruct (existsb ex_pending exs2); cbn [obind] in H; [discriminate|]. destruct (negb (exs_names_ok exs2)); cbn [obind] in H; [discriminate|].
  destruct (negb (props_valid ps)); [discriminate|].
  destruct (is_oneof_wrapper m); [inversion H; subst; apply finish_oneofs_own; exact HOb|].
  destruct (flatten_cycle _ (msg_key m) ps) as [[|]|]; try discriminate.
  destruct (find_psm D m); cbn [lift obind] in H; [|discriminate]. inversion H; subst. apply finish_oneofs_own. exact HOb.
Qed.
End LevelOwn.

Lemma build_msg_own : forall fuel st m st1 r,
  In m (d_msgs D) -> Owner st -> has_key st (msg_key m) = true -> build_msg D fuel st m = Ok (st1, r) -> Owner st1.
Proof.
  induction fuel as [|fuel IH]; intros st m st1 r Hm HO Hown H; [discriminate|].
  cbn [build_msg] in H. eapply build_root_own; [exact IH|exact Hm|exact HO|exact Hown|exact H].
Qed.

Lemma message_schema_own fuel st m st1 r :
  In m (d_msgs D) -> Owner st -> message_schema D fuel st m = Ok (st1, r) -> Owner st1.
Proof.
  intros Hm HO H. unfold message_schema in H.
  destruct (lookup st (msg_key m)) as [[|r0]|] eqn:El; try discriminate.
  - inversion H; subst. exact HO.
  - destruct (build_msg D fuel ((msg_key m, Placeholder) :: st) m) as [[st2 r2]| | |] eqn:Eb; cbn [obind] in H; try discriminate.
    inversion H; subst st1 r. apply Owner_update.
    eapply build_msg_own; [exact Hm|exact (Owner_cons_msg st m Placeholder HO Hm)| |exact Eb].
    rewrite has_key_cons, ref_eqb_refl. reflexivity.
Qed.
End Owner.

(* ---------------------------------------------------------------- when the cycle search answers "cycle", there is one *)
Lemma flatten_walk_sound st rootk : forall fuel seen todo,
  flatten_walk fuel st rootk seen todo = Some true ->
  exists t, In t todo /\ (t = rootk \/ reach st t rootk).
Proof.
  induction fuel as [|fuel IH]; intros seen todo H; cbn [flatten_walk] in H; [discriminate|].
  destruct todo as [|k rest]; [discriminate|].
  destruct (ref_eqb k rootk) eqn:Ek.
  - apply ref_eqb_eq in Ek. exists k. split; [left; reflexivity|left; exact Ek].
  - destruct (existsb (ref_eqb k) seen).
    + destruct (IH _ _ H) as (t & Ht & Hr). exists t. split; [right; exact Ht|exact Hr].
    + destruct (IH _ _ H) as (t & Ht & Hr). apply in_app_or in Ht as [Ht|Ht].
      * exists k. split; [left; reflexivity|]. right.
        assert (He : edge st k t).
        { unfold edge, targets_of. destruct (lookup st k); [exact Ht|destruct Ht]. }
        destruct Hr as [->|Hr]; [apply reach_one; exact He|eapply reach_step; eauto].
      * exists t. split; [right; exact Ht|exact Hr].
Qed.

(* ---------------------------------------------------------------- where the declared properties of the fields end up *)
Section Places.
Variable D : desc.

Definition covers (exs exs2 : list exposed) : Prop :=
  forall q, (exists e, In e exs /\ In q (ex_props e)) -> exists e2, In e2 exs2 /\ In q (ex_props e2).

Lemma covers_refl exs : covers exs exs.
Proof. intros q H. exact H. Qed.
Lemma covers_trans a b c : covers a b -> covers b c -> covers a c.
Proof. intros H1 H2 q H. apply H2, H1, H. Qed.

Lemma add_to_exposed_covers exs idx p exs1 pending :
  add_to_exposed exs idx p = Some (exs1, pending) ->
  covers exs exs1 /\ exists e1, In e1 exs1 /\ In p (ex_props e1).
Proof.
  intros H. destruct (add_to_exposed_split _ _ _ _ _ H) as (l1 & e & l2 & -> & -> & _). split.
  - intros q (e0 & He0 & Hq). apply in_app_or in He0 as [He0|[<-|He0]].
    + exists e0. split; [apply in_or_app; left; exact He0|exact Hq].
    + exists (bump e p). split; [apply in_or_app; right; left; reflexivity|]. cbn [bump ex_props]. apply in_or_app. left. exact Hq.
    + exists e0. split; [apply in_or_app; right; right; exact He0|exact Hq].
  - exists (bump e p). split; [apply in_or_app; right; left; reflexivity|]. cbn [bump ex_props]. apply in_or_app. right. left. reflexivity.
Qed.

(* every field has a declared property, and it is among the object's properties or among the members
   of one of its exposed oneofs *)
Lemma decl_fields_places m fs : forall exs exs2 ps,
  decl_fields D m exs fs = ROk (exs2, ps) ->
  covers exs exs2 /\
  forall f, In f fs -> exists p, decl_field_prop D f = ROk p /\ (In p ps \/ exists e2, In e2 exs2 /\ In p (ex_props e2)).
Proof.
  induction fs as [|f r IH]; intros exs exs2 ps H; cbn [decl_fields] in H.
  - inversion H; subst. split; [apply covers_refl|intros f []].
  - destruct (decl_field_prop D f) as [p|cls] eqn:Ep; cbn [rbind] in H; [|discriminate].
    assert (Hdirect : forall exs' (q : list prop -> list prop),
              (forall l, incl l (q l)) ->
              (In p (q []) \/ exists e1, In e1 exs' /\ In p (ex_props e1)) ->
              (forall l, incl (q []) (q l)) ->
              rbind (decl_fields D m exs' r) (fun '(exs2, ps) => ROk (exs2, q ps)) = ROk (exs2, ps) ->
              covers exs' exs2 /\
              forall f0, In f0 (f :: r) -> exists p0, decl_field_prop D f0 = ROk p0 /\ (In p0 ps \/ exists e2, In e2 exs2 /\ In p0 (ex_props e2))).
    { intros exs' q Hq Hp Hq0 H'. destruct (decl_fields D m exs' r) as [[b c]|] eqn:E; cbn [rbind] in H'; [|discriminate].
      inversion H'; subst exs2 ps. destruct (IH _ _ _ E) as [Hc Hall]. split; [exact Hc|].
      intros f0 [<-|Hf0].
      - exists p. split; [exact Ep|]. destruct Hp as [Hp|Hp]; [left; apply (Hq0 c); exact Hp|right; apply Hc; exact Hp].
      - destruct (Hall f0 Hf0) as (p0 & E0 & [Hin|Hin]); exists p0; (split; [exact E0|]); [left; apply Hq; exact Hin|right; exact Hin]. }
    assert (Hcons : forall exs', rbind (decl_fields D m exs' r) (fun '(exs2, ps) => ROk (exs2, p :: ps)) = ROk (exs2, ps) ->
              covers exs' exs2 /\
              forall f0, In f0 (f :: r) -> exists p0, decl_field_prop D f0 = ROk p0 /\ (In p0 ps \/ exists e2, In e2 exs2 /\ In p0 (ex_props e2))).
    { intros exs'. apply (Hdirect exs' (cons p)).
      - intros l x Hx. right. exact Hx.
      - left. left. reflexivity.
      - intros l x [<-|[]]. left. reflexivity. }
    destruct (f_card f); try (apply Hcons; exact H);
      (destruct (f_oneof f) as [idx|]; [|apply Hcons; exact H];
       destruct (oneof_is_synthetic m idx); [apply Hcons; exact H|];
       destruct (add_to_exposed exs idx p) as [[exs1 pending]|] eqn:Ea; [|apply Hcons; exact H]).
    all: destruct (add_to_exposed_covers _ _ _ _ _ Ea) as [Hc1 Hp1].
    all: destruct (Hdirect exs1 (fun ps => match pending with Some pp => pp :: ps | None => ps end)) as [Hc2 Hall2];
      [intros l x Hx; destruct pending; [right; exact Hx|exact Hx]
      |right; exact Hp1
      |intros l x Hx; destruct pending; [destruct Hx as [<-|[]]; left; reflexivity|destruct Hx]
      |exact H|].
    all: split; [eapply covers_trans; eauto|exact Hall2].
Qed.
End Places.

(* ---------------------------------------------------------------- the completion lemma *)
Section Completion.
Variable D : desc.
Hypothesis Hwf : wf_keys D.
(* the reference state: good, and holding every message the completion will need *)
Variable sa : sset.
Hypothesis HCa : Canon D sa.
Hypothesis HSa : InvS D sa.
Hypothesis HAa : acyclic sa.

(* what is kept of the state the build runs in *)
Record IB (sb : sset) : Prop := mkIB {
  ib_canon : Canon D sb;
  ib_invs : InvS D sb;
  ib_acyc : acyclic sb;
  ib_own : Owner D sb;
  ib_ph : forall k, lookup sb k = Some Placeholder -> (exists n, In n (d_msgs D) /\ k = msg_key n) /\ has_key sa k = true;
  ib_pha : forall k, lookup sa k = Some Placeholder -> lookup sb k = Some Placeholder }.

(* the objects with flattened properties linked since [s0] are objects of [sa] *)
Definition NewIn (s0 s : sset) : Prop :=
  forall k r, lookup s k = Some (Linked r) -> entry_targets (Linked r) <> [] ->
    lookup s0 k = Some (Linked r) \/ lookup sa k = Some (Linked r).
Lemma NewIn_refl s : NewIn s s.
Proof. intros k r H _. left. exact H. Qed.
Lemma NewIn_trans a b c : NewIn a b -> NewIn b c -> NewIn a c.
Proof. intros H1 H2 k r H Ht. destruct (H2 k r H Ht) as [Hb|Hs]; [exact (H1 k r Hb Ht)|right; exact Hs]. Qed.

Lemma IB_of_passes s s1 :
  IB s -> Canon D s1 -> InvS D s1 -> acyclic s1 -> Owner D s1 -> keeps s s1 -> noplace s s1 -> IB s1.
Proof.
  intros HB H1 H2 H3 H4 Hk Hn. constructor; try assumption.
  - intros k Hl. apply (ib_ph s HB). apply Hn. exact Hl.
  - intros k Hl. apply Hk. apply (ib_pha s HB). exact Hl.
Qed.

(* the references of a declared property of a message linked in [sa] are names of [sa] *)
Lemma sa_field_refs n r f p :
  In n (d_msgs D) -> lookup sa (msg_key n) = Some (Linked r) -> In f (m_fields n) ->
  decl_field_prop D f = ROk p -> refs_keyed sa (field_refs (p_schema p)).
Proof.
  intros Hn Hl Hf Hp.
  destruct (proj2 HCa n r Hn Hl) as [Hr Hfin].
  unfold decl_root in Hr. destruct (decl_props D n) as [[exs2 ps]|] eqn:Edp; cbn [rbind] in Hr; [|discriminate].
  assert (Hps : root_props r = ps).
  { destruct (is_oneof_wrapper n); [inversion Hr; reflexivity|].
    destruct (find_psm D n); cbn [rbind] in Hr; [|discriminate]. inversion Hr. reflexivity. }
  pose proof Edp as Edp0. unfold decl_props in Edp.
  destruct (decl_fields D n (decl_exposed n 0 (m_oneofs n)) (m_fields n)) as [[exs0 ps0]|] eqn:Ef; cbn [rbind] in Edp; [|discriminate].
  destruct (existsb ex_pending exs0); [discriminate|]. destruct (negb (exs_names_ok exs0)); [discriminate|]. destruct (negb (props_valid ps0)); [discriminate|].
  inversion Edp; subst exs0 ps0.
  destruct (decl_fields_places D n _ _ _ _ Ef) as [_ Hall].
  destruct (Hall f Hf) as (p0 & Ep0 & Hwhere). rewrite Hp in Ep0. inversion Ep0; subst p0.
  destruct HSa as (_ & Hclosed & _).
  destruct Hwhere as [Hin|(e2 & He2 & Hin)].
  - destruct (Hclosed _ _ Hl) as [_ Hk]. intros k Hk0. apply Hk. unfold root_refs. rewrite Hps.
    apply in_flat_map. exists p. split; assumption.
  - pose proof (Hfin _ _ e2 Edp0 He2) as Hle. destruct (Hclosed _ _ Hle) as [_ Hk]. intros k Hk0. apply Hk.
    unfold root_refs, decl_oneof_of. cbn [root_props]. apply in_flat_map. exists p. split; assumption.
Qed.

Lemma decl_root_not_enum m r : decl_root D m = ROk r -> is_enum_entry (Linked r) = false.
Proof.
  unfold decl_root. destruct (decl_props D m) as [[exs ps]|]; cbn [rbind]; [|discriminate].
  destruct (is_oneof_wrapper m); [intros H; inversion H; reflexivity|].
  destruct (find_psm D m); cbn [rbind]; [|discriminate]. intros H; inversion H. reflexivity.
Qed.

Section LevelComp.
Variable fl : nat.
Variable rec : sset -> msgd -> outcome (sset * root).
Hypothesis HrecK : forall st m, Pk fst st (rec st m).
Hypothesis HrecC : forall st m st1 r, In m (d_msgs D) -> Canon D st -> lookup st (msg_key m) = Some Placeholder ->
  rec st m = Ok (st1, r) -> Canon D st1 /\ decl_root D m = ROk r /\ oneofs_final D st1 m.
Hypothesis HrecP : forall st m, In m (d_msgs D) -> InvS D st -> unvisited D st < fl -> Ps D fst Qr st (rec st m).
Hypothesis HrecA : forall st m st1 r, acyclic st -> rec st m = Ok (st1, r) -> acyclic (update st1 (msg_key m) (Linked r)).
Hypothesis HrecO : forall st m st1 r, In m (d_msgs D) -> Owner D st -> has_key st (msg_key m) = true ->
  rec st m = Ok (st1, r) -> Owner D st1.
(* the completion at the level below *)
Hypothesis HrecComp : forall s n r, IB s -> In n (d_msgs D) -> lookup sa (msg_key n) = Some (Linked r) ->
  lookup s (msg_key n) = None -> unvisited D s <= fl ->
  exists s1, rec ((msg_key n, Placeholder) :: s) n = Ok (s1, r) /\ NewIn s (update s1 (msg_key n) (Linked r)).

(* one field: the invariants of the state after it, from the passes *)
Lemma IB_field_step s f s1 p :
  IB s -> unvisited D s <= fl -> build_field_prop D rec s f = Ok (s1, p) -> IB s1 /\ keeps s s1 /\ ext s s1.
Proof.
  intros HB HU H.
  destruct (build_field_prop_decl D Hwf rec HrecC _ _ _ _ (ib_canon s HB) H) as [_ HC1].
  pose proof (build_field_prop_ps D Hwf fl rec HrecP s f (ib_invs s HB) HU) as HP. rewrite H in HP.
  destruct HP as (HI1 & He1 & Hn1 & _).
  pose proof (build_field_prop_acyc D rec HrecA _ _ _ _ (ib_acyc s HB) H) as HA1.
  pose proof (build_field_prop_own D Hwf rec HrecO _ _ _ _ (ib_own s HB) H) as HO1.
  pose proof (build_field_prop_k D rec HrecK s f) as HK. rewrite H in HK. cbn [Pk fst] in HK.
  split; [eapply IB_of_passes; eauto|]. split; assumption.
Qed.

Lemma enum_field_success s f x sch :
  IB s -> decl_enum_field D f x = ROk sch ->
  exists s1, build_enum_field D s f x = Ok (s1, sch) /\ NewIn s s1.
Proof.
  intros HB Hd. unfold decl_enum_field in Hd. unfold build_enum_field.
  destruct (f_ty f) as [|full|full]; try discriminate.
  destruct (find_enum D full) as [e|] eqn:Ef; [|discriminate].
  assert (He : In e (d_enums D)) by (eapply find_enum_In; eauto).
  destruct (build_enum e) as [[| |a b c d g]| | |] eqn:Eb; try discriminate.
  (* the ref: a linked enum, or built now *)
  assert (Hst : exists s1, enum_ref s e = Ok s1 /\ lookup s1 (enum_key e) = Some (Linked (REnum a b c d g)) /\ NewIn s s1).
  { unfold enum_ref. destruct (lookup s (enum_key e)) as [[|r0]|] eqn:El.
    - exfalso. destruct (ib_ph s HB _ El) as [(n & Hn & Hk) _]. eapply (K3 D Hwf n e); eauto.
    - pose proof (proj1 (ib_canon s HB) e r0 He El) as Hr0. rewrite Eb in Hr0. inversion Hr0; subst r0.
      exists s. split; [reflexivity|]. split; [exact El|apply NewIn_refl].
    - rewrite Eb. cbn [obind]. eexists. split; [reflexivity|]. split; [rewrite lookup_cons, ref_eqb_refl; reflexivity|].
      intros k r Hl Ht. rewrite lookup_cons in Hl. destruct (ref_eqb (enum_key e) k); [inversion Hl; subst r; exfalso; apply Ht; reflexivity|left; exact Hl]. }
  destruct Hst as (s1 & Hs1 & Hl1 & Hn1). rewrite Hs1. cbn [obind]. rewrite Hl1.
  destruct (x_vty x); cbn [obind rbind lift] in *;
    try (inversion Hd; subst sch; exists s1; split; [reflexivity|exact Hn1]).
  match type of Hd with context [rbind ?rr _] => destruct rr as [rules|cls] eqn:Er end; cbn [rbind] in Hd; [|discriminate].
  inversion Hd; subst sch. cbn [lift obind]. exists s1. split; [reflexivity|exact Hn1].
Qed.

Lemma message_field_success s f x sch :
  IB s -> unvisited D s <= fl -> decl_message_field D f x = ROk sch -> refs_keyed sa (field_refs sch) ->
  exists s1, build_message_field D rec s f x = Ok (s1, sch) /\ NewIn s s1.
Proof.
  intros HB HU Hd Hrefs. unfold decl_message_field in Hd. unfold build_message_field.
  destruct (f_ty f) as [|full|full]; try discriminate.
  destruct (wkt_schema full x) as [[w|]|cls]; cbn [rbind lift obind] in *; try discriminate.
  - inversion Hd; subst sch. exists s. split; [reflexivity|apply NewIn_refl].
  - destruct (has_prefix s_google_protobuf full); [discriminate|].
    destruct (find_msg D full) as [n|] eqn:Ef; [|discriminate].
    assert (Hn : In n (d_msgs D)) by (eapply find_msg_In; eauto).
    inversion Hd; subst sch. clear Hd.
    assert (Hka : has_key sa (msg_key n) = true).
    { apply Hrefs. destruct (is_oneof_wrapper n); cbn [field_refs]; left; reflexivity. }
    destruct (lookup s (msg_key n)) as [[|r0]|] eqn:El.
    + cbn [is_enum_entry obind]. exists s. split; [reflexivity|apply NewIn_refl].
    + destruct (proj2 (ib_canon s HB) n r0 Hn El) as [Hr0 _]. rewrite (decl_root_not_enum n r0 Hr0). cbn [obind].
      exists s. split; [reflexivity|apply NewIn_refl].
    + unfold has_key in Hka. destruct (lookup sa (msg_key n)) as [[|r]|] eqn:Ela; try discriminate.
      * pose proof (ib_pha s HB _ Ela) as Hx. congruence.
      * destruct (HrecComp s n r HB Hn Ela El HU) as (s1 & Hs1 & Hnew). rewrite Hs1. cbn [obind].
        eexists. split; [reflexivity|exact Hnew].
Qed.

Lemma schema_success s f x sch :
  IB s -> unvisited D s <= fl -> decl_schema D f x = ROk sch -> refs_keyed sa (field_refs sch) ->
  exists s1, build_schema D rec s f x = Ok (s1, sch) /\ NewIn s s1.
Proof.
  intros HB HU Hd Hrefs. unfold decl_schema in Hd. unfold build_schema.
  destruct (f_kind f);
    try (destruct (build_scalar _ x) as [p|cls]; cbn [rbind lift obind] in *; [|discriminate];
         inversion Hd; subst sch; exists s; split; [reflexivity|apply NewIn_refl]).
  - apply enum_field_success; assumption.
  - apply message_field_success; assumption.
Qed.

Lemma field_prop_success s f p :
  IB s -> unvisited D s <= fl -> decl_field_prop D f = ROk p -> refs_keyed sa (field_refs (p_schema p)) ->
  exists s1, build_field_prop D rec s f = Ok (s1, p) /\ NewIn s s1.
Proof.
  intros HB HU Hd Hrefs. unfold decl_field_prop in Hd. unfold build_field_prop.
  assert (Hk : forall x (mk : fschema -> prop),
             (forall sch, field_refs (p_schema (mk sch)) = field_refs sch) ->
             rbind (decl_schema D f x) (fun sch => ROk (mk sch)) = ROk p ->
             exists s1, obind (build_schema D rec s f x) (fun '(st1, sch) => Ok (st1, mk sch)) = Ok (s1, p) /\ NewIn s s1).
  { intros x mk Hmk H'. destruct (decl_schema D f x) as [sch|cls] eqn:Es; cbn [rbind] in H'; [|discriminate].
    inversion H'; subst p. rewrite Hmk in Hrefs.
    destruct (schema_success s f x sch HB HU Es Hrefs) as (s1 & Hs1 & Hn1). rewrite Hs1. cbn [obind].
    exists s1. split; [reflexivity|exact Hn1]. }
  destruct (f_card f) as [| | |kk]; try (apply Hk; [intros; reflexivity|exact Hd]).
  - destruct (x_vty (field_exts f)); cbn in *; apply Hk; try (intros; reflexivity); exact Hd.
  - destruct (negb (kind_eqb kk KString)); [discriminate|].
    destruct (x_vty (field_exts f)); cbn in *; apply Hk; try (intros; reflexivity); exact Hd.
Qed.

Lemma fields_loop_success n r0 fs : forall s exs exs2 ps,
  IB s -> unvisited D s <= fl -> In n (d_msgs D) -> lookup sa (msg_key n) = Some (Linked r0) ->
  (forall f, In f fs -> In f (m_fields n)) ->
  decl_fields D n exs fs = ROk (exs2, ps) ->
  exists s2, fields_loop D rec n s exs fs = Ok (s2, exs2, ps) /\ NewIn s s2.
Proof.
  induction fs as [|f r IH]; intros s exs exs2 ps HB HU Hn Hla Hsub Hd; cbn [decl_fields] in Hd; cbn [fields_loop].
  - inversion Hd; subst. exists s. split; [reflexivity|apply NewIn_refl].
  - destruct (decl_field_prop D f) as [p|cls] eqn:Ep; cbn [rbind] in Hd; [|discriminate].
    assert (Hf : In f (m_fields n)) by (apply Hsub; left; reflexivity).
    assert (Hsub' : forall f0, In f0 r -> In f0 (m_fields n)) by (intros f0 H0; apply Hsub; right; exact H0).
    destruct (field_prop_success s f p HB HU Ep (sa_field_refs n r0 f p Hn Hla Hf Ep)) as (s1 & Hs1 & Hn1).
    rewrite Hs1. cbn [obind].
    destruct (IB_field_step s f s1 p HB HU Hs1) as (HB1 & Hk1 & He1).
    assert (HU1 : unvisited D s1 <= fl) by (pose proof (unvisited_ext D _ _ He1); lia).
    assert (Hdirect : forall exs' (q : list prop -> list prop),
              rbind (decl_fields D n exs' r) (fun '(exs2, ps) => ROk (exs2, q ps)) = ROk (exs2, ps) ->
              exists s2, obind (fields_loop D rec n s1 exs' r) (fun '(st2, exs2, ps) => Ok (st2, exs2, q ps)) = Ok (s2, exs2, ps) /\ NewIn s s2).
    { intros exs' q H'. destruct (decl_fields D n exs' r) as [[b c]|] eqn:E; cbn [rbind] in H'; [|discriminate].
      inversion H'; subst exs2 ps. destruct (IH s1 exs' b c HB1 HU1 Hn Hla Hsub' E) as (s2 & Hs2 & Hn2).
      rewrite Hs2. cbn [obind]. exists s2. split; [reflexivity|eapply NewIn_trans; eauto]. }
    destruct (f_card f); try (apply (Hdirect exs (cons p)); exact Hd);
      (destruct (f_oneof f) as [idx|]; [|apply (Hdirect exs (cons p)); exact Hd];
       destruct (oneof_is_synthetic n idx); [apply (Hdirect exs (cons p)); exact Hd|];
       destruct (add_to_exposed exs idx p) as [[exs1 pending]|]; [|apply (Hdirect exs (cons p)); exact Hd];
       apply (Hdirect exs1 (fun ps => match pending with Some pp => pp :: ps | None => ps end)); exact Hd).
Qed.

(* registration succeeds when the names of the exposed oneofs are free *)
Lemma register_success n : forall os idx s,
  NoDup (flat_map (fun o => match o with Oneof name _ syn _ _ => if syn then [] else [oneof_key n name] end) os) ->
  (forall name j x d, In (Oneof name j false x d) os -> lookup s (oneof_key n name) = None) ->
  exists s1 exs, register_oneofs n s idx os = ROk (s1, exs).
Proof.
  induction os as [|[name jname syn ext0 d] r IH]; intros idx s Hnd Hfree; cbn [register_oneofs]; [eauto|].
  assert (Hfree' : forall name0 j x d0, In (Oneof name0 j false x d0) r -> lookup s (oneof_key n name0) = None)
    by (intros; eapply Hfree; right; eauto).
  cbn [flat_map] in Hnd.
  destruct syn; [apply IH; [exact Hnd|exact Hfree']|].
  cbn [app] in Hnd. inversion Hnd as [|? ? Hnot Hnd']; subst.
  destruct ext0 as [[|]|]; try (apply IH; [exact Hnd'|exact Hfree']).
  rewrite (Hfree name jname (Some true) d (or_introl eq_refl)).
  destruct (IH (N.succ idx) ((oneof_key n name, Linked (ROneof (snd (oneof_key n name)) d [])) :: s) Hnd') as (s1 & exs & H1).
  - intros name0 j x d0 Hin. rewrite lookup_cons. destruct (ref_eqb (oneof_key n name) (oneof_key n name0)) eqn:E.
    + apply ref_eqb_eq in E. exfalso. apply Hnot. rewrite E. apply in_flat_map.
      exists (Oneof name0 j false x d0). split; [exact Hin|left; reflexivity].
    + eapply Hfree'; eauto.
  - rewrite H1. cbn [rbind]. eauto.
Qed.

(* entries with flattened properties are neither registered nor finished oneofs *)
Lemma register_linked_old n : forall os idx s s1 exs k r,
  register_oneofs n s idx os = ROk (s1, exs) -> lookup s1 k = Some (Linked r) -> entry_targets (Linked r) <> [] ->
  lookup s k = Some (Linked r).
Proof.
  induction os as [|[name jname syn ext0 d] rest IH]; intros idx s s1 exs k r H Hl Ht; cbn [register_oneofs] in H.
  - inversion H; subst. exact Hl.
  - destruct syn; [eapply IH; eauto|]. destruct ext0 as [[|]|]; try (eapply IH; eauto; fail).
    destruct (lookup s (oneof_key n name)) eqn:El; [discriminate|].
    destruct (register_oneofs n _ (N.succ idx) rest) as [[s2 exs2]|] eqn:E; cbn [rbind] in H; [|discriminate].
    inversion H; subst s1 exs. specialize (IH _ _ _ _ _ _ E Hl Ht). rewrite lookup_cons in IH.
    destruct (ref_eqb (oneof_key n name) k); [inversion IH; subst r; exfalso; apply Ht; reflexivity|exact IH].
Qed.

Lemma finish_linked_old : forall exs st k r,
  lookup (finish_oneofs st exs) k = Some (Linked r) -> entry_targets (Linked r) <> [] -> lookup st k = Some (Linked r).
Proof.
  unfold finish_oneofs. induction exs as [|e rest IH]; intros st k r Hl Ht; cbn [fold_left] in Hl; [exact Hl|].
  destruct (lookup st (ex_key e)) as [[|[| nm dd ps|]]|] eqn:El; try (apply IH; assumption).
  specialize (IH _ _ _ Hl Ht). rewrite lookup_update in IH. destruct (ref_eqb (ex_key e) k) eqn:E; [|exact IH].
  rewrite El in IH. inversion IH; subst r. exfalso. apply Ht. reflexivity.
Qed.

Lemma flat_targets_refs ps t : In t (flat_targets ps) -> In t (flat_map (fun p => field_refs (p_schema p)) ps).
Proof.
  intros H. destruct (flat_target_in ps t H) as (p & Hp & rl & ex & Hps).
  apply in_flat_map. exists p. split; [exact Hp|]. rewrite Hps. left. reflexivity.
Qed.

(* the root of the message at the level above: everything up to the cycle search, then the search *)
Lemma build_root_success sb n r0 :
  IB sb -> In n (d_msgs D) -> lookup sa (msg_key n) = Some (Linked r0) -> lookup sb (msg_key n) = None ->
  unvisited D ((msg_key n, Placeholder) :: sb) <= fl ->
  exists s1, build_root D rec ((msg_key n, Placeholder) :: sb) n = Ok (s1, r0) /\ NewIn sb (update s1 (msg_key n) (Linked r0)).
Proof.
  intros HB Hn Hla Hlb HU. set (st0 := (msg_key n, Placeholder) :: sb) in *.
  assert (Hkeeps0 : keeps sb st0) by (apply keeps_cons; exact Hlb).
  assert (Hp0 : lookup st0 (msg_key n) = Some Placeholder) by (unfold st0; rewrite lookup_cons, ref_eqb_refl; reflexivity).
  assert (Hapart : forall e, In e (d_enums D) -> enum_key e <> msg_key n)
    by (intros e He Heq; eapply (K3 D Hwf n e); eauto).
  assert (HB0 : IB st0).
  { constructor.
    - apply Canon_cons_placeholder; [exact (ib_canon sb HB)|exact Hlb].
    - apply InvS_cons; [exact (ib_invs sb HB)|exact Hlb|exact Hapart|exact I].
    - apply acyclic_cons; [reflexivity|exact (ib_acyc sb HB)].
    - apply Owner_cons_msg; [exact Hwf|exact (ib_own sb HB)|exact Hn].
    - intros k Hl. unfold st0 in Hl. rewrite lookup_cons in Hl. destruct (ref_eqb (msg_key n) k) eqn:E.
      + apply ref_eqb_eq in E. subst k. split; [eauto|]. unfold has_key. rewrite Hla. reflexivity.
      + apply (ib_ph sb HB). exact Hl.
    - intros k Hl. apply Hkeeps0. apply (ib_pha sb HB). exact Hl. }
  (* what sa says about n *)
  destruct (proj2 HCa n r0 Hn Hla) as [Hr0 _].
  pose proof Hr0 as Hr0'. unfold decl_root in Hr0'.
  destruct (decl_props D n) as [[exsD psD]|] eqn:Edp; cbn [rbind] in Hr0'; [|discriminate].
  pose proof Edp as Edp'. unfold decl_props in Edp'.
  destruct (decl_fields D n (decl_exposed n 0 (m_oneofs n)) (m_fields n)) as [[exs0 ps0]|] eqn:Edf; cbn [rbind] in Edp'; [|discriminate].
  destruct (existsb ex_pending exs0) eqn:Epend; [discriminate|]. destruct (negb (exs_names_ok exs0)) eqn:Enames; [discriminate|]. destruct (negb (props_valid ps0)) eqn:Evalid; [discriminate|].
  inversion Edp'; subst exs0 ps0. clear Edp'.
  (* registration *)
  assert (Hreg : exists sta exs, register_oneofs n st0 0 (m_oneofs n) = ROk (sta, exs)).
  { apply register_success.
    - pose proof (proj2 Hwf) as H. unfold all_keys in H. apply NoDup_app_r in H. apply NoDup_app_r in H.
      exact (NoDup_flat_map_elem _ _ _ H Hn).
    - intros name j x d Hin. unfold st0. rewrite lookup_cons.
      assert (Hex : exposed_key_b n (oneof_key n name) = true) by (eapply exposed_key_intro; eauto).
      destruct (ref_eqb (msg_key n) (oneof_key n name)) eqn:E.
      + apply ref_eqb_eq in E. exfalso. rewrite <- E in Hex. eapply (K2 D Hwf n n); eauto.
      + destruct (lookup sb (oneof_key n name)) eqn:El; [|reflexivity]. exfalso.
        assert (Hh : has_key sb (oneof_key n name) = true) by (unfold has_key; rewrite El; reflexivity).
        pose proof (ib_own sb HB n _ Hn Hex Hh) as Hown. unfold has_key in Hown. rewrite Hlb in Hown. discriminate. }
  destruct Hreg as (sta & exs & Ereg).
  destruct (register_oneofs_k n _ _ _ _ _ Ereg) as (Hka & Hexs & _).
  pose proof (register_oneofs_canon D Hwf n Hn _ _ _ _ _ (fun o Ho => Ho) (ib_canon st0 HB0) Ereg) as HCa1.
  pose proof (register_oneofs_ps D Hwf n Hn (m_oneofs n) 0%N st0 (fun o Ho => Ho) (ib_invs st0 HB0)) as HPa. rewrite Ereg in HPa.
  destruct HPa as (HIa & Hea & Hna & _).
  pose proof (register_oneofs_acyc n _ _ _ _ _ (ib_acyc st0 HB0) Ereg) as HAa1.
  assert (HOa : Owner D sta).
  { eapply (register_oneofs_own D Hwf n Hn); [|exact (ib_own st0 HB0)| |exact Ereg]; [auto|].
    unfold has_key. rewrite Hp0. reflexivity. }
  assert (HBa : IB sta) by (eapply IB_of_passes; eauto).
  assert (HUa : unvisited D sta <= fl) by (pose proof (unvisited_ext D _ _ Hea); lia).
  (* the fields *)
  rewrite <- Hexs in Edf.
  destruct (fields_loop_success n r0 (m_fields n) sta exs exsD psD HBa HUa Hn Hla (fun f Hf => Hf) Edf) as (stb & Eloop & Hnewb).
  (* assemble *)
  unfold build_root, message_properties. rewrite Ereg. cbn [lift obind]. rewrite Eloop. cbn [obind]. rewrite Epend, Enames. cbn [obind]. rewrite Evalid.
  set (stc := finish_oneofs stb exsD).
  (* entries of sb are untouched, the new objects with flattened properties are objects of sa *)
  assert (Hkeepc : keeps st0 stc).
  { pose proof (message_properties_k D rec HrecK st0 n) as Hk. unfold message_properties in Hk.
    rewrite Ereg in Hk. cbn [lift obind] in Hk. rewrite Eloop in Hk. cbn [obind] in Hk. rewrite Epend, Enames in Hk. exact Hk. }
  assert (Hnewc : NewIn sb stc).
  { intros k r Hl Ht.
    pose proof (finish_linked_old _ _ _ _ Hl Ht) as Hlb'.
    destruct (Hnewb k r Hlb' Ht) as [Hs|Hs]; [|right; exact Hs].
    pose proof (register_linked_old n _ _ _ _ _ _ _ Ereg Hs Ht) as Hl0.
    unfold st0 in Hl0. rewrite lookup_cons in Hl0. destruct (ref_eqb (msg_key n) k); [discriminate|]. left. exact Hl0. }
  assert (Hnewfinal : forall st', st' = stc -> NewIn sb (update st' (msg_key n) (Linked r0))).
  { intros st' ->. intros k r Hl Ht. rewrite lookup_update in Hl. destruct (ref_eqb (msg_key n) k) eqn:E.
    - apply ref_eqb_eq in E. subst k. destruct (lookup stc (msg_key n)); [|discriminate]. inversion Hl; subst r. right. exact Hla.
    - apply Hnewc; assumption. }
  destruct (is_oneof_wrapper n) eqn:Ew.
  { inversion Hr0'; subst r0. eexists. split; [reflexivity|apply Hnewfinal; reflexivity]. }
  destruct (find_psm D n) as [ent|cls] eqn:Epsm; cbn [rbind] in Hr0'; [|discriminate]. inversion Hr0'; subst r0. clear Hr0'.
  (* the cycle search *)
  pose proof (flatten_cycle_fuel stc (msg_key n) psD) as Hfuel.
  destruct (flatten_cycle stc (msg_key n) psD) as [[|]|] eqn:Ecyc; [exfalso| |contradiction].
  2:{ cbn [lift obind]. eexists. split; [reflexivity|apply Hnewfinal; reflexivity]. }
  unfold flatten_cycle in Ecyc. destruct (flatten_walk_sound _ _ _ _ _ Ecyc) as (t & Ht & Hreach).
  (* in sa the message is linked with the same properties: an edge to t *)
  assert (Hedge : edge sa (msg_key n) t) by (unfold edge, targets_of; rewrite Hla; exact Ht).
  (* an edge out of a node of sb leads to a node of sb *)
  assert (Hstep : forall x y, has_key sb x = true -> edge stc x y -> has_key sb y = true).
  { intros x y Hin He. unfold has_key in Hin. destruct (lookup sb x) as [en|] eqn:El; [|discriminate].
    unfold edge, targets_of in He. rewrite (Hkeepc _ _ (Hkeeps0 _ _ El)) in He.
    destruct en as [|rx]; [destruct He|]. destruct (ib_invs sb HB) as (_ & Hcl & _). destruct (Hcl _ _ El) as [_ Hk].
    apply Hk. destruct rx as [a b c d ps| |]; try destruct He. cbn [entry_targets] in He. unfold root_refs. cbn [root_props].
    apply flat_targets_refs. exact He. }
  (* nodes of sb cannot reach the message *)
  assert (HA : forall x z, reach stc x z -> z = msg_key n -> has_key sb x = true -> False).
  { intros x z Hx. induction Hx as [x y He|x y z He Hyz IHx]; intros Hz Hin.
    - subst y. pose proof (Hstep _ _ Hin He) as Hy. unfold has_key in Hy. rewrite Hlb in Hy. discriminate.
    - apply (IHx Hz). eapply Hstep; eauto. }
  (* an edge out of a node that is not of sb is an edge of sa *)
  assert (Hnewedge : forall x y, has_key sb x = false -> edge stc x y -> edge sa x y).
  { intros x y Hnot He. unfold edge, targets_of in He. destruct (lookup stc x) as [[|rx]|] eqn:El; try destruct He.
    assert (Htn : entry_targets (Linked rx) <> []) by (intros E; rewrite E in He; destruct He).
    destruct (Hnewc x rx El Htn) as [Hs|Hs]; [unfold has_key in Hnot; rewrite Hs in Hnot; discriminate|].
    unfold edge, targets_of. rewrite Hs. exact He. }
  (* so a path to the message runs through objects of sa *)
  assert (HBp : forall x z, reach stc x z -> z = msg_key n -> reach sa x z).
  { intros x z Hx. induction Hx as [x y He|x y z He Hyz IHx]; intros Hz.
    - assert (Hnot : has_key sb x = false) by (destruct (has_key sb x) eqn:E; [exfalso; apply (HA x y (reach_one _ _ _ He) Hz E)|reflexivity]).
      apply reach_one. apply Hnewedge; assumption.
    - assert (Hnot : has_key sb x = false) by (destruct (has_key sb x) eqn:E; [exfalso; apply (HA x z (reach_step _ _ _ _ He Hyz) Hz E)|reflexivity]).
      eapply reach_step; [apply Hnewedge; eassumption|apply IHx; exact Hz]. }
  apply (HAa (msg_key n)). destruct Hreach as [->|Hreach]; [apply reach_one; exact Hedge|].
  eapply reach_step; [exact Hedge|apply (HBp t (msg_key n) Hreach eq_refl)].
Qed.
End LevelComp.

(* a message linked in sa can be built from any state of the kind above that lacks it *)
Theorem completion : forall fuel s n r,
  IB s -> In n (d_msgs D) -> lookup sa (msg_key n) = Some (Linked r) -> lookup s (msg_key n) = None ->
  unvisited D s <= fuel ->
  exists s1, build_msg D fuel ((msg_key n, Placeholder) :: s) n = Ok (s1, r) /\ NewIn s (update s1 (msg_key n) (Linked r)).
Proof.
  induction fuel as [|fl IH]; intros s n r HB Hn Hla Hl HU.
  - exfalso. assert (Hk : has_key s (msg_key n) = false) by (unfold has_key; rewrite Hl; reflexivity).
    pose proof (unvisited_cons D s n Placeholder Hn Hk). lia.
  - cbn [build_msg].
    assert (Hk : has_key s (msg_key n) = false) by (unfold has_key; rewrite Hl; reflexivity).
    apply (build_root_success fl (build_msg D fl)
             (fun st m => build_msg_k D fl st m)
             (fun st m st1 r1 => build_msg_decl D Hwf fl st m st1 r1)
             (fun st m => build_msg_ps D Hwf fl st m)
             (fun st m st1 r1 => build_msg_acyc D fl st m st1 r1)
             (fun st m st1 r1 => build_msg_own D Hwf fl st m st1 r1)
             IH s n r HB Hn Hla Hl).
    pose proof (unvisited_cons D s n Placeholder Hn Hk). lia.
Qed.
End Completion.

(* ---------------------------------------------------------------- the cache *)
Section CacheClass.
Variable D : desc.
Hypothesis Hwf : wf_keys D.

(* every state a call history reaches is good, and holds no placeholder *)
Lemma cache_reach_good st :
  cache_reach D st ->
  Canon D st /\ InvS D st /\ acyclic st /\ Owner D st /\ (forall k, lookup st k <> Some Placeholder).
Proof.
  induction 1 as [|st m Hr IH Hm].
  - split; [apply Canon_nil|]. split; [apply InvS_nil|]. split; [apply acyclic_nil|]. split; [apply Owner_nil|]. intros k H; discriminate.
  - destruct IH as (HC & HI & HA & HO & HP).
    pose proof (cache_schema_decl D Hwf st m Hm HC) as [HC1 _].
    assert (HU : unvisited D st < size D) by (pose proof (unvisited_le_msgs D st); unfold size; lia).
    pose proof (message_schema_ps D Hwf (size D) st m Hm HI HU) as HPs.
    unfold cache_schema in *.
    destruct (message_schema D (size D) st m) as [[st1 r]| | |] eqn:Em; cbn [fst] in *.
    + destruct HPs as (HI1 & _ & Hn1 & _).
      split; [exact HC1|]. split; [exact HI1|]. split; [eapply message_schema_acyc; eauto|]. split; [eapply message_schema_own; eauto|].
      intros k Hk. apply (HP k). apply Hn1. exact Hk.
    + split; [exact HC|]. split; [exact HI|]. split; [exact HA|]. split; [exact HO|exact HP].
    + split; [exact HC|]. split; [exact HI|]. split; [exact HA|]. split; [exact HO|exact HP].
    + split; [exact HC|]. split; [exact HI|]. split; [exact HA|]. split; [exact HO|exact HP].
Qed.

Lemma IB_of_reach sa sb : cache_reach D sa -> cache_reach D sb -> IB D sa sb.
Proof.
  intros Ha Hb. destruct (cache_reach_good sa Ha) as (_ & _ & _ & _ & HPa).
  destruct (cache_reach_good sb Hb) as (HC & HI & HA & HO & HPb).
  constructor; try assumption.
  - intros k Hk. exfalso. exact (HPb k Hk).
  - intros k Hk. exfalso. exact (HPa k Hk).
Qed.

(* after an Ok answer the message is linked in the cache, with that schema *)
Lemma cache_ok_linked fuel s m r :
  snd (cache_schema D fuel s m) = Ok r -> lookup (fst (cache_schema D fuel s m)) (msg_key m) = Some (Linked r).
Proof.
  unfold cache_schema, message_schema.
  destruct (lookup s (msg_key m)) as [[|r0]|] eqn:El; cbn [fst snd]; try discriminate.
  - intros Hx; inversion Hx; subst. exact El.
  - destruct (build_msg D fuel ((msg_key m, Placeholder) :: s) m) as [[st2 r2]| | |] eqn:Eb; cbn [obind fst snd]; try discriminate.
    intros Hx; inversion Hx; subst r. rewrite lookup_update, ref_eqb_refl.
    pose proof (build_msg_k D fuel ((msg_key m, Placeholder) :: s) m) as Hk. rewrite Eb in Hk. cbn [Pk fst] in Hk.
    rewrite (Hk (msg_key m) Placeholder); [reflexivity|]. rewrite lookup_cons, ref_eqb_refl. reflexivity.
Qed.

(* a message linked in one reachable cache is answered by any other reachable cache *)
Lemma cache_completes sa sb m r :
  cache_reach D sa -> cache_reach D sb -> In m (d_msgs D) -> lookup sa (msg_key m) = Some (Linked r) ->
  snd (cache_schema D (size D) sb m) = Ok r.
Proof.
  intros Ha Hb Hm Hla.
  destruct (cache_reach_good sa Ha) as (HCa & HIa & HAa & _ & _).
  destruct (cache_reach_good sb Hb) as (HCb & _ & _ & _ & HPb).
  unfold cache_schema, message_schema.
  destruct (lookup sb (msg_key m)) as [[|r0]|] eqn:El.
  - exfalso. exact (HPb _ El).
  - cbn [snd]. destruct (proj2 HCa m r Hm Hla) as [E1 _]. destruct (proj2 HCb m r0 Hm El) as [E2 _]. rewrite E1 in E2. inversion E2. reflexivity.
  - assert (HU : unvisited D sb <= size D) by (pose proof (unvisited_le_msgs D sb); unfold size; lia).
    destruct (completion D Hwf sa HCa HIa HAa (size D) sb m r (IB_of_reach sa sb Ha Hb) Hm Hla El HU) as (s1 & Hs1 & _).
    rewrite Hs1. reflexivity.
Qed.

(* cache transparency: the answer of SchemaCache.Schema after any history of calls is the answer of a
   fresh cache: the same schema, or a failure in both *)
Theorem cache_transparent st m r :
  cache_reach D st -> In m (d_msgs D) ->
  (snd (cache_schema D (size D) st m) = Ok r <-> snd (cache_schema D (size D) [] m) = Ok r).
Proof.
  intros Hr Hm. split; intros H.
  - (* the cache answered: afterwards the message is linked in it; a fresh cache completes it *)
    apply (cache_completes (fst (cache_schema D (size D) st m)) [] m r); [apply reach_call; assumption|apply reach_new|exact Hm|].
    apply cache_ok_linked. exact H.
  - apply (cache_completes (fst (cache_schema D (size D) [] m)) st m r); [apply reach_call; [apply reach_new|exact Hm]|exact Hr|exact Hm|].
    apply cache_ok_linked. exact H.
Qed.

(* and between any two histories *)
Corollary cache_history_independent st st' m r :
  cache_reach D st -> cache_reach D st' -> In m (d_msgs D) ->
  (snd (cache_schema D (size D) st m) = Ok r <-> snd (cache_schema D (size D) st' m) = Ok r).
Proof.
  intros H1 H2 Hm. rewrite (cache_transparent st m r H1 Hm). symmetry. apply cache_transparent; assumption.
Qed.
End CacheClass.

(* BclRuneClosedProofs.v — the formatter only emits runes of its input plus ASCII:
   for any rune predicate P that holds of every ASCII rune, if every rune of the
   input satisfies P then so does every rune of every token literal (lexer), of
   every fragment (walker) and of the formatted text (fmt_runes).  Instance:
   P = valid_rune, so Fmt([]rune(input)) survives string(...) / []rune(...). *)
From Coq Require Import String List NArith ZArith Bool Lia ZifyN ZifyNat ZifyBool.
From J5V.lib Require Import Text Outcome.
From J5V.model Require Import BclLexer BclParser BclFmt.
From J5V.proofs Require Import BclTextProofs BclUtf8Proofs.
Import ListNotations.
Local Open Scope N_scope.
Arguments Nat.sub : simpl never.

Section Closed.
Variable P : N -> Prop.
Hypothesis P_ascii : forall c, c < 128 -> P c.

(* ---- lexer ------------------------------------------------------------------------------ *)
Definition lst_P (s : lstate) : Prop := Forall P (rest s) /\ (forall c, ch s = Some c -> P c).
Definition tokP (t : token) : Prop := Forall P (lit t).

Lemma new_lexer_P data : Forall P data -> lst_P (new_lexer data).
Proof.
  intros H. split; [exact H|]. cbn. intros c [= <-]. apply P_ascii. lia.
Qed.

Lemma next_P s : lst_P s -> lst_P (next s).
Proof.
  intros [Hr Hc]. unfold next. destruct (rest s) as [|r t] eqn:E; split; cbn.
  - constructor.
  - intros c [=].
  - inversion Hr; assumption.
  - intros c [= <-]. inversion Hr; assumption.
Qed.

Lemma ch_list_P s : lst_P s -> Forall P (ch_list s).
Proof.
  intros [_ Hc]. unfold ch_list. destruct (ch s) as [c|]; [|constructor].
  constructor; [apply Hc; reflexivity|constructor].
Qed.

Lemma ch_P s c : lst_P s -> ch s = Some c -> P c.
Proof. intros [_ Hc]. apply Hc. Qed.

Lemma app1_P acc c : Forall P acc -> P c -> Forall P (acc ++ [c]).
Proof. intros Ha Hc. apply Forall_app. split; [exact Ha|constructor; [exact Hc|constructor]]. Qed.

Lemma skip_whitespace_P : forall fuel s s', skip_whitespace fuel s = Some s' -> lst_P s -> lst_P s'.
Proof.
  induction fuel as [|f IH]; intros s s' E Hs; cbn [skip_whitespace] in E; [discriminate|].
  destruct (peek s) as [v|]; [|injection E as <-; exact Hs].
  destruct (is_space v && negb (N.eqb v 10))%bool; [|injection E as <-; exact Hs].
  apply (IH _ _ E). apply next_P, Hs.
Qed.

Lemma take_line_P : forall fuel s acc l s', take_line fuel s acc = ROk l s' ->
  lst_P s -> Forall P acc -> Forall P l /\ lst_P s'.
Proof.
  induction fuel as [|f IH]; intros s acc l s' E Hs Ha; cbn [take_line] in E; [discriminate|].
  destruct (peek s) as [v|]; [|injection E as <- <-; split; assumption].
  destruct (N.eqb v 10); [injection E as <- <-; split; assumption|].
  apply (IH _ _ _ _ E); [apply next_P, Hs|].
  apply Forall_app. split; [exact Ha|apply ch_list_P, next_P, Hs].
Qed.

Lemma block_comment_loop_P : forall fuel s acc l s', block_comment_loop fuel s acc = ROk l s' ->
  lst_P s -> Forall P acc -> Forall P l /\ lst_P s'.
Proof.
  induction fuel as [|f IH]; intros s acc l s' E Hs Ha; cbn [block_comment_loop] in E; [discriminate|].
  cbv zeta in E. pose proof (next_P s Hs) as H1.
  destruct (opt_eq (ch (next s)) 42 && opt_eq (peek (next s)) 47)%bool.
  { injection E as <- <-. split; [exact Ha|apply next_P, H1]. }
  destruct (ch (next s)) as [c|] eqn:Ec; [|injection E as <- <-; split; assumption].
  apply (IH _ _ _ _ E H1). apply app1_P; [exact Ha|exact (ch_P _ _ H1 Ec)].
Qed.

Lemma regex_loop_P : forall fuel s acc l s', regex_loop fuel s acc = ROk l s' ->
  lst_P s -> Forall P acc -> Forall P l /\ lst_P s'.
Proof.
  induction fuel as [|f IH]; intros s acc l s' E Hs Ha; cbn [regex_loop] in E; [discriminate|].
  cbv zeta in E. pose proof (next_P s Hs) as H1.
  destruct (ch (next s)) as [c|] eqn:Ec; [|discriminate].
  destruct (N.eqb c 10); [discriminate|].
  destruct (N.eqb c 47).
  - destruct (opt_eq (peek (next s)) 47); [|injection E as <- <-; split; assumption].
    apply (IH _ _ _ _ E); [apply next_P, H1|]. apply app1_P; [exact Ha|apply P_ascii; lia].
  - apply (IH _ _ _ _ E H1). apply app1_P; [exact Ha|exact (ch_P _ _ H1 Ec)].
Qed.

Lemma lex_escape_P q s s' : lex_escape q s = Some s' -> lst_P s -> lst_P s'.
Proof.
  unfold lex_escape. destruct (peek s) as [v|]; [|discriminate].
  destruct (N.eqb v 92 || N.eqb v 10 || N.eqb v q)%bool; [|discriminate].
  intros [= <-] Hs. apply next_P, Hs.
Qed.

Lemma string_loop_P : forall fuel q s acc l s', string_loop fuel q s acc = ROk l s' ->
  lst_P s -> Forall P acc -> Forall P l /\ lst_P s'.
Proof.
  induction fuel as [|f IH]; intros q s acc l s' E Hs Ha; cbn [string_loop] in E; [discriminate|].
  cbv zeta in E. pose proof (next_P s Hs) as H1.
  destruct (ch (next s)) as [c|] eqn:Ec; [|discriminate].
  destruct (N.eqb c q); [injection E as <- <-; split; assumption|].
  destruct (N.eqb c 10); [discriminate|].
  destruct (N.eqb c 92).
  - destruct (lex_escape q (next s)) as [s2|] eqn:Ee; [|discriminate].
    pose proof (lex_escape_P _ _ _ Ee H1) as H2.
    apply (IH _ _ _ _ _ E H2). apply Forall_app. split; [exact Ha|apply ch_list_P, H2].
  - apply (IH _ _ _ _ _ E H1). apply app1_P; [exact Ha|exact (ch_P _ _ H1 Ec)].
Qed.

Lemma ident_loop_P : forall fuel s acc l s', ident_loop fuel s acc = ROk l s' ->
  lst_P s -> Forall P acc -> Forall P l /\ lst_P s'.
Proof.
  induction fuel as [|f IH]; intros s acc l s' E Hs Ha; cbn [ident_loop] in E; [discriminate|].
  destruct (peek s) as [v|]; [|injection E as <- <-; split; assumption].
  destruct (is_letter v || is_digit v || N.eqb v 95)%bool; [|injection E as <- <-; split; assumption].
  apply (IH _ _ _ _ E); [apply next_P, Hs|].
  apply Forall_app. split; [exact Ha|apply ch_list_P, next_P, Hs].
Qed.

Lemma number_loop_P : forall fuel s sd acc typ l s', number_loop fuel s sd acc = ROk (typ, l) s' ->
  lst_P s -> Forall P acc -> Forall P l /\ lst_P s'.
Proof.
  induction fuel as [|f IH]; intros s sd acc typ l s' E Hs Ha; cbn [number_loop] in E; [discriminate|].
  destruct (peek s) as [v|]; [|injection E as _ <- <-; split; assumption].
  destruct (is_digit v).
  { apply (IH _ _ _ _ _ _ E); [apply next_P, Hs|].
    apply Forall_app. split; [exact Ha|apply ch_list_P, next_P, Hs]. }
  destruct (N.eqb v 46); [|injection E as _ <- <-; split; assumption].
  destruct sd; [discriminate|].
  apply (IH _ _ _ _ _ _ E); [apply next_P, Hs|]. apply app1_P; [exact Ha|apply P_ascii; lia].
Qed.

Lemma lift_lit_P typ start r dflt t s' :
  (forall l s1, r = ROk l s1 -> Forall P l /\ lst_P s1) ->
  lift_lit typ start r dflt = (LTok t, s') -> tokP t /\ lst_P s'.
Proof.
  intros Hr. unfold lift_lit. destruct r as [l s1|d s1|]; try discriminate.
  intros [= <- <-]. exact (Hr l s1 eq_refl).
Qed.

Lemma next_token_fuel_P : forall fuel s0 t s', next_token_fuel fuel s0 = (LTok t, s') ->
  lst_P s0 -> tokP t /\ lst_P s'.
Proof.
  induction fuel as [|f IH]; intros s0 t s' E Hs0; cbn [next_token_fuel] in E; [discriminate|].
  cbv zeta in E. pose proof (next_P s0 Hs0) as Hs. set (s := next s0) in *.
  destruct (ch s) as [c|] eqn:Ec; [|discriminate].
  pose proof (ch_P _ _ Hs Ec) as Hc.
  assert (Hc1 : Forall P [c]) by (constructor; [exact Hc|constructor]).
  destruct (op_of c) as [op|].
  { injection E as <- <-. split; [exact Hc1|exact Hs]. }
  destruct (N.eqb c 47).
  { destruct (opt_eq (peek s) 47).
    { apply (lift_lit_P _ _ _ _ _ _) in E; [exact E|]. intros l s1 El. unfold lex_line_comment in El.
      apply (take_line_P _ _ _ _ _ El); [apply next_P, Hs|constructor]. }
    destruct (opt_eq (peek s) 42).
    { apply (lift_lit_P _ _ _ _ _ _) in E; [exact E|]. intros l s1 El. unfold lex_block_comment in El.
      apply (block_comment_loop_P _ _ _ _ _ El); [apply next_P, Hs|constructor]. }
    apply (lift_lit_P _ _ _ _ _ _) in E; [exact E|]. intros l s1 El. unfold lex_regex in El.
    apply (regex_loop_P _ _ _ _ _ El); [exact Hs|constructor]. }
  destruct (N.eqb c 34).
  { apply (lift_lit_P _ _ _ _ _ _) in E; [exact E|]. intros l s1 El. unfold lex_string in El.
    rewrite Ec in El. apply (string_loop_P _ _ _ _ _ _ El); [exact Hs|constructor]. }
  destruct (N.eqb c 124).
  { apply (lift_lit_P _ _ _ _ _ _) in E; [exact E|]. intros l s1 El. unfold lex_description_line in El.
    destruct (skip_whitespace (S (length (rest s))) s) as [s2|] eqn:Ew; [|discriminate].
    apply (take_line_P _ _ _ _ _ El); [exact (skip_whitespace_P _ _ _ Ew Hs)|constructor]. }
  destruct (N.eqb c 10).
  { injection E as <- <-. split; [exact Hc1|exact Hs]. }
  destruct (is_space c); [exact (IH _ _ _ E Hs)|].
  destruct (is_digit c).
  { destruct (lex_number s) as [[typ l] s1|d s1|] eqn:El; try discriminate.
    injection E as <- <-. unfold lex_number in El.
    apply (number_loop_P _ _ _ _ _ _ _ El Hs). apply ch_list_P, Hs. }
  destruct (is_letter c); [|discriminate].
  destruct (lex_ident s) as [l s1|d s1|] eqn:El; try discriminate.
  unfold lex_ident in El.
  pose proof (ident_loop_P _ _ _ _ _ El Hs (ch_list_P _ Hs)) as Hl.
  destruct (list_N_eqb l lit_true || list_N_eqb l lit_false)%bool; injection E as <- <-; exact Hl.
Qed.

Lemma all_tokens_loop_P ff : forall fuel s ts b, all_tokens_loop fuel ff s = (ts, [], b) ->
  lst_P s -> Forall tokP ts.
Proof.
  induction fuel as [|f IH]; intros s ts b E Hs; cbn [all_tokens_loop] in E; [injection E as <- _; constructor|].
  destruct (next_token s) as [[t|d| |] s1] eqn:En.
  - unfold next_token in En. destruct (next_token_fuel_P _ _ _ _ En Hs) as [Ht H1].
    destruct (all_tokens_loop f ff s1) as [[ts1 ds1] b1] eqn:El. injection E as <- -> <-.
    constructor; [exact Ht|exact (IH _ _ _ El H1)].
  - destruct ff; [discriminate|].
    destruct (all_tokens_loop f false s1) as [[ts1 ds1] b1]. discriminate.
  - injection E as <- _. constructor.
  - injection E as <- _. constructor.
Qed.

Theorem all_tokens_P ff data ts : all_tokens ff data = LexOk ts -> Forall P data -> Forall tokP ts.
Proof.
  unfold all_tokens. intros E Hd.
  destruct (all_tokens_loop (S (S (length data))) ff (new_lexer data)) as [[ts' ds] b] eqn:El.
  destruct b; [discriminate|]. destruct ds; [|discriminate]. injection E as <-.
  exact (all_tokens_loop_P ff _ _ _ _ El (new_lexer_P _ Hd)).
Qed.

(* ---- walker ------------------------------------------------------------------------------ *)
Inductive valP : value -> Prop :=
| valP_tok t s e : tokP t -> valP (VTok t s e)
| valP_arr vs s e : Forall valP vs -> valP (VArr vs s e).

Definition refP (r : reference) : Prop := Forall tokP r.
Definition tagP (t : tag) : Prop :=
  (forall mt, tmark_tok t = Some mt -> tokP mt) /\
  match tbody t with TagRef r => refP r | TagVal v => valP v end.
Definition commentP (c : option comment) : Prop :=
  match c with Some c => Forall P (cvalue c) | None => True end.
Definition descP (d : descr) : Prop := Forall tokP (dtoks d) /\ Forall P (dvalue d).
Definition headerP (h : header) : Prop :=
  refP (htype h) /\ Forall tagP (htags h) /\ Forall tagP (hquals h) /\
  match hdesc h with Some d => descP d | None => True end /\ commentP (hcomment h).
Definition assignP (a : assign) : Prop := refP (akey a) /\ valP (avalue a) /\ commentP (acomment a).
Definition frag_P (f : fragment) : Prop :=
  match f with
  | FHeader h => headerP h
  | FAssign a => assignP a
  | FDesc d => descP d
  | FComment t => tokP t
  | FClose t => tokP t
  end.

Lemma join_with_P sep ls : sep < 128 -> Forall (Forall P) ls -> Forall P (join_with sep ls).
Proof.
  intros Hs. induction ls as [|l r IH]; intros H; [constructor|].
  inversion H as [|x y Hl Hr]; subst. cbn [join_with]. destruct r as [|l2 r2]; [exact Hl|].
  apply Forall_app. split; [exact Hl|]. constructor; [apply P_ascii, Hs|apply IH, Hr].
Qed.

Lemma map_lit_P ts : Forall tokP ts -> Forall (Forall P) (map lit ts).
Proof. intros H. apply Forall_map. exact H. Qed.

(* state: the remaining tokens and the previous one *)
Definition winv (s : wstate) : Prop := Forall tokP (wrest s) /\ (forall p, wprev s = Some p -> tokP p).

Lemma pop_token_P s t s' : winv s -> pop_token s = WOk t s' -> tokP t /\ winv s'.
Proof.
  intros [Hr Hp]. unfold pop_token. destruct (wrest s) as [|t0 r] eqn:Er.
  - destruct (wprev s) as [p|] eqn:Ep; [|discriminate].
    destruct (tt_eqb (ty p) EOF); intros [= <- <-].
    + split; [apply Hp; reflexivity|]. split; [rewrite Er; apply Forall_nil|rewrite Ep; exact Hp].
    + split; [constructor|]. split; [rewrite Er; apply Forall_nil|rewrite Ep; exact Hp].
  - intros [= <- <-]. inversion Hr as [|x y Ht0 Hr']; subst. split; [exact Ht0|].
    split; cbn; [exact Hr'|]. intros p [= <-]. exact Ht0.
Qed.

Lemma as_ident_P t i : tokP t -> as_ident t = Some i -> tokP i.
Proof.
  unfold as_ident. intros Ht. destruct (ty t); try discriminate; intros [= <-]; exact Ht.
Qed.

Lemma pop_ident_P s i s' : winv s -> pop_ident s = WOk i s' -> tokP i /\ winv s'.
Proof.
  intros Hs. unfold pop_ident.
  destruct (pop_token s) as [t s1|t0 e0 s1|p|] eqn:E; try discriminate. cbn [wbind].
  destruct (pop_token_P _ _ _ Hs E) as [Ht H1].
  destruct (as_ident t) as [i0|] eqn:Ei; [|discriminate]. intros [= <- <-].
  split; [exact (as_ident_P _ _ Ht Ei)|exact H1].
Qed.

Lemma pop_reference_loop_P : forall fuel acc s r s', winv s -> refP acc ->
  pop_reference_loop fuel acc s = WOk r s' -> refP r /\ winv s'.
Proof.
  induction fuel as [|f IH]; intros acc s r s' Hs Ha; cbn [pop_reference_loop]; [discriminate|].
  destruct (pop_ident s) as [i s1|t e s1|p|] eqn:E; try discriminate.
  - destruct (pop_ident_P _ _ _ Hs E) as [Hi H1].
    assert (Ha' : refP (acc ++ [i])) by (apply Forall_app; split; [exact Ha|constructor; [exact Hi|constructor]]).
    destruct (tt_eqb (next_type s1) DOT).
    + destruct (pop_token s1) as [t2 s2|t2 e2 s2|p|] eqn:E2; try discriminate. cbn [wbind].
      destruct (pop_token_P _ _ _ H1 E2) as [_ H2]. apply IH; assumption.
    + intros [= <- <-]. split; assumption.
  - destruct acc; discriminate.
Qed.

Lemma pop_reference_P s r s' : winv s -> pop_reference s = WOk r s' -> refP r /\ winv s'.
Proof. intros Hs. unfold pop_reference. apply pop_reference_loop_P; [exact Hs|constructor]. Qed.

Lemma pop_elems_P pv :
  (forall s v s', winv s -> pv s = WOk v s' -> valP v /\ winv s') ->
  forall fuel2 op acc s v s', winv s -> Forall valP acc ->
  pop_elems pv fuel2 op acc s = WOk v s' -> valP v /\ winv s'.
Proof.
  intros Hpv. induction fuel2 as [|f2 IH]; intros op acc s v s' Hs Ha; cbn [pop_elems]; [discriminate|].
  destruct (pv s) as [v0 s2|t e s2|p|] eqn:Ev; try discriminate. cbn [wbind].
  destruct (Hpv _ _ _ Hs Ev) as [Hv0 H2].
  assert (Ha' : Forall valP (acc ++ [v0])) by (apply Forall_app; split; [exact Ha|constructor; [exact Hv0|constructor]]).
  destruct (pop_token s2) as [t3 s3|t3 e3 s3|p|] eqn:E3; cbn [wbind];
    [|destruct (tt_eqb (next_type s2) COMMA); [|destruct (tt_eqb (next_type s2) RBRACK)]; discriminate..].
  destruct (pop_token_P _ _ _ H2 E3) as [_ H3].
  destruct (tt_eqb (next_type s2) COMMA); [apply IH; assumption|].
  destruct (tt_eqb (next_type s2) RBRACK); [|discriminate].
  intros [= <- <-]. split; [constructor; exact Ha'|exact H3].
Qed.

Lemma pop_value_P : forall fuel depth s v s', winv s ->
  pop_value fuel depth s = WOk v s' -> valP v /\ winv s'.
Proof.
  induction fuel as [|f IH]; intros depth s v s' Hs; cbn [pop_value]; [discriminate|].
  destruct (tt_eqb (next_type s) IDENT).
  { destruct (pop_reference s) as [r s1|t e s1|p|] eqn:Er; try discriminate. cbn [wbind]. intros [= <- <-].
    destruct (pop_reference_P _ _ _ Hs Er) as [Hr H1]. split; [|exact H1].
    constructor. unfold tokP. cbn [lit]. unfold ref_string. apply join_with_P; [lia|apply map_lit_P, Hr]. }
  destruct (is_literal (next_type s)).
  { destruct (pop_token s) as [t s1|t e s1|p|] eqn:Et; try discriminate. cbn [wbind]. intros [= <- <-].
    destruct (pop_token_P _ _ _ Hs Et) as [Ht H1]. split; [constructor; exact Ht|exact H1]. }
  destruct (tt_eqb (next_type s) LBRACK); cycle 1.
  { destruct (pop_token s); discriminate. }
  destruct (pop_token s) as [op s1|t e s1|p|] eqn:Et; try discriminate. cbn [wbind].
  destruct (pop_token_P _ _ _ Hs Et) as [_ H1].
  destruct (N.leb max_value_depth depth); [discriminate|].
  destruct (tt_eqb (next_type s1) RBRACK).
  { destruct (pop_token s1) as [t2 s2|t2 e2 s2|p|] eqn:E2; try discriminate. cbn [wbind]. intros [= <- <-].
    destruct (pop_token_P _ _ _ H1 E2) as [_ H2]. split; [constructor; constructor|exact H2]. }
  apply (pop_elems_P (pop_value f (N.succ depth))); [|exact H1|constructor].
  intros s2 v2 s3 H2 E2. exact (IH _ _ _ _ H2 E2).
Qed.

Lemma pop_value_top_P s v s' : winv s -> pop_value_top s = WOk v s' -> valP v /\ winv s'.
Proof. intros Hs. unfold pop_value_top. apply pop_value_P, Hs. Qed.

Lemma pop_description_loop_P : forall fuel acc s d s', winv s -> Forall tokP acc ->
  pop_description_loop fuel acc s = WOk d s' -> descP d /\ winv s'.
Proof.
  induction fuel as [|f IH]; intros acc s d s' Hs Ha; cbn [pop_description_loop]; [discriminate|].
  destruct (pop_token s) as [t s1|t e s1|p|] eqn:Et; try discriminate. cbn [wbind].
  destruct (pop_token_P _ _ _ Hs Et) as [Ht H1].
  assert (Ha' : Forall tokP (acc ++ [t])) by (apply Forall_app; split; [exact Ha|constructor; [exact Ht|constructor]]).
  destruct (tt_eqb (peek_type 0 s1) EOL && tt_eqb (peek_type 1 s1) DESCRIPTION)%bool.
  - destruct (pop_token s1) as [t2 s2|t2 e2 s2|p|] eqn:E2; try discriminate. cbn [wbind].
    destruct (pop_token_P _ _ _ H1 E2) as [_ H2]. apply IH; assumption.
  - intros [= <- <-]. split; [|exact H1]. split; cbn [dtoks dvalue]; [exact Ha'|].
    apply join_with_P; [lia|apply map_lit_P, Ha'].
Qed.

Lemma pop_tag_P s t s' : winv s -> pop_tag s = WOk t s' -> tagP t /\ winv s'.
Proof.
  intros Hs. unfold pop_tag.
  assert (Hafter : forall mk mt s0, winv s0 -> (forall m, mt = Some m -> tokP m) ->
    match next_type s0 with
    | IDENT | BOOL =>
      wbind (pop_reference s0) (fun r s1 => WOk (mkTag mk mt (TagRef r) (ref_start r) (ref_end r)) s1)
    | STRING =>
      wbind (pop_value_top s0) (fun v s1 => WOk (mkTag mk mt (TagVal v) (value_start v) (value_end v)) s1)
    | _ => wbind (pop_token s0) (fun t s1 => WErr t (Expected exp_tag) s1)
    end = WOk t s' -> tagP t /\ winv s').
  { intros mk mt s0 H0 Hm.
    assert (Hr : wbind (pop_reference s0) (fun r s1 => WOk (mkTag mk mt (TagRef r) (ref_start r) (ref_end r)) s1) = WOk t s' ->
                 tagP t /\ winv s').
    { destruct (pop_reference s0) as [r s1|t1 e1 s1|p|] eqn:Er; try discriminate. cbn [wbind]. intros [= <- <-].
      destruct (pop_reference_P _ _ _ H0 Er) as [Hr H1]. split; [|exact H1]. split; [exact Hm|exact Hr]. }
    assert (Hd : wbind (pop_token s0) (fun t s1 => WErr (A:=tag) t (Expected exp_tag) s1) = WOk t s' -> tagP t /\ winv s').
    { destruct (pop_token s0); discriminate. }
    destruct (next_type s0); auto.
    destruct (pop_value_top s0) as [v s1|t1 e1 s1|p|] eqn:Ev; try discriminate. cbn [wbind]. intros [= <- <-].
    destruct (pop_value_top_P _ _ _ H0 Ev) as [Hv H1]. split; [|exact H1]. split; [exact Hm|exact Hv]. }
  pose proof (Hafter MarkNone None s Hs ltac:(intros m [=])) as Hnone.
  assert (Hmark : forall mk,
      wbind (pop_token s) (fun t0 s1 =>
      match next_type s1 with
      | IDENT | BOOL =>
        wbind (pop_reference s1) (fun r s2 => WOk (mkTag mk (Some t0) (TagRef r) (ref_start r) (ref_end r)) s2)
      | STRING =>
        wbind (pop_value_top s1) (fun v s2 => WOk (mkTag mk (Some t0) (TagVal v) (value_start v) (value_end v)) s2)
      | _ => wbind (pop_token s1) (fun t s2 => WErr t (Expected exp_tag) s2)
      end) = WOk t s' -> tagP t /\ winv s').
  { intros mk. destruct (pop_token s) as [t0 s1|t0 e0 s1|p|] eqn:E; try discriminate. cbn [wbind].
    destruct (pop_token_P _ _ _ Hs E) as [Ht0 H1]. apply Hafter; [exact H1|]. intros m [= <-]. exact Ht0. }
  cbv zeta. destruct (next_type s); try exact Hnone; apply Hmark.
Qed.

Lemma tags_loop_P : forall fuel acc s ts s', winv s -> Forall tagP acc ->
  tags_loop fuel acc s = WOk ts s' -> Forall tagP ts /\ winv s'.
Proof.
  induction fuel as [|f IH]; intros acc s ts s' Hs Ha; cbn [tags_loop]; [discriminate|].
  destruct (can_start_tag (next_type s)); [|intros [= <- <-]; split; assumption].
  destruct (pop_tag s) as [t s1|t e s1|p|] eqn:Et; try discriminate. cbn [wbind].
  destruct (pop_tag_P _ _ _ Hs Et) as [Ht H1].
  apply IH; [exact H1|]. apply Forall_app. split; [exact Ha|constructor; [exact Ht|constructor]].
Qed.

Lemma quals_loop_P : forall fuel acc s ts s', winv s -> Forall tagP acc ->
  quals_loop fuel acc s = WOk ts s' -> Forall tagP ts /\ winv s'.
Proof.
  induction fuel as [|f IH]; intros acc s ts s' Hs Ha; cbn [quals_loop]; [discriminate|].
  destruct (tt_eqb (next_type s) COLON); [|intros [= <- <-]; split; assumption].
  destruct (pop_token s) as [t0 s0|t0 e0 s0|p|] eqn:E0; try discriminate. cbn [wbind].
  destruct (pop_token_P _ _ _ Hs E0) as [_ H0].
  destruct (pop_tag s0) as [t s1|t e s1|p|] eqn:Et; try discriminate. cbn [wbind].
  destruct (pop_tag_P _ _ _ H0 Et) as [Ht H1].
  apply IH; [exact H1|]. apply Forall_app. split; [exact Ha|constructor; [exact Ht|constructor]].
Qed.

Lemma end_statement_P s c s' : winv s -> end_statement s = WOk c s' -> commentP c /\ winv s'.
Proof.
  intros Hs. unfold end_statement.
  destruct (pop_token s) as [t s1|t e s1|p|] eqn:Et; try discriminate. cbn [wbind].
  destruct (pop_token_P _ _ _ Hs Et) as [Ht H1].
  destruct (ty t); try discriminate.
  - intros [= <- <-]. split; [exact I|exact H1].
  - intros [= <- <-]. split; [exact I|exact H1].
  - destruct (pop_token s1) as [t2 s2|t2 e2 s2|p|] eqn:E2; try discriminate. cbn [wbind].
    destruct (pop_token_P _ _ _ H1 E2) as [_ H2].
    destruct (ty t2); try discriminate; intros [= <- <-]; (split; [exact Ht|exact H2]).
Qed.

Lemma walk_value_assign_P r app s f s' : winv s -> refP r ->
  walk_value_assign r app s = WOk f s' -> frag_P f /\ winv s'.
Proof.
  intros Hs Hr. unfold walk_value_assign.
  destruct (pop_token s) as [t s1|t e s1|p|] eqn:Et; try discriminate. cbn [wbind].
  destruct (pop_token_P _ _ _ Hs Et) as [_ H1].
  destruct (negb (tt_eqb (ty t) ASSIGN)); [discriminate|].
  destruct (pop_value_top s1) as [v s2|t2 e2 s2|p|] eqn:Ev; try discriminate. cbn [wbind].
  destruct (pop_value_top_P _ _ _ H1 Ev) as [Hv H2].
  destruct (end_statement s2) as [c s3|t3 e3 s3|p|] eqn:Ee; try discriminate. cbn [wbind].
  destruct (end_statement_P _ _ _ H2 Ee) as [Hc H3].
  intros [= <- <-]. split; [|exact H3]. cbn. split; [exact Hr|]. split; [exact Hv|exact Hc].
Qed.

Lemma walk_statement_P s f s' : winv s -> walk_statement s = WOk f s' -> frag_P f /\ winv s'.
Proof.
  intros Hs. unfold walk_statement.
  destruct (pop_reference s) as [r s1|t e s1|p|] eqn:Er; try discriminate. cbn [wbind].
  destruct (pop_reference_P _ _ _ Hs Er) as [Hr H1].
  destruct (tt_eqb (next_type s1) ASSIGN).
  { apply walk_value_assign_P; assumption. }
  destruct (tt_eqb (next_type s1) PLUS).
  { destruct (pop_token s1) as [t2 s2|t2 e2 s2|p|] eqn:E2; try discriminate. cbn [wbind].
    destruct (pop_token_P _ _ _ H1 E2) as [_ H2].
    destruct (negb (tt_eqb (next_type s2) ASSIGN)); [destruct (pop_token s2); discriminate|].
    apply walk_value_assign_P; assumption. }
  destruct (tags_loop (S (length (wrest s1))) [] s1) as [tags s2|t e s2|p|] eqn:Et; try discriminate. cbn [wbind].
  destruct (tags_loop_P _ _ _ _ _ H1 (Forall_nil _) Et) as [Htags H2].
  destruct (quals_loop (S (length (wrest s2))) [] s2) as [quals s3|t e s3|p|] eqn:Eq; try discriminate. cbn [wbind].
  destruct (quals_loop_P _ _ _ _ _ H2 (Forall_nil _) Eq) as [Hquals H3].
  assert (Hhdr : forall d o e0 c, match d with Some d => descP d | None => True end -> commentP c ->
            headerP (mkHeader r tags quals d o (ref_start r) e0 c)).
  { intros d o e0 c Hd Hc. split; [exact Hr|]. split; [exact Htags|]. split; [exact Hquals|]. split; [exact Hd|exact Hc]. }
  destruct (next_type s3);
    try (destruct (pop_token s3) as [t4 s4|t4 e4 s4|p|]; discriminate).
  - intros [= <- <-]. split; [|exact H3]. apply Hhdr; exact I.
  - intros [= <- <-]. split; [|exact H3]. apply Hhdr; exact I.
  - destruct (end_statement s3) as [c s5|t5 e5 s5|p|] eqn:Ee; try discriminate. cbn [wbind].
    destruct (end_statement_P _ _ _ H3 Ee) as [Hc H5].
    intros [= <- <-]. split; [|exact H5]. apply Hhdr; [exact I|exact Hc].
  - destruct (pop_token s3) as [t4 s4|t4 e4 s4|p|] eqn:E4; try discriminate. cbn [wbind].
    destruct (pop_token_P _ _ _ H3 E4) as [Ht4 H4].
    intros [= <- <-]. split; [|exact H4]. apply Hhdr; [|exact I].
    split; cbn [dtoks dvalue]; [constructor; [exact Ht4|constructor]|exact Ht4].
  - destruct (pop_token s3) as [t4 s4|t4 e4 s4|p|] eqn:E4; try discriminate. cbn [wbind].
    destruct (pop_token_P _ _ _ H3 E4) as [_ H4].
    destruct (end_statement s4) as [c s5|t5 e5 s5|p|] eqn:Ee; try discriminate. cbn [wbind].
    destruct (end_statement_P _ _ _ H4 Ee) as [Hc H5].
    intros [= <- <-]. split; [|exact H5]. apply Hhdr; [exact I|exact Hc].
Qed.

Definition ofrag_P (fo : option fragment) : Prop := match fo with Some f => frag_P f | None => True end.

Lemma next_fragment_P s fo s' : winv s -> next_fragment s = WOk fo s' -> ofrag_P fo /\ winv s'.
Proof.
  intros Hs. unfold next_fragment.
  assert (Hstmt : wbind (walk_statement s) (fun f s1 => WOk (Some f) s1) = WOk fo s' -> ofrag_P fo /\ winv s').
  { destruct (walk_statement s) as [f0 s0|t0 e0 s0|p|] eqn:Ew; try discriminate. cbn [wbind].
    intros [= <- <-]. exact (walk_statement_P _ _ _ Hs Ew). }
  destruct (next_type s); try exact Hstmt;
    try (destruct (pop_token s) as [t s1|t e s1|p|] eqn:Et; cbn [wbind]; [|discriminate..];
         first [discriminate
               |destruct (pop_token_P _ _ _ Hs Et) as [Ht H1]; intros [= <- <-]; split; [first [exact I|exact Ht]|exact H1]]).
  unfold pop_description.
  destruct (pop_description_loop (S (length (wrest s))) [] s) as [d s0|t0 e0 s0|p|] eqn:Ed; try discriminate.
  cbn [wbind]. intros [= <- <-]. exact (pop_description_loop_P _ _ _ _ _ Hs (Forall_nil _) Ed).
Qed.

Lemma walk_loop_P : forall fuel s fs ds, winv s ->
  walk_fragments_loop fuel true s = WalkOk fs ds -> Forall frag_P fs.
Proof.
  induction fuel as [|f IH]; intros s fs ds Hs; cbn [walk_fragments_loop]; [discriminate|].
  destruct (tt_eqb (next_type s) EOF); [intros [= <- _]; constructor|].
  destruct (next_fragment s) as [fo s1|t e s1|p|] eqn:En; try discriminate.
  - destruct (next_fragment_P _ _ _ Hs En) as [Hfo H1].
    destruct (walk_fragments_loop f true s1) as [fs1 ds1|p|] eqn:Ew; try discriminate.
    pose proof (IH _ _ _ H1 Ew) as Hfs.
    destruct fo as [fr|]; intros [= <- _]; [constructor; [exact Hfo|exact Hfs]|exact Hfs].
  - intros [= <- _]. constructor.
Qed.

Theorem collect_fragments_P data fs : collect_fragments data = Ok fs -> Forall P data -> Forall frag_P fs.
Proof.
  unfold collect_fragments. intros E Hd.
  destruct (all_tokens true data) as [toks|ds|] eqn:El; try discriminate.
  pose proof (all_tokens_P _ _ _ El Hd) as Htoks. unfold walk_fragments in E.
  destruct (walk_fragments_loop (S (length toks)) true (mkW toks None)) as [fs' ds|p|] eqn:Ew; try discriminate.
  destruct ds; [|discriminate]. injection E as <-.
  assert (Hw : winv (mkW toks None)) by (split; [exact Htoks|intros p Hp; discriminate Hp]).
  exact (walk_loop_P _ _ _ _ Hw Ew).
Qed.

(* ---- formatter --------------------------------------------------------------------------- *)
Lemma cons_ascii c l : c < 128 -> Forall P l -> Forall P (c :: l).
Proof. intros Hc Hl. constructor; [apply P_ascii, Hc|exact Hl]. Qed.

Lemma escape_string_P l : Forall P l -> Forall P (escape_string l).
Proof.
  induction l as [|c r IH]; intros H; [constructor|]. inversion H as [|x y Hc Hr]; subst.
  cbn [escape_string]. destruct (N.eqb c 92 || N.eqb c 34 || N.eqb c 10)%bool.
  - apply cons_ascii; [lia|]. constructor; [exact Hc|exact (IH Hr)].
  - constructor; [exact Hc|exact (IH Hr)].
Qed.

Lemma double_slash_P l : Forall P l -> Forall P (double_slash l).
Proof.
  induction l as [|c r IH]; intros H; [constructor|]. inversion H as [|x y Hc Hr]; subst.
  cbn [double_slash]. destruct (N.eqb c 47).
  - apply cons_ascii; [lia|]. apply cons_ascii; [lia|]. exact (IH Hr).
  - constructor; [exact Hc|exact (IH Hr)].
Qed.

Lemma token_source_P t : tokP t -> Forall P (token_source t).
Proof.
  unfold tokP, token_source. intros H. destruct (ty t); try exact H.
  - apply cons_ascii; [lia|]. apply Forall_app. split; [apply escape_string_P, H|]. apply cons_ascii; [lia|constructor].
  - apply cons_ascii; [lia|]. apply Forall_app. split; [apply double_slash_P, H|]. apply cons_ascii; [lia|constructor].
  - apply cons_ascii; [lia|]. apply cons_ascii; [lia|]. exact H.
  - apply cons_ascii; [lia|]. apply cons_ascii; [lia|]. apply Forall_app. split; [exact H|].
    apply cons_ascii; [lia|]. apply cons_ascii; [lia|constructor].
  - apply cons_ascii; [lia|]. apply cons_ascii; [lia|]. exact H.
Qed.

Lemma sp_P : Forall P sp.
Proof. unfold sp. apply cons_ascii; [lia|constructor]. Qed.

Lemma reference_text_P r : refP r -> Forall P (reference_text r).
Proof.
  intros H. unfold reference_text. apply join_with_P; [lia|]. apply Forall_map.
  apply (Forall_impl _ token_source_P H).
Qed.

Lemma value_ind_P (Q : value -> Prop) :
  (forall t s e, Q (VTok t s e)) -> (forall vs s e, Forall Q vs -> Q (VArr vs s e)) -> forall v, Q v.
Proof.
  intros H1 H2. fix F 1. intros [t s e|vs s e]; [apply H1|]. apply H2.
  induction vs as [|x r IH]; constructor; [apply F|exact IH].
Qed.

Lemma value_text_P : forall v, valP v -> Forall P (value_text v).
Proof.
  apply (value_ind_P (fun v => valP v -> Forall P (value_text v))).
  - intros t s e H. inversion H; subst. cbn [value_text]. apply token_source_P. assumption.
  - intros vs s e IH H. inversion H as [|vs0 s0 e0 Hvs]; subst. cbn [value_text].
    apply cons_ascii; [lia|]. apply Forall_app. split; [|apply cons_ascii; [lia|constructor]].
    clear H. generalize true. induction vs as [|x r IHr]; intros b; [constructor|].
    inversion IH as [|? ? Hx Hr]; subst. inversion Hvs as [|? ? Hvx Hvr]; subst.
    apply Forall_app. split.
    { destruct b; [constructor|]. apply cons_ascii; [lia|]. apply cons_ascii; [lia|constructor]. }
    apply Forall_app. split; [exact (Hx Hvx)|apply IHr; assumption].
Qed.

Lemma tag_text_P t : tagP t -> Forall P (tag_text t).
Proof.
  intros [Hm Hb]. unfold tag_text. apply Forall_app. split.
  - destruct (tmark t); [constructor| |];
      (destruct (tmark_tok t) as [mt|]; [apply Forall_app; split; [apply token_source_P, Hm; reflexivity|exact sp_P]|exact sp_P]).
  - destruct (tbody t) as [r|v]; [apply reference_text_P, Hb|].
    destruct v as [tok s e|vs s e]; [|constructor]. inversion Hb; subst. apply token_source_P. assumption.
Qed.

Lemma inline_comment_P c : commentP c -> Forall P (inline_comment c).
Proof.
  destruct c as [c|]; cbn; intros H; [|constructor].
  apply cons_ascii; [lia|]. apply cons_ascii; [lia|]. apply cons_ascii; [lia|]. exact H.
Qed.

Lemma tabs_P n : Forall P (tabs n).
Proof. unfold tabs. induction n as [|n IH]; cbn [repeat]; [constructor|]. apply cons_ascii; [lia|exact IH]. Qed.

Lemma flat_map_P {A} (Q : A -> Prop) (f : A -> list N) l :
  (forall x, Q x -> Forall P (f x)) -> Forall Q l -> Forall P (flat_map f l).
Proof.
  intros Hf. induction l as [|x r IH]; intros H; [constructor|]. inversion H as [|y z Hx Hr]; subst.
  cbn [flat_map]. apply Forall_app. split; [exact (Hf _ Hx)|exact (IH Hr)].
Qed.

Lemma header_text_P h : headerP h -> Forall P (header_text h).
Proof.
  intros (Hr & Ht & Hq & Hd & _). unfold header_text.
  apply Forall_app. split; [apply reference_text_P, Hr|].
  apply Forall_app. split.
  { apply (flat_map_P tagP); [|exact Ht]. intros t Htg. apply Forall_app. split; [exact sp_P|apply tag_text_P, Htg]. }
  apply Forall_app. split.
  { apply (flat_map_P tagP); [|exact Hq]. intros t Htg. apply cons_ascii; [lia|apply tag_text_P, Htg]. }
  apply Forall_app. split.
  { destruct (hopen h); [|constructor]. apply cons_ascii; [lia|]. apply cons_ascii; [lia|constructor]. }
  destruct (hdesc h) as [d|]; [|constructor]. destruct Hd as [Hdt _].
  apply Forall_app. split; [exact sp_P|]. apply (flat_map_P tokP); [exact token_source_P|exact Hdt].
Qed.

Lemma assign_text_P a : assignP a -> Forall P (assign_text a).
Proof.
  intros (Hk & Hv & _). unfold assign_text.
  apply Forall_app. split; [apply reference_text_P, Hk|].
  apply Forall_app. split; [|apply value_text_P, Hv].
  destruct (aappend a); repeat (apply cons_ascii; [lia|]); constructor.
Qed.

Definition fdiff_P (d : fdiff) : Prop := Forall P (fd_text d).

Lemma single_line_P n s e c parts : Forall P parts -> commentP c -> fdiff_P (single_line n s e c parts).
Proof.
  intros Hp Hc. unfold fdiff_P, single_line. cbn [fd_text].
  apply Forall_app. split; [apply tabs_P|]. apply Forall_app. split; [exact Hp|].
  apply Forall_app. split; [apply inline_comment_P, Hc|]. apply cons_ascii; [lia|constructor].
Qed.

(* description.go *)
Lemma fields_loop_P : forall l cur, Forall P l -> Forall P cur -> Forall (Forall P) (fields_loop l cur).
Proof.
  induction l as [|c r IH]; intros cur Hl Hc; cbn [fields_loop].
  - destruct cur; [constructor|]. constructor; [exact Hc|constructor].
  - inversion Hl as [|x y Hx Hr]; subst. destruct (is_space c).
    + destruct cur; [apply IH; [exact Hr|constructor]|]. constructor; [exact Hc|]. apply IH; [exact Hr|constructor].
    + apply IH; [exact Hr|]. apply app1_P; assumption.
Qed.

Lemma flow_words_P maxw : forall ws pend out p o, Forall (Forall P) ws -> Forall P pend -> Forall (Forall P) out ->
  flow_words maxw ws pend out = (p, o) -> Forall P p /\ Forall (Forall P) o.
Proof.
  induction ws as [|w r IH]; intros pend out p o Hws Hp Ho; cbn [flow_words].
  - intros [= <- <-]. split; assumption.
  - inversion Hws as [|x y Hw Hr]; subst. destruct pend as [|p0 pr].
    + apply IH; assumption.
    + destruct (Z.ltb maxw (Z.of_N (utf8_len (p0 :: pr)) + Z.of_N (utf8_len w))).
      * apply IH; [exact Hr|exact Hw|]. apply Forall_app. split; [exact Ho|constructor; [exact Hp|constructor]].
      * apply IH; [exact Hr| |exact Ho]. apply Forall_app. split; [exact Hp|]. apply cons_ascii; [lia|exact Hw].
Qed.

Lemma split_on_P sep : forall s, Forall P s -> Forall (Forall P) (split_on sep s).
Proof.
  induction s as [|c r IH]; intros H; cbn [split_on]; [constructor; constructor|].
  inversion H as [|x y Hc Hr]; subst. specialize (IH Hr). destruct (N.eqb c sep).
  - constructor; [constructor|exact IH].
  - destruct (split_on sep r) as [|l ls].
    + constructor; [constructor; [exact Hc|constructor]|constructor].
    + inversion IH as [|x y Hl Hls]; subst. constructor; [constructor; [exact Hc|exact Hl]|exact Hls].
Qed.

Lemma reformat_loop_P maxw : forall lines pend le out, Forall (Forall P) lines -> Forall P pend ->
  Forall (Forall P) out -> Forall (Forall P) (reformat_loop maxw lines pend le out).
Proof.
  induction lines as [|line r IH]; intros pend le out Hl Hp Ho; cbn [reformat_loop].
  - destruct pend; [exact Ho|]. apply Forall_app. split; [exact Ho|constructor; [exact Hp|constructor]].
  - inversion Hl as [|x y Hline Hr]; subst.
    destruct (all_space line).
    + apply IH; [exact Hr|constructor|].
      assert (H1 : Forall (Forall P) (match pend with [] => out | _ :: _ => out ++ [pend] end)).
      { destruct pend; [exact Ho|]. apply Forall_app. split; [exact Ho|constructor; [exact Hp|constructor]]. }
      destruct le; [exact H1|]. apply Forall_app. split; [exact H1|constructor; constructor].
    + destruct (flow_words maxw (fields line) pend out) as [pend' out'] eqn:Ef.
      destruct (flow_words_P maxw _ _ _ _ _ (fields_loop_P _ _ Hline (Forall_nil _)) Hp Ho Ef) as [Hp' Ho'].
      apply IH; assumption.
Qed.

Lemma drop_while_P {A} (Q : A -> Prop) (p : A -> bool) l : Forall Q l -> Forall Q (drop_while p l).
Proof.
  induction l as [|x r IH]; intros H; [constructor|]. cbn [drop_while].
  destruct (p x); [|exact H]. inversion H; subst. apply IH. assumption.
Qed.

Lemma trim_right_P (p : N -> bool) l : Forall P l -> Forall P (trim_right p l).
Proof. intros H. unfold trim_right. apply Forall_rev, drop_while_P, Forall_rev, H. Qed.

Lemma multi_line_P n s e lines : Forall (Forall P) lines -> fdiff_P (multi_line n s e lines).
Proof.
  intros H. unfold fdiff_P, multi_line. cbn [fd_text].
  apply Forall_app. split; [|apply cons_ascii; [lia|constructor]].
  apply join_with_P; [lia|]. apply Forall_map. apply (Forall_impl _ (P:=Forall P)); [|exact H].
  intros l Hl. apply trim_right_P. apply Forall_app. split; [|exact Hl].
  apply Forall_app. split; [apply tabs_P|]. apply cons_ascii; [lia|]. apply cons_ascii; [lia|constructor].
Qed.

Lemma description_diff_P n d : descP d -> fdiff_P (description_diff n d).
Proof.
  intros [_ Hv]. unfold description_diff. apply multi_line_P.
  assert (H : Forall (Forall P) (reformat_description (dvalue d) (80 - Z.of_nat n * 4))).
  { unfold reformat_description. apply reformat_loop_P; [apply split_on_P, Hv|constructor|constructor]. }
  destruct (reformat_description (dvalue d) (80 - Z.of_nat n * 4)); [constructor; constructor|exact H].
Qed.

Lemma diff_file_P : forall fs n, Forall frag_P fs -> Forall fdiff_P (diff_file fs n).
Proof.
  induction fs as [|f r IH]; intros n H; [constructor|]. inversion H as [|x y Hf Hr]; subst.
  cbn [diff_file]. destruct f as [h|a|d|t|t]; cbn [frag_P] in Hf; (constructor; [|apply IH, Hr]).
  - apply single_line_P; [apply header_text_P, Hf|apply Hf].
  - apply single_line_P; [apply assign_text_P, Hf|apply Hf].
  - apply description_diff_P, Hf.
  - apply single_line_P; [apply token_source_P, Hf|exact I].
  - apply single_line_P; [apply token_source_P, Hf|exact I].
Qed.

Lemma fmt_join_P : forall ds first last_end, Forall fdiff_P ds -> Forall P (fmt_join ds first last_end).
Proof.
  induction ds as [|d r IH]; intros first le H; [constructor|]. inversion H as [|x y Hd Hr]; subst.
  cbn [fmt_join]. apply Forall_app. split.
  { destruct (negb first && Z.ltb le (fd_from d))%bool; [apply cons_ascii; [lia|constructor]|constructor]. }
  apply Forall_app. split; [exact Hd|apply IH, Hr].
Qed.

(* Fmt only writes runes of its input and ASCII *)
Theorem fmt_runes_closed : forall data out, Forall P data -> fmt_runes data = Ok out -> Forall P out.
Proof.
  intros data out Hd. unfold fmt_runes, collect_fmt.
  destruct (collect_fragments data) as [fs|e|p|] eqn:Ec; cbn [omap]; try discriminate.
  intros [= <-]. apply fmt_join_P, diff_file_P. exact (collect_fragments_P _ _ Ec Hd).
Qed.

End Closed.

(* ---- instance: valid runes ------------------------------------------------------------------ *)
Theorem fmt_runes_valid : forall input out, fmt_runes (utf8_decode input) = Ok out ->
  Forall (fun c => valid_rune c = true) out.
Proof.
  intros input out E.
  apply (fmt_runes_closed (fun c => valid_rune c = true) valid_rune_ascii (utf8_decode input) out); [|exact E].
  apply decode_valid.
Qed.

(* string(Fmt-output) read back as runes is the output *)
Theorem fmt_bytes_decode : forall input out, fmt_runes (utf8_decode input) = Ok out ->
  utf8_decode (utf8_encode out) = out.
Proof. intros input out E. apply decode_encode. exact (fmt_runes_valid input out E). Qed.

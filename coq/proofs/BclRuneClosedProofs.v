(* BclRuneClosedProofs.v — the formatter only emits runes of its input plus ASCII:
   for any rune predicate P that holds of every ASCII rune, if every rune of the
   input satisfies P then so does every rune of every token literal (lexer), of
   every fragment (walker) and of the formatted text (fmt_runes).  Instance:
   P = valid_rune, so Fmt([]rune(input)) survives string(...) / []rune(...). *)
From Coq Require Import String List NArith ZArith Bool Lia ZifyN ZifyNat ZifyBool.
From J5V.lib Require Import Text Outcome.
From J5V.model Require Import BclLexer BclParser BclFmt.
From J5V.proofs Require Import BclTextProofs BclUtf8Proofs.
Import ListNotations.
Local Open Scope N_scope.
Arguments Nat.sub : simpl never.

Section Closed.
Variable P : N -> Prop.
Hypothesis P_ascii : forall c, c < 128 -> P c.

(* ---- lexer ------------------------------------------------------------------------------ *)
Definition lst_P (s : lstate) : Prop := Forall P (rest s) /\ (forall c, ch s = Some c -> P c).
Definition tokP (t : token) : Prop := Forall P (lit t).

Lemma new_lexer_P data : Forall P data -> lst_P (new_lexer data).
Proof.
  intros H. split; [exact H|]. cbn. intros c [= <-]. apply P_ascii. lia.
Qed.

Lemma next_P s : lst_P s -> lst_P (next s).
Proof.
  intros [Hr Hc]. unfold next. destruct (rest s) as [|r t] eqn:E; split; cbn.
  - constructor.
  - intros c [=].
  - inversion Hr; assumption.
  - intros c [= <-]. inversion Hr; assumption.
Qed.

Lemma ch_list_P s : lst_P s -> Forall P (ch_list s).
Proof.
  intros [_ Hc]. unfold ch_list. destruct (ch s) as [c|]; [|constructor].
  constructor; [apply Hc; reflexivity|constructor].
Qed.

Lemma ch_P s c : lst_P s -> ch s = Some c -> P c.
Proof. intros [_ Hc]. apply Hc. Qed.

Lemma app1_P acc c : Forall P acc -> P c -> Forall P (acc ++ [c]).
Proof. intros Ha Hc. apply Forall_app. split; [exact Ha|constructor; [exact Hc|constructor]]. Qed.

Lemma skip_whitespace_P : forall fuel s s', skip_whitespace fuel s = Some s' -> lst_P s -> lst_P s'.
Proof.
  induction fuel as [|f IH]; intros s s' E Hs; cbn [skip_whitespace] in E; [discriminate|].
  destruct (peek s) as [v|]; [|injection E as <-; exact Hs].
  destruct (is_space v && negb (N.eqb v 10))%bool; [|injection E as <-; exact Hs].
  apply (IH _ _ E). apply next_P, Hs.
Qed.

Lemma take_line_P : forall fuel s acc l s', take_line fuel s acc = ROk l s' ->
  lst_P s -> Forall P acc -> Forall P l /\ lst_P s'.
Proof.
  induction fuel as [|f IH]; intros s acc l s' E Hs Ha; cbn [take_line] in E; [discriminate|].
  destruct (peek s) as [v|]; [|injection E as <- <-; split; assumption].
  destruct (N.eqb v 10); [injection E as <- <-; split; assumption|].
  apply (IH _ _ _ _ E); [apply next_P, Hs|].
  apply Forall_app. split; [exact Ha|apply ch_list_P, next_P, Hs].
Qed.

Lemma block_comment_loop_P : forall fuel s acc l s', block_comment_loop fuel s acc = ROk l s' ->
  lst_P s -> Forall P acc -> Forall P l /\ lst_P s'.
Proof.
  induction fuel as [|f IH]; intros s acc l s' E Hs Ha; cbn [block_comment_loop] in E; [discriminate|].
  cbv zeta in E. pose proof (next_P s Hs) as H1.
  destruct (opt_eq (ch (next s)) 42 && opt_eq (peek (next s)) 47)%bool.
  { injection E as <- <-. split; [exact Ha|apply next_P, H1]. }
  destruct (ch (next s)) as [c|] eqn:Ec; [|injection E as <- <-; split; assumption].
  apply (IH _ _ _ _ E H1). apply app1_P; [exact Ha|exact (ch_P _ _ H1 Ec)].
Qed.

Lemma regex_loop_P : forall fuel s acc l s', regex_loop fuel s acc = ROk l s' ->
  lst_P s -> Forall P acc -> Forall P l /\ lst_P s'.
Proof.
  induction fuel as [|f IH]; intros s acc l s' E Hs Ha; cbn [regex_loop] in E; [discriminate|].
  cbv zeta in E. pose proof (next_P s Hs) as H1.
  destruct (ch (next s)) as [c|] eqn:Ec; [|discriminate].
  destruct (N.eqb c 10); [discriminate|].
  destruct (N.eqb c 47).
  - destruct (opt_eq (peek (next s)) 47); [|injection E as <- <-; split; assumption].
    apply (IH _ _ _ _ E); [apply next_P, H1|]. apply app1_P; [exact Ha|apply P_ascii; lia].
  - apply (IH _ _ _ _ E H1). apply app1_P; [exact Ha|exact (ch_P _ _ H1 Ec)].
Qed.

Lemma lex_escape_P q s s' : lex_escape q s = Some s' -> lst_P s -> lst_P s'.
Proof.
  unfold lex_escape. destruct (peek s) as [v|]; [|discriminate].
  destruct (N.eqb v 92 || N.eqb v 10 || N.eqb v q)%bool; [|discriminate].
  intros [= <-] Hs. apply next_P, Hs.
Qed.

Lemma string_loop_P : forall fuel q s acc l s', string_loop fuel q s acc = ROk l s' ->
  lst_P s -> Forall P acc -> Forall P l /\ lst_P s'.
Proof.
  induction fuel as [|f IH]; intros q s acc l s' E Hs Ha; cbn [string_loop] in E; [discriminate|].
  cbv zeta in E. pose proof (next_P s Hs) as H1.
  destruct (ch (next s)) as [c|] eqn:Ec; [|discriminate].
  destruct (N.eqb c q); [injection E as <- <-; split; assumption|].
  destruct (N.eqb c 10); [discriminate|].
  destruct (N.eqb c 92).
  - destruct (lex_escape q (next s)) as [s2|] eqn:Ee; [|discriminate].
    pose proof (lex_escape_P _ _ _ Ee H1) as H2.
    apply (IH _ _ _ _ _ E H2). apply Forall_app. split; [exact Ha|apply ch_list_P, H2].
  - apply (IH _ _ _ _ _ E H1). apply app1_P; [exact Ha|exact (ch_P _ _ H1 Ec)].
Qed.

Lemma ident_loop_P : forall fuel s acc l s', ident_loop fuel s acc = ROk l s' ->
  lst_P s -> Forall P acc -> Forall P l /\ lst_P s'.
Proof.
  induction fuel as [|f IH]; intros s acc l s' E Hs Ha; cbn [ident_loop] in E; [discriminate|].
  destruct (peek s) as [v|]; [|injection E as <- <-; split; assumption].
  destruct (is_letter v || is_digit v || N.eqb v 95)%bool; [|injection E as <- <-; split; assumption].
  apply (IH _ _ _ _ E); [apply next_P, Hs|].
  apply Forall_app. split; [exact Ha|apply ch_list_P, next_P, Hs].
Qed.

Lemma number_loop_P : forall fuel s sd acc typ l s', number_loop fuel s sd acc = ROk (typ, l) s' ->
  lst_P s -> Forall P acc -> Forall P l /\ lst_P s'.
Proof.
  induction fuel as [|f IH]; intros s sd acc typ l s' E Hs Ha; cbn [number_loop] in E; [discriminate|].
  destruct (peek s) as [v|]; [|injection E as _ <- <-; split; assumption].
  destruct (is_digit v).
  { apply (IH _ _ _ _ _ _ E); [apply next_P, Hs|].
    apply Forall_app. split; [exact Ha|apply ch_list_P, next_P, Hs]. }
  destruct (N.eqb v 46); [|injection E as _ <- <-; split; assumption].
  destruct sd; [discriminate|].
  apply (IH _ _ _ _ _ _ E); [apply next_P, Hs|]. apply app1_P; [exact Ha|apply P_ascii; lia].
Qed.

Lemma lift_lit_P typ start r dflt t s' :
  (forall l s1, r = ROk l s1 -> Forall P l /\ lst_P s1) ->
  lift_lit typ start r dflt = (LTok t, s') -> tokP t /\ lst_P s'.
Proof.
  intros Hr. unfold lift_lit. destruct r as [l s1|d s1|]; try discriminate.
  intros [= <- <-]. exact (Hr l s1 eq_refl).
Qed.

Lemma next_token_fuel_P : forall fuel s0 t s', next_token_fuel fuel s0 = (LTok t, s') ->
  lst_P s0 -> tokP t /\ lst_P s'.
Proof.
  induction fuel as [|f IH]; intros s0 t s' E Hs0; cbn [next_token_fuel] in E; [discriminate|].
  cbv zeta in E. pose proof (next_P s0 Hs0) as Hs. set (s := next s0) in *.
  destruct (ch s) as [c|] eqn:Ec; [|discriminate].
  pose proof (ch_P _ _ Hs Ec) as Hc.
  assert (Hc1 : Forall P [c]) by (constructor; [exact Hc|constructor]).
  destruct (op_of c) as [op|].
  { injection E as <- <-. split; [exact Hc1|exact Hs]. }
  destruct (N.eqb c 47).
  { destruct (opt_eq (peek s) 47).
    { apply (lift_lit_P _ _ _ _ _ _) in E; [exact E|]. intros l s1 El. unfold lex_line_comment in El.
      apply (take_line_P _ _ _ _ _ El); [apply next_P, Hs|constructor]. }
    destruct (opt_eq (peek s) 42).
    { apply (lift_lit_P _ _ _ _ _ _) in E; [exact E|]. intros l s1 El. unfold lex_block_comment in El.
      apply (block_comment_loop_P _ _ _ _ _ El); [apply next_P, Hs|constructor]. }
    apply (lift_lit_P _ _ _ _ _ _) in E; [exact E|]. intros l s1 El. unfold lex_regex in El.
    apply (regex_loop_P _ _ _ _ _ El); [exact Hs|constructor]. }
  destruct (N.eqb c 34).
  { apply (lift_lit_P _ _ _ _ _ _) in E; [exact E|]. intros l s1 El. unfold lex_string in El.
    rewrite Ec in El. apply (string_loop_P _ _ _ _ _ _ El); [exact Hs|constructor]. }
  destruct (N.eqb c 124).
  { apply (lift_lit_P _ _ _ _ _ _) in E; [exact E|]. intros l s1 El. unfold lex_description_line in El.
    destruct (skip_whitespace (S (length (rest s))) s) as [s2|] eqn:Ew; [|discriminate].
    apply (take_line_P _ _ _ _ _ El); [exact (skip_whitespace_P _ _ _ Ew Hs)|constructor]. }
  destruct (N.eqb c 10).
  { injection E as <- <-. split; [exact Hc1|exact Hs]. }
  destruct (is_space c); [exact (IH _ _ _ E Hs)|].
  destruct (is_digit c).
  { destruct (lex_number s) as [[typ l] s1|d s1|] eqn:El; try discriminate.
    injection E as <- <-. unfold lex_number in El.
    apply (number_loop_P _ _ _ _ _ _ _ El Hs). apply ch_list_P, Hs. }
  destruct (is_letter c); [|discriminate].
  destruct (lex_ident s) as [l s1|d s1|] eqn:El; try discriminate.
  unfold lex_ident in El.
  pose proof (ident_loop_P _ _ _ _ _ El Hs (ch_list_P _ Hs)) as Hl.
  destruct (list_N_eqb l lit_true || list_N_eqb l lit_false)%bool; injection E as <- <-; exact Hl.
Qed.

Lemma all_tokens_loop_P ff : forall fuel s ts b, all_tokens_loop fuel ff s = (ts, [], b) ->
  lst_P s -> Forall tokP ts.
Proof.
  induction fuel as [|f IH]; intros s ts b E Hs; cbn [all_tokens_loop] in E; [injection E as <- _; constructor|].
  destruct (next_token s) as [[t|d| |] s1] eqn:En.
  - unfold next_token in En. destruct (next_token_fuel_P _ _ _ _ En Hs) as [Ht H1].
    destruct (all_tokens_loop f ff s1) as [[ts1 ds1] b1] eqn:El. injection E as <- -> <-.
    constructor; [exact Ht|exact (IH _ _ _ El H1)].
  - destruct ff; [discriminate|].
    destruct (all_tokens_loop f false s1) as [[ts1 ds1] b1]. discriminate.
  - injection E as <- _. constructor.
  - injection E as <- _. constructor.
Qed.

Theorem all_tokens_P ff data ts : all_tokens ff data = LexOk ts -> Forall P data -> Forall tokP ts.
Proof.
  unfold all_tokens. intros E Hd.
  destruct (all_tokens_loop (S (S (length data))) ff (new_lexer data)) as [[ts' ds] b] eqn:El.
  destruct b; [discriminate|]. destruct ds; [|discriminate]. injection E as <-.
  exact (all_tokens_loop_P ff _ _ _ _ El (new_lexer_P _ Hd)).
Qed.

End Closed.

(* ProtoPrintBytesProofs.v — C05 at byte level: the bytes of model/ProtoPrintBytes.v [render_bytes] (tied byte for
   byte to protoprint.PrintFile by the bytes stream) are read back by the lexer model as exactly the tokens of the
   token-level file theorem, hence (lexer + parser model) as a descriptor equivalent to the one printed.
   Sub-class: [bytes_modelled_b] (descriptor without source info, and the computable layout test on its bytes). *)
From Coq Require Import String List NArith ZArith Bool.
From J5V.lib Require Import Outcome Corr.
From J5V.model Require Import ProtoPrintLit ProtoPrint ProtoLex ProtoLayout ProtoPrintCorr ProtoPrintFile ProtoParseFile
  ProtoPrintFileWf ProtoPrintFileErase ProtoPrintBytes.
From J5V.proofs Require Import ProtoPrintFileFullProofs ProtoPrintFileWfProofs ProtoLexProofs ProtoPrintFileTextProofs
  ProtoPrintFileXProofs ProtoPrintBytesEraseProofs.
From J5V.proofs Require ProtoPrintFileExample.
Import ListNotations.
Local Open Scope N_scope.

Lemma bytes_modelled_parts gen imp D : bytes_modelled_b gen imp D = true ->
  unlocated_b D = true /\ gen_ok gen = true
  /\ is_layout (print_file_tokens_nc (to_symtab (dfile_symtab imp D)) D) (render_bytes gen imp D) = true.
Proof.
  unfold bytes_modelled_b. intro H.
  apply andb_prop in H. destruct H as [H Hl]. apply andb_prop in H. destruct H as [Hu Hg]. auto.
Qed.

(* the lexer model on the rendered bytes yields exactly the (comment-free) tokens of the token-level theorem *)
Theorem scan_render_bytes gen imp D : bytes_modelled_b gen imp D = true ->
  scan_text (render_bytes gen imp D) = Some (print_file_tokens_nc (to_symtab (dfile_symtab imp D)) D).
Proof.
  intro H. destruct (bytes_modelled_parts _ _ _ H) as (_ & _ & Hl). exact (scan_layout _ _ Hl).
Qed.

(* ... which, in the sub-class, are ALL the tokens the printer model writes (no comment pseudo tokens): the token
   list of C05_token_roundtrip itself *)
Theorem scan_render_bytes_tokens gen imp D : bytes_modelled_b gen imp D = true ->
  scan_text (render_bytes gen imp D) = Some (print_file_tokens (to_symtab (dfile_symtab imp D)) D).
Proof.
  intro H. destruct (bytes_modelled_parts _ _ _ H) as (Hu & _ & Hl).
  rewrite <- (print_tokens_unlocated _ D Hu). exact (scan_layout _ _ Hl).
Qed.

(* the rendering of the model depends on the descriptor only through lay_file: the canonical re-read descriptor
   has the same rendering (a fact about the MODEL function: canon_file D carries source lines, where the real
   printer's blank-line rule reads them; see the bytes stream's counters) *)
Lemma render_bytes_canon gen imp D : render_bytes gen imp (canon_file D) = render_bytes gen imp D.
Proof. unfold render_bytes. rewrite lay_canon_file. reflexivity. Qed.

(* the round trip over BYTES for the sub-class *)
Theorem bytes_roundtrip_subclass gen imp D : wf_dfile imp D -> bytes_modelled_b gen imp D = true ->
  let text := render_bytes gen imp D in
  scan_text text = Some (print_file_tokens_nc (to_symtab (dfile_symtab imp D)) D)
  /\ exists D0, read_text imp text = Some (erase_dfile D0)
       /\ desc_equiv D D0 /\ wf_dfile imp D0
       /\ print_file_tokens_nc (to_symtab (dfile_symtab imp D0)) D0
          = print_file_tokens_nc (to_symtab (dfile_symtab imp D)) D
       /\ render_bytes gen imp D0 = text.
Proof.
  intros Hw H. cbv zeta. destruct (bytes_modelled_parts _ _ _ H) as (_ & _ & Hl).
  split; [exact (scan_layout _ _ Hl)|].
  exists (canon_file D).
  split; [exact (text_roundtrip imp D _ Hw Hl)|].
  split; [exact (canon_file_equiv D)|].
  split; [exact (canon_file_wf imp D Hw)|].
  split; [exact (print_nc_canon imp D)|exact (render_bytes_canon gen imp D)].
Qed.

(* ------------------------------------------------------------------ non-vacuity *)
Module Ex.
Import ProtoPrintFileExample.

Definition f_id_plain : dfield :=
  {| f_key := kk 0 0; f_cm := no_cmt; f_label := LNone;
     f_type := DSingle (DScalar (b "string")); f_name := b "id"; f_num := 1; f_json := b "id";
     f_opts := [opt_key; opt_validate] |}.

Definition m_foo_plain : delem :=
  DMsg (kk 0 0) no_cmt (b "Foo") [opt_object]
    [DField f_id_plain; DField f_bar; DField f_tags; DOneof (kk 0 0) no_cmt (b "pick") [] [f_a]; m_bar].

Definition ex_bytes_file : dfile :=
  {| d_pkg := pkg_t;
     d_imports := d_imports ex_file;
     d_fopts := d_fopts ex_file;
     d_exts := [];
     d_body := [m_foo_plain; svc_foo; e_kind] |}.

Definition ex_gen : list N := sb "verif".

Lemma ex_bytes_wf : wf_dfile ex_imp ex_bytes_file.
Proof. apply wf_dfile_b_sound. vm_compute. reflexivity. Qed.

Lemma ex_bytes_modelled : bytes_modelled_b ex_gen ex_imp ex_bytes_file = true.
Proof. vm_compute. reflexivity. Qed.
End Ex.

Theorem example_bytes :
  wf_dfile ProtoPrintFileExample.ex_imp Ex.ex_bytes_file
  /\ bytes_modelled_b Ex.ex_gen ProtoPrintFileExample.ex_imp Ex.ex_bytes_file = true.
Proof. split; [exact Ex.ex_bytes_wf|exact Ex.ex_bytes_modelled]. Qed.

(* BclDescGapProofs.v — two description blocks that the walker returns one after the other are
   separated by at least one empty line in the source (otherwise popDescription would have joined
   them).  Fmt therefore prints an empty line between them, which is what keeps them apart when
   the output is read again (stream_ok in BclWalkBackProofs). *)
From Coq Require Import String List NArith ZArith Bool Lia ZifyN ZifyNat ZifyBool.
From J5V.lib Require Import Text Outcome.
From J5V.model Require Import BclLexer BclParser BclFmt.
From J5V.proofs Require Import BclPosProofs BclLexerProofs BclLexerCoverProofs BclParserProofs BclWalkCoverProofs.
Import ListNotations.
Local Open Scope Z_scope.
Arguments Nat.sub : simpl never.

(* ---- lexer: the token after an EOL starts on a later line -------------------------------------- *)
Fixpoint echain (prev : option token) (ts : list token) : Prop :=
  match ts with
  | [] => True
  | t :: r => (match prev with Some p => ty p = EOL -> fst (tstart p) < fst (tstart t) | None => True end)
              /\ echain (Some t) r
  end.

Lemma all_tokens_loop_echain inp ff : forall fuel s pre prev,
  linv inp s pre -> (length (rest s) + 1 < fuel)%nat ->
  (forall p, prev = Some p -> ty p = EOL -> fst (tstart p) < fst (P pre)) ->
  let '(ts, ds, b) := all_tokens_loop fuel ff s in
  ds = [] -> echain prev ts.
Proof.
  induction fuel as [|f IH]; intros s pre prev Hi Hf Hprev; [lia|].
  cbn [all_tokens_loop].
  pose proof (next_token_fuel_spec inp (S (length (rest s))) s pre Hi) as Hn.
  pose proof (next_token_start inp (S (length (rest s))) s pre Hi) as Hn2.
  unfold next_token.
  destruct (next_token_fuel (S (length (rest s))) s) as [[t|d| |] s'] eqn:E; cbn in Hn.
  - destruct Hn as [(ps & pe & c0 & H1 & H2 & H3 & H4 & H5 & H6) Hty]; [lia|].
    destruct Hn2 as ((x & Hx & Hpx & Hsx & Heolr) & Hnn & Hsl); [lia|].
    assert (Hps : ps = pre ++ x).
    { apply (P_inj _ _ inp); [eapply pfx_trans; [apply pfx_app|exact H2]|exact Hpx|congruence]. }
    assert (Hxnl : Forall (fun c => c <> 10%N) x).
    { eapply Forall_impl; [|exact Hx]. intros a [_ Ha]. exact Ha. }
    assert (Hhead : match prev with Some p => ty p = EOL -> fst (tstart p) < fst (tstart t) | None => True end).
    { destruct prev as [p|]; [|exact I]. intros Hp. rewrite Hsx, P_app_same_line by exact Hxnl. apply Hprev; auto. }
    assert (Hpsinp : pfx ps inp) by (eapply pfx_trans; [apply pfx_app|exact H2]).
    assert (Hpeinp : pfx pe inp) by (eapply lon_pfx; eauto).
    destruct H6 as [[c Hc]|[He Hpe]].
    + specialize (IH s' (pe ++ [c]) (Some t) (lc_inv _ _ _ _ Hc)).
      destruct (all_tokens_loop f ff s') as [[ts ds] b].
      intros Hds. split; [exact Hhead|]. apply IH; auto.
      { pose proof (linv_len _ _ _ Hi). pose proof (linv_len _ _ _ (lc_inv _ _ _ _ Hc)) as Hl2.
        rewrite app_length in Hl2. cbn in Hl2.
        pose proof (pfx_len _ _ H1). pose proof (pfx_len _ _ H3). lia. }
      intros p [= <-] Hp. destruct (Heolr Hp) as [Hnl Hse].
      assert (Hpe : pe = ps) by (apply (P_inj _ _ inp); auto; congruence).
      subst pe. pose proof (lcur_full inp _ _ _ Hc) as Hfull. rewrite <- Hps in Hnl.
      assert (Hc10 : c = 10%N).
      { destruct Hfull as [u Hu], Hnl as [v Hv]. rewrite Hv in Hu. rewrite <- !app_assoc in Hu.
        apply app_inv_head in Hu. cbn in Hu. injection Hu as <- _. reflexivity. }
      subst c. rewrite P_snoc, H4. unfold adv. cbn. lia.
    + destruct f as [|f']; [lia|]. rewrite (leof_loop inp ff s' f' He). intros _. split; [exact Hhead|exact I].
  - destruct ff; [intros H; discriminate|].
    destruct (all_tokens_loop f false s') as [[ts ds] b]. intros H. discriminate.
  - intros _. exact I.
  - exfalso. apply Hn. lia.
Qed.

Theorem all_tokens_echain ff data ts : all_tokens ff data = LexOk ts -> echain None ts.
Proof.
  unfold all_tokens.
  pose proof (all_tokens_loop_echain data ff (S (S (length data))) (new_lexer data) [] None (new_lexer_inv data)) as H.
  destruct (all_tokens_loop (S (S (length data))) ff (new_lexer data)) as [[ts' ds] b].
  destruct b; [discriminate|]. destruct ds as [|d r]; [|discriminate]. intros [= <-].
  apply H; [cbn; lia|intros p Hp; discriminate|reflexivity].
Qed.

(* ---- the three line facts about adjacent tokens, as one chain ---------------------------------- *)
Fixpoint gchain (prev : option token) (ts : list token) : Prop :=
  match ts with
  | [] => True
  | t :: r => (match prev with
               | Some p => (ty p = EOL -> fst (tstart p) < fst (tstart t)) /\
                           (ty p = DESCRIPTION -> ty t = EOL) /\
                           (ty p <> EOL -> fst (tstart t) = fst (tend p))
               | None => True
               end) /\ gchain (Some t) r
  end.

Lemma gchain_of : forall ts prev, lchain prev ts -> echain prev ts -> line_enders ts ->
  (forall p t r, prev = Some p -> ts = t :: r -> ty p = DESCRIPTION -> ty t = EOL) -> gchain prev ts.
Proof.
  induction ts as [|t r IH]; intros prev Hl He Hen Hp; [exact I|].
  cbn [lchain echain line_enders gchain] in *. destruct Hl as (Hl1 & _ & Hl2). destruct He as (He1 & He2).
  destruct Hen as (Hen1 & Hen2). split.
  - destruct prev as [p|]; [|exact I]. split; [exact He1|]. split; [|exact Hl1]. intros Hd. eapply Hp; eauto.
  - apply IH; auto. intros p t' r' [= <-] -> Hd. apply Hen1. right. exact Hd.
Qed.

Lemma gchain_app : forall a prev b, gchain prev (a ++ b) -> gchain (last (map Some a) prev) b.
Proof.
  induction a as [|x r IH]; intros prev b H; [exact H|].
  cbn [app gchain] in H. destruct H as (_ & H). cbn [map]. rewrite last_cons_dflt. apply IH. exact H.
Qed.

Section Gap.
Variable inp : list N.

Definition gst_ok (s : wstate) : Prop := gchain (wprev s) (wrest s).

Lemma wstep_gst s s' : wstep inp s s' -> gst_ok s -> gst_ok s'.
Proof.
  intros H Hl. destruct (ws_cons _ _ _ H) as (c & Hc & Hp). unfold gst_ok in *.
  rewrite Hp. apply gchain_app. rewrite <- Hc. exact Hl.
Qed.

(* ---- after popDescription ------------------------------------------------------------------------ *)
Definition stopped (s : wstate) : Prop := ~ (peek_type 0 s = EOL /\ peek_type 1 s = DESCRIPTION).

Lemma pop_description_loop_stop : forall fuel acc s d s', next_type s = DESCRIPTION ->
  pop_description_loop fuel acc s = WOk d s' ->
  (exists p, wprev s' = Some p /\ ty p = DESCRIPTION /\ tend p = dsend d) /\ stopped s' /\
  dsstart d = match acc with [] => match wrest s with t :: _ => tstart t | [] => pos0 end | a :: _ => tstart a end.
Proof.
  induction fuel as [|f IH]; intros acc s d s' Hn; cbn [pop_description_loop]; [discriminate|].
  unfold next_type in Hn. destruct (wrest s) as [|t r] eqn:Hr; [discriminate|].
  unfold pop_token. rewrite Hr. cbn [wbind].
  destruct (tt_eqb (peek_type 0 (mkW r (Some t))) EOL && tt_eqb (peek_type 1 (mkW r (Some t))) DESCRIPTION)%bool eqn:Ec.
  - apply andb_prop in Ec. destruct Ec as [E0 E1]. apply tt_eqb_true in E0. apply tt_eqb_true in E1.
    unfold peek_type in E0, E1. cbn [wrest] in E0, E1.
    destruct r as [|t1 r1]; [discriminate|]. cbn [nth_error] in E0, E1.
    destruct r1 as [|t2 r2]; [discriminate|]. cbn [nth_error] in E1.
    cbn [wrest wbind]. intros H. destruct (IH (acc ++ [t]) (mkW (t2 :: r2) (Some t1)) d s' E1 H) as (A & B & C).
    split; [exact A|]. split; [exact B|]. rewrite C. destruct acc; reflexivity.
  - intros [= <- <-]. cbn [wprev dsend dsstart]. split; [|split].
    + exists t. split; [reflexivity|]. split; [exact Hn|]. rewrite ref_end_snoc. reflexivity.
    + intros [H0 H1]. rewrite H0, H1 in Ec. discriminate.
    + destruct acc; reflexivity.
Qed.

(* ---- the statement productions never return a description fragment ----------------------------- *)
Lemma walk_value_assign_kind r app s f s' : walk_value_assign r app s = WOk f s' -> forall d, f <> FDesc d.
Proof.
  unfold walk_value_assign. destruct (pop_token s) as [t s1|t wet s1|p|]; try discriminate. cbn [wbind].
  destruct (negb (tt_eqb (ty t) ASSIGN)); [discriminate|].
  destruct (pop_value_top s1) as [v s2|t2 wet2 s2|p|]; try discriminate. cbn [wbind].
  destruct (end_statement s2) as [c s3|t3 wet3 s3|p|]; try discriminate. cbn [wbind].
  intros [= <- _] d. discriminate.
Qed.

Lemma walk_statement_kind s f s' : walk_statement s = WOk f s' -> forall d, f <> FDesc d.
Proof.
  unfold walk_statement. destruct (pop_reference s) as [r s1|t wet s1|p|]; try discriminate. cbn [wbind].
  destruct (tt_eqb (next_type s1) ASSIGN); [apply walk_value_assign_kind|].
  destruct (tt_eqb (next_type s1) PLUS).
  - destruct (pop_token s1) as [t s2|t wet s2|p|]; try discriminate. cbn [wbind].
    destruct (negb (tt_eqb (next_type s2) ASSIGN)); [|apply walk_value_assign_kind].
    destruct (pop_token s2) as [t3 s3|t3 wet3 s3|p|]; discriminate.
  - destruct (tags_loop _ [] s1) as [tags s2|t wet s2|p|]; try discriminate. cbn [wbind].
    destruct (quals_loop _ [] s2) as [quals s3|t wet s3|p|]; try discriminate. cbn [wbind].
    destruct (next_type s3);
      try (destruct (pop_token s3) as [t4 s4|t4 wet4 s4|p|]; try discriminate; cbn [wbind];
           try (destruct (end_statement s4) as [c s5|t5 wet5 s5|p|]; try discriminate; cbn [wbind]);
           intros [= <- _] d; discriminate);
      try (destruct (end_statement s3) as [c s4|t4 wet4 s4|p|]; try discriminate; cbn [wbind]; intros [= <- _] d; discriminate);
      try (intros [= <- _] d; discriminate).
Qed.

(* ---- the loop ------------------------------------------------------------------------------------- *)
(* L is the last line of the description block just read; the walker is still directly behind it (Q0),
   has skipped the EOL of that line and does not face a description (Q1), or is at least one line further (Q2) *)
Definition Q0 (L : Z) (s : wstate) : Prop :=
  exists p, wprev s = Some p /\ ty p = DESCRIPTION /\ fst (tend p) = L /\ stopped s.
Definition Q1 (L : Z) (s : wstate) : Prop :=
  exists p, wprev s = Some p /\ ty p = EOL /\ L <= fst (tstart p) /\ next_type s <> DESCRIPTION.
Definition Q2 (L : Z) (s : wstate) : Prop :=
  exists p, wprev s = Some p /\ ty p = EOL /\ L < fst (tstart p).

Definition first_desc_line (L : Z) (fs : list fragment) : Prop :=
  match fs with FDesc d :: _ => L + 1 < fst (dsstart d) | _ => True end.
Fixpoint desc_gap (fs : list fragment) : Prop :=
  match fs with
  | [] => True
  | f :: r => (match f with FDesc d => first_desc_line (fst (dsend d)) r | _ => True end) /\ desc_gap r
  end.

Lemma first_desc_line_other L f fs : (forall d, f <> FDesc d) -> first_desc_line L (f :: fs).
Proof. intros H. destruct f; cbn; auto. exfalso. eapply H. reflexivity. Qed.

Lemma walk_loop_gap : forall fuel s fs, wst_ok inp s -> gst_ok s -> (length (wrest s) < fuel)%nat ->
  walk_fragments_loop fuel true s = WalkOk fs [] ->
  desc_gap fs /\ (forall L, Q0 L s \/ Q1 L s \/ Q2 L s -> first_desc_line L fs).
Proof.
  induction fuel as [|f IH]; intros s fs Hok Hg Hf; [lia|].
  cbn [walk_fragments_loop].
  destruct (tt_eqb (next_type s) EOF) eqn:Ee.
  { intros [= <-]. split; [exact I|]. intros; exact I. }
  apply tt_eqb_false in Ee.
  assert (Hr : wrest s <> []) by (apply (next_type_not_eof inp); auto).
  assert (Hl : wlive s) by (left; exact Hr).
  pose proof (next_fragment_spec inp s Hok Hl) as Hn.
  destruct (next_fragment s) as [fo s1|t wet s1|p|] eqn:En; cbn in Hn; try contradiction; [|intros H; discriminate].
  destruct Hn as (H01 & _ & Hlen). specialize (Hlen Hr).
  specialize (IH s1). destruct (walk_fragments_loop f true s1) as [fs1 ds1|p|] eqn:Ew; try discriminate.
  intros Heq.
  assert (Hds : ds1 = []) by (destruct fo; injection Heq; auto). subst ds1.
  destruct (IH fs1 (ws_ok _ _ _ H01) (wstep_gst _ _ H01 Hg) ltac:(lia) eq_refl) as [IHgap IHfirst].
  destruct (wrest s) as [|t0 r0] eqn:Hrs; [congruence|].
  unfold gst_ok in Hg. rewrite Hrs in Hg. cbn [gchain] in Hg. destruct Hg as [Hg0 Hgr].
  unfold next_fragment in En. unfold next_type in En, Ee. rewrite Hrs in En, Ee.
  assert (Epop : pop_token s = WOk t0 (mkW r0 (Some t0))) by (unfold pop_token; rewrite Hrs; reflexivity).
  (* the productions that yield a fragment which is not a description *)
  assert (Hother : forall fr, fo = Some fr -> (forall d, fr <> FDesc d) ->
            desc_gap fs /\ (forall L, Q0 L s \/ Q1 L s \/ Q2 L s -> first_desc_line L fs)).
  { intros fr -> Hk. injection Heq as <-. split.
    - cbn [desc_gap]. split; [|exact IHgap]. destruct fr; auto. exfalso. eapply Hk. reflexivity.
    - intros L _. apply first_desc_line_other. exact Hk. }
  destruct (ty t0) eqn:Et0; try (rewrite Epop in En; cbn [wbind] in En; discriminate).
  - congruence.
  - (* EOL: an empty line *)
    rewrite Epop in En. cbn [wbind] in En. injection En as <- <-. injection Heq as <-.
    split; [exact IHgap|]. intros L HQ. apply IHfirst.
    destruct HQ as [(p & Hp & Hty & HL & Hstop)|[(p & Hp & Hty & HL & Hnd)|(p & Hp & Hty & HL)]].
    + right. left. exists t0. split; [reflexivity|]. split; [exact Et0|]. rewrite Hp in Hg0.
      destruct Hg0 as (_ & _ & Hsame). split; [rewrite Hsame by (rewrite Hty; discriminate); lia|].
      intros Hd. apply Hstop. unfold peek_type. rewrite Hrs. cbn [nth_error]. split; [exact Et0|].
      unfold next_type in Hd. cbn [wrest] in Hd. destruct r0 as [|t1 r1]; [discriminate|exact Hd].
    + right. right. exists t0. split; [reflexivity|]. split; [exact Et0|]. rewrite Hp in Hg0.
      destruct Hg0 as (Hlt & _). specialize (Hlt Hty). lia.
    + right. right. exists t0. split; [reflexivity|]. split; [exact Et0|]. rewrite Hp in Hg0.
      destruct Hg0 as (Hlt & _). specialize (Hlt Hty). lia.
  - (* IDENT *) destruct (walk_statement s) as [f0 s0|t1 wet1 s0|p|] eqn:Es; try discriminate. cbn [wbind] in En.
    injection En as <- <-. apply (Hother f0 eq_refl). eapply walk_statement_kind; eauto.
  - (* BOOL *) destruct (walk_statement s) as [f0 s0|t1 wet1 s0|p|] eqn:Es; try discriminate. cbn [wbind] in En.
    injection En as <- <-. apply (Hother f0 eq_refl). eapply walk_statement_kind; eauto.
  - (* COMMENT *) rewrite Epop in En. cbn [wbind] in En. injection En as <- <-. apply (Hother _ eq_refl). discriminate.
  - (* BLOCK_COMMENT *) rewrite Epop in En. cbn [wbind] in En. injection En as <- <-. apply (Hother _ eq_refl). discriminate.
  - (* DESCRIPTION *)
    unfold pop_description in En.
    destruct (pop_description_loop (S (length (wrest s))) [] s) as [d s0|t1 wet1 s0|p|] eqn:Ed; try discriminate.
    cbn [wbind] in En. injection En as <- <-. injection Heq as <-.
    destruct (pop_description_loop_stop _ _ _ _ _ ltac:(unfold next_type; rewrite Hrs; exact Et0) Ed) as ((p & Hp & Hpt & Hpe) & Hstop & Hstart).
    rewrite Hrs in Hstart. split.
    + cbn [desc_gap]. split; [|exact IHgap]. apply IHfirst. left. exists p. rewrite Hpe. auto.
    + intros L HQ. cbn [first_desc_line]. rewrite Hstart.
      destruct HQ as [(q & Hq & Hty & HL & _)|[(q & Hq & Hty & HL & Hnd)|(q & Hq & Hty & HL)]].
      * rewrite Hq in Hg0. destruct Hg0 as (_ & Hd & _). specialize (Hd Hty). congruence.
      * exfalso. apply Hnd. unfold next_type. rewrite Hrs. exact Et0.
      * rewrite Hq in Hg0. destruct Hg0 as (Hlt & _). specialize (Hlt Hty). lia.
  - (* RBRACE *) rewrite Epop in En. cbn [wbind] in En. injection En as <- <-. apply (Hother _ eq_refl). discriminate.
Qed.
End Gap.

Theorem collect_fragments_gap data fs : collect_fragments data = Ok fs -> desc_gap fs.
Proof.
  unfold collect_fragments. pose proof (all_tokens_ok true data) as Hl.
  destruct (all_tokens true data) as [toks|ds|] eqn:El; try discriminate.
  destruct (all_tokens_cover true data toks El) as [Hlc _].
  pose proof (all_tokens_echain true data toks El) as Hec.
  pose proof (all_tokens_enders true data toks El) as Hen.
  unfold walk_fragments.
  destruct (walk_fragments_loop (S (length toks)) true (mkW toks None)) as [fs' ds|p|] eqn:Ew; try discriminate.
  destruct ds; [|discriminate]. intros [= <-].
  assert (Hok : wst_ok data (mkW toks None)).
  { split; [apply valid_pos0|]. split; [apply schain_chain, Hl|]. intros p Hp. discriminate. }
  assert (Hg : gst_ok (mkW toks None)).
  { apply gchain_of; auto. intros p t r Hp. discriminate. }
  apply (walk_loop_gap data (S (length toks)) (mkW toks None) fs' Hok Hg ltac:(cbn; lia) Ew).
Qed.

(* J5sLinkProofs.v — the link step (J5sLink.v) changes type names only: every other part of a
   descriptor, hence every clause of the structural contract, survives it. *)
From Coq Require Import String List NArith Bool Lia.
From J5V.lib Require Import Outcome Corr.
From J5V.model Require Import J5sAst Desc J5sWalk J5sLink J5sConvert J5sContract.
From J5V.proofs Require Import J5sProofs J5sContractProofs.
Import ListNotations.
Local Open Scope N_scope.

(* induction on descriptors with the nested list *)
Fixpoint dmsg_ind2 (P : dmsg -> Prop)
  (H : forall n k fs ms es, Forall P ms -> P (DMsg n k fs ms es)) (m : dmsg) {struct m} : P m :=
  match m with
  | DMsg n k fs ms es =>
      H n k fs ms es
        ((fix go (l : list dmsg) : Forall P l :=
            match l with
            | [] => Forall_nil P
            | x :: r => Forall_cons x (dmsg_ind2 P H x) (go r)
            end) ms)
  end.

Definition field_shape_eq (a c : dfield) : Prop :=
  f_name a = f_name c /\ f_json a = f_json c /\ f_num a = f_num c /\ f_type a = f_type c /\
  f_label a = f_label c /\ f_opt3 a = f_opt3 c /\ f_oneof a = f_oneof c.

Inductive shape_eq : dmsg -> dmsg -> Prop :=
| shape_intro : forall n k fs fs' ms ms' es,
    Forall2 field_shape_eq fs fs' -> Forall2 shape_eq ms ms' ->
    shape_eq (DMsg n k fs ms es) (DMsg n k fs' ms' es).

Lemma link_fields_shape syms fpkg scope fs fs' :
  link_fields syms fpkg scope fs = Ok fs' -> Forall2 field_shape_eq fs fs'.
Proof.
  revert fs'. induction fs as [|f r IH]; intros fs' H; cbn in H.
  - inversion H. constructor.
  - inv_ok H. inversion H. subst fs'. constructor; [|apply IH; exact E0].
    unfold field_shape_eq. cbn. repeat split; reflexivity.
Qed.

Lemma link_msg_eq syms fpkg pre n k fs ms es :
  link_msg syms fpkg pre (DMsg n k fs ms es) =
  obind (link_fields syms fpkg (pre ++ [n]) fs) (fun fs' =>
  obind ((fix go (l : list dmsg) : outcome (list dmsg) :=
            match l with
            | [] => Ok []
            | x :: r => obind (link_msg syms fpkg (pre ++ [n]) x) (fun x' =>
                        obind (go r) (fun r' => Ok (x' :: r')))
            end) ms) (fun ms' => Ok (DMsg n k fs' ms' es))).
Proof. reflexivity. Qed.

Theorem link_msg_shape syms fpkg : forall m pre m', link_msg syms fpkg pre m = Ok m' -> shape_eq m m'.
Proof.
  induction m as [n k fs ms es IH] using dmsg_ind2. intros pre m' H.
  rewrite link_msg_eq in H. inv_ok H. inversion H. subst m'. clear H.
  constructor; [eapply link_fields_shape; exact E|].
  clear E. revert a0 E0. induction IH as [|x r Hx Hr IHr]; intros out E0.
  - inversion E0. constructor.
  - inv_ok E0. inversion E0. subst out. constructor; [eapply Hx; exact E|apply IHr; exact E1].
Qed.

Lemma link_msgs_shape syms fpkg l l' :
  link_msgs syms fpkg l = Ok l' -> Forall2 shape_eq l l'.
Proof.
  revert l'. induction l as [|x r IH]; intros l' H; cbn in H.
  - inversion H. constructor.
  - inv_ok H. inversion H. subst l'. constructor; [eapply link_msg_shape; exact E|apply IH; exact E0].
Qed.

(* ------------------------------------------------------------------ the contract reads shapes only *)
Lemma forall2_in {A} (R : A -> A -> Prop) l l' a :
  Forall2 R l l' -> In a l -> exists c, In c l' /\ R a c.
Proof.
  intros H. induction H as [|x y r s Hxy Hrs IH]; intros Hin; [destruct Hin|].
  destruct Hin as [<-|Hin]; [exists y; split; [left; reflexivity|exact Hxy]|].
  destruct (IH Hin) as (c & Hc & Hr). exists c. split; [right; exact Hc|exact Hr].
Qed.

Lemma forall2_map_eq {A B} (R : A -> A -> Prop) (f : A -> B) l l' :
  (forall a c, R a c -> f a = f c) -> Forall2 R l l' -> map f l = map f l'.
Proof. intros Hf H. induction H; cbn; [reflexivity|]. f_equal; [apply Hf; assumption|assumption]. Qed.

Lemma forall2_nth {A} (R : A -> A -> Prop) l l' i a :
  Forall2 R l l' -> nth_error l i = Some a -> exists c, nth_error l' i = Some c /\ R a c.
Proof.
  intros H. revert i. induction H as [|x y r s Hxy Hrs IH]; intros i Hi; destruct i; cbn in *; try discriminate.
  - inversion Hi. subst. exists y. auto.
  - apply IH. exact Hi.
Qed.

Lemma forall2_length {A} (R : A -> A -> Prop) l l' : Forall2 R l l' -> length l = length l'.
Proof. intros H. induction H; cbn; [reflexivity|]. f_equal. assumption. Qed.

Lemma shape_name a c : shape_eq a c -> dm_name a = dm_name c.
Proof. intros H. inversion H. reflexivity. Qed.

Section Shapes.
Variables snake camel screaming : str -> str.
Notation fields_ok := (fields_ok snake).
Notation inline_ok := (inline_ok snake camel screaming).
Notation props_inline_ok := (props_inline_ok snake camel screaming).
Notation property_inline_ok := (property_inline_ok snake camel screaming).
Notation nested_ok := (nested_ok snake camel screaming).
Notation nesteds_ok := (nesteds_ok snake camel screaming).

Lemma fields_ok_shape io n ps fs fs' :
  Forall2 field_shape_eq fs fs' -> fields_ok io n ps fs -> fields_ok io n ps fs'.
Proof.
  intros HF [Hl Hn]. split.
  - rewrite <- Hl. symmetry. eapply forall2_length. exact HF.
  - intros i p Hi. destruct (Hn i p Hi) as (df & Hdf & Hd).
    destruct (forall2_nth _ _ _ _ _ HF Hdf) as (df' & Hdf' & Hs). exists df'. split; [exact Hdf'|].
    destruct Hs as (S1 & S2 & S3 & S4 & S5 & S6 & S7).
    destruct Hd as (D1 & D2 & D3 & D4 & D5 & D6 & D7).
    unfold J5sContract.field_decl_ok. rewrite <- S1, <- S2, <- S3, <- S4, <- S5, <- S6, <- S7.
    repeat split; assumption.
Qed.

Lemma inline_shape :
  (forall f pn msgs enums msgs', Forall2 shape_eq msgs msgs' ->
      inline_ok pn f msgs enums -> inline_ok pn f msgs' enums) /\
  (forall ps msgs enums msgs', Forall2 shape_eq msgs msgs' ->
      props_inline_ok ps msgs enums -> props_inline_ok ps msgs' enums) /\
  (forall p msgs enums msgs', Forall2 shape_eq msgs msgs' ->
      property_inline_ok p msgs enums -> property_inline_ok p msgs' enums).
Proof.
  apply ast_mutind.
  - intros s pn msgs enums msgs' _ _. exact I.
  - intros r pn msgs enums msgs' _ _. exact I.
  - intros nm ps IH pn msgs enums msgs' HF H. rewrite (inline_ok_obj snake camel screaming) in *.
    destruct H as (m & Hin & Hn & Hk & Hf & Hp & Hmn & Hen).
    destruct (forall2_in _ _ _ _ HF Hin) as (m' & Hin' & Hs). exists m'. split; [exact Hin'|].
    inversion Hs as [n k fs fs' ms ms' es HFf HFm]. subst m m'.
    cbn [dm_name dm_kind dm_fields dm_msgs dm_enums] in *.
    split; [exact Hn|]. split; [exact Hk|]. split; [eapply fields_ok_shape; eassumption|].
    split; [eapply IH; eassumption|]. split; [|exact Hen].
    rewrite <- Hmn. symmetry. eapply forall2_map_eq; [exact shape_name|exact HFm].
  - intros r pn msgs enums msgs' _ _. exact I.
  - intros nm ps IH pn msgs enums msgs' HF H. rewrite (inline_ok_oneof snake camel screaming) in *.
    destruct H as (m & Hin & Hn & Hk & Hf & Hp & Hmn & Hen).
    destruct (forall2_in _ _ _ _ HF Hin) as (m' & Hin' & Hs). exists m'. split; [exact Hin'|].
    inversion Hs as [n k fs fs' ms ms' es HFf HFm]. subst m m'.
    cbn [dm_name dm_kind dm_fields dm_msgs dm_enums] in *.
    split; [exact Hn|]. split; [exact Hk|]. split; [eapply fields_ok_shape; eassumption|].
    split; [eapply IH; eassumption|]. split; [|exact Hen].
    rewrite <- Hmn. symmetry. eapply forall2_map_eq; [exact shape_name|exact HFm].
  - intros r pn msgs enums msgs' _ _. exact I.
  - intros e pn msgs enums msgs' _ H. exact H.
  - intros it IH pn msgs enums msgs' HF H.
    destruct (inline_ok_container snake camel screaming pn it msgs enums) as [Ea _].
    destruct (inline_ok_container snake camel screaming pn it msgs' enums) as [Ea' _].
    rewrite Ea in H. rewrite Ea'. eapply IH; eassumption.
  - intros it IH pn msgs enums msgs' HF H.
    destruct (inline_ok_container snake camel screaming pn it msgs enums) as [_ Ea].
    destruct (inline_ok_container snake camel screaming pn it msgs' enums) as [_ Ea'].
    rewrite Ea in H. rewrite Ea'. eapply IH; eassumption.
  - intros msgs enums msgs' _ _. exact I.
  - intros p IHp r IHr msgs enums msgs' HF H. rewrite (props_inline_ok_cons snake camel screaming) in *.
    destruct H as [H1 H2]. split; [eapply IHp; eassumption|eapply IHr; eassumption].
  - intros n rq op f IH msgs enums msgs' HF H. rewrite (property_inline_ok_eq snake camel screaming) in *.
    destruct H as [H1 H2]. split; [eapply IH; eassumption|].
    destruct f; try exact I.
    destruct H2 as (m & Hin & Hn & Hk & k & v & Hfs & K1 & K2 & K3 & V1 & V2 & V3).
    destruct (forall2_in _ _ _ _ HF Hin) as (m' & Hin' & Hs). exists m'. split; [exact Hin'|].
    inversion Hs as [n0 k0 fs fs' ms ms' es HFf HFm]. subst m m'.
    cbn [dm_name dm_kind dm_fields] in *. split; [exact Hn|]. split; [exact Hk|].
    subst fs. inversion HFf as [|x k' l l' Hk' Hl']. subst. inversion Hl' as [|y v' l2 l2' Hv' Hnil]. subst.
    inversion Hnil. subst. exists k', v'. split; [reflexivity|].
    destruct Hk' as (A1 & _ & A3 & A4 & _). destruct Hv' as (B1 & _ & B3 & B4 & _).
    rewrite <- A1, <- A3, <- A4, <- B1, <- B3, <- B4. repeat split; assumption.
Qed.

Lemma nested_shape :
  (forall n msgs enums msgs', Forall2 shape_eq msgs msgs' -> nested_ok n msgs enums -> nested_ok n msgs' enums) /\
  (forall ns msgs enums msgs', Forall2 shape_eq msgs msgs' -> nesteds_ok ns msgs enums -> nesteds_ok ns msgs' enums).
Proof.
  destruct inline_shape as (_ & Hprops & _).
  apply nested_mutind.
  - intros nm ps subs IH msgs enums msgs' HF H. rewrite (nested_ok_obj snake camel screaming) in *.
    destruct H as (m & Hin & Hn & Hk & Hf & Hp & Hsub & Hmn & Hen).
    destruct (forall2_in _ _ _ _ HF Hin) as (m' & Hin' & Hs). exists m'. split; [exact Hin'|].
    inversion Hs as [n k fs fs' ms ms' es HFf HFm]. subst m m'.
    cbn [dm_name dm_kind dm_fields dm_msgs dm_enums] in *.
    split; [exact Hn|]. split; [exact Hk|]. split; [eapply fields_ok_shape; eassumption|].
    split; [eapply Hprops; eassumption|]. split; [eapply IH; eassumption|]. split; [|exact Hen].
    rewrite <- Hmn. symmetry. eapply forall2_map_eq; [exact shape_name|exact HFm].
  - intros nm ps subs IH msgs enums msgs' HF H. rewrite (nested_ok_oneof snake camel screaming) in *.
    destruct H as (m & Hin & Hn & Hk & Hf & Hp & Hsub & Hmn & Hen).
    destruct (forall2_in _ _ _ _ HF Hin) as (m' & Hin' & Hs). exists m'. split; [exact Hin'|].
    inversion Hs as [n k fs fs' ms ms' es HFf HFm]. subst m m'.
    cbn [dm_name dm_kind dm_fields dm_msgs dm_enums] in *.
    split; [exact Hn|]. split; [exact Hk|]. split; [eapply fields_ok_shape; eassumption|].
    split; [eapply Hprops; eassumption|]. split; [eapply IH; eassumption|]. split; [|exact Hen].
    rewrite <- Hmn. symmetry. eapply forall2_map_eq; [exact shape_name|exact HFm].
  - intros e msgs enums msgs' _ H. exact H.
  - intros msgs enums msgs' _ _. exact I.
  - intros n IHn r IHr msgs enums msgs' HF H. rewrite (nesteds_ok_cons snake camel screaming) in *.
    destruct H as [H1 H2]. split; [eapply IHn; eassumption|eapply IHr; eassumption].
Qed.

(* the link step keeps the file contract *)
Lemma link_file_main f df df' :
  link_file df = Ok df' -> main_file_ok snake camel screaming f df -> main_file_ok snake camel screaming f df'.
Proof.
  unfold link_file. intros H. inv_ok H. inversion H. subst df'. clear H.
  intros (H1 & H2 & H3 & H4 & H5 & H6). pose proof (link_msgs_shape _ _ _ _ E) as HF.
  unfold main_file_ok. cbn [fl_path fl_pkg fl_svcs fl_msgs fl_enums].
  split; [exact H1|]. split; [exact H2|].
  split; [rewrite H3 in E0; cbn in E0; inversion E0; reflexivity|].
  split; [rewrite <- H4; symmetry; eapply forall2_map_eq; [exact shape_name|exact HF]|].
  split; [exact H5|].
  intros e Hin. specialize (H6 e Hin). destruct nested_shape as [Hn _].
  destruct e; cbn [J5sContract.element_ok] in *; try exact I; eapply Hn; eassumption.
Qed.

End Shapes.

(* ------------------------------------------------------------------ packages *)
Section Package.
Variables snake camel screaming : str -> str.

Lemma link_files_in l l' df' :
  link_files l = Ok l' -> In df' l' -> exists df, In df l /\ link_file df = Ok df'.
Proof.
  revert l'. induction l as [|x r IH]; intros l' H Hin; cbn in H.
  - inversion H. subst. destruct Hin.
  - inv_ok H. inversion H. subst l'. destruct Hin as [<-|Hin].
    + exists x. split; [left; reflexivity|exact E].
    + destruct (IH _ E0 Hin) as (df & Hd & Hl). exists df. split; [right; exact Hd|exact Hl].
Qed.

Lemma link_files_of l l' df :
  link_files l = Ok l' -> In df l -> exists df', In df' l' /\ link_file df = Ok df'.
Proof.
  revert l'. induction l as [|x r IH]; intros l' H Hin; cbn in H; [destruct Hin|].
  inv_ok H. inversion H. subst l'. destruct Hin as [<-|Hin].
  - exists a. split; [left; reflexivity|exact E].
  - destruct (IH _ E0 Hin) as (df' & Hd & Hl). exists df'. split; [right; exact Hd|exact Hl].
Qed.

Lemma cv_files_main exports fs D f :
  cv_files snake camel screaming exports fs = Ok D -> In (BJ f) fs ->
  exists df, In df D /\ main_file_ok snake camel screaming f df.
Proof.
  revert D. induction fs as [|x r IH]; intros D H Hin; [destruct Hin|].
  cbn [J5sConvert.cv_files] in H. destruct x as [j|p].
  - inv_ok H. inversion H. subst D. destruct Hin as [Heq|Hin].
    + inversion Heq. subst j. destruct (cv_file_main _ _ _ _ _ _ E) as (df & rest & -> & Hok).
      exists df. split; [left; reflexivity|exact Hok].
    + destruct (IH _ E0 Hin) as (df & Hd & Hok). exists df. split; [apply in_or_app; right; exact Hd|exact Hok].
  - destruct Hin as [Heq|Hin]; [discriminate|]. apply IH; assumption.
Qed.

Lemma in_insert_by {A} (lt : A -> A -> bool) x a l : In x (insert_by lt a l) <-> x = a \/ In x l.
Proof.
  induction l as [|y r IH]; cbn [insert_by].
  - cbn. split; intros [H|H]; auto.
  - destruct (lt a y).
    + cbn. split; intros [H|H]; auto.
    + cbn [In]. rewrite IH. split.
      * intros [H|[H|H]]; auto.
      * intros [H|[H|H]]; auto.
Qed.

Lemma in_sort_by {A} (lt : A -> A -> bool) x l : In x (sort_by lt l) <-> In x l.
Proof.
  unfold sort_by. induction l as [|y r IH]; cbn; [reflexivity|].
  rewrite in_insert_by, IH. split; intros [H|H]; auto.
Qed.

Lemma in_pkg_files bd pkg f : In (BJ f) bd -> j5s_pkg f = pkg -> In (BJ f) (pkg_files bd pkg).
Proof.
  intros Hin Hp. unfold pkg_files. apply in_sort_by. apply filter_In. split; [exact Hin|].
  cbn. rewrite Hp. apply str_eqb_refl.
Qed.

(* whatever the compiler model accepts satisfies the structural contract: for every source file
   of the package there is a generated file with exactly the declared messages and enums, every
   field with the declared name, JSON name, number, type, cardinality and optionality, every
   inline type nested under the documented name - to any depth *)
Theorem compile_sound bd pkg D :
  compile_package snake camel screaming bd pkg = Ok D ->
  package_contract snake camel screaming bd pkg D.
Proof.
  unfold compile_package, convert_package. intros H. inv_ok H. inversion H. subst D. clear H.
  intros f Hin Hp. pose proof (in_pkg_files _ _ _ Hin Hp) as Hpf.
  destruct (pkg_files bd pkg) as [|x r] eqn:Epf; [destruct Hpf|].
  destruct (cv_files_main _ _ _ _ E Hpf) as (df & Hd & Hok).
  destruct (link_files_of _ _ _ E0 Hd) as (df' & Hd' & Hl).
  exists df'. split; [exact Hd'|]. eapply link_file_main; eassumption.
Qed.

End Package.

(* ================================================================== relative names *)
(* When does the relative name of an inline type denote the declared type?  Exactly the
   defect of finding 1: a nested type named like the root message captures the lookup.
   If no symbol of the file (of length >= 2) ends in the name it starts with, every relative
   name Root.Path.Name written by the converter resolves to the declared path. *)
Lemma list_eqb_eq {A} (eqb : A -> A -> bool) (Heq : forall a c, eqb a c = true <-> a = c) l l' :
  list_eqb eqb l l' = true <-> l = l'.
Proof.
  revert l'. induction l as [|x r IH]; destruct l' as [|y s]; cbn; try (split; [discriminate|discriminate]).
  - split; reflexivity.
  - rewrite andb_true_iff, Heq, IH. split; [intros [-> ->]; reflexivity|intros H; inversion H; auto].
Qed.

Lemma sym_mem_in p syms : sym_mem p syms = true <-> In p syms.
Proof.
  unfold sym_mem. rewrite existsb_exists. split.
  - intros (x & Hx & He). apply (list_eqb_eq str_eqb str_eqb_eq) in He. subst. exact Hx.
  - intros H. exists p. split; [exact H|]. apply (list_eqb_eq str_eqb str_eqb_eq). reflexivity.
Qed.

Definition capture_free (syms : list (list str)) : Prop :=
  forall q, In q syms -> (2 <= length q)%nat -> last q [] <> hd [] q.

Definition starts (root : str) (l : list str) : Prop :=
  match l with [] => True | y :: _ => y = root end.

Lemma starts_app_hd root l x : l <> [] -> starts root l -> hd [] (l ++ x) = root.
Proof. destruct l; [contradiction|]. intros _ H. exact H. Qed.

Lemma starts_prefix root l x : starts root (l ++ [x]) -> starts root l.
Proof. destruct l; [intros _; exact I|]. intros H. exact H. Qed.

Theorem resolve_rel_capture_free syms root parts :
  capture_free syms -> In [root] syms -> In parts syms ->
  forall scope_rev, starts root (rev scope_rev) ->
  resolve_rel syms scope_rev root parts = Ok parts.
Proof.
  intros Hcf Hroot Hparts. induction scope_rev as [|x outer IH]; intros Hst.
  - cbn [resolve_rel]. rewrite (proj2 (sym_mem_in _ _) Hroot), (proj2 (sym_mem_in _ _) Hparts). reflexivity.
  - cbn [resolve_rel]. cbn [rev] in Hst |- *.
    destruct (sym_mem ((rev outer ++ [x]) ++ [root]) syms) eqn:Hm.
    + exfalso. apply sym_mem_in in Hm. apply (Hcf _ Hm).
      * rewrite !app_length. cbn. lia.
      * rewrite last_last. rewrite (starts_app_hd root (rev outer ++ [x]) [root]); [reflexivity| |exact Hst].
        destruct (rev outer); discriminate.
    + apply IH. eapply starts_prefix. exact Hst.
Qed.

(* the converse is what the refutation witnesses show: with foo.v1.Foo.Foo in the file, the name
   Foo.X written inside Foo resolves below Foo.Foo *)

(* strings.Split inverts the join of dot-free, non-empty components *)
Definition nodot (s : str) : Prop := s <> [] /\ forallb (fun c => negb (c =? 46)) s = true.

Lemma split_on_nodot s cur rest :
  forallb (fun c => negb (c =? 46)) s = true ->
  split_on 46 (s ++ rest) cur = split_on 46 rest (rev s ++ cur).
Proof.
  revert cur. induction s as [|c r IH]; intros cur H; cbn in *; [reflexivity|].
  apply andb_true_iff in H. destruct H as [Hc Hr]. apply negb_true_iff in Hc. rewrite Hc.
  rewrite IH by exact Hr. rewrite <- app_assoc. reflexivity.
Qed.

Lemma split_join_dot parts : parts <> [] -> Forall nodot parts -> split 46 (join dot parts) = parts.
Proof.
  unfold split. intros Hne HF. induction HF as [|x r [Hx Hd] Hr IH]; [contradiction|].
  destruct r as [|y s].
  - cbn [join]. replace (split_on 46 x []) with (split_on 46 (x ++ []) []) by (rewrite app_nil_r; reflexivity).
    rewrite split_on_nodot by exact Hd. cbn. rewrite app_nil_r, rev_involutive. reflexivity.
  - change (join dot (x :: y :: s)) with (x ++ dot ++ join dot (y :: s)).
    rewrite split_on_nodot by exact Hd. unfold dot. cbn [app split_on N.eqb Pos.eqb].
    rewrite app_nil_r, rev_involutive. f_equal. apply IH. discriminate.
Qed.

(* the relative name of an inline type below root, written in a message whose path starts
   with root, links to the fully qualified name of the declared path *)
Theorem link_name_inline syms fpkg scope parts root rest :
  capture_free syms -> parts = root :: rest -> Forall nodot parts ->
  In [root] syms -> In parts syms -> starts root scope ->
  link_name syms fpkg scope (rel_name parts) = Ok (abs_name fpkg parts).
Proof.
  intros Hcf -> Hnd Hroot Hparts Hst. unfold link_name, rel_name.
  assert (Hsp : split 46 (join dot (root :: rest)) = root :: rest) by (apply split_join_dot; [discriminate|exact Hnd]).
  inversion Hnd as [|r0 l0 [Hr0 Hr1] Hl]. subst.
  destruct (join dot (root :: rest)) as [|c tl] eqn:Ej.
  - exfalso. destruct root; [apply Hr0; reflexivity|]. destruct rest; discriminate.
  - assert (Hc : (c =? 46) = false).
    { destruct root as [|c0 r0']; [exfalso; apply Hr0; reflexivity|].
      assert (c = c0) by (destruct rest; cbn in Ej; inversion Ej; reflexivity). subst c0.
      cbn in Hr1. apply andb_true_iff in Hr1. destruct Hr1 as [Hr1 _]. apply negb_true_iff in Hr1. exact Hr1. }
    rewrite Hc, Hsp. rewrite (resolve_rel_capture_free syms root (root :: rest) Hcf Hroot Hparts).
    + reflexivity.
    + rewrite rev_involutive. exact Hst.
Qed.

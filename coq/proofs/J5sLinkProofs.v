(* J5sLinkProofs.v — the link step (J5sLink.v) changes type names only: every other part of a
   descriptor, hence every clause of the structural contract, survives it. *)
From Coq Require Import String List NArith Bool Lia.
From J5V.lib Require Import Outcome Corr.
From J5V.model Require Import J5sAst Desc J5sWalk J5sLink J5sConvert J5sContract.
From J5V.proofs Require Import J5sProofs J5sContractProofs.
Import ListNotations.
Local Open Scope N_scope.

(* induction on descriptors with the nested list *)
Fixpoint dmsg_ind2 (P : dmsg -> Prop)
  (H : forall n k fs ms es, Forall P ms -> P (DMsg n k fs ms es)) (m : dmsg) {struct m} : P m :=
  match m with
  | DMsg n k fs ms es =>
      H n k fs ms es
        ((fix go (l : list dmsg) : Forall P l :=
            match l with
            | [] => Forall_nil P
            | x :: r => Forall_cons x (dmsg_ind2 P H x) (go r)
            end) ms)
  end.

Definition field_shape_eq (a c : dfield) : Prop :=
  f_name a = f_name c /\ f_json a = f_json c /\ f_num a = f_num c /\ f_type a = f_type c /\
  f_label a = f_label c /\ f_opt3 a = f_opt3 c /\ f_oneof a = f_oneof c.

Inductive shape_eq : dmsg -> dmsg -> Prop :=
| shape_intro : forall n k fs fs' ms ms' es,
    Forall2 field_shape_eq fs fs' -> Forall2 shape_eq ms ms' ->
    shape_eq (DMsg n k fs ms es) (DMsg n k fs' ms' es).

Lemma link_msg_eq fpkg pre n k fs ms es :
  link_msg fpkg pre (DMsg n k fs ms es) =
  DMsg n k (map (link_field (map dm_name ms) fpkg (pre ++ [n])) fs) (map (link_msg fpkg (pre ++ [n])) ms) es.
Proof. reflexivity. Qed.

Theorem link_msg_shape fpkg : forall m pre, shape_eq m (link_msg fpkg pre m).
Proof.
  induction m as [n k fs ms es IH] using dmsg_ind2. intros pre. rewrite link_msg_eq. constructor.
  - induction fs as [|f r IHf]; cbn [map]; constructor; [|exact IHf].
    unfold field_shape_eq, link_field. cbn. repeat split; reflexivity.
  - induction IH as [|x r Hx Hr IHr]; cbn [map]; constructor; [apply Hx|exact IHr].
Qed.

Lemma link_msgs_shape fpkg l : Forall2 shape_eq l (link_msgs fpkg l).
Proof. unfold link_msgs. induction l as [|x r IH]; cbn [map]; constructor; [apply link_msg_shape|exact IH]. Qed.

(* ------------------------------------------------------------------ the contract reads shapes only *)
Lemma forall2_in {A} (R : A -> A -> Prop) l l' a :
  Forall2 R l l' -> In a l -> exists c, In c l' /\ R a c.
Proof.
  intros H. induction H as [|x y r s Hxy Hrs IH]; intros Hin; [destruct Hin|].
  destruct Hin as [<-|Hin]; [exists y; split; [left; reflexivity|exact Hxy]|].
  destruct (IH Hin) as (c & Hc & Hr). exists c. split; [right; exact Hc|exact Hr].
Qed.

Lemma forall2_map_eq {A B} (R : A -> A -> Prop) (f : A -> B) l l' :
  (forall a c, R a c -> f a = f c) -> Forall2 R l l' -> map f l = map f l'.
Proof. intros Hf H. induction H; cbn; [reflexivity|]. f_equal; [apply Hf; assumption|assumption]. Qed.

Lemma forall2_nth {A} (R : A -> A -> Prop) l l' i a :
  Forall2 R l l' -> nth_error l i = Some a -> exists c, nth_error l' i = Some c /\ R a c.
Proof.
  intros H. revert i. induction H as [|x y r s Hxy Hrs IH]; intros i Hi; destruct i; cbn in *; try discriminate.
  - inversion Hi. subst. exists y. auto.
  - apply IH. exact Hi.
Qed.

Lemma forall2_length {A} (R : A -> A -> Prop) l l' : Forall2 R l l' -> length l = length l'.
Proof. intros H. induction H; cbn; [reflexivity|]. f_equal. assumption. Qed.

Lemma shape_name a c : shape_eq a c -> dm_name a = dm_name c.
Proof. intros H. inversion H. reflexivity. Qed.

Section Shapes.
Variables snake camel screaming : str -> str.
Notation fields_ok := (fields_ok snake).
Notation inline_ok := (inline_ok snake camel screaming).
Notation props_inline_ok := (props_inline_ok snake camel screaming).
Notation property_inline_ok := (property_inline_ok snake camel screaming).
Notation nested_ok := (nested_ok snake camel screaming).
Notation nesteds_ok := (nesteds_ok snake camel screaming).

Lemma fields_ok_shape io n ps fs fs' :
  Forall2 field_shape_eq fs fs' -> fields_ok io n ps fs -> fields_ok io n ps fs'.
Proof.
  intros HF [Hl Hn]. split.
  - rewrite <- Hl. symmetry. eapply forall2_length. exact HF.
  - intros i p Hi. destruct (Hn i p Hi) as (df & Hdf & Hd).
    destruct (forall2_nth _ _ _ _ _ HF Hdf) as (df' & Hdf' & Hs). exists df'. split; [exact Hdf'|].
    destruct Hs as (S1 & S2 & S3 & S4 & S5 & S6 & S7).
    destruct Hd as (D1 & D2 & D3 & D4 & D5 & D6 & D7).
    unfold J5sContract.field_decl_ok. rewrite <- S1, <- S2, <- S3, <- S4, <- S5, <- S6, <- S7.
    repeat split; assumption.
Qed.

Lemma inline_shape :
  (forall f pn msgs enums msgs', Forall2 shape_eq msgs msgs' ->
      inline_ok pn f msgs enums -> inline_ok pn f msgs' enums) /\
  (forall ps msgs enums msgs', Forall2 shape_eq msgs msgs' ->
      props_inline_ok ps msgs enums -> props_inline_ok ps msgs' enums) /\
  (forall p msgs enums msgs', Forall2 shape_eq msgs msgs' ->
      property_inline_ok p msgs enums -> property_inline_ok p msgs' enums).
Proof.
  apply ast_mutind.
  - intros s pn msgs enums msgs' _ _. exact I.
  - intros r pn msgs enums msgs' _ _. exact I.
  - intros nm ps IH pn msgs enums msgs' HF H. rewrite (inline_ok_obj snake camel screaming) in *.
    destruct H as (m & Hin & Hn & Hk & Hf & Hp & Hmn & Hen).
    destruct (forall2_in _ _ _ _ HF Hin) as (m' & Hin' & Hs). exists m'. split; [exact Hin'|].
    inversion Hs as [n k fs fs' ms ms' es HFf HFm]. subst m m'.
    cbn [dm_name dm_kind dm_fields dm_msgs dm_enums] in *.
    split; [exact Hn|]. split; [exact Hk|]. split; [eapply fields_ok_shape; eassumption|].
    split; [eapply IH; eassumption|]. split; [|exact Hen].
    rewrite <- Hmn. symmetry. eapply forall2_map_eq; [exact shape_name|exact HFm].
  - intros r pn msgs enums msgs' _ _. exact I.
  - intros nm ps IH pn msgs enums msgs' HF H. rewrite (inline_ok_oneof snake camel screaming) in *.
    destruct H as (m & Hin & Hn & Hk & Hf & Hp & Hmn & Hen).
    destruct (forall2_in _ _ _ _ HF Hin) as (m' & Hin' & Hs). exists m'. split; [exact Hin'|].
    inversion Hs as [n k fs fs' ms ms' es HFf HFm]. subst m m'.
    cbn [dm_name dm_kind dm_fields dm_msgs dm_enums] in *.
    split; [exact Hn|]. split; [exact Hk|]. split; [eapply fields_ok_shape; eassumption|].
    split; [eapply IH; eassumption|]. split; [|exact Hen].
    rewrite <- Hmn. symmetry. eapply forall2_map_eq; [exact shape_name|exact HFm].
  - intros r pn msgs enums msgs' _ _. exact I.
  - intros e pn msgs enums msgs' _ H. exact H.
  - intros it IH pn msgs enums msgs' HF H.
    destruct (inline_ok_container snake camel screaming pn it msgs enums) as [Ea _].
    destruct (inline_ok_container snake camel screaming pn it msgs' enums) as [Ea' _].
    rewrite Ea in H. rewrite Ea'. eapply IH; eassumption.
  - intros it IH pn msgs enums msgs' HF H.
    destruct (inline_ok_container snake camel screaming pn it msgs enums) as [_ Ea].
    destruct (inline_ok_container snake camel screaming pn it msgs' enums) as [_ Ea'].
    rewrite Ea in H. rewrite Ea'. eapply IH; eassumption.
  - intros msgs enums msgs' _ _. exact I.
  - intros p IHp r IHr msgs enums msgs' HF H. rewrite (props_inline_ok_cons snake camel screaming) in *.
    destruct H as [H1 H2]. split; [eapply IHp; eassumption|eapply IHr; eassumption].
  - intros n rq op f IH msgs enums msgs' HF H. rewrite (property_inline_ok_eq snake camel screaming) in *.
    destruct H as [H1 H2]. split; [eapply IH; eassumption|].
    destruct f; try exact I.
    destruct H2 as (m & Hin & Hn & Hk & k & v & Hfs & K1 & K2 & K3 & V1 & V2 & V3).
    destruct (forall2_in _ _ _ _ HF Hin) as (m' & Hin' & Hs). exists m'. split; [exact Hin'|].
    inversion Hs as [n0 k0 fs fs' ms ms' es HFf HFm]. subst m m'.
    cbn [dm_name dm_kind dm_fields] in *. split; [exact Hn|]. split; [exact Hk|].
    subst fs. inversion HFf as [|x k' l l' Hk' Hl']. subst. inversion Hl' as [|y v' l2 l2' Hv' Hnil]. subst.
    inversion Hnil. subst. exists k', v'. split; [reflexivity|].
    destruct Hk' as (A1 & _ & A3 & A4 & _). destruct Hv' as (B1 & _ & B3 & B4 & _).
    rewrite <- A1, <- A3, <- A4, <- B1, <- B3, <- B4. repeat split; assumption.
Qed.

Lemma nested_shape :
  (forall n msgs enums msgs', Forall2 shape_eq msgs msgs' -> nested_ok n msgs enums -> nested_ok n msgs' enums) /\
  (forall ns msgs enums msgs', Forall2 shape_eq msgs msgs' -> nesteds_ok ns msgs enums -> nesteds_ok ns msgs' enums).
Proof.
  destruct inline_shape as (_ & Hprops & _).
  apply nested_mutind.
  - intros nm ps subs IH msgs enums msgs' HF H. rewrite (nested_ok_obj snake camel screaming) in *.
    destruct H as (m & Hin & Hn & Hk & Hf & Hp & Hsub & Hmn & Hen).
    destruct (forall2_in _ _ _ _ HF Hin) as (m' & Hin' & Hs). exists m'. split; [exact Hin'|].
    inversion Hs as [n k fs fs' ms ms' es HFf HFm]. subst m m'.
    cbn [dm_name dm_kind dm_fields dm_msgs dm_enums] in *.
    split; [exact Hn|]. split; [exact Hk|]. split; [eapply fields_ok_shape; eassumption|].
    split; [eapply Hprops; eassumption|]. split; [eapply IH; eassumption|]. split; [|exact Hen].
    rewrite <- Hmn. symmetry. eapply forall2_map_eq; [exact shape_name|exact HFm].
  - intros nm ps subs IH msgs enums msgs' HF H. rewrite (nested_ok_oneof snake camel screaming) in *.
    destruct H as (m & Hin & Hn & Hk & Hf & Hp & Hsub & Hmn & Hen).
    destruct (forall2_in _ _ _ _ HF Hin) as (m' & Hin' & Hs). exists m'. split; [exact Hin'|].
    inversion Hs as [n k fs fs' ms ms' es HFf HFm]. subst m m'.
    cbn [dm_name dm_kind dm_fields dm_msgs dm_enums] in *.
    split; [exact Hn|]. split; [exact Hk|]. split; [eapply fields_ok_shape; eassumption|].
    split; [eapply Hprops; eassumption|]. split; [eapply IH; eassumption|]. split; [|exact Hen].
    rewrite <- Hmn. symmetry. eapply forall2_map_eq; [exact shape_name|exact HFm].
  - intros e msgs enums msgs' _ H. exact H.
  - intros msgs enums msgs' _ _. exact I.
  - intros n IHn r IHr msgs enums msgs' HF H. rewrite (nesteds_ok_cons snake camel screaming) in *.
    destruct H as [H1 H2]. split; [eapply IHn; eassumption|eapply IHr; eassumption].
Qed.

(* the link step keeps the file contract *)
Lemma link_file_main f df df' :
  link_file df = Ok df' -> main_file_ok snake camel screaming f df -> main_file_ok snake camel screaming f df'.
Proof.
  unfold link_file. intros H. inv_ok H. inversion H. subst df'. clear H.
  intros (H1 & H2 & H3 & H4 & H5 & H6). pose proof (link_msgs_shape (fl_pkg df) (fl_msgs df)) as HF.
  unfold main_file_ok. cbn [fl_path fl_pkg fl_svcs fl_msgs fl_enums].
  split; [exact H1|]. split; [exact H2|].
  split; [rewrite H3 in E; cbn in E; inversion E; reflexivity|].
  split; [rewrite <- H4; symmetry; eapply forall2_map_eq; [exact shape_name|exact HF]|].
  split; [exact H5|].
  intros e Hin. specialize (H6 e Hin). destruct nested_shape as [Hn _].
  destruct e; cbn [J5sContract.element_ok] in *; try exact I; eapply Hn; eassumption.
Qed.

End Shapes.

(* ------------------------------------------------------------------ packages *)
Section Package.
Variables snake camel screaming : str -> str.

Lemma link_files_in l l' df' :
  link_files l = Ok l' -> In df' l' -> exists df, In df l /\ link_file df = Ok df'.
Proof.
  revert l'. induction l as [|x r IH]; intros l' H Hin; cbn in H.
  - inversion H. subst. destruct Hin.
  - inv_ok H. inversion H. subst l'. destruct Hin as [<-|Hin].
    + exists x. split; [left; reflexivity|exact E].
    + destruct (IH _ E0 Hin) as (df & Hd & Hl). exists df. split; [right; exact Hd|exact Hl].
Qed.

Lemma link_files_of l l' df :
  link_files l = Ok l' -> In df l -> exists df', In df' l' /\ link_file df = Ok df'.
Proof.
  revert l'. induction l as [|x r IH]; intros l' H Hin; cbn in H; [destruct Hin|].
  inv_ok H. inversion H. subst l'. destruct Hin as [<-|Hin].
  - exists a. split; [left; reflexivity|exact E].
  - destruct (IH _ E0 Hin) as (df' & Hd & Hl). exists df'. split; [right; exact Hd|exact Hl].
Qed.

Lemma cv_files_main exports fs D f :
  cv_files snake camel screaming exports fs = Ok D -> In (BJ f) fs ->
  exists df, In df D /\ main_file_ok snake camel screaming f df.
Proof.
  revert D. induction fs as [|x r IH]; intros D H Hin; [destruct Hin|].
  cbn [J5sConvert.cv_files] in H. destruct x as [j|p].
  - destruct (file_lists_ok j) eqn:Elists; [|discriminate]. inv_ok H. inversion H. subst D. destruct Hin as [Heq|Hin].
    + inversion Heq. subst j. destruct (cv_file_main _ _ _ _ _ _ E) as (df & rest & -> & Hok).
      exists df. split; [left; reflexivity|exact Hok].
    + destruct (IH _ E0 Hin) as (df & Hd & Hok). exists df. split; [apply in_or_app; right; exact Hd|exact Hok].
  - destruct Hin as [Heq|Hin]; [discriminate|]. apply IH; assumption.
Qed.

Lemma in_insert_by {A} (lt : A -> A -> bool) x a l : In x (insert_by lt a l) <-> x = a \/ In x l.
Proof.
  induction l as [|y r IH]; cbn [insert_by].
  - cbn. split; intros [H|H]; auto.
  - destruct (lt a y).
    + cbn. split; intros [H|H]; auto.
    + cbn [In]. rewrite IH. split.
      * intros [H|[H|H]]; auto.
      * intros [H|[H|H]]; auto.
Qed.

Lemma in_sort_by {A} (lt : A -> A -> bool) x l : In x (sort_by lt l) <-> In x l.
Proof.
  unfold sort_by. induction l as [|y r IH]; cbn; [reflexivity|].
  rewrite in_insert_by, IH. split; intros [H|H]; auto.
Qed.

Lemma in_pkg_files bd pkg f : In (BJ f) bd -> j5s_pkg f = pkg -> In (BJ f) (pkg_files bd pkg).
Proof.
  intros Hin Hp. unfold pkg_files. apply in_sort_by. apply filter_In. split; [exact Hin|].
  cbn. rewrite Hp. apply str_eqb_refl.
Qed.

(* whatever the compiler model accepts satisfies the structural contract: for every source file
   of the package there is a generated file with exactly the declared messages and enums, every
   field with the declared name, JSON name, number, type, cardinality and optionality, every
   inline type nested under the documented name - to any depth *)
Lemma compile_package_inv bd pkg D :
  compile_package snake camel screaming bd pkg = Ok D ->
  exists fs, convert_package snake camel screaming bd pkg = Ok fs /\
             nodup_str (package_symbols bd pkg fs) = true /\
             link_files fs = Ok D /\
             link_closure snake camel screaming (S (length bd)) bd (flat_map fl_deps fs) (map fl_path fs) = Ok tt.
Proof.
  unfold compile_package. intros H. apply obind_ok in H. destruct H as (fs & E & H).
  destruct (nodup_str (package_symbols bd pkg fs)) eqn:Hs; cbn [negb] in H; [|discriminate].
  apply obind_ok in H. destruct H as (linked & E0 & H). apply obind_ok in H. destruct H as ([] & E1 & H).
  inversion H. subst. exists fs. auto.
Qed.

Theorem compile_sound bd pkg D :
  compile_package snake camel screaming bd pkg = Ok D ->
  package_contract snake camel screaming bd pkg D.
Proof.
  intros H. apply compile_package_inv in H. destruct H as (a & E & _ & E0 & _). unfold convert_package in E.
  intros f Hin Hp. pose proof (in_pkg_files _ _ _ Hin Hp) as Hpf.
  destruct (pkg_files bd pkg) as [|x r] eqn:Epf; [destruct Hpf|].
  destruct (cv_files_main _ _ _ _ E Hpf) as (df & Hd & Hok).
  destruct (link_files_of _ _ _ E0 Hd) as (df' & Hd' & Hl).
  exists df'. split; [exact Hd'|]. eapply link_file_main; eassumption.
Qed.

End Package.

(* ================================================================== type names after the link step *)
(* fix 2ef7c92: the name of an inline type, Root.Path.Name, becomes .<package>.Root.Path.Name
   whatever else is nested in the file (it no longer matters whether a nested type is named
   like the root message); the bare name of a map entry becomes the entry nested in the message
   of the field. *)
Theorem link_name_inline nested fpkg scope parts :
  rel_name parts <> [] -> hd 0 (rel_name parts) <> 46 -> ~ In (rel_name parts) nested ->
  link_name nested fpkg scope (rel_name parts) = abs_name fpkg parts.
Proof.
  intros Hne Hd Hni. unfold link_name. destruct (rel_name parts) as [|c r] eqn:E; [contradiction|].
  cbn [hd] in Hd. apply N.eqb_neq in Hd. rewrite Hd.
  destruct (existsb (str_eqb (c :: r)) nested) eqn:Ex.
  - exfalso. apply Hni. apply existsb_exists in Ex. destruct Ex as (x & Hx & He). apply str_eqb_eq in He. subst. exact Hx.
  - unfold abs_name. unfold rel_name in E. rewrite E. reflexivity.
Qed.

Theorem link_name_entry nested fpkg scope en :
  en <> [] -> hd 0 en <> 46 -> In en nested ->
  link_name nested fpkg scope en = abs_name fpkg (scope ++ [en]).
Proof.
  intros Hne Hd Hin. unfold link_name. destruct en as [|c r]; [contradiction|].
  cbn [hd] in Hd. apply N.eqb_neq in Hd. rewrite Hd.
  assert (Ex : existsb (str_eqb (c :: r)) nested = true).
  { apply existsb_exists. exists (c :: r). split; [exact Hin|apply str_eqb_refl]. }
  rewrite Ex. reflexivity.
Qed.

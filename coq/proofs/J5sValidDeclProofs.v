(* J5sValidDeclProofs.v — valid_bundle bd = true <-> valid_decl bd: the validity predicate of
   C02_full / C13_full, which runs the model's resolver on every reference, is equivalent to
   "structurally well formed (boolean, source only) and every reference declared (declarative:
   J5sRefSpec.ref_declared)". *)
From Coq Require Import String List NArith Bool Lia.
From J5V.lib Require Import Outcome Corr.
From J5V.model Require Import J5sAst Desc J5sWalk J5sLink J5sConvert J5sContract J5sSymbols J5sValid J5sRefSpec J5sValidDecl.
From J5V.proofs Require Import J5sProofs J5sContractProofs J5sResolveProofs J5sExtProofs J5sCompileProofs J5sRefSpecProofs.
Import ListNotations.
Local Open Scope N_scope.

Section Split.
Variables snake camel screaming : str -> str.
Variable ev : env.

Definition kref_ok (rk : ref * bool) : bool := ref_is ev (fst rk) (snd rk).

Notation wf_item := (wf_item snake camel ev).
Notation wf_props := (wf_props snake camel ev).
Notation wf_property := (wf_property snake camel ev).
Notation ws_item := (ws_item snake camel).
Notation ws_props := (ws_props snake camel).
Notation ws_property := (ws_property snake camel).

Ltac bsolve := repeat match goal with |- context [?x && _] => is_var x; destruct x; cbn [andb] end; try reflexivity.

(* unfolding equations (the mutual fixpoints do not refold under cbn) *)
Lemma wf_item_obj nm ps : wf_item (FObjInline nm ps) = name_opt_ok nm && wf_props false ps && sibling_ok snake camel ps.
Proof. reflexivity. Qed.
Lemma ws_item_obj nm ps : ws_item (FObjInline nm ps) = name_opt_ok nm && ws_props false ps && sibling_ok snake camel ps.
Proof. reflexivity. Qed.
Lemma wf_item_oneof nm ps : wf_item (FOneofInline nm ps) =
  name_opt_ok nm && wf_props true ps && sibling_ok snake camel ps && match ps with PNil => false | _ => true end.
Proof. reflexivity. Qed.
Lemma ws_item_oneof nm ps : ws_item (FOneofInline nm ps) =
  name_opt_ok nm && ws_props true ps && sibling_ok snake camel ps && match ps with PNil => false | _ => true end.
Proof. reflexivity. Qed.
Lemma wf_props_cons io p r : wf_props io (PCons p r) = wf_property io p && wf_props io r.
Proof. reflexivity. Qed.
Lemma ws_props_cons io p r : ws_props io (PCons p r) = ws_property io p && ws_props io r.
Proof. reflexivity. Qed.
Lemma wf_property_eq io n rq op f : wf_property io (Property n rq op f) =
  field_ident n && negb (rq && op) &&
  (if io then negb (is_repeated f) && negb (str_eqb (snake n) (b "type")) else true) &&
  match f with FArray it | FMap it => wf_item it | _ => wf_item f end.
Proof. reflexivity. Qed.
Lemma ws_property_eq io n rq op f : ws_property io (Property n rq op f) =
  field_ident n && negb (rq && op) &&
  (if io then negb (is_repeated f) && negb (str_eqb (snake n) (b "type")) else true) &&
  match f with FArray it | FMap it => ws_item it | _ => ws_item f end.
Proof. reflexivity. Qed.

(* every level: the resolver-based check = the structural check && every reference checked *)
Definition item_eq (f : field) : Prop := wf_item f = ws_item f && forallb kref_ok (krefs_field f).

Lemma item_split :
  (forall f, item_eq f /\ match f with FArray it | FMap it => item_eq it | _ => True end) /\
  (forall ps io, wf_props io ps = ws_props io ps && forallb kref_ok (krefs_props ps)) /\
  (forall p io, wf_property io p = ws_property io p && forallb kref_ok (krefs_property p)).
Proof.
  unfold item_eq. apply ast_mutind.
  - intros s. split; [reflexivity|exact I].
  - intros r. split; [|exact I]. cbn. unfold kref_ok. cbn. rewrite andb_true_r. reflexivity.
  - intros nm ps IH. split; [|exact I]. rewrite wf_item_obj, ws_item_obj. cbn [krefs_field]. rewrite (IH false).
    destruct (name_opt_ok nm), (ws_props false ps), (forallb kref_ok (krefs_props ps)), (sibling_ok snake camel ps); reflexivity.
  - intros r. split; [|exact I]. cbn. unfold kref_ok. cbn. rewrite andb_true_r. reflexivity.
  - intros nm ps IH. split; [|exact I]. rewrite wf_item_oneof, ws_item_oneof. cbn [krefs_field]. rewrite (IH true).
    destruct (name_opt_ok nm), (ws_props true ps), (forallb kref_ok (krefs_props ps)), (sibling_ok snake camel ps), ps; reflexivity.
  - intros r. split; [|exact I]. cbn. unfold kref_ok. cbn. rewrite andb_true_r. reflexivity.
  - intros e. split; [|exact I]. cbn. rewrite andb_true_r. reflexivity.
  - intros it [IH _]. split; [reflexivity|exact IH].
  - intros it [IH _]. split; [reflexivity|exact IH].
  - intros io. reflexivity.
  - intros p IHp ps IHps io. rewrite wf_props_cons, ws_props_cons. cbn [krefs_props].
    rewrite forallb_app, (IHp io), (IHps io).
    destruct (ws_property io p), (forallb kref_ok (krefs_property p)), (ws_props io ps); reflexivity.
  - intros n rq op f [IH IHit] io. rewrite wf_property_eq, ws_property_eq. cbn [krefs_property].
    set (pre := field_ident n && negb (rq && op) &&
                (if io then negb (is_repeated f) && negb (str_eqb (snake n) (b "type")) else true)).
    assert (Hf : (match f with FArray it | FMap it => wf_item it | _ => wf_item f end) =
                 (match f with FArray it | FMap it => ws_item it | _ => ws_item f end) && forallb kref_ok (krefs_field f)).
    { destruct f; try exact IH; exact IHit. }
    rewrite Hf. destruct pre; reflexivity.
Qed.

Lemma props_split ps io : wf_props io ps = ws_props io ps && forallb kref_ok (krefs_props ps).
Proof. exact (proj1 (proj2 item_split) ps io). Qed.

Definition sib_nested (ps : props) (subs : nesteds) : bool :=
  distinct (map (fun p => snake (prop_name p)) (props_list ps)) &&
  distinct (map prop_name (props_list ps)) &&
  distinct (flat_map (prop_msg_names snake camel) (props_list ps) ++
            flat_map (prop_enum_names camel) (props_list ps) ++
            flat_map nested_msg_name (nesteds_list subs) ++ flat_map nested_enum_name (nesteds_list subs)).

Lemma wf_nested_obj nm ps subs : wf_nested snake camel ev (NObject nm ps subs) =
  type_ident nm && wf_props false ps && wf_nesteds snake camel ev subs && sib_nested ps subs.
Proof. unfold sib_nested. cbn. repeat rewrite andb_assoc. reflexivity. Qed.
Lemma ws_nested_obj nm ps subs : ws_nested snake camel (NObject nm ps subs) =
  type_ident nm && ws_props false ps && ws_nesteds snake camel subs && sib_nested ps subs.
Proof. unfold sib_nested. cbn. repeat rewrite andb_assoc. reflexivity. Qed.
Lemma wf_nested_oneof nm ps subs : wf_nested snake camel ev (NOneof nm ps subs) =
  type_ident nm && wf_props true ps && wf_nesteds snake camel ev subs &&
  match ps with PNil => false | _ => true end && sib_nested ps subs.
Proof. unfold sib_nested. cbn. repeat rewrite andb_assoc. reflexivity. Qed.
Lemma ws_nested_oneof nm ps subs : ws_nested snake camel (NOneof nm ps subs) =
  type_ident nm && ws_props true ps && ws_nesteds snake camel subs &&
  match ps with PNil => false | _ => true end && sib_nested ps subs.
Proof. unfold sib_nested. cbn. repeat rewrite andb_assoc. reflexivity. Qed.
Lemma wf_nesteds_cons n r : wf_nesteds snake camel ev (NCons n r) = wf_nested snake camel ev n && wf_nesteds snake camel ev r.
Proof. reflexivity. Qed.
Lemma ws_nesteds_cons n r : ws_nesteds snake camel (NCons n r) = ws_nested snake camel n && ws_nesteds snake camel r.
Proof. reflexivity. Qed.

Lemma nested_split :
  (forall n, wf_nested snake camel ev n = ws_nested snake camel n && forallb kref_ok (krefs_nested n)) /\
  (forall ns, wf_nesteds snake camel ev ns = ws_nesteds snake camel ns && forallb kref_ok (krefs_nesteds ns)).
Proof.
  apply nested_mutind.
  - intros nm ps subs IH. rewrite wf_nested_obj, ws_nested_obj. cbn [krefs_nested].
    rewrite forallb_app, (props_split ps false), IH.
    destruct (type_ident nm), (ws_props false ps), (forallb kref_ok (krefs_props ps)), (ws_nesteds snake camel subs),
      (forallb kref_ok (krefs_nesteds subs)), (sib_nested ps subs); reflexivity.
  - intros nm ps subs IH. rewrite wf_nested_oneof, ws_nested_oneof. cbn [krefs_nested].
    rewrite forallb_app, (props_split ps true), IH.
    destruct (type_ident nm), (ws_props true ps), (forallb kref_ok (krefs_props ps)), (ws_nesteds snake camel subs),
      (forallb kref_ok (krefs_nesteds subs)), (sib_nested ps subs), ps; reflexivity.
  - intros e. cbn. rewrite andb_true_r. reflexivity.
  - reflexivity.
  - intros n IHn r IHr. rewrite wf_nesteds_cons, ws_nesteds_cons. cbn [krefs_nesteds].
    rewrite forallb_app, IHn, IHr.
    destruct (ws_nested snake camel n), (forallb kref_ok (krefs_nested n)), (ws_nesteds snake camel r); reflexivity.
Qed.

Lemma virtual_split ps : wf_virtual snake camel ev ps = ws_virtual snake camel ps && forallb kref_ok (krefs_props ps).
Proof.
  unfold wf_virtual, ws_virtual. rewrite (props_split ps false).
  destruct (ws_props false ps), (forallb kref_ok (krefs_props ps)), (sibling_ok snake camel ps); reflexivity.
Qed.

Lemma forallb_split {A} (f g : A -> bool) (k : A -> list (ref * bool)) l :
  (forall x, f x = g x && forallb kref_ok (k x)) ->
  forallb f l = forallb g l && forallb kref_ok (flat_map k l).
Proof.
  intros H. induction l as [|x r IH]; cbn [forallb flat_map]; [reflexivity|].
  rewrite forallb_app, H, IH.
  destruct (g x), (forallb kref_ok (k x)), (forallb g r); reflexivity.
Qed.

Lemma method_split base m :
  wf_method snake camel ev base m = ws_method snake camel base m && forallb kref_ok (krefs_method m).
Proof.
  unfold wf_method, ws_method, krefs_method. rewrite forallb_app, virtual_split.
  destruct (m_response m) as [rs|].
  - rewrite (virtual_split rs).
    generalize (params_ok (m_request m) (split 47 match base with Some bp => path_join bp (m_path m) | None => m_path m end)). intro pk.
    destruct (type_ident (m_name m)), (ws_virtual snake camel (m_request m)), (forallb kref_ok (krefs_props (m_request m))),
      (ws_virtual snake camel rs), (forallb kref_ok (krefs_props rs)), pk; reflexivity.
  - cbn [forallb]. generalize (params_ok (m_request m) (split 47 match base with Some bp => path_join bp (m_path m) | None => m_path m end)). intro pk.
    destruct (type_ident (m_name m)), (ws_virtual snake camel (m_request m)), (forallb kref_ok (krefs_props (m_request m))), pk; reflexivity.
Qed.

Lemma tmsg_split single virt t :
  wf_tmsg snake camel ev single virt t = ws_tmsg snake camel single virt t && forallb kref_ok (krefs_props (papp virt (tm_fields t))).
Proof.
  unfold wf_tmsg, ws_tmsg. rewrite virtual_split.
  destruct (ws_virtual snake camel (papp virt (tm_fields t))), (forallb kref_ok (krefs_props (papp virt (tm_fields t))));
    cbn [andb]; try reflexivity; destruct (tm_name t) as [s|]; try destruct (type_ident s); try destruct single; reflexivity.
Qed.

Lemma element_split e :
  wf_element snake camel ev e = ws_element snake camel e && forallb kref_ok (krefs_element e).
Proof.
  destruct e as [nm ps subs|nm ps subs|en|s|t]; cbn [J5sValid.wf_element J5sValidDecl.ws_element krefs_element].
  - apply (proj1 nested_split).
  - apply (proj1 nested_split).
  - apply (proj1 nested_split (NEnum en)).
  - unfold wf_service, ws_service.
    rewrite (forallb_split _ (ws_method snake camel (sv_base s)) krefs_method (sv_methods s) (method_split (sv_base s))).
    destruct (type_ident (sv_name s)), (forallb (ws_method snake camel (sv_base s)) (sv_methods s)),
      (forallb kref_ok (flat_map krefs_method (sv_methods s))), (distinct (map m_name (sv_methods s))); reflexivity.
  - destruct t as [name msgs|name rq rp|name en m|name en m]; cbn [J5sValid.wf_topic J5sValidDecl.ws_topic krefs_topic].
    + unfold krefs_tmsgs. rewrite (forallb_split _ (ws_tmsg snake camel (is_single_b msgs) PNil) _ msgs (tmsg_split (is_single_b msgs) PNil)).
      destruct (type_ident name), (forallb (ws_tmsg snake camel (is_single_b msgs) PNil) msgs); reflexivity.
    + unfold krefs_tmsgs. rewrite forallb_app.
      rewrite (forallb_split _ (ws_tmsg snake camel (is_single_b rq) virt_request) _ rq (tmsg_split (is_single_b rq) virt_request)).
      rewrite (forallb_split _ (ws_tmsg snake camel (is_single_b rp) virt_request) _ rp (tmsg_split (is_single_b rp) virt_request)).
      destruct (type_ident name), (forallb (ws_tmsg snake camel (is_single_b rq) virt_request) rq),
        (forallb kref_ok (flat_map (fun t => krefs_props (papp virt_request (tm_fields t))) rq)),
        (forallb (ws_tmsg snake camel (is_single_b rp) virt_request) rp); reflexivity.
    + unfold krefs_tmsgs. cbn [flat_map]. rewrite app_nil_r, tmsg_split.
      destruct (type_ident name), (ws_tmsg snake camel true virt_upsert m); reflexivity.
    + unfold krefs_tmsgs. cbn [flat_map]. rewrite app_nil_r, tmsg_split.
      destruct (type_ident name), (ws_tmsg snake camel true PNil m); reflexivity.
Qed.

Lemma elements_split els :
  forallb (wf_element snake camel ev) els = forallb (ws_element snake camel) els && forallb kref_ok (flat_map krefs_element els).
Proof. apply forallb_split. exact element_split. Qed.

End Split.

Section Main.
Variables snake camel screaming : str -> str.

Lemma valid_file_split bd f :
  valid_file snake camel bd f =
  ws_file snake camel f &&
  match import_map (jf_imports f) [] with
  | Ok im => forallb (kref_ok (mkEnv (j5s_pkg f) im (pkg_exports camel bd))) (krefs_file f)
  | _ => true
  end.
Proof.
  unfold valid_file, ws_file, krefs_file.
  destruct (import_map (jf_imports f) []) as [im| | |]; cbn [andb]; try (rewrite !andb_false_r; reflexivity).
  rewrite (elements_split snake camel (mkEnv (j5s_pkg f) im (pkg_exports camel bd)) (jf_elements f)).
  destruct (forallb type_ident_or_seg (jf_dir f)), (file_lists_ok f); reflexivity.
Qed.

Lemma struct_distinct_exports bd :
  valid_struct snake camel screaming bd = true ->
  forall p l, pkg_exports camel bd p = Some l -> J5sValid.distinct (map tr_name l) = true.
Proof.
  intros Hv p l Hl. unfold valid_struct in Hv. apply andb_true_iff in Hv. destruct Hv as [Hv _].
  apply andb_true_iff in Hv. destruct Hv as [Hv _].
  apply andb_true_iff in Hv. destruct Hv as [_ Hv]. rewrite forallb_forall in Hv.
  unfold pkg_exports in Hl. destruct (pkg_files bd p) as [|y r] eqn:E; [discriminate|].
  assert (Hin : In y (pkg_files bd p)) by (rewrite E; left; reflexivity).
  apply in_pkg_files_iff in Hin. destruct Hin as [Hy Hpy].
  specialize (Hv (bfile_pkg y) (in_map bfile_pkg _ _ Hy)). rewrite Hpy in Hv. unfold pkg_exports in Hv. rewrite E in Hv.
  inversion Hl. subst l. exact Hv.
Qed.

(* the validity predicate of C02_full / C13_full = structurally well formed (boolean, source
   only) + every reference declared (declarative) *)
Theorem valid_iff_decl bd :
  valid_bundle snake camel screaming bd = true <-> valid_decl snake camel screaming bd.
Proof.
  unfold valid_decl. split.
  - intros Hv.
    assert (Hd : forall p l, pkg_exports camel bd p = Some l -> J5sValid.distinct (map tr_name l) = true)
      by exact (valid_distinct_exports snake camel screaming bd Hv).
    assert (Hfiles : forall f, In (BJ f) bd -> valid_file snake camel bd f = true)
      by exact (valid_files snake camel screaming bd Hv).
    split.
    + unfold valid_bundle in Hv. unfold valid_struct.
      apply andb_true_iff in Hv. destruct Hv as [Hv H4]. apply andb_true_iff in Hv. destruct Hv as [Hv H3].
      apply andb_true_iff in Hv. destruct Hv as [H1 H2]. rewrite H2, H3, H4, !andb_true_r.
      apply forallb_forall. intros x Hx. destruct x as [j|pf]; [|reflexivity].
      pose proof (Hfiles j Hx) as Hj. rewrite valid_file_split in Hj. apply andb_true_iff in Hj. exact (proj1 Hj).
    + intros f Hf r we Hin. pose proof (Hfiles f Hf) as Hj. rewrite valid_file_split in Hj.
      apply andb_true_iff in Hj. destruct Hj as [Hs Hr].
      destruct (import_map (jf_imports f) []) as [im| | |] eqn:Ei;
        try (unfold ws_file in Hs; rewrite Ei in Hs; rewrite andb_false_r in Hs; discriminate).
      rewrite forallb_forall in Hr. specialize (Hr (r, we) Hin). unfold kref_ok in Hr. cbn [fst snd] in Hr.
      apply (ref_is_iff_declared (j5s_pkg f) (jf_imports f) im (pkg_exports camel bd) Ei Hd r we). exact Hr.
  - intros [Hs Hr].
    pose proof (struct_distinct_exports bd Hs) as Hd.
    unfold valid_struct in Hs. unfold valid_bundle.
    apply andb_true_iff in Hs. destruct Hs as [Hs H4]. apply andb_true_iff in Hs. destruct Hs as [Hs H3].
    apply andb_true_iff in Hs. destruct Hs as [H1 H2]. rewrite H2, H3, H4, !andb_true_r.
    apply forallb_forall. intros x Hx. destruct x as [j|pf]; [|reflexivity].
    rewrite forallb_forall in H1. pose proof (H1 (BJ j) Hx) as Hj. cbn beta iota in Hj.
    rewrite valid_file_split, Hj. cbn [andb].
    destruct (import_map (jf_imports j) []) as [im| | |] eqn:Ei; try reflexivity.
    apply forallb_forall. intros [r we] Hin. unfold kref_ok. cbn [fst snd].
    apply (ref_is_iff_declared (j5s_pkg j) (jf_imports j) im (pkg_exports camel bd) Ei Hd r we).
    exact (Hr j Hx r we Hin).
Qed.

End Main.


(* ConcRWProofs.v — nested acquisition deadlocks under Go's RWMutex (witness); flat lock
   programs never deadlock (all schedules); the regenerated tables are flat. *)
From Coq Require Import String List Bool Arith Lia.
From J5V.model Require Import Conc ConcSites ConcRW.
From J5V.gen Require ConcGen.
Import ListNotations.

(* the programs of the seeded shape *)
Lemma nested_table_programs :
  lock_program (lock_fuel nested_rlock_table) nested_rlock_table
     ["hook:schema.enter"; "call:built"; "lock"; "defer-unlock"; "call:schemaLocked"]%string
  = Some [LRLock; LRLock; LRUnlock; LRUnlock; LLock; LUnlock] /\
  lock_programs_flat nested_rlock_table = false.
Proof. vm_compute. split; reflexivity. Qed.

(* goroutine 0: a hit (built: RLock, Package: RLock ...); goroutine 1: a miss that has reached Lock().
   0 takes the read lock; 1 calls Lock and waits for the reader; 0's second RLock waits for the
   waiting writer: nobody can move, ever *)
Definition nested_progs : list (list lop) :=
  [[LRLock; LRLock; LRUnlock; LRUnlock]; [LLock; LUnlock]].

Lemma nested_rlock_deadlocks :
  rw_deadlocked (rw_run nested_progs [0; 1; 0]) = true /\
  (forall more, rw_run nested_progs ([0; 1; 0] ++ more) = rw_run nested_progs [0; 1; 0]) /\
  rw_finished (rw_run nested_progs [0; 0; 0; 0; 1; 1]) = true.
Proof.
  split; [vm_compute; reflexivity|]. split; [|vm_compute; reflexivity].
  intros more. unfold rw_run. rewrite fold_left_app.
  set (st := fold_left _ [0; 1; 0] _). vm_compute in st. subst st.
  induction more as [|t r IH]; [reflexivity|]. cbn [fold_left].
  replace (rw_step t _) with (mkRW 1 None [1] [[LRLock; LRUnlock; LRUnlock]; [LLock; LUnlock]]); [exact IH|].
  destruct t as [|[|t]]; try reflexivity. destruct t; reflexivity.
Qed.

(* ---- flat programs cannot deadlock ----------------------------------------------------- *)
(* a thread is inside a read section / a write section *)
Definition in_read (p : list lop) : bool := match p with LRUnlock :: r => flat r | _ => false end.
Definition in_write (p : list lop) : bool := match p with LUnlock :: r => flat r | _ => false end.
Definition prog_ok (p : list lop) : bool := flat p || in_read p || in_write p.

Definition count (f : list lop -> bool) (ps : list (list lop)) : nat := length (filter f ps).

Record rwinv (st : rwstate) : Prop := {
  ri_ok : forallb prog_ok (rw_prog st) = true;
  ri_readers : rw_readers st = count in_read (rw_prog st);
  ri_writer : forall t, rw_writer st = Some t -> exists p, nth_error (rw_prog st) t = Some p /\ in_write p = true;
  ri_pending : forall t, In t (rw_pending st) -> exists r, nth_error (rw_prog st) t = Some (LLock :: r)
}.

Lemma flat_cases p : flat p = true ->
  p = [] \/ (exists r, p = LRLock :: LRUnlock :: r /\ flat r = true) \/ (exists r, p = LLock :: LUnlock :: r /\ flat r = true).
Proof.
  destruct p as [|[] [|[] r]]; cbn; intros H; try discriminate; auto.
  - right; left; eauto.
  - right; right; eauto.
Qed.

Lemma in_read_not_flat p : in_read p = true -> flat p = false /\ in_write p = false.
Proof. destruct p as [|[] r]; cbn; intros H; try discriminate. split; reflexivity. Qed.
Lemma in_write_not_flat p : in_write p = true -> flat p = false /\ in_read p = false.
Proof. destruct p as [|[] r]; cbn; intros H; try discriminate. split; reflexivity. Qed.

Lemma count_set_nth f ps : forall t p q, nth_error ps t = Some p ->
  count f (set_nth ps t q) + (if f p then 1 else 0) = count f ps + (if f q then 1 else 0).
Proof.
  unfold count. induction ps as [|x r IH]; intros [|t] p q H; cbn in *; try discriminate.
  - injection H as ->. destruct (f p), (f q); cbn; lia.
  - specialize (IH t p q H). destruct (f x); cbn; lia.
Qed.

Lemma count_pos f ps t p : nth_error ps t = Some p -> f p = true -> 0 < count f ps.
Proof.
  unfold count. revert t. induction ps as [|x r IH]; intros [|t] H Hf; cbn in *; try discriminate.
  - injection H as ->. rewrite Hf. cbn. lia.
  - specialize (IH t H Hf). destruct (f x); cbn; lia.
Qed.

Lemma count_zero_none f ps t p : count f ps = 0 -> nth_error ps t = Some p -> f p = false.
Proof.
  intros H0 H. destruct (f p) eqn:E; [|reflexivity]. pose proof (count_pos f ps t p H E). lia.
Qed.

Lemma forallb_set_nth {A} (f : A -> bool) l : forall t x, forallb f l = true -> f x = true -> forallb f (set_nth l t x) = true.
Proof.
  induction l as [|y r IH]; intros [|t] x H Hx; cbn in *; try reflexivity.
  - apply andb_true_iff in H. rewrite Hx. apply H.
  - apply andb_true_iff in H. destruct H as [H1 H2]. rewrite H1. apply IH; assumption.
Qed.

Lemma nth_error_set_nth_eq {A} (l : list A) : forall t x, t < length l -> nth_error (set_nth l t x) t = Some x.
Proof. induction l as [|y r IH]; intros [|t] x H; cbn in *; try lia; [reflexivity|apply IH; lia]. Qed.

Lemma nth_error_set_nth_neq {A} (l : list A) : forall t u x, t <> u -> nth_error (set_nth l t x) u = nth_error l u.
Proof. induction l as [|y r IH]; intros [|t] [|u] x H; cbn; try reflexivity; try lia. apply IH. lia. Qed.

Lemma in_remove_tid t u l : In u (remove_tid t l) -> In u l /\ u <> t.
Proof.
  unfold remove_tid. intros H. apply filter_In in H. destruct H as [H1 H2]. split; [exact H1|].
  intros ->. rewrite Nat.eqb_refl in H2. discriminate.
Qed.

Lemma rwinv_init progs : forallb flat progs = true -> rwinv (rw_init progs).
Proof.
  intros H. assert (Z : forall f, (forall p, flat p = true -> f p = false) -> count f progs = 0).
  { intros f Hf. unfold count. induction progs as [|p r IH]; [reflexivity|]. cbn in *.
    apply andb_true_iff in H. destruct H as [H1 H2]. rewrite (Hf p H1). apply IH. exact H2. }
  constructor; cbn.
  - rewrite forallb_forall in *. intros p Hp. unfold prog_ok. rewrite (H p Hp). reflexivity.
  - symmetry. apply Z. intros p Hp. destruct (in_read p) eqn:E; [|reflexivity]. apply in_read_not_flat in E. destruct E; congruence.
  - intros t [=].
  - intros t [].
Qed.

Lemma prog_ok_cases p : prog_ok p = true ->
  p = [] \/ (exists r, p = LRLock :: LRUnlock :: r /\ flat r = true) \/ (exists r, p = LLock :: LUnlock :: r /\ flat r = true)
  \/ (exists r, p = LRUnlock :: r /\ flat r = true) \/ (exists r, p = LUnlock :: r /\ flat r = true).
Proof.
  unfold prog_ok. intros H. apply orb_true_iff in H. destruct H as [H|H]; [apply orb_true_iff in H; destruct H as [H|H]|].
  - destruct (flat_cases p H) as [?|[?|?]]; auto.
  - destruct p as [|[] r]; cbn in H; try discriminate. right; right; right; left; eauto.
  - destruct p as [|[] r]; cbn in H; try discriminate. right; right; right; right; eauto.
Qed.

Lemma nth_error_lt {A} (l : list A) t x : nth_error l t = Some x -> t < length l.
Proof. intros H. apply nth_error_Some. congruence. Qed.

Lemma rwinv_step t st : rwinv st -> rwinv (rw_step t st).
Proof.
  intros I. unfold rw_step. destruct (nth_error (rw_prog st) t) as [p|] eqn:Ep; [|exact I].
  destruct p as [|op rest]; [exact I|].
  assert (Hok : prog_ok (op :: rest) = true).
  { pose proof (ri_ok st I) as H. rewrite forallb_forall in H. apply H. eapply nth_error_In; eauto. }
  pose proof (nth_error_lt _ _ _ Ep) as Hlt.
  destruct (rw_enabled st t) eqn:En.
  - (* the operation is performed *)
    destruct (prog_ok_cases _ Hok) as [E|[(r & E & Fr)|[(r & E & Fr)|[(r & E & Fr)|(r & E & Fr)]]]];
      try discriminate; injection E as -> ->.
    + (* RLock *)
      constructor; cbn [rw_prog rw_readers rw_writer rw_pending]; unfold set_prog.
      * apply forallb_set_nth; [exact (ri_ok st I)|]. unfold prog_ok. cbn. rewrite Fr. reflexivity.
      * pose proof (count_set_nth in_read (rw_prog st) t _ (LRUnlock :: r) Ep) as C. cbn [in_read] in C. rewrite Fr in C.
        rewrite (ri_readers st I). unfold set_prog. lia.
      * intros u Hu. destruct (ri_writer st I u Hu) as (q & Hq & Wq).
        destruct (Nat.eq_dec t u) as [->|Ne]; [rewrite Ep in Hq; injection Hq as <-; discriminate|].
        exists q. rewrite nth_error_set_nth_neq by exact Ne. auto.
      * intros u Hu. destruct (ri_pending st I u Hu) as (q & Hq).
        destruct (Nat.eq_dec t u) as [->|Ne]; [rewrite Ep in Hq; discriminate|].
        exists q. rewrite nth_error_set_nth_neq by exact Ne. exact Hq.
    + (* Lock *)
      constructor; cbn [rw_prog rw_readers rw_writer rw_pending]; unfold set_prog.
      * apply forallb_set_nth; [exact (ri_ok st I)|]. unfold prog_ok. cbn. rewrite Fr. reflexivity.
      * pose proof (count_set_nth in_read (rw_prog st) t _ (LUnlock :: r) Ep) as C. cbn [in_read] in C.
        rewrite (ri_readers st I). unfold set_prog. lia.
      * intros u [= <-]. exists (LUnlock :: r). rewrite nth_error_set_nth_eq by exact Hlt. split; [reflexivity|exact Fr].
      * intros u Hu. apply in_remove_tid in Hu. destruct Hu as [Hu Ne].
        destruct (ri_pending st I u Hu) as (q & Hq). exists q.
        rewrite nth_error_set_nth_neq by (intro; apply Ne; congruence). exact Hq.
    + (* RUnlock *)
      constructor; cbn [rw_prog rw_readers rw_writer rw_pending]; unfold set_prog.
      * apply forallb_set_nth; [exact (ri_ok st I)|]. unfold prog_ok. rewrite Fr. reflexivity.
      * pose proof (count_set_nth in_read (rw_prog st) t _ r Ep) as C. cbn [in_read] in C. rewrite Fr in C.
        assert (in_read r = false) as Nr.
        { destruct (in_read r) eqn:X; [|reflexivity]. apply in_read_not_flat in X. destruct X; congruence. }
        rewrite Nr in C. rewrite (ri_readers st I). unfold set_prog. lia.
      * intros u Hu. destruct (ri_writer st I u Hu) as (q & Hq & Wq).
        destruct (Nat.eq_dec t u) as [->|Ne]; [rewrite Ep in Hq; injection Hq as <-; discriminate|].
        exists q. rewrite nth_error_set_nth_neq by exact Ne. auto.
      * intros u Hu. destruct (ri_pending st I u Hu) as (q & Hq).
        destruct (Nat.eq_dec t u) as [->|Ne]; [rewrite Ep in Hq; discriminate|].
        exists q. rewrite nth_error_set_nth_neq by exact Ne. exact Hq.
    + (* Unlock *)
      constructor; cbn [rw_prog rw_readers rw_writer rw_pending]; unfold set_prog.
      * apply forallb_set_nth; [exact (ri_ok st I)|]. unfold prog_ok. rewrite Fr. reflexivity.
      * pose proof (count_set_nth in_read (rw_prog st) t _ r Ep) as C. cbn [in_read] in C.
        assert (in_read r = false) as Nr.
        { destruct (in_read r) eqn:X; [|reflexivity]. apply in_read_not_flat in X. destruct X; congruence. }
        rewrite Nr in C. rewrite (ri_readers st I). unfold set_prog. lia.
      * intros u [=].
      * intros u Hu. destruct (ri_pending st I u Hu) as (q & Hq).
        destruct (Nat.eq_dec t u) as [->|Ne]; [rewrite Ep in Hq; discriminate|].
        exists q. rewrite nth_error_set_nth_neq by exact Ne. exact Hq.
  - (* blocked *)
    destruct op; try exact I.
    destruct (existsb (Nat.eqb t) (rw_pending st)); [exact I|].
    constructor; cbn [rw_prog rw_readers rw_writer rw_pending]; try apply I.
    intros u Hu. apply in_app_or in Hu. destruct Hu as [Hu|[<-|[]]]; [apply (ri_pending st I u Hu)|].
    exists rest. exact Ep.
Qed.

Lemma rwinv_run progs sched : forallb flat progs = true -> rwinv (rw_run progs sched).
Proof.
  intros H. unfold rw_run. pose proof (rwinv_init progs H) as I. revert I. generalize (rw_init progs).
  induction sched as [|t r IH]; intros st I; cbn [fold_left]; [exact I|]. apply IH. apply rwinv_step. exact I.
Qed.

Lemma seq_in_lt t n : t < n -> In t (seq 0 n).
Proof. intros H. apply in_seq. lia. Qed.

(* flat lock programs: whatever the schedule, while a goroutine has operations left some goroutine
   can perform its next one — and so does every goroutine that is inside a section *)
Theorem flat_no_deadlock progs sched : forallb flat progs = true ->
  rw_deadlocked (rw_run progs sched) = false.
Proof.
  intros H. pose proof (rwinv_run progs sched H) as I. set (st := rw_run progs sched) in *.
  unfold rw_deadlocked. destruct (rw_finished st) eqn:Fin; [reflexivity|]. cbn [negb andb].
  apply not_true_is_false. intros D. rewrite forallb_forall in D.
  assert (En : forall t p, nth_error (rw_prog st) t = Some p -> rw_enabled st t = false).
  { intros t p Hp. specialize (D t (seq_in_lt _ _ (nth_error_lt _ _ _ Hp))). destruct (rw_enabled st t); [discriminate|reflexivity]. }
  assert (Ok : forall t p, nth_error (rw_prog st) t = Some p -> prog_ok p = true).
  { intros t p Hp. pose proof (ri_ok st I) as Hk. rewrite forallb_forall in Hk. apply Hk. eapply nth_error_In; eauto. }
  (* nobody is inside a section, else it could unlock *)
  assert (NoSec : forall t p, nth_error (rw_prog st) t = Some p -> in_read p = false /\ in_write p = false).
  { intros t p Hp. specialize (En t p Hp). unfold rw_enabled in En. rewrite Hp in En.
    destruct p as [|[] r]; cbn; auto; discriminate. }
  assert (R0 : rw_readers st = 0).
  { rewrite (ri_readers st I). unfold count. destruct (filter in_read (rw_prog st)) as [|p r] eqn:F; [reflexivity|].
    assert (In p (filter in_read (rw_prog st))) as Hin by (rewrite F; left; reflexivity).
    apply filter_In in Hin. destruct Hin as [Hin Hr]. apply In_nth_error in Hin. destruct Hin as [t Ht].
    destruct (NoSec t p Ht). congruence. }
  assert (W0 : rw_writer st = None).
  { destruct (rw_writer st) as [w|] eqn:W; [|reflexivity]. destruct (ri_writer st I w W) as (q & Hq & Wq).
    destruct (NoSec w q Hq). congruence. }
  (* some goroutine has an operation left: it is the start of a section *)
  unfold rw_finished in Fin. apply not_true_iff_false in Fin.
  apply Fin. apply forallb_forall. intros p Hp. apply In_nth_error in Hp. destruct Hp as [t Ht].
  pose proof (En t p Ht) as E. unfold rw_enabled in E. rewrite Ht, W0, R0 in E.
  destruct (prog_ok_cases p (Ok t p Ht)) as [->|[(r & -> & _)|[(r & -> & _)|[(r & -> & _)|(r & -> & _)]]]]; try reflexivity; try discriminate.
  (* RLock blocked: somebody else is pending in Lock(), with readers = 0 and no writer: that one is enabled *)
  exfalso. cbn in E. apply not_true_iff_false in E. apply E. apply forallb_forall. intros w Hw.
  destruct (ri_pending st I w Hw) as (q & Hq). pose proof (En w _ Hq) as Ew.
  unfold rw_enabled in Ew. rewrite Hq, W0, R0 in Ew. discriminate.
Qed.

(* ---- the tie: the methods of the cache, as the Go source has them now ---------------------- *)
Lemma code_lock_programs_flat : lock_programs_flat ConcGen.cache_methods = true.
Proof. vm_compute. reflexivity. Qed.

Lemma code_schema_program :
  option_map (fun toks => lock_program (lock_fuel ConcGen.cache_methods) ConcGen.cache_methods (snd toks))
             (find_fn ConcGen.cache_methods "Schema") = Some (Some [LLock; LUnlock]).
Proof. vm_compute. reflexivity. Qed.

(* ReflectPathProofs.v — lemmas behind props/C18.v (part 3: every recorded proto field path
   resolves, in the message the schema describes, to a field of the matching kind).
   A second pass over the reader model in the "if it returns Ok then ..." style: every linked entry
   of the schema set keeps an [origin]: the descriptor it was built from, with a state-independent
   description ([shape_b]) of what each property's schema must look like for its field. At the end
   (no placeholder left, keys of different descriptors distinct) the origins give [set_consistent]. *)
From Coq Require Import String List Arith NArith ZArith Bool Lia.
From J5V.lib Require Import Outcome.
From J5V.model Require Import ReflectDesc ReflectSchema Reflect ReflectSpec Export.
From J5V.proofs Require Import ReflectProofs ExportProofs ReflectInvProofs.
Import ListNotations.
Local Open Scope bool_scope.

Section Origin.
Variable D : desc.

(* the field's type reference names a message (protoreflect: Message() is non-nil) *)
Definition is_tmsg (f : field) : bool := match f_ty f with TMsg _ => true | _ => false end.

(* field_matches with the look-ups into the schema set replaced by look-ups into the descriptors *)
Fixpoint shape_b (s : fschema) (f : field) (item : bool) : bool :=
  match s with
  | FArray it _ _ =>
      negb item && (match f_card f with CRepeated => true | _ => false end) && shape_b it f true
  | FMap it _ _ =>
      let is_struct := kind_eqb (f_kind f) KMessage && str_eqb (value_full f) s_Struct in
      if item then is_struct
      else match f_card f with
           | CMap _ => shape_b it f true
           | CRepeated => false
           | _ => is_struct
           end
  | _ =>
      (item || (match f_card f with CRepeated | CMap _ => false | _ => true end)) &&
      match s with
      | FScalar (Some (k, wkt)) _ =>
          match wkt with
          | [] => kind_eqb (f_kind f) k
          | _ => kind_eqb (f_kind f) KMessage && str_eqb (value_full f) wkt
          end
      | FScalar None _ => false
      | FEnum k _ _ _ =>
          kind_eqb (f_kind f) KEnum &&
          (match find_enum D (value_full f) with Some e => ref_eqb k (enum_key e) | None => false end)
      | FObject k _ _ _ =>
          kind_eqb (f_kind f) KMessage && is_tmsg f &&
          (match find_msg D (value_full f) with Some m2 => ref_eqb k (msg_key m2) && negb (is_oneof_wrapper m2) | None => false end)
      | FOneof k _ _ _ =>
          kind_eqb (f_kind f) KMessage && is_tmsg f &&
          (match find_msg D (value_full f) with Some m2 => ref_eqb k (msg_key m2) && is_oneof_wrapper m2 | None => false end)
      | FAny _ _ _ =>
          kind_eqb (f_kind f) KMessage && (str_eqb (value_full f) s_PbAny || str_eqb (value_full f) s_J5Any)
      | _ => false
      end
  end.

(* a property built from a field of m: path = [number], schema shaped for that field *)
Definition member_from_b (m : msgd) (p : prop) : bool :=
  match p_path p with
  | [n] => existsb (fun f => N.eqb (f_num f) n && shape_b (p_schema p) f false) (m_fields m)
  | _ => false
  end.
Definition exposed_key_b (m : msgd) (k : ref) : bool :=
  existsb (fun o => match o with Oneof name _ syn _ _ => negb syn && ref_eqb k (oneof_key m name) end) (m_oneofs m).
Definition prop_from_b (m : msgd) (p : prop) : bool :=
  match p_path p with
  | [] => match p_schema p with FOneof k None None None => exposed_key_b m k | _ => false end
  | _ => member_from_b m p
  end.

Definition root_is_oneof (r : root) : bool := match r with ROneof _ _ _ => true | _ => false end.
Definition root_is_enum (r : root) : bool := match r with REnum _ _ _ _ _ => true | _ => false end.

Definition origin_b (k : ref) (r : root) : bool :=
  existsb (fun m => ref_eqb (msg_key m) k && negb (root_is_enum r) && Bool.eqb (root_is_oneof r) (is_oneof_wrapper m)
                    && forallb (prop_from_b m) (root_props r)) (d_msgs D)
  || existsb (fun m => exposed_key_b m k && root_is_oneof r && forallb (member_from_b m) (root_props r)) (d_msgs D)
  || existsb (fun e => ref_eqb (enum_key e) k && root_is_enum r) (d_enums D).

Definition InvO (st : sset) : Prop := forall k r, lookup st k = Some (Linked r) -> origin_b k r = true.

Lemma InvO_nil : InvO [].
Proof. intros k r H. discriminate. Qed.
Lemma InvO_cons st k e :
  InvO st -> (forall r, e = Linked r -> origin_b k r = true) -> InvO ((k, e) :: st).
Proof.
  intros HI He k' r H. rewrite lookup_cons in H. destruct (ref_eqb k k') eqn:E.
  - apply ref_eqb_eq in E. subst k'. inversion H; subst. apply He. reflexivity.
  - apply HI. exact H.
Qed.
Lemma InvO_update st k r :
  InvO st -> origin_b k r = true -> InvO (update st k (Linked r)).
Proof.
  intros HI Ho k' r' H. rewrite lookup_update in H. destruct (ref_eqb k k') eqn:E.
  - apply ref_eqb_eq in E. subst k'. destruct (lookup st k); [|discriminate]. inversion H; subst. exact Ho.
  - apply HI. exact H.
Qed.

(* ---------------------------------------------------------------- shapes of what build_schema returns *)
Lemma str_eqb_true_eq a b : str_eqb a b = true -> a = b.
Proof. apply str_eqb_eq. Qed.

Lemma kind_eqb_refl k : kind_eqb k k = true.
Proof. destruct k; reflexivity. Qed.

Lemma wkt_schema_shape full x s f item :
  wkt_schema full x = ROk (Some s) -> f_kind f = KMessage -> value_full f = full ->
  (item = true \/ match f_card f with CRepeated | CMap _ => False | _ => True end) ->
  shape_b s f item = true.
Proof.
  intros H Hk Hv Hc.
  assert (Hcard : (item || (match f_card f with CRepeated | CMap _ => false | _ => true end)) = true).
  { destruct Hc as [->|Hc]; [reflexivity|]. destruct (f_card f); try contradiction; apply orb_true_r. }
  unfold wkt_schema in H.
  destruct (str_eqb full s_Timestamp) eqn:E1.
  { apply rbind_ok in H as (rules & _ & H). inversion H; subst s. cbn [shape_b]. rewrite Hcard, Hk, Hv.
    apply str_eqb_true_eq in E1. subst full. reflexivity. }
  destruct (str_eqb full s_Duration) eqn:E2.
  { inversion H; subst s. cbn [shape_b]. rewrite Hcard, Hk, Hv. apply str_eqb_true_eq in E2. subst full. reflexivity. }
  destruct (str_eqb full s_Date) eqn:E3.
  { inversion H; subst s. cbn [shape_b]. rewrite Hcard, Hk, Hv. apply str_eqb_true_eq in E3. subst full. reflexivity. }
  destruct (str_eqb full s_Decimal) eqn:E4.
  { inversion H; subst s. cbn [shape_b]. rewrite Hcard, Hk, Hv. apply str_eqb_true_eq in E4. subst full. reflexivity. }
  destruct (str_eqb full s_Struct) eqn:E5.
  { inversion H; subst s. cbn [shape_b]. rewrite Hk, Hv, E5. cbn [kind_eqb andb].
    destruct item; [reflexivity|]. destruct Hc as [Hc|Hc]; [discriminate|]. destruct (f_card f); try contradiction; reflexivity. }
  destruct (str_eqb full s_J5Any || str_eqb full s_PbAny) eqn:E6; [|discriminate].
  destruct (match x_j5 x with Some (JAny o ts) => (o, ts) | _ => (false, []) end) as [only types].
  inversion H; subst s. cbn [shape_b]. rewrite Hcard, Hk, Hv. cbn [kind_eqb andb].
  apply orb_prop in E6 as [E|E]; rewrite E; [apply orb_true_r|reflexivity].
Qed.

(* ---------------------------------------------------------------- the reader keeps origins *)
Definition card_ok (f : field) (item : bool) : Prop :=
  item = true \/ match f_card f with CRepeated | CMap _ => False | _ => True end.
Lemma card_ok_b f item : card_ok f item ->
  (item || (match f_card f with CRepeated | CMap _ => false | _ => true end)) = true.
Proof. intros [->|H]; [reflexivity|]. destruct (f_card f); try contradiction; apply orb_true_r. Qed.

Lemma build_enum_is_enum e r : build_enum e = Ok r -> root_is_enum r = true.
Proof.
  destruct e as [full pkg path values eo d]. cbn [build_enum]. destruct values as [|[first num info dv] rest]; [discriminate|].
  destruct (negb (has_suffix s_UNSPECIFIED first)); [discriminate|]. intros H. inversion H. reflexivity.
Qed.

Lemma origin_enum e r : In e (d_enums D) -> root_is_enum r = true -> origin_b (enum_key e) r = true.
Proof.
  intros He Hr. unfold origin_b. apply orb_true_iff. right. apply existsb_exists. exists e.
  split; [exact He|]. rewrite ref_eqb_refl, Hr. reflexivity.
Qed.

Lemma value_full_enum f full : f_ty f = TEnum full -> value_full f = full.
Proof. unfold value_full. intros ->. reflexivity. Qed.
Lemma value_full_msg f full : f_ty f = TMsg full -> value_full f = full.
Proof. unfold value_full. intros ->. reflexivity. Qed.

Lemma build_enum_field_origin st f x st1 s item :
  InvO st -> build_enum_field D st f x = Ok (st1, s) -> f_kind f = KEnum -> card_ok f item ->
  InvO st1 /\ shape_b s f item = true.
Proof.
  intros HI H Hk Hc. unfold build_enum_field in H.
  destruct (f_ty f) as [|full|full] eqn:Ety; try discriminate.
  destruct (find_enum D full) as [e|] eqn:Ef; [|discriminate].
  assert (He : In e (d_enums D)) by (eapply find_enum_In; eauto).
  assert (Hst : exists st0, enum_ref st e = Ok st0 /\ InvO st0).
  { destruct (enum_ref st e) as [st0| | |] eqn:Er; cbn [obind] in H; try discriminate.
    exists st0. split; [reflexivity|].
    destruct (enum_ref_inv st e st0 Er) as [[-> _]|(_ & r & Eb & ->)]; [exact HI|].
    apply InvO_cons; [exact HI|]. intros r' Hr'. inversion Hr'; subst r'. apply origin_enum; [exact He|].
    eapply build_enum_is_enum; eauto. }
  destruct Hst as (st0 & Hst0 & HI0). rewrite Hst0 in H. cbn [obind] in H.
  match type of H with obind ?o _ = _ => destruct o as [rules| | |]; cbn [obind] in H; try discriminate end.
  inversion H; subst st1 s. split; [exact HI0|].
  cbn [shape_b]. rewrite (card_ok_b f item Hc), Hk, (value_full_enum f full Ety), Ef, ref_eqb_refl. reflexivity.
Qed.

(* what the recursive call guarantees for the root of message m *)
Definition root_from (m : msgd) (r : root) : bool :=
  negb (root_is_enum r) && Bool.eqb (root_is_oneof r) (is_oneof_wrapper m) && forallb (prop_from_b m) (root_props r).

Lemma origin_msg m r : In m (d_msgs D) -> root_from m r = true -> origin_b (msg_key m) r = true.
Proof.
  intros Hm Hr. unfold origin_b. apply orb_true_iff. left. apply orb_true_iff. left.
  apply existsb_exists. exists m. split; [exact Hm|]. rewrite ref_eqb_refl. unfold root_from in Hr.
  apply andb_prop in Hr as [Hr H3]. apply andb_prop in Hr as [H1 H2]. rewrite H1, H2, H3. reflexivity.
Qed.

Section LevelO.
Variable rec : sset -> msgd -> outcome (sset * root).
Hypothesis HrecO : forall st m st1 r, In m (d_msgs D) -> InvO st -> rec st m = Ok (st1, r) -> InvO st1 /\ root_from m r = true.

Lemma build_message_field_origin st f x st1 s item :
  InvO st -> build_message_field D rec st f x = Ok (st1, s) -> f_kind f = KMessage -> card_ok f item ->
  InvO st1 /\ shape_b s f item = true.
Proof.
  intros HI H Hk Hc. unfold build_message_field in H.
  destruct (f_ty f) as [|full|full] eqn:Ety; try discriminate.
  pose proof (value_full_msg f full Ety) as Hv.
  destruct (wkt_schema full x) as [[w|]|cls] eqn:Ew; cbn [lift obind] in H; try discriminate.
  - inversion H; subst st1 s. split; [exact HI|]. eapply wkt_schema_shape; eauto.
  - destruct (has_prefix s_google_protobuf full); [discriminate|].
    destruct (find_msg D full) as [m|] eqn:Ef; [|discriminate].
    assert (Hm : In m (d_msgs D)) by (eapply find_msg_In; eauto).
    assert (Hshape : forall fl lr, shape_b (if is_oneof_wrapper m then FOneof (msg_key m) None lr None
                                            else FObject (msg_key m) fl None None) f item = true).
    { intros fl lr. assert (Ht : is_tmsg f = true) by (unfold is_tmsg; rewrite Ety; reflexivity).
      destruct (is_oneof_wrapper m) eqn:Ew2; cbn [shape_b];
        rewrite (card_ok_b f item Hc), Hk, Ht, Hv, Ef, ref_eqb_refl, Ew2; reflexivity. }
    destruct (lookup st (msg_key m)) as [en|] eqn:El; [destruct (is_enum_entry en); cbn [obind] in H; [discriminate|]|cbn [obind] in H].
    + inversion H; subst st1 s. split; [exact HI|apply Hshape].
    + destruct (rec ((msg_key m, Placeholder) :: st) m) as [[st2 r]| | |] eqn:Er; cbn [obind] in H; try discriminate.
      inversion H; subst st1 s.
      destruct (HrecO _ m st2 r Hm (InvO_cons st (msg_key m) Placeholder HI ltac:(intros r0 Hr0; discriminate)) Er) as [HI2 Hr].
      split; [apply InvO_update; [exact HI2|apply origin_msg; assumption]|apply Hshape].
Qed.

Lemma build_schema_origin st f x st1 s item :
  InvO st -> build_schema D rec st f x = Ok (st1, s) -> card_ok f item ->
  InvO st1 /\ shape_b s f item = true.
Proof.
  intros HI H Hc. unfold build_schema in H.
  destruct (f_kind f) eqn:Ek;
    try (destruct (build_scalar _ x) as [p|cls]; cbn [lift obind] in H; [|discriminate];
         inversion H; subst st1 s; split; [exact HI|];
         cbn [shape_b]; rewrite (card_ok_b f item Hc), Ek; reflexivity).
  - eapply build_enum_field_origin; eauto.
  - eapply build_message_field_origin; eauto.
Qed.

Lemma build_field_prop_origin st f st1 p :
  InvO st -> build_field_prop D rec st f = Ok (st1, p) ->
  InvO st1 /\ p_path p = [f_num f] /\ shape_b (p_schema p) f false = true.
Proof.
  intros HI H. unfold build_field_prop in H.
  destruct (f_card f) as [| | |kk] eqn:Ec.
  - destruct (build_schema D rec st f (field_exts f)) as [[a b]| | |] eqn:Eb; cbn [obind] in H; try discriminate.
    inversion H; subst st1 p. destruct (build_schema_origin _ _ _ _ _ false HI Eb) as [H1 H2].
    { right. rewrite Ec. exact I. }
    split; [exact H1|]. split; [reflexivity|exact H2].
  - destruct (build_schema D rec st f (field_exts f)) as [[a b]| | |] eqn:Eb; cbn [obind] in H; try discriminate.
    inversion H; subst st1 p. destruct (build_schema_origin _ _ _ _ _ false HI Eb) as [H1 H2].
    { right. rewrite Ec. exact I. }
    split; [exact H1|]. split; [reflexivity|exact H2].
  - destruct (x_vty (field_exts f)); cbn in H;
      match type of H with obind ?o _ = _ => destruct o as [[a b]| | |] eqn:Eb; cbn [obind] in H; try discriminate end;
      inversion H; subst st1 p;
      (destruct (build_schema_origin _ _ _ _ _ true HI Eb) as [H1 H2]; [left; reflexivity|]);
      (split; [exact H1|]; split; [reflexivity|]; cbn [p_schema shape_b]; rewrite Ec, H2; reflexivity).
  - destruct (negb (kind_eqb kk KString)); [discriminate|].
    destruct (x_vty (field_exts f)); cbn in H;
      match type of H with obind ?o _ = _ => destruct o as [[a b]| | |] eqn:Eb; cbn [obind] in H; try discriminate end;
      inversion H; subst st1 p;
      (destruct (build_schema_origin _ _ _ _ _ true HI Eb) as [H1 H2]; [left; reflexivity|]);
      (split; [exact H1|]; split; [reflexivity|]; cbn [p_schema shape_b]; rewrite Ec, H2; reflexivity).
Qed.
End LevelO.

(* ---------------------------------------------------------------- the loop over the fields *)
Section LoopO.
Variable rec : sset -> msgd -> outcome (sset * root).
Hypothesis HrecO : forall st m st1 r, In m (d_msgs D) -> InvO st -> rec st m = Ok (st1, r) -> InvO st1 /\ root_from m r = true.

Lemma member_from_intro m f p :
  In f (m_fields m) -> p_path p = [f_num f] -> shape_b (p_schema p) f false = true -> member_from_b m p = true.
Proof.
  intros Hf Hp Hs. unfold member_from_b. rewrite Hp. apply existsb_exists. exists f. split; [exact Hf|].
  rewrite N.eqb_refl, Hs. reflexivity.
Qed.
Lemma member_is_prop_from m p : member_from_b m p = true -> prop_from_b m p = true.
Proof.
  unfold prop_from_b, member_from_b. destruct (p_path p) as [|n [|n2 r]]; intros H; try discriminate; exact H.
Qed.

(* exposed records: the key is a real oneof of m, the pending property is the exposed-oneof
   property, the members so far come from fields of m *)
Definition ex_from (m : msgd) (e : exposed) : Prop :=
  exposed_key_b m (ex_key e) = true /\ p_path (ex_prop e) = [] /\
  p_schema (ex_prop e) = FOneof (ex_key e) None None None /\
  forallb (member_from_b m) (ex_props e) = true.

Lemma fields_loop_origin m fs : forall st exs st2 exs2 ps,
  (forall f, In f fs -> In f (m_fields m)) ->
  InvO st -> Forall (ex_from m) exs ->
  fields_loop D rec m st exs fs = Ok (st2, exs2, ps) ->
  InvO st2 /\ Forall (ex_from m) exs2 /\ forallb (prop_from_b m) ps = true.
Proof.
  induction fs as [|f r IH]; intros st exs st2 exs2 ps Hsub HI Hex H; cbn [fields_loop] in H.
  - inversion H; subst. split; [exact HI|]. split; [exact Hex|reflexivity].
  - destruct (build_field_prop D rec st f) as [[st1 p]| | |] eqn:Eb; cbn [obind] in H; try discriminate.
    destruct (build_field_prop_origin rec HrecO _ _ _ _ HI Eb) as (HI1 & Hp & Hs).
    assert (Hf : In f (m_fields m)) by (apply Hsub; left; reflexivity).
    assert (Hsub' : forall f0, In f0 r -> In f0 (m_fields m)) by (intros f0 H0; apply Hsub; right; exact H0).
    pose proof (member_from_intro m f p Hf Hp Hs) as Hmem.
    assert (Hdirect : obind (fields_loop D rec m st1 exs r) (fun '(st2, exs2, ps) => Ok (st2, exs2, p :: ps)) = Ok (st2, exs2, ps) ->
              InvO st2 /\ Forall (ex_from m) exs2 /\ forallb (prop_from_b m) ps = true).
    { intros H'. destruct (fields_loop D rec m st1 exs r) as [[[a b] c]| | |] eqn:E; cbn [obind] in H'; try discriminate.
      inversion H'; subst. destruct (IH _ _ _ _ _ Hsub' HI1 Hex E) as (I1 & I2 & I3).
      split; [exact I1|]. split; [exact I2|]. cbn [forallb]. rewrite (member_is_prop_from m p Hmem), I3. reflexivity. }
    destruct (f_card f); try (apply Hdirect; exact H);
      (destruct (f_oneof f) as [idx|]; [|apply Hdirect; exact H];
       destruct (oneof_is_synthetic m idx); [apply Hdirect; exact H|];
       destruct (add_to_exposed exs idx p) as [[exs1 pending]|] eqn:Ea; [|apply Hdirect; exact H]).
    all: destruct (add_to_exposed_split _ _ _ _ _ Ea) as (l1 & e & l2 & E1 & E2 & E3).
    all: assert (He : ex_from m e) by (subst exs; apply Forall_app in Hex as [_ Hb]; inversion Hb; assumption).
    all: assert (Hex1 : Forall (ex_from m) exs1)
        by (subst exs exs1; apply Forall_app in Hex as [Ha Hb]; inversion Hb as [|? ? He0 Hl2]; subst;
            apply Forall_app; split; [exact Ha|]; constructor; [|exact Hl2];
            destruct He0 as (W1 & W2 & W3 & W4); unfold ex_from, bump; cbn [ex_key ex_prop ex_props];
            split; [exact W1|]; split; [exact W2|]; split; [exact W3|];
            rewrite forallb_app, W4; cbn [forallb]; rewrite Hmem; reflexivity).
    all: destruct (fields_loop D rec m st1 exs1 r) as [[[a b] c]| | |] eqn:E; cbn [obind] in H; try discriminate.
    all: inversion H; subst a b ps; clear H.
    all: destruct (IH _ _ _ _ _ Hsub' HI1 Hex1 E) as (I1 & I2 & I3).
    all: split; [exact I1|]; split; [exact I2|].
    all: destruct pending as [pp|]; [|exact I3].
    all: assert (Hpp : pp = ex_prop e) by (destruct (ex_pending e); inversion E3; reflexivity); subst pp.
    all: destruct He as (W1 & W2 & W3 & _); cbn [forallb]; rewrite I3, andb_true_r.
    all: unfold prop_from_b; rewrite W2, W3; exact W1.
Qed.
End LoopO.

Lemma exposed_key_intro m name j x d :
  In (Oneof name j false x d) (m_oneofs m) -> exposed_key_b m (oneof_key m name) = true.
Proof.
  intros H. unfold exposed_key_b. apply existsb_exists. exists (Oneof name j false x d). split; [exact H|].
  cbn. apply ref_eqb_refl.
Qed.

Lemma origin_oneof m k n d ps :
  In m (d_msgs D) -> exposed_key_b m k = true -> forallb (member_from_b m) ps = true -> origin_b k (ROneof n d ps) = true.
Proof.
  intros Hm Hk Hps. unfold origin_b. apply orb_true_iff. left. apply orb_true_iff. right.
  apply existsb_exists. exists m. split; [exact Hm|]. rewrite Hk. cbn [root_is_oneof root_props andb]. exact Hps.
Qed.

Lemma register_oneofs_origin m : In m (d_msgs D) -> forall os idx st st1 exs,
  (forall o, In o os -> In o (m_oneofs m)) -> InvO st ->
  register_oneofs m st idx os = ROk (st1, exs) -> InvO st1 /\ Forall (ex_from m) exs.
Proof.
  intros Hm. induction os as [|[name jname syn ext0 d] r IH]; intros idx st st1 exs Hsub HI H; cbn [register_oneofs] in H.
  - inversion H; subst. split; [exact HI|constructor].
  - assert (Hr : forall o, In o r -> In o (m_oneofs m)) by (intros o Ho; apply Hsub; right; exact Ho).
    destruct syn; [eapply IH; eauto|].
    destruct ext0 as [[|]|]; try (eapply IH; eauto; fail).
    destruct (lookup st (oneof_key m name)); [discriminate|].
    assert (Hk : exposed_key_b m (oneof_key m name) = true) by (eapply exposed_key_intro; apply Hsub; left; reflexivity).
    destruct (register_oneofs m _ (N.succ idx) r) as [[st2 exs2]|] eqn:E; cbn [rbind] in H; [|discriminate].
    inversion H; subst st1 exs.
    assert (HI1 : InvO ((oneof_key m name, Linked (ROneof (snd (oneof_key m name)) d [])) :: st)).
    { apply InvO_cons; [exact HI|]. intros r0 Hr0. inversion Hr0; subst r0. apply (origin_oneof m); [exact Hm|exact Hk|reflexivity]. }
    destruct (IH _ _ _ _ Hr HI1 E) as [I1 I2].
    split; [exact I1|]. constructor; [|exact I2].
    unfold ex_from. cbn [ex_key ex_prop ex_props p_path p_schema forallb].
    split; [exact Hk|]. split; [reflexivity|]. split; reflexivity.
Qed.

Lemma finish_oneofs_origin m : In m (d_msgs D) -> forall exs st,
  Forall (ex_from m) exs -> InvO st -> InvO (finish_oneofs st exs).
Proof.
  intros Hm. unfold finish_oneofs. induction exs as [|e r IH]; intros st Hex HI; cbn [fold_left]; [exact HI|].
  inversion Hex as [|? ? He Hex']; subst.
  destruct (lookup st (ex_key e)) as [[|[| nm dd ps|]]|] eqn:El; try (apply IH; assumption).
  apply IH; [exact Hex'|]. apply InvO_update; [exact HI|].
  destruct He as (W1 & _ & _ & W4). apply (origin_oneof m); assumption.
Qed.

Section BuildO.
Variable rec : sset -> msgd -> outcome (sset * root).
Hypothesis HrecO : forall st m st1 r, In m (d_msgs D) -> InvO st -> rec st m = Ok (st1, r) -> InvO st1 /\ root_from m r = true.

Lemma message_properties_origin st m st1 ps :
  In m (d_msgs D) -> InvO st -> message_properties D rec st m = Ok (st1, ps) ->
  InvO st1 /\ forallb (prop_from_b m) ps = true.
Proof.
  intros Hm HI H. unfold message_properties in H.
  destruct (register_oneofs m st 0 (m_oneofs m)) as [[sta exs]|cls] eqn:Ereg; cbn [lift obind] in H; [|discriminate].
  destruct (register_oneofs_origin m Hm _ _ _ _ _ (fun o Ho => Ho) HI Ereg) as [HIa Hexa].
  destruct (fields_loop D rec m sta exs (m_fields m)) as [[[stb exs2] ps2]| | |] eqn:Ef; cbn [obind] in H; try discriminate.
  destruct (fields_loop_origin rec HrecO m _ _ _ _ _ _ (fun f Hf => Hf) HIa Hexa Ef) as (HIb & Hexb & Hps).
  destruct (existsb ex_pending exs2); [discriminate|]. destruct (negb (exs_names_ok exs2)); [discriminate|]. inversion H; subst st1 ps.
  split; [apply (finish_oneofs_origin m); assumption|exact Hps].
Qed.

Lemma build_root_origin st m st1 r :
  In m (d_msgs D) -> InvO st -> build_root D rec st m = Ok (st1, r) -> InvO st1 /\ root_from m r = true.
Proof.
  intros Hm HI H. unfold build_root in H.
  destruct (message_properties D rec st m) as [[sta ps]| | |] eqn:Em; cbn [obind] in H; try discriminate.
  destruct (message_properties_origin _ _ _ _ Hm HI Em) as [HIa Hps].
  destruct (negb (props_valid ps)); [discriminate|].
  destruct (is_oneof_wrapper m) eqn:Ew.
  - inversion H; subst st1 r. split; [exact HIa|]. unfold root_from. cbn [root_is_enum root_is_oneof root_props negb].
    rewrite Ew, Hps. reflexivity.
  - destruct (flatten_cycle sta (msg_key m) ps) as [[|]|]; try discriminate.
    destruct (find_psm D m) as [ent|cls]; cbn [lift obind] in H; [|discriminate].
    inversion H; subst st1 r. split; [exact HIa|]. unfold root_from. cbn [root_is_enum root_is_oneof root_props negb].
    rewrite Ew, Hps. reflexivity.
Qed.
End BuildO.

Lemma build_msg_origin : forall fuel st m st1 r,
  In m (d_msgs D) -> InvO st -> build_msg D fuel st m = Ok (st1, r) -> InvO st1 /\ root_from m r = true.
Proof.
  induction fuel as [|fuel IH]; intros st m st1 r Hm HI H; [discriminate|].
  cbn [build_msg] in H. eapply build_root_origin; [|exact Hm|exact HI|exact H].
  intros st' m' st1' r' Hm' HI' H'. eapply IH; eauto.
Qed.

Lemma message_schema_origin fuel st m st1 r :
  In m (d_msgs D) -> InvO st -> message_schema D fuel st m = Ok (st1, r) -> InvO st1.
Proof.
  intros Hm HI H. unfold message_schema in H.
  destruct (lookup st (msg_key m)) as [[|r0]|] eqn:El; try discriminate.
  - inversion H; subst. exact HI.
  - destruct (build_msg D fuel ((msg_key m, Placeholder) :: st) m) as [[st2 r2]| | |] eqn:Eb; cbn [obind] in H; try discriminate.
    inversion H; subst st1 r.
    destruct (build_msg_origin fuel _ m st2 r2 Hm (InvO_cons st (msg_key m) Placeholder HI ltac:(intros r0 Hr0; discriminate)) Eb) as [HI2 Hr].
    apply InvO_update; [exact HI2|apply origin_msg; assumption].
Qed.

Lemma messages_loop_origin fuel : forall ms st st1, InvO st -> messages_loop D fuel st ms = Ok st1 -> InvO st1.
Proof.
  induction ms as [|full r IH]; intros st st1 HI H; cbn [messages_loop] in H; [inversion H; subst; exact HI|].
  destruct (find_msg D full) as [m|] eqn:Ef; [|discriminate].
  assert (Hm : In m (d_msgs D)) by (eapply find_msg_In; eauto).
  destruct (message_schema D fuel st m) as [[st2 r2]| | |] eqn:Em; cbn [obind] in H; try discriminate.
  eapply IH; [|exact H]. eapply message_schema_origin; eauto.
Qed.

Lemma enums_loop_origin : forall es st st1, InvO st -> enums_loop D st es = Ok st1 -> InvO st1.
Proof.
  induction es as [|full r IH]; intros st st1 HI H; cbn [enums_loop] in H; [inversion H; subst; exact HI|].
  destruct (find_enum D full) as [e|] eqn:Ef; [|discriminate].
  assert (He : In e (d_enums D)) by (eapply find_enum_In; eauto).
  destruct (lookup st (enum_key e)); [eapply IH; eauto|].
  destruct (build_enum e) as [root| | |] eqn:Eb; cbn [obind] in H; try discriminate.
  eapply IH; [|exact H]. apply InvO_cons; [exact HI|]. intros r0 Hr0. inversion Hr0; subst r0.
  apply origin_enum; [exact He|]. eapply build_enum_is_enum; eauto.
Qed.

Theorem reflect_origin fs S : reflect D fs = Ok S -> InvO S.
Proof.
  unfold reflect, reflect_files. destruct (collect fs) as [ms es]. intros H.
  destruct (messages_loop D (size D) [] ms) as [st| | |] eqn:Em; cbn [obind] in H; try discriminate.
  eapply enums_loop_origin; [|exact H]. eapply messages_loop_origin; [apply InvO_nil|exact Em].
Qed.
End Origin.

(* ---------------------------------------------------------------- from origins to resolved paths *)
Lemma NoDup_map_inj {A B} (f : A -> B) l a b :
  NoDup (map f l) -> In a l -> In b l -> f a = f b -> a = b.
Proof.
  induction l as [|x r IH]; intros Hnd Ha Hb Hf; [destruct Ha|].
  cbn [map] in Hnd. inversion Hnd as [|? ? Hn Hr]; subst.
  destruct Ha as [->|Ha], Hb as [->|Hb]; try reflexivity.
  - exfalso. apply Hn. rewrite Hf. apply in_map. exact Hb.
  - exfalso. apply Hn. rewrite <- Hf. apply in_map. exact Ha.
  - apply IH; assumption.
Qed.
Lemma NoDup_flat_map_inj {A B} (g : A -> list B) l a b x :
  NoDup (flat_map g l) -> In a l -> In b l -> In x (g a) -> In x (g b) -> a = b.
Proof.
  induction l as [|y r IH]; intros Hnd Ha Hb Hxa Hxb; [destruct Ha|].
  cbn [flat_map] in Hnd.
  destruct Ha as [->|Ha], Hb as [->|Hb]; try reflexivity.
  - exfalso. eapply NoDup_app_notin; [exact Hnd|exact Hxa|]. apply in_flat_map. exists b. split; assumption.
  - exfalso. eapply NoDup_app_notin; [exact Hnd|exact Hxb|]. apply in_flat_map. exists a. split; assumption.
  - apply IH; try assumption. eapply NoDup_app_r; eauto.
Qed.

Section Final.
Variable D : desc.
Hypothesis Hwf : wf_keys D.
Hypothesis Hnum : forall m, In m (d_msgs D) -> NoDup (map f_num (m_fields m)).

Lemma keys_nodup : NoDup (all_keys D).
Proof. exact (proj2 Hwf). Qed.

Lemma exposed_key_in m k : exposed_key_b m k = true -> In k (real_oneof_keys m).
Proof.
  unfold exposed_key_b. intros H. apply existsb_exists in H as ([name j syn x d] & Ho & Hc).
  apply andb_prop in Hc as [Hs Hk]. apply negb_true_iff in Hs. subst syn. apply ref_eqb_eq in Hk. subst k.
  eapply real_oneof_key_in; eauto.
Qed.

Lemma K1 m1 m2 : In m1 (d_msgs D) -> In m2 (d_msgs D) -> msg_key m1 = msg_key m2 -> m1 = m2.
Proof. intros H1 H2 He. eapply NoDup_map_inj; [eapply NoDup_app_l; apply keys_nodup| | |]; eauto. Qed.
Lemma K2 m m' : In m (d_msgs D) -> In m' (d_msgs D) -> exposed_key_b m' (msg_key m) = true -> False.
Proof.
  intros Hm Hm' Hk. pose proof keys_nodup as Hnd. unfold all_keys in Hnd.
  eapply (NoDup_app_notin _ _ (msg_key m) Hnd); [apply in_map; exact Hm|].
  apply in_or_app. right. apply in_flat_map. exists m'. split; [exact Hm'|apply exposed_key_in; exact Hk].
Qed.
Lemma K3 m e : In m (d_msgs D) -> In e (d_enums D) -> enum_key e = msg_key m -> False.
Proof.
  intros Hm He Heq. pose proof keys_nodup as Hnd. unfold all_keys in Hnd.
  eapply (NoDup_app_notin _ _ (msg_key m) Hnd); [apply in_map; exact Hm|].
  apply in_or_app. left. rewrite <- Heq. apply in_map. exact He.
Qed.
Lemma K4 m' m'' k : In m' (d_msgs D) -> In m'' (d_msgs D) -> exposed_key_b m' k = true -> exposed_key_b m'' k = true -> m' = m''.
Proof.
  intros H1 H2 E1 E2. pose proof keys_nodup as Hnd. unfold all_keys in Hnd.
  apply NoDup_app_r in Hnd. apply NoDup_app_r in Hnd.
  eapply NoDup_flat_map_inj; [exact Hnd| | | |]; eauto using exposed_key_in.
Qed.
Lemma K5 e m' : In e (d_enums D) -> In m' (d_msgs D) -> exposed_key_b m' (enum_key e) = true -> False.
Proof.
  intros He Hm' Hk. pose proof keys_nodup as Hnd. unfold all_keys in Hnd. apply NoDup_app_r in Hnd.
  eapply (NoDup_app_notin _ _ (enum_key e) Hnd); [apply in_map; exact He|].
  apply in_flat_map. exists m'. split; [exact Hm'|apply exposed_key_in; exact Hk].
Qed.

Variable S : sset.
Hypothesis HO : InvO D S.
Hypothesis HI : Inv D S.
Hypothesis Hclosed : forall k r, lookup S k = Some (Linked r) ->
  forall k2, In k2 (root_refs r) -> exists r2, lookup S k2 = Some (Linked r2).

(* the entry under a message's key is an object or a oneof according to isOneofWrapper *)
Lemma msg_entry_kind m r : In m (d_msgs D) -> lookup S (msg_key m) = Some (Linked r) ->
  root_is_enum r = false /\ root_is_oneof r = is_oneof_wrapper m.
Proof.
  intros Hm Hl. pose proof (HO _ _ Hl) as Ho. unfold origin_b in Ho.
  apply orb_true_iff in Ho as [Ho|Ho]; [apply orb_true_iff in Ho as [Ho|Ho]|].
  - apply existsb_exists in Ho as (m' & Hm' & Hc).
    apply andb_prop in Hc as [Hc _]. apply andb_prop in Hc as [Hc H3]. apply andb_prop in Hc as [H1 H2].
    apply ref_eqb_eq in H1. assert (m' = m) by (apply K1; assumption). subst m'.
    apply negb_true_iff in H2. apply eqb_prop in H3. exact (conj H2 H3).
  - apply existsb_exists in Ho as (m' & Hm' & Hc). apply andb_prop in Hc as [Hc _]. apply andb_prop in Hc as [H1 _].
    exfalso. exact (K2 m m' Hm Hm' H1).
  - apply existsb_exists in Ho as (e & He & Hc). apply andb_prop in Hc as [H1 _]. apply ref_eqb_eq in H1.
    exfalso. exact (K3 m e Hm He H1).
Qed.

Lemma shape_final s : forall f item,
  shape_b D s f item = true ->
  (forall k, In k (field_refs s) -> exists r, lookup S k = Some (Linked r)) ->
  field_matches S s f item = true.
Proof.
  induction s as [kw p|od ts lr|r rules lr ext|r fl rules ext|r rules lr ext|it IH rules ext|it IH rules ext];
    intros f item Hs Hrefs; cbn [shape_b field_matches field_refs] in *; try exact Hs.
  - (* enum *)
    apply andb_prop in Hs as [Hc Hs]. apply andb_prop in Hs as [Hk Hs]. rewrite Hc, Hk. cbn [andb].
    destruct (find_enum D (value_full f)) as [e|] eqn:Ef; [|discriminate]. apply ref_eqb_eq in Hs. subst r.
    assert (He : In e (d_enums D)) by (eapply find_enum_In; eauto).
    destruct (Hrefs (enum_key e) (or_introl eq_refl)) as (r' & Hl).
    pose proof (HI e He) as Hen. unfold enum_entry_ok in Hen. rewrite Hl in *. destruct r'; try contradiction. reflexivity.
  - (* object *)
    apply andb_prop in Hs as [Hc Hs]. apply andb_prop in Hs as [Hk Hs]. apply andb_prop in Hk as [Hk _]. rewrite Hc, Hk. cbn [andb].
    destruct (find_msg D (value_full f)) as [m2|] eqn:Ef; [|discriminate].
    apply andb_prop in Hs as [H1 H2]. apply ref_eqb_eq in H1. subst r. apply negb_true_iff in H2.
    assert (Hm : In m2 (d_msgs D)) by (eapply find_msg_In; eauto).
    destruct (Hrefs (msg_key m2) (or_introl eq_refl)) as (r' & Hl). rewrite Hl.
    destruct (msg_entry_kind m2 r' Hm Hl) as [E1 E2]. rewrite H2 in E2. destruct r'; try discriminate; reflexivity.
  - (* oneof *)
    apply andb_prop in Hs as [Hc Hs]. apply andb_prop in Hs as [Hk Hs]. apply andb_prop in Hk as [Hk _]. rewrite Hc, Hk. cbn [andb].
    destruct (find_msg D (value_full f)) as [m2|] eqn:Ef; [|discriminate].
    apply andb_prop in Hs as [H1 H2]. apply ref_eqb_eq in H1. subst r.
    assert (Hm : In m2 (d_msgs D)) by (eapply find_msg_In; eauto).
    destruct (Hrefs (msg_key m2) (or_introl eq_refl)) as (r' & Hl). rewrite Hl.
    destruct (msg_entry_kind m2 r' Hm Hl) as [E1 E2]. rewrite H2 in E2. destruct r'; try discriminate; reflexivity.
  - (* map *)
    destruct item; [exact Hs|]. destruct (f_card f); try exact Hs. apply IH; assumption.
  - (* array *)
    apply andb_prop in Hs as [Hc Hs]. rewrite Hc. cbn [andb]. apply IH; assumption.
Qed.

Lemma field_by_number_unique m f : In m (d_msgs D) -> In f (m_fields m) -> field_by_number m (f_num f) = Some f.
Proof.
  intros Hm Hf. pose proof (Hnum m Hm) as Hnd. unfold field_by_number.
  induction (m_fields m) as [|g r IH]; [destruct Hf|]. cbn [find map] in *. inversion Hnd as [|? ? Hn Hr]; subst.
  destruct Hf as [->|Hf]; [rewrite N.eqb_refl; reflexivity|].
  destruct (N.eqb (f_num g) (f_num f)) eqn:E; [|apply IH; assumption].
  apply N.eqb_eq in E. exfalso. apply Hn. rewrite E. apply in_map. exact Hf.
Qed.

(* a member property (path [n]) resolves *)
Lemma member_resolves m p :
  In m (d_msgs D) -> member_from_b D m p = true ->
  (forall k, In k (field_refs (p_schema p)) -> exists r, lookup S k = Some (Linked r)) ->
  match p_path p with
  | [] => False
  | path => match walk_path D (length path) m path with
            | Some f => field_matches S (p_schema p) f false = true
            | None => False
            end
  end.
Proof.
  intros Hm Hmem Hrefs. unfold member_from_b in Hmem.
  destruct (p_path p) as [|n [|n2 rest]]; try discriminate.
  apply existsb_exists in Hmem as (f & Hf & Hc). apply andb_prop in Hc as [Hn Hs]. apply N.eqb_eq in Hn. subst n.
  cbn [length walk_path]. rewrite (field_by_number_unique m f Hm Hf). apply shape_final; assumption.
Qed.

Hypothesis Hnames : forall k r, lookup S k = Some (Linked r) -> names_unique_b (root_props r) = true.

Lemma refs_of_prop_in ps p : In p ps -> forall k, In k (field_refs (p_schema p)) -> In k (flat_map (fun q => field_refs (p_schema q)) ps).
Proof. intros Hp k Hk. apply in_flat_map. exists p. split; assumption. Qed.

Lemma props_resolve_members m ps :
  In m (d_msgs D) -> forallb (member_from_b D m) ps = true ->
  (forall k, In k (flat_map (fun q => field_refs (p_schema q)) ps) -> exists r, lookup S k = Some (Linked r)) ->
  forallb (fun q => match p_path q with
                    | [] => false
                    | path => match walk_path D (length path) m path with
                              | Some f => field_matches S (p_schema q) f false
                              | None => false
                              end
                    end) ps = true.
Proof.
  intros Hm Hall Hrefs. apply forallb_forall. intros q Hq.
  pose proof (proj1 (forallb_forall _ _) Hall q Hq) as Hmem.
  pose proof (member_resolves m q Hm Hmem (fun k Hk => Hrefs k (refs_of_prop_in ps q Hq k Hk))) as H.
  destruct (p_path q) as [|n rest]; [contradiction|]. cbv zeta in H |- *.
  destruct (walk_path D (length (n :: rest)) m (n :: rest)); [exact H|contradiction].
Qed.

Lemma prop_resolves_from m p :
  In m (d_msgs D) -> prop_from_b D m p = true ->
  (forall k, In k (field_refs (p_schema p)) -> exists r, lookup S k = Some (Linked r)) ->
  prop_resolves D S m p = true.
Proof.
  intros Hm Hfrom Hrefs. unfold prop_resolves, prop_from_b in *.
  destruct (p_path p) as [|n rest] eqn:Ep.
  - destruct (p_schema p) as [| | | |k' [|] [|] [|]| |] eqn:Es; try discriminate.
    destruct (Hrefs k' (or_introl eq_refl)) as (r' & Hl). rewrite Hl.
    pose proof (HO _ _ Hl) as Ho. unfold origin_b in Ho.
    apply orb_true_iff in Ho as [Ho|Ho]; [apply orb_true_iff in Ho as [Ho|Ho]|].
    + apply existsb_exists in Ho as (m1 & Hm1 & Hc).
      apply andb_prop in Hc as [Hc _]. apply andb_prop in Hc as [Hc _]. apply andb_prop in Hc as [H1 _].
      apply ref_eqb_eq in H1. subst k'. exfalso. exact (K2 m1 m Hm1 Hm Hfrom).
    + apply existsb_exists in Ho as (m2 & Hm2 & Hc).
      apply andb_prop in Hc as [Hc H3]. apply andb_prop in Hc as [H1 H2].
      assert (m2 = m) by (eapply K4; eauto). subst m2.
      destruct r' as [| nn dd ops|]; try discriminate. cbn [root_props] in H3.
      pose proof (Hnames _ _ Hl) as Hn. cbn [root_props] in Hn. rewrite Hn. cbn [andb].
      apply props_resolve_members; [exact Hm|exact H3|].
      intros k Hk. apply (Hclosed _ _ Hl). exact Hk.
    + apply existsb_exists in Ho as (e & He & Hc). apply andb_prop in Hc as [H1 _]. apply ref_eqb_eq in H1. subst k'.
      exfalso. exact (K5 e m He Hm Hfrom).
  - pose proof (member_resolves m p Hm Hfrom Hrefs) as H. rewrite Ep in H. cbv zeta in H |- *.
    destruct (walk_path D (length (n :: rest)) m (n :: rest)); [exact H|contradiction].
Qed.

Lemma props_resolve_from m ps k r :
  In m (d_msgs D) -> lookup S k = Some (Linked r) -> root_props r = ps ->
  forallb (prop_from_b D m) ps = true -> props_resolve D S m ps = true.
Proof.
  intros Hm Hl Hp Hall. unfold props_resolve. apply forallb_forall. intros p Hpin.
  apply prop_resolves_from; [exact Hm|exact (proj1 (forallb_forall _ _) Hall p Hpin)|].
  intros k2 Hk2. apply (Hclosed _ _ Hl). unfold root_refs. rewrite Hp. eapply refs_of_prop_in; eauto.
Qed.

Lemma member_props_resolve m ps k r :
  In m (d_msgs D) -> lookup S k = Some (Linked r) -> root_props r = ps ->
  forallb (member_from_b D m) ps = true -> props_resolve D S m ps = true.
Proof.
  intros Hm Hl Hp Hall. eapply props_resolve_from; eauto.
  apply forallb_forall. intros p Hpin. apply member_is_prop_from. exact (proj1 (forallb_forall _ _) Hall p Hpin).
Qed.

Lemma entry_consistent_of k r : lookup S k = Some (Linked r) -> entry_consistent D S k (Linked r) = true.
Proof.
  intros Hl. pose proof (HO _ _ Hl) as Ho. pose proof (Hnames _ _ Hl) as Hn. unfold origin_b in Ho.
  unfold entry_consistent.
  apply orb_true_iff in Ho as [Ho|Ho]; [apply orb_true_iff in Ho as [Ho|Ho]|].
  - apply existsb_exists in Ho as (m & Hm & Hc).
    apply andb_prop in Hc as [Hc H4]. apply andb_prop in Hc as [Hc H3]. apply andb_prop in Hc as [H1 H2].
    assert (Hin : In m (msgs_of_key D k)) by (unfold msgs_of_key; apply filter_In; split; assumption).
    destruct r as [n d e a ps|n d ps|n d p o i]; cbn [root_props root_is_enum negb] in *; try discriminate.
    + rewrite Hn. cbn [andb]. apply existsb_exists. exists m. split; [exact Hin|].
      eapply props_resolve_from; eauto.
    + rewrite Hn. cbn [andb]. apply existsb_exists. exists m. split; [apply in_or_app; left; exact Hin|].
      eapply props_resolve_from; eauto.
  - apply existsb_exists in Ho as (m & Hm & Hc).
    apply andb_prop in Hc as [Hc H3]. apply andb_prop in Hc as [H1 H2].
    destruct r as [n d e a ps|n d ps|n d p o i]; cbn [root_props root_is_oneof] in *; try discriminate.
    rewrite Hn. cbn [andb]. apply existsb_exists. exists m. split.
    + apply in_or_app. right. unfold oneof_parents_of_key. apply filter_In. split; [exact Hm|].
      unfold exposed_key_b in H1. apply existsb_exists in H1 as ([name j syn x dd] & Hoo & Hcc).
      apply existsb_exists. exists (Oneof name j syn x dd). split; [exact Hoo|].
      apply andb_prop in Hcc as [Hs Hk]. rewrite Hs. cbn [andb]. rewrite ref_eqb_sym. exact Hk.
    + eapply member_props_resolve; eauto.
  - apply existsb_exists in Ho as (e & He & Hc). apply andb_prop in Hc as [_ H2].
    destruct r; cbn [root_is_enum] in H2; try discriminate. reflexivity.
Qed.
End Final.

(* split names distinct, enums non-empty, field numbers distinct per message (protodesc guarantees the
   numbers). Nothing about JSON names any more: the reader checks the property names itself (07ed85e). *)
Definition wf_paths (D : desc) : Prop :=
  wf_keys D /\ forall m, In m (d_msgs D) -> NoDup (map f_num (m_fields m)).

(* C18 clause 2 for every well-formed descriptor set: after a successful reflection every entry of
   the set has pairwise distinct property names and every recorded proto field path resolves, in
   the message the schema describes, to a field of the matching kind *)
Theorem reflect_consistent D fs S : wf_paths D -> reflect D fs = Ok S -> set_consistent D S = true.
Proof.
  intros [Hwk Hnum] HS.
  destruct (reflect_ok_guarantees D Hwk fs S HS) as (_ & _ & Hcl & Hnames & Hnp).
  pose proof (reflect_final D Hwk fs) as Hfin. rewrite HS in Hfin. destruct Hfin as [(HI & _ & Hnd) _].
  pose proof (reflect_origin D fs S HS) as HO.
  assert (Hclosed : forall k r, lookup S k = Some (Linked r) ->
            forall k2, In k2 (root_refs r) -> exists r2, lookup S k2 = Some (Linked r2)).
  { intros k r Hl k2 Hk2. unfold set_closed, refs_resolved in Hcl.
    pose proof (proj1 (forallb_forall _ _) Hcl (k, Linked r) (lookup_Some_In S k _ Hl)) as H. cbn [snd] in H.
    pose proof (proj1 (forallb_forall _ _) H k2 Hk2) as H2. cbn beta in H2.
    destruct (lookup S k2) as [[|r2]|]; try discriminate. eauto. }
  unfold set_consistent. apply forallb_forall. intros [k e] Hin. cbn [fst snd].
  pose proof (lookup_In S Hnd k e Hin) as Hl. destruct e as [|r]; [exfalso; apply (Hnp k Hl)|].
  apply (entry_consistent_of D Hwk Hnum S HO HI Hclosed Hnames k r Hl).
Qed.

(* a decision procedure for wf_paths *)
Fixpoint nodup_N (l : list N) : bool :=
  match l with
  | [] => true
  | x :: r => negb (existsb (N.eqb x) r) && nodup_N r
  end.
Lemma nodup_N_NoDup l : nodup_N l = true -> NoDup l.
Proof.
  induction l as [|x r IH]; cbn [nodup_N]; intros H; [constructor|].
  apply andb_prop in H as [H1 H2]. apply negb_true_iff in H1. constructor; [|apply IH; exact H2].
  intros Hin. assert (existsb (N.eqb x) r = true) by (apply existsb_exists; exists x; split; [exact Hin|apply N.eqb_refl]).
  congruence.
Qed.
Definition wf_paths_b (D : desc) : bool :=
  wf_desc_b D && forallb (fun m => nodup_N (map f_num (m_fields m))) (d_msgs D).
Lemma wf_paths_b_sound D : wf_paths_b D = true -> wf_paths D.
Proof.
  unfold wf_paths_b. intros H. apply andb_prop in H as [H1 H2]. split; [exact (proj1 (wf_desc_b_sound D H1))|].
  intros m Hm. apply nodup_N_NoDup. exact (proj1 (forallb_forall _ _) H2 m Hm).
Qed.

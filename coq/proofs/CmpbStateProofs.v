(* CmpbStateProofs.v — process-level state on the compile / print path (C14: "independent of what else was
   compiled earlier in the same process").  gen/StateGen.v lists every package-level variable of the
   compile-path packages that can hold mutable state (map, slice, chan, pointer, struct, interface, array,
   sync types) with whether a function of its package writes through it.  Obligations, recomputed on every run:
     - every listed variable is reviewed here and every reviewed variable still exists;
     - NO variable is written outside an `init` function: there is no state a compilation could leave
       behind for a later one in the same process.  A new process-wide cache (a package-level map or
       sync.Map that is stored into during a compilation) makes [no_runtime_process_state] false.
   What this does not see: state behind a pointer reached from a package-level variable of ANOTHER package
   (protobuf's global registries, the standard library), goroutines, files. *)
From Coq Require Import String List Bool.
From J5V.gen Require StateGen.
Import ListNotations.
Local Open Scope string_scope.

Definition skey := (string * string * string)%type.      (* package, file, variable *)
Definition skey_eqb (a b : skey) : bool :=
  match a, b with (a1, a2, a3), (b1, b2, b3) => String.eqb a1 b1 && String.eqb a2 b2 && String.eqb a3 b3 end.

Definition reviewed_state : list (skey * string) :=
  [ (("j5convert", "convert.go", "reVersion"), "compiled regular expression, only matched against");
    (("j5convert", "imports.go", "implicitImports"), "literal table of the implicit imports, only read");
    (("j5parse", "schema.go", "J5SchemaSpec"), "literal BCL schema spec handed to bcl.NewParser, only read");
    (("parser", "errors.go", "HadErrors"), "sentinel error value");
    (("parser", "fmt.go", "stringEscaper"), "strings.Replacer, only used");
    (("parser", "token.go", "keywords"), "token table filled by init() from the tokens array");
    (("parser", "token.go", "operators"), "token table filled by init() from the tokens array");
    (("parser", "token.go", "tokens"), "literal token name array, only read");
    (("protobuild", "parse_proto.go", "ErrNotFound"), "sentinel error value");
    (("protoprint", "options.go", "maxExtDepth"), "literal table, only read");
    (("protoprint", "protoprint.go", "statementKeywords"), "literal table, only read");
    (("walker", "c2.go", "ErrUnexpectedQualifier"), "sentinel error value");
    (("walker", "c2.go", "ErrUnexpectedTag"), "sentinel error value") ].

Definition var_key (v : string * string * string * string * string * string * bool) : skey :=
  match v with (p, f, n, _, _, _, _) => (p, f, n) end.
Definition var_written (v : string * string * string * string * string * string * bool) : bool :=
  match v with (_, _, _, _, _, _, w) => w end.

Definition skeys_subset (a b : list skey) : bool := forallb (fun k => existsb (skey_eqb k) b) a.
Definition state_vars_same_set : bool :=
  skeys_subset (map var_key StateGen.vars) (map fst reviewed_state)
  && skeys_subset (map fst reviewed_state) (map var_key StateGen.vars).

(* "assign in init" is the only admissible kind of write *)
Definition init_write (w : string) : bool := String.eqb w "assign in init".
Definition writes_of (p n : string) : list string :=
  match find (fun r => match r with (p', n', _) => String.eqb p p' && String.eqb n n' end) StateGen.writes with
  | Some (_, _, ws) => ws
  | None => []
  end.
Definition var_quiet (v : string * string * string * string * string * string * bool) : bool :=
  match v with (p, _, n, _, _, _, w) =>
    negb w || (negb (match writes_of p n with [] => true | _ => false end) && forallb init_write (writes_of p n))
  end.
Definition no_runtime_process_state : bool := forallb var_quiet StateGen.vars.

Lemma state_vars_agree : state_vars_same_set = true.
Proof. vm_compute. reflexivity. Qed.
Lemma no_runtime_process_state_holds : no_runtime_process_state = true.
Proof. vm_compute. reflexivity. Qed.

(* ---- instance-level state: caches do not live in package-level variables only.  StateGen.fields lists every field of a
   struct type of the compile-path packages that is a map, a channel or a sync primitive; each is reviewed here, and the
   review is compared with the regenerated list as a SET: a new map field (a cache added to the PackageSet, to a resolver,
   to the parser ...) breaks [state_fields_agree] until it is classified, i.e. modelled or argued to be a memo.
     FCache    state that survives a CompilePackage call inside the PackageSet and IS a parameter of the model
     FMemo     survives calls, not a parameter: memoises a function of inputs that do not change during the life of the set
     FValue    a component of a value that is built once (per file / per package / per message) and then only read; it
               reaches later calls only inside an FCache value
     FLock     a mutex *)
Inductive field_class := FCache (model : string) | FMemo (of_what : string) | FValue (of_what : string) | FLock.
Definition fkey := (string * string * string)%type.      (* package, struct type, field *)
Definition reviewed_fields : list (fkey * field_class) :=
  [ (("j5convert", "EnumRef", "ValMap"), FValue "enum value numbers inside a TypeRef of a file summary");
    (("j5convert", "FileSummary", "DependencyPositions"), FValue "per-file summary (positions of dependency references, for error messages)");
    (("j5convert", "FileSummary", "Exports"), FValue "per-file summary: model srcfile.f_exports; ranged in includeIO / checkDuplicateExports (census rows)");
    (("j5convert", "PackageSummary", "Exports"), FValue "summary of a dependency package");
    (("j5convert", "importMap", "vals"), FValue "imports of one file during SourceSummary (census row: warn_unused)");
    (("protobuild", "Package", "DirectDependencies"), FValue "of a loaded package: model pkg.p_deps");
    (("protobuild", "Package", "Exports"), FValue "of a loaded package: model pkg.p_exports");
    (("protobuild", "Package", "Files"), FValue "of a loaded package: model pkg.p_files; the SearchResult.Linked inside is the model's link cache lc");
    (("protobuild", "PackageSet", "Packages"), FCache "the package cache pc of load / compile_and_link / compile_link_seq");
    (("protobuild", "dependencyResolver", "resultCache"), FMemo "findFileByPath over the dependency set and the built-in files (model: ext_file, a function)");
    (("protobuild", "sourceResolver", "localPackageNames"), FValue "built once from ListPackages in newSourceResolver: model flat_bundle (a package is local iff listed)");
    (("optionreflect", "Builder", "exts"), FValue "extension table of one printer Builder, built in its constructor, only read");
    (("walker/schema", "BlockSpec", "Aliases"), FValue "of one block spec (census rows: add_absent)");
    (("walker/schema", "SchemaSet", "cachedSpecs"), FMemo "_buildSpec of a schema name: a function of the j5s reflection schema and the given specs, both fixed for the parser's life; NOT a parameter of the model (the front end is upstream of cmpa's AST)");
    (("walker/schema", "SchemaSet", "givenSpecs"), FValue "the literal spec table handed to the parser's constructor, only read");
    (("j5reflect", "leafArrayField", "lock"), FLock);
    (("j5reflect", "mutableArrayField", "lock"), FLock);
    (("j5reflect", "propSet", "asMap"), FValue "properties of one reflected message by JSON name, built in its constructor") ].
Definition fkey_eqb (a b : fkey) : bool :=
  match a, b with (a1, a2, a3), (b1, b2, b3) => String.eqb a1 b1 && String.eqb a2 b2 && String.eqb a3 b3 end.
Definition field_key (f : string * string * string * string) : fkey := match f with (p, t, n, _) => (p, t, n) end.
Definition fkeys_subset (a b : list fkey) : bool := forallb (fun k => existsb (fkey_eqb k) b) a.
Definition state_fields_same_set : bool :=
  fkeys_subset (map field_key StateGen.fields) (map fst reviewed_fields)
  && fkeys_subset (map fst reviewed_fields) (map field_key StateGen.fields).
Lemma state_fields_agree : state_fields_same_set = true.
Proof. vm_compute. reflexivity. Qed.
(* exactly one field is a cache that the model must (and does) thread through calls; the memos are named *)
Definition caches_and_memos : list fkey :=
  map fst (filter (fun r => match snd r with FCache _ | FMemo _ => true | _ => false end) reviewed_fields).
Lemma caches_and_memos_are : caches_and_memos =
  [("protobuild", "PackageSet", "Packages"); ("protobuild", "dependencyResolver", "resultCache"); ("walker/schema", "SchemaSet", "cachedSpecs")].
Proof. vm_compute. reflexivity. Qed.

(* CmpbStateProofs.v — process-level state on the compile / print path (C14: "independent of what else was
   compiled earlier in the same process").  gen/StateGen.v lists every package-level variable of the
   compile-path packages that can hold mutable state (map, slice, chan, pointer, struct, interface, array,
   sync types) with whether a function of its package writes through it.  Obligations, recomputed on every run:
     - every listed variable is reviewed here and every reviewed variable still exists;
     - NO variable is written outside an `init` function: there is no state a compilation could leave
       behind for a later one in the same process.  A new process-wide cache (a package-level map or
       sync.Map that is stored into during a compilation) makes [no_runtime_process_state] false.
   What this does not see: state behind a pointer reached from a package-level variable of ANOTHER package
   (protobuf's global registries, the standard library), goroutines, files. *)
From Coq Require Import String List Bool.
From J5V.gen Require StateGen.
Import ListNotations.
Local Open Scope string_scope.

Definition skey := (string * string * string)%type.      (* package, file, variable *)
Definition skey_eqb (a b : skey) : bool :=
  match a, b with (a1, a2, a3), (b1, b2, b3) => String.eqb a1 b1 && String.eqb a2 b2 && String.eqb a3 b3 end.

Definition reviewed_state : list (skey * string) :=
  [ (("j5convert", "convert.go", "reVersion"), "compiled regular expression, only matched against");
    (("j5convert", "imports.go", "implicitImports"), "literal table of the implicit imports, only read");
    (("j5parse", "schema.go", "J5SchemaSpec"), "literal BCL schema spec handed to bcl.NewParser, only read");
    (("parser", "errors.go", "HadErrors"), "sentinel error value");
    (("parser", "fmt.go", "stringEscaper"), "strings.Replacer, only used");
    (("parser", "token.go", "keywords"), "token table filled by init() from the tokens array");
    (("parser", "token.go", "operators"), "token table filled by init() from the tokens array");
    (("parser", "token.go", "tokens"), "literal token name array, only read");
    (("protobuild", "parse_proto.go", "ErrNotFound"), "sentinel error value");
    (("protoprint", "options.go", "maxExtDepth"), "literal table, only read");
    (("protoprint", "protoprint.go", "statementKeywords"), "literal table, only read");
    (("walker", "c2.go", "ErrUnexpectedQualifier"), "sentinel error value");
    (("walker", "c2.go", "ErrUnexpectedTag"), "sentinel error value") ].

Definition var_key (v : string * string * string * string * string * string * bool) : skey :=
  match v with (p, f, n, _, _, _, _) => (p, f, n) end.
Definition var_written (v : string * string * string * string * string * string * bool) : bool :=
  match v with (_, _, _, _, _, _, w) => w end.

Definition skeys_subset (a b : list skey) : bool := forallb (fun k => existsb (skey_eqb k) b) a.
Definition state_vars_same_set : bool :=
  skeys_subset (map var_key StateGen.vars) (map fst reviewed_state)
  && skeys_subset (map fst reviewed_state) (map var_key StateGen.vars).

(* "assign in init" is the only admissible kind of write *)
Definition init_write (w : string) : bool := String.eqb w "assign in init".
Definition writes_of (p n : string) : list string :=
  match find (fun r => match r with (p', n', _) => String.eqb p p' && String.eqb n n' end) StateGen.writes with
  | Some (_, _, ws) => ws
  | None => []
  end.
Definition var_quiet (v : string * string * string * string * string * string * bool) : bool :=
  match v with (p, _, n, _, _, _, w) =>
    negb w || (negb (match writes_of p n with [] => true | _ => false end) && forallb init_write (writes_of p n))
  end.
Definition no_runtime_process_state : bool := forallb var_quiet StateGen.vars.

Lemma state_vars_agree : state_vars_same_set = true.
Proof. vm_compute. reflexivity. Qed.
Lemma no_runtime_process_state_holds : no_runtime_process_state = true.
Proof. vm_compute. reflexivity. Qed.

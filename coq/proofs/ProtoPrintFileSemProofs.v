(* ProtoPrintFileSemProofs.v — the descriptor layer of the file model of C05:
   building a descriptor from the syntactic file the printer lays out gives back the descriptor in
   canonical form (bodies in print order with the positions as source lines, options in print order,
   sub paths folded back), that form is equivalent to the original, and laying it out again gives the
   same syntactic file. *)
From Coq Require Import String List Arith NArith ZArith Bool Lia ZifyN ZifyNat ZifyBool Permutation.
From J5V.lib Require Import Outcome Corr.
From J5V.model Require Import ProtoPrintLit ProtoPrint ProtoPrintFile ProtoParseFile.
From J5V.proofs Require Import ProtoPrintLitProofs ProtoPrintProofs ProtoPrintFileSyntaxProofs ProtoPrintFileSortProofs.
Import ListNotations.
Local Open Scope N_scope.

(* ------------------------------------------------------------------ numbering *)
Fixpoint number_from {A B} (f : N -> A -> B) (i : N) (l : list A) : list B :=
  match l with [] => [] | x :: r => f i x :: number_from f (i + 1) r end.

Lemma number_from_length {A B} (f : N -> A -> B) : forall l i, length (number_from f i l) = length l.
Proof. induction l as [|x r IH]; intro i; [reflexivity|]. cbn [number_from length]. rewrite IH. reflexivity. Qed.

Lemma number_from_map {A B C} (f : N -> A -> B) (g : B -> C) (h : A -> C) :
  (forall i x, g (f i x) = h x) -> forall l i, map g (number_from f i l) = map h l.
Proof. intros H. induction l as [|x r IH]; intro i; [reflexivity|]. cbn [number_from map]. rewrite H, IH. reflexivity. Qed.

Lemma number_from_forall2 {A B} (f : N -> A -> B) (R : A -> B -> Prop) :
  forall l i, (forall j x, In x l -> R x (f j x)) -> Forall2 R l (number_from f i l).
Proof.
  induction l as [|x r IH]; intros i H; [constructor|]. cbn [number_from]. constructor.
  - apply H. left; reflexivity.
  - apply IH. intros j y Hy. apply H. right; exact Hy.
Qed.

(* ------------------------------------------------------------------ Simplify and its inverse *)
Lemma unsimplify_app a b v : unsimplify (a ++ b) v = unsimplify a (unsimplify b v).
Proof. unfold unsimplify. apply fold_right_app. Qed.

Lemma simplify_spec : forall n v max sub, (rsize v <= n)%nat ->
  exists ext, fst (simplify max sub v) = sub ++ ext /\ unsimplify ext (snd (simplify max sub v)) = v.
Proof.
  induction n as [|n IH]; intros v max sub Hn; [pose proof (rsize_pos v); lia|].
  destruct v as [t|fs|l].
  - exists []. cbn [simplify]. destruct (Nat.ltb max (length sub)); cbn [fst snd]; rewrite app_nil_r; split; reflexivity.
  - cbn [simplify]. destruct (Nat.ltb max (length sub)) eqn:E.
    + exists []. cbn [fst snd]. rewrite app_nil_r. split; reflexivity.
    + destruct fs as [|[k x] r]; [exists []; cbn [fst snd]; rewrite app_nil_r; split; reflexivity|].
      destruct r as [|kx r']; [|exists []; cbn [fst snd]; rewrite app_nil_r; split; reflexivity].
      destruct x as [t|fs'|l'].
      * rewrite rsize_msg in Hn. cbn [rsize_fields] in Hn.
        destruct (IH (RScalar t) max (sub ++ [k]) ltac:(cbn; lia)) as (ext & E1 & E2).
        exists (k :: ext). rewrite E1. rewrite <- app_assoc. split; [reflexivity|].
        cbn [unsimplify fold_right]. unfold unsimplify in E2. rewrite E2. reflexivity.
      * rewrite rsize_msg in Hn. cbn [rsize_fields] in Hn.
        destruct (IH (RMsg fs') max (sub ++ [k]) ltac:(lia)) as (ext & E1 & E2).
        exists (k :: ext). rewrite E1. rewrite <- app_assoc. split; [reflexivity|].
        cbn [unsimplify fold_right]. unfold unsimplify in E2. rewrite E2. reflexivity.
      * exists []. cbn [fst snd]. rewrite app_nil_r. split; reflexivity.
  - exists []. cbn [simplify]. destruct (Nat.ltb max (length sub)); cbn [fst snd]; rewrite app_nil_r; split; reflexivity.
Qed.

Lemma unsimplify_simplify max v : unsimplify (fst (simplify max [] v)) (snd (simplify max [] v)) = v.
Proof.
  destruct (simplify_spec (rsize v) v max [] (le_n _)) as (ext & E1 & E2). cbn [app] in E1. rewrite E1. exact E2.
Qed.

(* the simplified value is a sub tree: its leaves are leaves of the original *)
Lemma simplify_wf_raw : forall n v max sub, (rsize v <= n)%nat -> wf_raw v -> wf_raw (snd (simplify max sub v)).
Proof.
  induction n as [|n IH]; intros v max sub Hn Hw; [pose proof (rsize_pos v); lia|].
  destruct v as [t|fs|l]; cbn [simplify]; destruct (Nat.ltb max (length sub)); cbn [snd]; try exact Hw.
  destruct fs as [|[k x] r]; [exact Hw|]. destruct r as [|kx r']; [|exact Hw].
  rewrite rsize_msg in Hn. cbn [rsize_fields] in Hn.
  destruct x as [t|fs'|l']; [| |exact Hw].
  - apply IH; [cbn; lia|]. exact (proj1 Hw).
  - apply IH; [lia|]. exact (proj1 Hw).
Qed.

(* ------------------------------------------------------------------ options *)
Definition canon_opt (i : N) (o : dopt) : dopt :=
  {| o_key := pos_key i; o_full := o_full o; o_name := o_name o; o_val := o_val o |}.

(* the extension is printed by its full name (it lives in another package than the file) *)
Definition wf_dopt (o : dopt) : Prop :=
  o_full o = pn_name (o_name o) /\ wf_pn (o_name o) /\ wf_raw (o_val o).

Lemma lay_opt_ext o : exists sub v, lay_opt o = (OExt (o_name o) sub, v) /\ unsimplify sub v = o_val o /\ (wf_raw (o_val o) -> wf_raw v).
Proof.
  unfold lay_opt. destruct (qname_eqb (o_full o) http_name).
  - exists [], (o_val o). cbn [fst snd]. repeat split; auto.
  - exists (fst (simplify max_depth [] (o_val o))), (snd (simplify max_depth [] (o_val o))). split; [reflexivity|].
    split; [apply unsimplify_simplify|]. intro Hw. apply (simplify_wf_raw (rsize (o_val o))); [lia|exact Hw].
Qed.

Lemma interp_opts_lay : forall l i, Forall wf_dopt l -> interp_opts i (map lay_opt l) = Some (number_from canon_opt i l).
Proof.
  induction l as [|o r IH]; intros i Hw; [reflexivity|].
  inversion Hw as [|? ? (Hf & _ & _) Hr]; subst. cbn [map number_from].
  destruct (lay_opt_ext o) as (sub & v & E & Eu & _). rewrite E. cbn [interp_opts].
  rewrite (IH (i + 1) Hr). unfold canon_opt. rewrite Eu, <- Hf. reflexivity.
Qed.

Lemma lay_opt_wf o : wf_dopt o -> wf_sopt (lay_opt o).
Proof.
  intros (_ & Hp & Hv). destruct (lay_opt_ext o) as (sub & v & E & _ & Hw). rewrite E.
  split; [exact Hp|apply Hw; exact Hv].
Qed.

Definition canon_sopts (opts : list dopt) : list dopt := number_from canon_opt 1 (isort opt_less opts).
Definition lay_less (a b : dopt) : bool := sopt_less (lay_opt a) (lay_opt b).
Definition canon_fopts (opts : list dopt) : list dopt := number_from canon_opt 1 (isort lay_less (isort opt_less opts)).

Lemma Forall_isort {A} (P : A -> Prop) less (l : list A) : Forall P l -> Forall P (isort less l).
Proof. rewrite !Forall_forall. intros H x Hx. apply H. apply (isort_In less l x). exact Hx. Qed.

Lemma lay_fopts_eq opts : lay_fopts opts = map lay_opt (isort lay_less (isort opt_less opts)).
Proof. unfold lay_fopts, lay_sopts. apply isort_map. intros a b. reflexivity. Qed.

Lemma interp_lay_sopts opts : Forall wf_dopt opts -> interp_opts 1 (lay_sopts opts) = Some (canon_sopts opts).
Proof. intro H. unfold lay_sopts, canon_sopts. apply interp_opts_lay. apply Forall_isort. exact H. Qed.

Lemma interp_lay_fopts opts : Forall wf_dopt opts -> interp_opts 1 (lay_fopts opts) = Some (canon_fopts opts).
Proof. intro H. rewrite lay_fopts_eq. unfold canon_fopts. apply interp_opts_lay. do 2 apply Forall_isort. exact H. Qed.

Lemma lay_sopts_wf opts : Forall wf_dopt opts -> Forall wf_sopt (lay_sopts opts).
Proof.
  intro H. unfold lay_sopts. rewrite Forall_forall. intros s Hs. apply in_map_iff in Hs as (o & <- & Ho).
  apply lay_opt_wf. apply (isort_In opt_less opts o) in Ho. rewrite Forall_forall in H. apply H. exact Ho.
Qed.

Lemma lay_fopts_wf opts : Forall wf_dopt opts -> Forall wf_sopt (lay_fopts opts).
Proof.
  intro H. unfold lay_fopts. apply Forall_isort. apply lay_sopts_wf. exact H.
Qed.

(* laying out the canonical options gives the same syntactic options *)
Lemma lay_canon_opt i o : lay_opt (canon_opt i o) = lay_opt o.
Proof. reflexivity. Qed.

Lemma opt_less_pos i j a b : (i < j)%N -> (i <> 0)%N -> opt_less (canon_opt j b) (canon_opt i a) = false.
Proof.
  intros Hij Hi. unfold opt_less, canon_opt, pos_key. cbn [o_key k_line k_idx].
  assert (E1 : N.eqb j 0 = false) by lia. assert (E2 : N.eqb i 0 = false) by lia.
  rewrite E1, E2. cbn [Bool.eqb negb]. assert (E3 : N.eqb j i = false) by lia. rewrite E3. cbn [negb]. lia.
Qed.

Lemma numbered_opts_asc : forall l i prev,
  (match prev with Some p => exists j a, p = canon_opt j a /\ (j < i)%N /\ (j <> 0)%N | None => True end) -> (i <> 0)%N ->
  asc_from opt_less prev (number_from canon_opt i l).
Proof.
  induction l as [|x r IH]; intros i prev Hp Hi; [exact I|].
  cbn [number_from asc_from]. split.
  - destruct prev as [p|]; [|exact I]. destruct Hp as (j & a & -> & Hj & Hj0). apply opt_less_pos; assumption.
  - apply IH; [|lia]. exists i, x. repeat split; lia.
Qed.

Lemma isort_numbered_opts l : isort opt_less (number_from canon_opt 1 l) = number_from canon_opt 1 l.
Proof. apply isort_asc. apply numbered_opts_asc; [exact I|lia]. Qed.

Lemma lay_canon_sopts opts : lay_sopts (canon_sopts opts) = lay_sopts opts.
Proof.
  unfold lay_sopts, canon_sopts. rewrite isort_numbered_opts.
  apply (number_from_map canon_opt lay_opt lay_opt). intros i x. reflexivity.
Qed.

Lemma sopt_less_asym a b : sopt_less a b = true -> sopt_less b a = false.
Proof. unfold sopt_less. apply bytes_ltb_asym. Qed.

Lemma lay_canon_fopts opts : lay_fopts (canon_fopts opts) = lay_fopts opts.
Proof.
  unfold lay_fopts at 1. unfold lay_sopts, canon_fopts. rewrite isort_numbered_opts.
  rewrite (number_from_map canon_opt lay_opt lay_opt) by (intros; reflexivity).
  rewrite <- lay_fopts_eq. unfold lay_fopts. apply isort_idem. exact sopt_less_asym.
Qed.

(* ------------------------------------------------------------------ json_name *)
Lemma bytes_eqb_eq : forall a b, bytes_eqb a b = true <-> a = b.
Proof.
  induction a as [|x a IH]; intros [|y b]; cbn [bytes_eqb]; split; intro H; try reflexivity; try discriminate.
  - apply andb_true_iff in H as [H1 H2]. apply N.eqb_eq in H1. apply IH in H2. subst. reflexivity.
  - inversion H; subst. rewrite N.eqb_refl. cbn [andb]. apply IH. reflexivity.
Qed.

Lemma lay_opt_not_json o : is_json_opt (lay_opt o) = false.
Proof. destruct (lay_opt_ext o) as (sub & v & E & _). rewrite E. reflexivity. Qed.

Lemma filter_json_lay l : filter is_json_opt (map lay_opt l) = [].
Proof. induction l as [|o r IH]; [reflexivity|]. cbn [map filter]. rewrite lay_opt_not_json. exact IH. Qed.
Lemma filter_notjson_lay l : filter (fun o => negb (is_json_opt o)) (map lay_opt l) = map lay_opt l.
Proof. induction l as [|o r IH]; [reflexivity|]. cbn [map filter]. rewrite lay_opt_not_json. cbn [negb]. rewrite IH. reflexivity. Qed.

Lemma field_json_lay is_ext name json opts :
  (is_ext = true -> json = default_json name) ->
  field_json name (lay_fopts opts ++ json_opt is_ext name json) = Some json.
Proof.
  intro Hx. unfold field_json. rewrite filter_app, lay_fopts_eq, filter_json_lay. cbn [app].
  unfold json_opt. destruct is_ext.
  - cbn [orb filter]. rewrite (Hx eq_refl). reflexivity.
  - cbn [orb]. destruct (bytes_eqb json (default_json name)) eqn:E.
    + apply bytes_eqb_eq in E. subst. reflexivity.
    + cbn [filter is_json_opt fst]. change (ident_eqb kw_json_name kw_json_name) with true. cbv iota.
      apply unquote_quote.
Qed.

Lemma filter_notjson_field is_ext name json opts :
  filter (fun o => negb (is_json_opt o)) (lay_fopts opts ++ json_opt is_ext name json) = lay_fopts opts.
Proof.
  rewrite filter_app. rewrite lay_fopts_eq at 1. rewrite filter_notjson_lay, <- lay_fopts_eq.
  unfold json_opt. destruct (is_ext || bytes_eqb json (default_json name))%bool; [apply app_nil_r|].
  cbn [filter is_json_opt fst]. change (ident_eqb kw_json_name kw_json_name) with true. cbn [negb]. apply app_nil_r.
Qed.

(* ------------------------------------------------------------------ two tables with the same content *)
Definition same_tab (st st' : symtab) : Prop :=
  (forall n, is_type st n = is_type st' n) /\ st_pkgs st = st_pkgs st'.

Lemma existsb_ext {A} (f g : A -> bool) l : (forall x, f x = g x) -> existsb f l = existsb g l.
Proof. intro H. induction l as [|x r IH]; [reflexivity|]. cbn [existsb]. rewrite H, IH. reflexivity. Qed.

Lemma is_namespace_same st st' n : same_tab st st' -> is_namespace st n = is_namespace st' n.
Proof. intros [_ Hp]. unfold is_namespace. rewrite Hp. reflexivity. Qed.

Lemma crn_safe_same st st' pkg ctx rp path : same_tab st st' ->
  context_ref_name_safe st pkg ctx rp path = context_ref_name_safe st' pkg ctx rp path.
Proof.
  intro H. pose proof (is_namespace_same st st') as Hn. destruct H as [Ht Hp].
  unfold context_ref_name_safe, capture_same, capture_other.
  destruct (qname_eqb pkg rp).
  - cbv zeta. rewrite (existsb_ext _ (fun k => is_type st' (pkg ++ firstn k ctx ++ [hd [] (strip_common path ctx)]))) by (intro; apply Ht).
    reflexivity.
  - rewrite (existsb_ext _ (fun k => is_type st' (pkg ++ firstn k ctx ++ [hd [] rp]))) by (intro; apply Ht).
    rewrite (existsb_ext (fun k => is_type st (firstn k pkg ++ [hd [] rp]) || is_namespace st (firstn k pkg ++ [hd [] rp]))%bool
                         (fun k => is_type st' (firstn k pkg ++ [hd [] rp]) || is_namespace st' (firstn k pkg ++ [hd [] rp]))%bool)
      by (intro; rewrite Ht, (Hn _ (conj Ht Hp)); reflexivity).
    reflexivity.
Qed.

(* the components of the printed name are components of the full name *)
Lemma safe_components st pkg ctx rp path : path <> [] ->
  forall c, In c (pn_name (context_ref_name_safe st pkg ctx rp path)) -> In c (rp ++ path).
Proof.
  intros Hne c. unfold context_ref_name_safe. destruct (qname_eqb pkg rp).
  - cbv zeta. destruct (capture_same _ _ _ _ _ || is_statement_keyword _)%bool; cbn [pn_name]; [auto|].
    destruct (strip_common_spec ctx path Hne) as (common & rest & E & _ & _).
    intro Hc. apply in_or_app. right. rewrite E. apply in_or_app. right. exact Hc.
  - destruct (capture_other _ _ _ _ || is_statement_keyword _)%bool; cbn [pn_name]; auto.
Qed.

(* ------------------------------------------------------------------ type references *)
(* the scalar type names and the words the file parser dispatches on are statement keywords: a relative
   printed name never starts with one (fix 5e02f98) *)
Lemma scalar_kind_is_keyword k : is_scalar_kind k = true -> is_statement_keyword k = true.
Proof.
  unfold is_scalar_kind. intro H. apply existsb_exists in H as (s & Hin & E). apply ident_eqb_eq in E. subst s.
  unfold sk_names in Hin. repeat (destruct Hin as [<-|Hin]; [vm_compute; reflexivity|]). destruct Hin.
Qed.

Lemma dispatch_word_is_keyword a :
  ident_eqb a kw_repeated = true \/ ident_eqb a kw_optional = true \/ ident_eqb a kw_option = true ->
  is_statement_keyword a = true.
Proof. intros [H|[H|H]]; apply ident_eqb_eq in H; subst a; vm_compute; reflexivity. Qed.

(* a full name stands for one (package, path) entry only *)
Definition flat_unique (x : xsymtab) : Prop :=
  forall e1 e2, In e1 (x_types x) -> In e2 (x_types x) -> flat_name e1 = flat_name e2 -> e1 = e2.

Lemma lookup_unique x e : flat_unique x -> In e (x_types x) -> lookup_type x (flat_name e) = Some e.
Proof.
  intros Hu Hin. unfold lookup_type.
  destruct (find (fun e0 => qname_eqb (flat_name e0) (flat_name e)) (x_types x)) as [e'|] eqn:F.
  - apply find_some in F as [Hin' E]. apply qname_eqb_eq in E. f_equal. apply Hu; assumption.
  - exfalso. apply (find_none _ _ F e) in Hin. rewrite qname_eqb_refl in Hin. discriminate.
Qed.

(* the referenced type is in the table under its (package, path) *)
Definition wf_tref (x : xsymtab) (pkg rp path : qname) : Prop :=
  path <> [] /\ wf_target (to_symtab x) pkg rp path /\ In (rp, path) (x_types x).

Definition wf_dvt (x : xsymtab) (pkg : qname) (t : dvt) : Prop :=
  match t with DScalar k => is_scalar_kind k = true | DRef rp path => wf_tref x pkg rp path end.

Definition wf_dtype (x : xsymtab) (pkg : qname) (fname : ident) (t : dtype) : Prop :=
  match t with
  | DSingle v => wf_dvt x pkg v
  | DMapT k entry v => is_scalar_kind k = true /\ entry = map_entry_name fname /\ wf_dvt x pkg v
  end.

Lemma interp_ref_lay x st pkg ctx rp path : same_tab st (to_symtab x) -> flat_unique x -> wf_tref x pkg rp path ->
  interp_ref x pkg ctx (context_ref_name_safe st pkg ctx rp path) = Some (rp, path).
Proof.
  intros Hs Hu (Hne & Ht & Hl). unfold interp_ref. rewrite (crn_safe_same st _ pkg ctx rp path Hs).
  rewrite (scope_lemma_full _ pkg ctx rp path Hne Ht). exact (lookup_unique x (rp, path) Hu Hl).
Qed.

Lemma wf_target_pkg st pkg rp path : wf_target st pkg rp path -> qname_eqb pkg rp = false -> rp <> [].
Proof. intros [_ H] E. exact (proj1 (H E)). Qed.

Lemma interp_vt_lay x st pkg ctx t : same_tab st (to_symtab x) -> flat_unique x -> wf_dvt x pkg t ->
  interp_vt x pkg ctx (lay_vt st pkg ctx t) = Some t.
Proof.
  intros Hs Hu Hw. destruct t as [k|rp path].
  - cbn [wf_dvt] in Hw. cbn [lay_vt]. unfold interp_vt, scalar_pn. rewrite Hw. reflexivity.
  - cbn [wf_dvt lay_vt] in *. pose proof (interp_ref_lay x st pkg ctx rp path Hs Hu Hw) as Hr.
    destruct Hw as (Hne & Ht & _).
    pose proof (safe_head_not_keyword st pkg ctx rp path (wf_target_pkg _ pkg rp path Ht)) as Hk.
    unfold interp_ref in Hr. unfold interp_vt.
    destruct (context_ref_name_safe st pkg ctx rp path) as [abs nm] eqn:E. cbn [pn_abs pn_name] in Hk.
    assert (G : match resolve_printed (to_symtab x) pkg ctx {| pn_abs := abs; pn_name := nm |} with
                | Some full => match lookup_type x full with Some e => Some (DRef (fst e) (snd e)) | None => None end
                | None => None end = Some (DRef rp path)).
    { destruct (resolve_printed (to_symtab x) pkg ctx {| pn_abs := abs; pn_name := nm |}) as [full|]; [|discriminate Hr].
      rewrite Hr. reflexivity. }
    destruct abs; [exact G|]. destruct nm as [|k [|k2 q]]; try exact G.
    specialize (Hk eq_refl). cbn [hd] in Hk.
    destruct (is_scalar_kind k) eqn:Esk; [|exact G].
    rewrite (scalar_kind_is_keyword k Esk) in Hk. discriminate.
Qed.

Lemma interp_type_lay x st pkg ctx fname t : same_tab st (to_symtab x) -> flat_unique x -> wf_dtype x pkg fname t ->
  interp_type x pkg ctx fname (lay_type st pkg ctx t) = Some t.
Proof.
  intros Hs Hu Hw. destruct t as [v|k entry v]; cbn [wf_dtype lay_type interp_type] in *.
  - rewrite (interp_vt_lay x st pkg ctx v Hs Hu Hw). reflexivity.
  - destruct Hw as (Hk & -> & Hv). unfold scalar_pn. rewrite Hk.
    rewrite (interp_vt_lay x st pkg _ v Hs Hu Hv). reflexivity.
Qed.

(* the printer before fix 5e02f98: message t.v1.string {} and a field of that type in message t.v1.A is
   printed "string", which is read back as the scalar type; message t.v1.option printed "option", with which
   the message body "option f = 1 ;" is read as an option statement, not as the field *)
Definition kw_pkg : qname := [[116]; [118; 49]].                                 (* t.v1 *)
Definition kw_string : ident := [115;116;114;105;110;103].
Definition kw_table : xsymtab :=
  {| x_types := [(kw_pkg, [[65]]); (kw_pkg, [kw_string]); (kw_pkg, [kw_option])]; x_pkgs := [kw_pkg] |}.

Theorem keyword_previous_refuted :
  context_ref_name_nokw (to_symtab kw_table) kw_pkg [[65]] kw_pkg [kw_string] = {| pn_abs := false; pn_name := [kw_string] |}
  /\ interp_vt kw_table kw_pkg [[65]] (context_ref_name_nokw (to_symtab kw_table) kw_pkg [[65]] kw_pkg [kw_string])
     = Some (DScalar kw_string)
  /\ context_ref_name_nokw (to_symtab kw_table) kw_pkg [[65]] kw_pkg [kw_option] = {| pn_abs := false; pn_name := [kw_option] |}
  /\ (let f := {| sf_cm := no_cmt; sf_label := LNone;
                   sf_type := SNamed (context_ref_name_nokw (to_symtab kw_table) kw_pkg [[65]] kw_pkg [kw_option]);
                   sf_name := [102]; sf_num := 1; sf_opts := [] |} in
      parse_elem 3 (emit_elem (SMsg no_cmt [65] [] [SField f]))
      = Some (SMsg no_cmt [65] [(OPlain [102], RScalar (TLit [49]))] [], []))
  /\ context_ref_name_safe (to_symtab kw_table) kw_pkg [[65]] kw_pkg [kw_string] = {| pn_abs := true; pn_name := kw_pkg ++ [kw_string] |}
  /\ interp_vt kw_table kw_pkg [[65]] (context_ref_name_safe (to_symtab kw_table) kw_pkg [[65]] kw_pkg [kw_string])
     = Some (DRef kw_pkg [kw_string]).
Proof. repeat split; vm_compute; reflexivity. Qed.

(* the laid-out type is well-formed for the parser *)
Lemma scalar_kind_not_kw k : is_scalar_kind k = true ->
  ident_eqb k kw_repeated = false /\ ident_eqb k kw_optional = false /\ ident_eqb k kw_option = false.
Proof.
  unfold is_scalar_kind. intro H. apply existsb_exists in H as (s & Hin & E). apply ident_eqb_eq in E. subst s.
  unfold sk_names in Hin. repeat (destruct Hin as [<-|Hin]; [repeat split; reflexivity|]). destruct Hin.
Qed.

Lemma lay_vt_wf_pn st pkg ctx x t : wf_dvt x pkg t -> wf_pn (lay_vt st pkg ctx t).
Proof.
  destruct t as [k|rp path]; intro Hw; unfold wf_pn.
  - cbn. discriminate.
  - cbn [lay_vt]. apply safe_never_empty. exact (proj1 Hw).
Qed.

Lemma lay_vt_head_ok st pkg ctx x t : wf_dvt x pkg t -> head_ok (lay_vt st pkg ctx t).
Proof.
  destruct t as [k|rp path]; intro Hw; unfold head_ok.
  - right. cbn. apply scalar_kind_not_kw. exact Hw.
  - cbn [lay_vt]. destruct Hw as (Hne & Ht & _).
    pose proof (safe_head_not_keyword st pkg ctx rp path (wf_target_pkg _ pkg rp path Ht)) as Hk.
    pose proof (safe_never_empty st pkg ctx rp path Hne) as Hn.
    destruct (context_ref_name_safe st pkg ctx rp path) as [abs nm]. cbn [pn_abs pn_name] in *.
    destruct abs; [left; reflexivity|right]. destruct nm as [|a q]; [contradiction|].
    specialize (Hk eq_refl). cbn [hd] in Hk.
    assert (G : forall w, ident_eqb a w = true -> is_statement_keyword w = true -> False).
    { intros w Ew Hkw. apply ident_eqb_eq in Ew. subst w. rewrite Hkw in Hk. discriminate. }
    repeat split.
    + destruct (ident_eqb a kw_repeated) eqn:E1; [exfalso; apply (G kw_repeated E1); vm_compute; reflexivity|reflexivity].
    + destruct (ident_eqb a kw_optional) eqn:E1; [exfalso; apply (G kw_optional E1); vm_compute; reflexivity|reflexivity].
    + destruct (ident_eqb a kw_option) eqn:E1; [exfalso; apply (G kw_option E1); vm_compute; reflexivity|reflexivity].
Qed.

Lemma lay_type_wf st pkg ctx x fname t : wf_dtype x pkg fname t -> wf_stype (lay_type st pkg ctx t).
Proof.
  destruct t as [v|k entry v]; cbn [wf_dtype lay_type wf_stype]; intro Hw.
  - split; [apply (lay_vt_wf_pn st pkg ctx x); exact Hw|apply (lay_vt_head_ok st pkg ctx x); exact Hw].
  - destruct Hw as (_ & _ & Hv). split; [unfold wf_pn; cbn; discriminate|apply (lay_vt_wf_pn st pkg _ x); exact Hv].
Qed.

(* ------------------------------------------------------------------ fields *)
Definition canon_field (i : N) (f : dfield) : dfield :=
  {| f_key := pos_key i; f_cm := f_cm f; f_label := f_label f; f_type := f_type f; f_name := f_name f;
     f_num := f_num f; f_json := f_json f; f_opts := canon_fopts (f_opts f) |}.

Definition wf_dfield (x : xsymtab) (pkg : qname) (f : dfield) : Prop :=
  wf_dtype x pkg (f_name f) (f_type f) /\ Forall wf_dopt (f_opts f).

Lemma interp_field_lay x st pkg ctx is_ext i f : same_tab st (to_symtab x) -> flat_unique x -> wf_dfield x pkg f ->
  (is_ext = true -> f_json f = default_json (f_name f)) ->
  interp_field x pkg ctx i (lay_field st pkg ctx is_ext f) = Some (canon_field i f).
Proof.
  intros Hs Hu [Ht Ho] Hx. unfold interp_field, lay_field. cbn [sf_cm sf_label sf_type sf_name sf_num sf_opts].
  rewrite (interp_type_lay x st pkg ctx _ _ Hs Hu Ht). rewrite (field_json_lay is_ext _ _ _ Hx).
  rewrite filter_notjson_field. rewrite (interp_lay_fopts _ Ho). reflexivity.
Qed.

Lemma lay_field_wf st pkg ctx x is_ext f : wf_dfield x pkg f -> wf_field (lay_field st pkg ctx is_ext f).
Proof.
  intros [Ht Ho]. split; cbn [lay_field sf_type sf_opts].
  - apply (lay_type_wf st pkg ctx x (f_name f)). exact Ht.
  - apply Forall_app. split; [apply lay_fopts_wf; exact Ho|].
    unfold json_opt. destruct (is_ext || bytes_eqb (f_json f) (default_json (f_name f)))%bool; constructor; [|constructor].
    split; [exact I|reflexivity].
Qed.

Lemma lay_canon_field st pkg ctx is_ext i f : lay_field st pkg ctx is_ext (canon_field i f) = lay_field st pkg ctx is_ext f.
Proof. unfold lay_field, canon_field. cbn [f_cm f_label f_type f_name f_num f_json f_opts]. rewrite lay_canon_fopts. reflexivity. Qed.

(* ------------------------------------------------------------------ numbered lists are in print order *)
Lemma number_from_map_in {A B C} (f : N -> A -> B) (g : B -> C) (h : A -> C) :
  forall l i, (forall j x, In x l -> g (f j x) = h x) -> map g (number_from f i l) = map h l.
Proof.
  induction l as [|x r IH]; intros i H; [reflexivity|]. cbn [number_from map].
  rewrite (H i x (or_introl eq_refl)). rewrite IH; [reflexivity|]. intros j y Hy. apply H. right; exact Hy.
Qed.

Lemma number_from_of_map {A B C} (f : N -> B -> C) (g : A -> B) :
  forall l i, number_from f i (map g l) = number_from (fun j a => f j (g a)) i l.
Proof. induction l as [|x r IH]; intro i; [reflexivity|]. cbn [map number_from]. rewrite IH. reflexivity. Qed.

Definition line_of (k : key3) : N := fst (fst k).

Lemma numbered_asc {A B} (g : N -> A -> B) (k : B -> key3) :
  (forall j a, line_of (k (g j a)) = j) ->
  forall l i prev,
    (match prev with Some p => (line_of (k p) < i)%N /\ (line_of (k p) <> 0)%N | None => True end) -> (i <> 0)%N ->
    asc_from (fun a b => key_less (k a) (k b)) prev (number_from g i l).
Proof.
  intro Hk. induction l as [|x r IH]; intros i prev Hp Hi; [exact I|].
  cbn [number_from asc_from]. split.
  - destruct prev as [p|]; [|exact I]. destruct Hp as [H1 H2]. specialize (Hk i x).
    destruct (k (g i x)) as [[lb tb] ib], (k p) as [[la ta] ia]. unfold line_of in *. cbn [fst] in *. subst lb.
    apply key_less_lines; lia.
  - apply IH; [|lia]. rewrite Hk. split; lia.
Qed.

Lemma sorted_numbered {A B} (g : N -> A -> B) (k : B -> key3) (l : list A) :
  (forall j a, line_of (k (g j a)) = j) -> sorted_by k (number_from g 1 l) = number_from g 1 l.
Proof. intro Hk. unfold sorted_by. apply isort_asc. apply numbered_asc; [exact Hk|exact I|lia]. Qed.

(* ------------------------------------------------------------------ lists of fields (oneof bodies) *)
Definition fkey (f : dfield) : key3 := key0 (f_key f).
Definition canon_fields (fs : list dfield) : list dfield := number_from canon_field 1 (sorted_by fkey fs).

Lemma lay_fields_eq st pkg ctx fs : lay_fields st pkg ctx fs = map (lay_field st pkg ctx false) (sorted_by fkey fs).
Proof. unfold lay_fields. apply (sort_project_sorted_by fkey). Qed.

Lemma interp_fields_map x st pkg ctx is_ext : same_tab st (to_symtab x) -> flat_unique x -> forall l i,
  Forall (wf_dfield x pkg) l -> (is_ext = true -> Forall (fun f => f_json f = default_json (f_name f)) l) ->
  interp_fields x pkg ctx i (map (lay_field st pkg ctx is_ext) l) = Some (number_from canon_field i l).
Proof.
  intros Hs Hu. induction l as [|f r IH]; intros i Hw Hx; [reflexivity|].
  inversion Hw as [|? ? Hf Hr]; subst. cbn [map interp_fields number_from].
  rewrite (interp_field_lay x st pkg ctx is_ext i f Hs Hu Hf).
  - rewrite IH; [reflexivity|exact Hr|]. intro E. specialize (Hx E). inversion Hx; assumption.
  - intro E. specialize (Hx E). inversion Hx; assumption.
Qed.

Lemma interp_lay_fields x st pkg ctx fs : same_tab st (to_symtab x) -> flat_unique x -> Forall (wf_dfield x pkg) fs ->
  interp_fields x pkg ctx 1 (lay_fields st pkg ctx fs) = Some (canon_fields fs).
Proof.
  intros Hs Hu Hw. rewrite lay_fields_eq. apply (interp_fields_map x st pkg ctx false Hs Hu).
  - apply Forall_isort. exact Hw.
  - discriminate.
Qed.

Lemma lay_canon_fields st pkg ctx fs : lay_fields st pkg ctx (canon_fields fs) = lay_fields st pkg ctx fs.
Proof.
  rewrite !lay_fields_eq. unfold canon_fields. rewrite (sorted_numbered canon_field fkey) by reflexivity.
  apply number_from_map. intros i f. apply lay_canon_field.
Qed.

Lemma lay_fields_wf st pkg ctx x fs : Forall (wf_dfield x pkg) fs -> Forall wf_field (lay_fields st pkg ctx fs).
Proof.
  intro H. rewrite lay_fields_eq. rewrite Forall_forall. intros s Hs. apply in_map_iff in Hs as (f & <- & Hf).
  apply (lay_field_wf st pkg ctx x). unfold sorted_by in Hf. apply isort_In in Hf. rewrite Forall_forall in H. apply H. exact Hf.
Qed.

(* ------------------------------------------------------------------ enum values *)
Definition canon_value (i : N) (v : dvalue) : dvalue :=
  {| v_key := pos_key i; v_cm := v_cm v; v_name := v_name v; v_num := v_num v; v_opts := canon_fopts (v_opts v) |}.
Definition vkey (v : dvalue) : key3 := key0 (v_key v).
Definition canon_values (vs : list dvalue) : list dvalue := number_from canon_value 1 (sorted_by vkey vs).
Definition wf_dvalue (v : dvalue) : Prop := ident_eqb (v_name v) kw_option = false /\ Forall wf_dopt (v_opts v).

Lemma interp_values_map : forall l i, Forall wf_dvalue l ->
  interp_values i (map lay_value l) = Some (number_from canon_value i l).
Proof.
  induction l as [|v r IH]; intros i Hw; [reflexivity|]. inversion Hw as [|? ? [_ Ho] Hr]; subst.
  cbn [map interp_values number_from]. unfold interp_value at 1. cbn [lay_value sv_opts sv_cm sv_name sv_num].
  rewrite (interp_lay_fopts _ Ho). rewrite (IH _ Hr). reflexivity.
Qed.

Lemma lay_values_eq vs :
  sort_project (map (fun v => (key0 (v_key v), lay_value v)) vs) = map lay_value (sorted_by vkey vs).
Proof. apply (sort_project_sorted_by vkey). Qed.

Lemma lay_canon_value i v : lay_value (canon_value i v) = lay_value v.
Proof. unfold lay_value, canon_value. cbn [v_cm v_name v_num v_opts]. rewrite lay_canon_fopts. reflexivity. Qed.

Lemma lay_value_wf v : wf_dvalue v -> wf_value (lay_value v).
Proof. intros [Hn Ho]. split; [exact Hn|apply lay_fopts_wf; exact Ho]. Qed.

(* ------------------------------------------------------------------ methods *)
Definition canon_method (i : N) (m : dmethod) : dmethod :=
  {| m_key := pos_key i; m_cm := m_cm m; m_name := m_name m; m_in := m_in m; m_out := m_out m;
     m_opts := canon_sopts (m_opts m) |}.
Definition mkey (m : dmethod) : key3 := key0 (m_key m).
Definition canon_methods (ms : list dmethod) : list dmethod := number_from canon_method 1 (sorted_by mkey ms).
Definition wf_dmethod (x : xsymtab) (pkg : qname) (m : dmethod) : Prop :=
  wf_tref x pkg (fst (m_in m)) (snd (m_in m)) /\ wf_tref x pkg (fst (m_out m)) (snd (m_out m))
  /\ Forall wf_dopt (m_opts m).

Lemma interp_methods_map x st pkg svc : same_tab st (to_symtab x) -> flat_unique x -> forall l i, Forall (wf_dmethod x pkg) l ->
  interp_methods x pkg svc i (map (lay_method st pkg svc) l) = Some (number_from canon_method i l).
Proof.
  intros Hs Hu. induction l as [|m r IH]; intros i Hw; [reflexivity|]. inversion Hw as [|? ? (Hi & Ho & Hopts) Hr]; subst.
  cbn [map interp_methods number_from]. unfold interp_method at 1. cbn [lay_method sm_in sm_out sm_opts sm_cm sm_name].
  rewrite (interp_ref_lay x st pkg [svc] _ _ Hs Hu Hi). rewrite (interp_ref_lay x st pkg [svc] _ _ Hs Hu Ho).
  rewrite (interp_lay_sopts _ Hopts). rewrite (IH _ Hr). unfold canon_method.
  destruct (m_in m), (m_out m). reflexivity.
Qed.

Lemma lay_methods_eq st pkg svc ms :
  sort_project (map (fun m => (key0 (m_key m), lay_method st pkg svc m)) ms) = map (lay_method st pkg svc) (sorted_by mkey ms).
Proof. apply (sort_project_sorted_by mkey). Qed.

Lemma lay_canon_method st pkg svc i m : lay_method st pkg svc (canon_method i m) = lay_method st pkg svc m.
Proof. unfold lay_method, canon_method. cbn [m_cm m_name m_in m_out m_opts]. rewrite lay_canon_sopts. reflexivity. Qed.

Lemma lay_method_wf st pkg svc x m : wf_dmethod x pkg m -> wf_method (lay_method st pkg svc m).
Proof.
  intros (Hi & Ho & Hopts). unfold wf_method, lay_method. cbn [sm_in sm_out sm_opts]. repeat split.
  - apply safe_never_empty. exact (proj1 Hi).
  - apply safe_never_empty. exact (proj1 Ho).
  - apply lay_sopts_wf. exact Hopts.
Qed.

(* ------------------------------------------------------------------ elements *)
Definition set_key (i : N) (e : delem) : delem :=
  match e with
  | DField f => DField {| f_key := pos_key i; f_cm := f_cm f; f_label := f_label f; f_type := f_type f; f_name := f_name f;
                          f_num := f_num f; f_json := f_json f; f_opts := f_opts f |}
  | DOneof _ c n o fs => DOneof (pos_key i) c n o fs
  | DMsg _ c n o body => DMsg (pos_key i) c n o body
  | DEnum _ c n o vs => DEnum (pos_key i) c n o vs
  | DService _ c n o ms => DService (pos_key i) c n o ms
  end.

(* the canonical form of an element (its own key is set by the enclosing body) *)
Fixpoint canon_elem (e : delem) : delem :=
  match e with
  | DField f => DField (canon_field 0 f)
  | DOneof k c n o fs => DOneof k c n (canon_sopts o) (canon_fields fs)
  | DMsg k c n o body =>
      DMsg k c n (canon_sopts o)
        (number_from set_key 1
           (sort_project ((fix go (l : list delem) : list (key3 * delem) :=
                             match l with [] => [] | x :: r => (ekey x, canon_elem x) :: go r end) body)))
  | DEnum k c n o vs => DEnum k c n (canon_sopts o) (canon_values vs)
  | DService k c n o ms => DService k c n (canon_sopts o) (canon_methods ms)
  end.

Definition canon_body (body : list delem) : list delem :=
  number_from (fun j e => set_key j (canon_elem e)) 1 (sorted_by ekey body).

Lemma keyed_map {B} (f : delem -> B) (l : list delem) :
  (fix go (l : list delem) : list (key3 * B) := match l with [] => [] | x :: r => (ekey x, f x) :: go r end) l
  = map (fun e => (ekey e, f e)) l.
Proof. induction l as [|x r IH]; [reflexivity|]. cbn [map]. rewrite <- IH. reflexivity. Qed.

Lemma canon_elem_msg k c n o body : canon_elem (DMsg k c n o body) = DMsg k c n (canon_sopts o) (canon_body body).
Proof.
  cbn [canon_elem]. f_equal. unfold canon_body.
  rewrite (keyed_map canon_elem body). rewrite (sort_project_sorted_by ekey canon_elem body).
  apply number_from_of_map.
Qed.

Lemma lay_keyed_map st pkg ctx l : lay_keyed st pkg ctx l = map (fun e => (ekey e, lay_elem st pkg ctx e)) l.
Proof. induction l as [|x r IH]; [reflexivity|]. cbn [lay_keyed map]. rewrite IH. reflexivity. Qed.

Lemma lay_body_eq st pkg ctx l : lay_body st pkg ctx l = map (lay_elem st pkg ctx) (sorted_by ekey l).
Proof. unfold lay_body. rewrite lay_keyed_map. apply (sort_project_sorted_by ekey). Qed.

Lemma lay_elem_msg st pkg ctx k c n o body :
  lay_elem st pkg ctx (DMsg k c n o body) = SMsg c n (lay_sopts o) (lay_body st pkg (ctx ++ [n]) body).
Proof.
  cbn [lay_elem]. f_equal. unfold lay_body. rewrite lay_keyed_map.
  rewrite (keyed_map (lay_elem st pkg (ctx ++ [n])) body). reflexivity.
Qed.

Lemma interp_elem_msg x pkg ctx i c n opts body :
  interp_elem x pkg ctx i (SMsg c n opts body)
  = match interp_opts 1 opts, interp_elems x pkg (ctx ++ [n]) 1 body with
    | Some o, Some ds => Some (DMsg (pos_key i) c n o ds)
    | _, _ => None
    end.
Proof.
  cbn [interp_elem].
  assert (E : forall l j,
    (fix go (j : N) (l : list selem) {struct l} : option (list delem) :=
       match l with
       | [] => Some []
       | y :: r => match interp_elem x pkg (ctx ++ [n]) j y, go (j + 1) r with
                   | Some d, Some ds => Some (d :: ds)
                   | _, _ => None
                   end
       end) j l = interp_elems x pkg (ctx ++ [n]) j l).
  { induction l as [|y r IH]; intro j; [reflexivity|]. cbn [interp_elems]. rewrite <- IH. reflexivity. }
  rewrite E. reflexivity.
Qed.

Fixpoint ddepth (e : delem) : nat :=
  match e with
  | DMsg _ _ _ _ body => S ((fix go (l : list delem) : nat := match l with [] => 1%nat | x :: r => Nat.max (ddepth x) (go r) end) body)
  | _ => 1%nat
  end.
Fixpoint ddepths (l : list delem) : nat := match l with [] => 1%nat | x :: r => Nat.max (ddepth x) (ddepths r) end.
Lemma ddepths_In l : forall x, In x l -> (ddepth x <= ddepths l)%nat.
Proof. induction l as [|y r IH]; intros x Hx; [destruct Hx|]. cbn [ddepths]. destruct Hx as [->|Hx]; [lia|]. specialize (IH x Hx). lia. Qed.
Lemma ddepth_pos e : (1 <= ddepth e)%nat.
Proof. destruct e; cbn; lia. Qed.

Fixpoint wf_delem (x : xsymtab) (pkg : qname) (e : delem) : Prop :=
  match e with
  | DField f => wf_dfield x pkg f
  | DOneof _ _ _ o fs => Forall wf_dopt o /\ Forall (wf_dfield x pkg) fs
  | DMsg _ _ _ o body =>
      Forall wf_dopt o /\ (fix go (l : list delem) : Prop := match l with [] => True | y :: r => wf_delem x pkg y /\ go r end) body
  | DEnum _ _ _ o vs => Forall wf_dopt o /\ Forall wf_dvalue vs
  | DService _ _ _ o ms => Forall wf_dopt o /\ Forall (wf_dmethod x pkg) ms
  end.
Fixpoint wf_delems (x : xsymtab) (pkg : qname) (l : list delem) : Prop :=
  match l with [] => True | y :: r => wf_delem x pkg y /\ wf_delems x pkg r end.
Lemma wf_delem_msg x pkg k c n o body :
  wf_delem x pkg (DMsg k c n o body) <-> Forall wf_dopt o /\ wf_delems x pkg body.
Proof.
  cbn [wf_delem].
  assert (E : forall l, (fix go (l : list delem) : Prop := match l with [] => True | y :: r => wf_delem x pkg y /\ go r end) l
                        <-> wf_delems x pkg l).
  { induction l as [|y r IH]; [tauto|]. cbn [wf_delems]. rewrite IH. tauto. }
  rewrite E. tauto.
Qed.

Lemma wf_delems_In x pkg l : wf_delems x pkg l -> forall e, In e l -> wf_delem x pkg e.
Proof. induction l as [|y r IH]; intros H e He; [destruct He|]. destruct H as [Hy Hr]. destruct He as [->|He]; auto. Qed.

Lemma sorted_by_In {A} (k : A -> key3) (l : list A) x : In x (sorted_by k l) <-> In x l.
Proof. unfold sorted_by. apply isort_In. Qed.

Lemma interp_elems_map x pkg ctx (f : delem -> selem) (g : N -> delem -> delem) :
  forall l i, (forall j e, In e l -> interp_elem x pkg ctx j (f e) = Some (g j e)) ->
  interp_elems x pkg ctx i (map f l) = Some (number_from g i l).
Proof.
  induction l as [|e r IH]; intros i H; [reflexivity|]. cbn [map interp_elems number_from].
  rewrite (H i e (or_introl eq_refl)). rewrite IH; [reflexivity|]. intros j y Hy. apply H. right; exact Hy.
Qed.

Theorem interp_lay_elem x st pkg : same_tab st (to_symtab x) -> flat_unique x ->
  forall n e ctx i, (ddepth e <= n)%nat -> wf_delem x pkg e ->
  interp_elem x pkg ctx i (lay_elem st pkg ctx e) = Some (set_key i (canon_elem e)).
Proof.
  intros Hs Hu. induction n as [|n IH]; intros e ctx i Hn Hw; [pose proof (ddepth_pos e); lia|].
  destruct e as [f|k c nm o fs|k c nm o body|k c nm o vs|k c nm o ms].
  - cbn [lay_elem interp_elem canon_elem set_key]. rewrite (interp_field_lay x st pkg ctx false i f Hs Hu Hw) by discriminate.
    reflexivity.
  - destruct Hw as [Ho Hf]. cbn [lay_elem interp_elem canon_elem set_key].
    rewrite (interp_lay_sopts _ Ho). rewrite (interp_lay_fields x st pkg ctx fs Hs Hu Hf). reflexivity.
  - apply wf_delem_msg in Hw. destruct Hw as [Ho Hb].
    rewrite lay_elem_msg, interp_elem_msg, canon_elem_msg. cbn [set_key].
    rewrite (interp_lay_sopts _ Ho). rewrite lay_body_eq.
    rewrite (interp_elems_map x pkg (ctx ++ [nm]) (lay_elem st pkg (ctx ++ [nm])) (fun j e => set_key j (canon_elem e))).
    + reflexivity.
    + intros j e He. apply sorted_by_In in He. apply IH; [|exact (wf_delems_In x pkg body Hb e He)].
      change (ddepth (DMsg k c nm o body)) with (S (ddepths body)) in Hn. pose proof (ddepths_In body e He). lia.
  - destruct Hw as [Ho Hv]. cbn [lay_elem interp_elem canon_elem set_key].
    rewrite (interp_lay_sopts _ Ho). rewrite lay_values_eq.
    rewrite interp_values_map by (apply Forall_isort; exact Hv). reflexivity.
  - destruct Hw as [Ho Hm]. cbn [lay_elem interp_elem canon_elem set_key].
    rewrite (interp_lay_sopts _ Ho). rewrite lay_methods_eq.
    rewrite (interp_methods_map x st pkg nm Hs Hu) by (apply Forall_isort; exact Hm). reflexivity.
Qed.

Lemma interp_lay_body x st pkg ctx body : same_tab st (to_symtab x) -> flat_unique x -> wf_delems x pkg body ->
  interp_elems x pkg ctx 1 (lay_body st pkg ctx body) = Some (canon_body body).
Proof.
  intros Hs Hu Hw. rewrite lay_body_eq. unfold canon_body. apply interp_elems_map.
  intros j e He. apply sorted_by_In in He.
  apply (interp_lay_elem x st pkg Hs Hu (ddepth e)); [lia|exact (wf_delems_In x pkg body Hw e He)].
Qed.

(* ---- laying out the canonical form gives the same syntactic element *)
Lemma ekey_set_key j e : line_of (ekey (set_key j e)) = j.
Proof. destruct e; reflexivity. Qed.

Lemma sorted_canon_body body : sorted_by ekey (canon_body body) = canon_body body.
Proof. unfold canon_body. apply (sorted_numbered (fun j e => set_key j (canon_elem e)) ekey). intros j a. apply ekey_set_key. Qed.

Theorem lay_canon_elem st pkg : forall n e ctx i, (ddepth e <= n)%nat ->
  lay_elem st pkg ctx (set_key i (canon_elem e)) = lay_elem st pkg ctx e.
Proof.
  induction n as [|n IH]; intros e ctx i Hn; [pose proof (ddepth_pos e); lia|].
  destruct e as [f|k c nm o fs|k c nm o body|k c nm o vs|k c nm o ms].
  - cbn [canon_elem set_key lay_elem]. f_equal. exact (lay_canon_field st pkg ctx false i f).
  - cbn [canon_elem set_key lay_elem]. rewrite lay_canon_sopts, lay_canon_fields. reflexivity.
  - rewrite canon_elem_msg. cbn [set_key]. rewrite !lay_elem_msg. rewrite lay_canon_sopts. f_equal.
    rewrite !lay_body_eq. rewrite sorted_canon_body. unfold canon_body.
    apply number_from_map_in. intros j e He. apply sorted_by_In in He. apply IH.
    change (ddepth (DMsg k c nm o body)) with (S (ddepths body)) in Hn. pose proof (ddepths_In body e He). lia.
  - cbn [canon_elem set_key lay_elem]. rewrite lay_canon_sopts. f_equal. rewrite !lay_values_eq. unfold canon_values.
    rewrite (sorted_numbered canon_value vkey) by reflexivity. apply number_from_map. intros j v. apply lay_canon_value.
  - cbn [canon_elem set_key lay_elem]. rewrite lay_canon_sopts. f_equal. rewrite !lay_methods_eq. unfold canon_methods.
    rewrite (sorted_numbered canon_method mkey) by reflexivity. apply number_from_map. intros j m. apply lay_canon_method.
Qed.

Lemma lay_canon_body st pkg ctx body : lay_body st pkg ctx (canon_body body) = lay_body st pkg ctx body.
Proof.
  rewrite !lay_body_eq. rewrite sorted_canon_body. unfold canon_body.
  apply number_from_map_in. intros j e _. apply (lay_canon_elem st pkg (ddepth e)). lia.
Qed.

(* ---- the laid-out element is well-formed for the parser *)
Theorem lay_elem_wf st pkg x : forall n e ctx, (ddepth e <= n)%nat -> wf_delem x pkg e -> wf_elem (lay_elem st pkg ctx e).
Proof.
  induction n as [|n IH]; intros e ctx Hn Hw; [pose proof (ddepth_pos e); lia|].
  destruct e as [f|k c nm o fs|k c nm o body|k c nm o vs|k c nm o ms].
  - cbn [lay_elem wf_elem]. apply (lay_field_wf st pkg ctx x). exact Hw.
  - destruct Hw as [Ho Hf]. cbn [lay_elem wf_elem]. split; [apply lay_sopts_wf; exact Ho|apply (lay_fields_wf st pkg ctx x); exact Hf].
  - apply wf_delem_msg in Hw. destruct Hw as [Ho Hb]. rewrite lay_elem_msg. cbn [wf_elem].
    split; [apply lay_sopts_wf; exact Ho|]. change (wf_elems (lay_body st pkg (ctx ++ [nm]) body)).
    rewrite lay_body_eq.
    assert (G : forall l, (forall e, In e l -> In e body) -> wf_elems (map (lay_elem st pkg (ctx ++ [nm])) l)).
    { induction l as [|e r IHr]; intro Hin; [exact I|]. cbn [map wf_elems]. split.
      - apply IH; [|apply (wf_delems_In x pkg body Hb); apply Hin; left; reflexivity].
        change (ddepth (DMsg k c nm o body)) with (S (ddepths body)) in Hn.
        pose proof (ddepths_In body e (Hin e (or_introl eq_refl))). lia.
      - apply IHr. intros y Hy. apply Hin. right; exact Hy. }
    apply G. intros e He. apply sorted_by_In in He. exact He.
  - destruct Hw as [Ho Hv]. cbn [lay_elem wf_elem]. split; [apply lay_sopts_wf; exact Ho|].
    rewrite lay_values_eq. rewrite Forall_forall. intros s Hs. apply in_map_iff in Hs as (v & <- & Hv').
    apply lay_value_wf. apply sorted_by_In in Hv'. rewrite Forall_forall in Hv. apply Hv. exact Hv'.
  - destruct Hw as [Ho Hm]. cbn [lay_elem wf_elem]. split; [apply lay_sopts_wf; exact Ho|].
    rewrite lay_methods_eq. rewrite Forall_forall. intros s Hs. apply in_map_iff in Hs as (m & <- & Hm').
    apply (lay_method_wf st pkg nm x). apply sorted_by_In in Hm'. rewrite Forall_forall in Hm. apply Hm. exact Hm'.
Qed.

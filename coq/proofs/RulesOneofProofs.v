(* RulesOneofProofs.v — C12 for the options of a oneof: the modelled validator, on the
   compiled members (fields with presence), returns a verdict and accepts iff every member
   satisfies its declared meaning (RulesOneof.member_sem). Reduction to the flat theorem:
   a member behaves like the same property declared optional, except that `required`
   rejects the message in which it is not set. *)
From Coq Require Import String List NArith ZArith Bool Lia.
From J5V.lib Require Import Outcome.
From J5V.gen Require Id62Gen.
From J5V.model Require Import RulesDecl RulesWrite RulesSpec Validate RulesSpecDec RulesOneof.
From J5V.proofs Require Import RulesProofs RulesDecides.
Import ListNotations.

Section Oneof.
Variable re_ok : str -> bool.
Variable re_match : str -> str -> bool.
Variable pat_sem : str -> str -> Prop.
Hypothesis re_dec : forall p s, re_match p s = true <-> pat_sem p s.
Hypothesis re_id62_ok : re_ok Id62Gen.pattern_string = true.
Hypothesis re_id62 : forall s, re_match Id62Gen.pattern_string s = id62_ok s.
Variable env : enum_env.
Hypothesis Hwf : wf_env env = true.

Local Notation vsem := (validate_sem re_ok re_match (defined_numbers env)).

(* a member and the same property declared optional: the same verdicts, except for `required` on an absent member *)
Lemma member_as_optional idx d o fv :
  member_decl d = true -> write_prop env idx d = Ok o ->
  (fv = FAbsent \/ exists v, fv = FOne v) ->
  exists o', write_prop env idx (as_optional d) = Ok o' /\
    vsem (as_member o) fv =
    match fv with
    | FAbsent => if p_req d then (if negb (field_compiles re_ok o') then VError ECompile else VReject) else vsem o' fv
    | _ => vsem o' fv
    end.
Proof.
  intros Hm Hw Hfv. destruct d as [name req opt ty desc]. unfold member_decl in Hm. cbn [p_ty p_opt] in Hm.
  destruct ty as [t| |]; try discriminate. apply andb_true_iff in Hm as [Hopt Hprim].
  apply negb_true_iff in Hopt, Hprim. subst opt.
  unfold write_prop in Hw. cbn [p_ty p_req p_opt p_name p_desc] in Hw.
  apply obind_ok in Hw as [w [Hwf0 Hw]].
  assert (Hk : match fw_key w with Some k => kx_primary k | None => false end = false).
  { destruct t; cbn [write_field] in Hwf0;
      try (inversion Hwf0; subst w; reflexivity);
      try (apply obind_ok in Hwf0 as [x [_ Hx]]; inversion Hx; subst w; cbn [fw_key]; try reflexivity).
    - destruct e as [[[[[|]|pp ee]|] tn]|]; cbn in Hprim |- *; try reflexivity; discriminate.
    - destruct rules; [discriminate|]. inversion Hwf0. reflexivity. }
  rewrite Hk, orb_false_r, andb_false_l in Hw. inversion Hw; subst o; clear Hw.
  unfold as_optional, write_prop. cbn [p_ty p_req p_opt p_name p_desc]. rewrite Hwf0. cbn [obind].
  rewrite Hk. cbn [orb andb]. eexists. split; [reflexivity|].
  unfold validate_sem, as_member, field_compiles, got, populated, has_presence, field_presence.
  cbn [fo_val fo_pres fo_kind orb].
  destruct req.
  - destruct (fw_val w) as [c|]; cbn [set_required c_ty c_req].
    + destruct (match c_ty c with Some t0 => tyc_compiles re_ok t0 | None => true end); cbn [negb];
        destruct Hfv as [->|[v ->]]; cbn [negb andb]; rewrite ?andb_false_r; reflexivity.
    + destruct Hfv as [->|[v ->]]; cbn [negb andb]; rewrite ?andb_false_r; reflexivity.
  - destruct Hfv as [->|[v ->]]; cbn [negb andb]; rewrite ?andb_false_r; reflexivity.
Qed.

Lemma evaluable_as_optional d : evaluable re_ok (as_optional d) = evaluable re_ok d.
Proof. reflexivity. Qed.

Theorem c12_member idx d o fv :
  member_decl d = true -> evaluable re_ok d = true ->
  write_prop env idx d = Ok o -> fvalue_typed d fv = true ->
  decides (vsem (as_member o) fv) (member_sem pat_sem env d fv).
Proof.
  intros Hm Hev Hw Hty.
  assert (Hshape : fv = FAbsent \/ exists v, fv = FOne v).
  { unfold member_decl in Hm. unfold fvalue_typed in Hty. destruct (p_ty d); try discriminate.
    destruct fv; try discriminate; eauto. }
  destruct (member_as_optional idx d o fv Hm Hw Hshape) as [o' [Hw' Hv]].
  assert (Hkp : key_placement_ok (as_optional d) = true).
  { unfold member_decl in Hm. unfold key_placement_ok, as_optional. cbn [p_ty]. destruct (p_ty d); try discriminate. reflexivity. }
  assert (Hty' : fvalue_typed (as_optional d) fv = true).
  { unfold fvalue_typed, as_optional in *. cbn [p_ty p_opt]. destruct (p_ty d), fv; try discriminate; try exact Hty. reflexivity. }
  pose proof (c12_main re_ok re_match pat_sem re_dec re_id62_ok re_id62 env idx (as_optional d) o' fv Hwf Hkp Hev Hw' Hty') as Hmain.
  rewrite Hv. unfold member_sem.
  assert (Hc : field_compiles re_ok o' = true).
  { rewrite (write_prop_compiles re_ok re_id62_ok env idx (as_optional d) o' Hw').
    unfold evaluable in Hev. apply andb_true_iff in Hev as [Hp _]. exact Hp. }
  rewrite Hc. cbn [negb].
  destruct Hshape as [->|[v ->]].
  - destruct (p_req d).
    + split; split; intro H; try discriminate; try reflexivity.
      * destruct H as [H0 _]. specialize (H0 eq_refl). discriminate.
      * intros [H0 _]. specialize (H0 eq_refl). discriminate.
    + apply (decides_iff _ (rule_sem pat_sem env (as_optional d) FAbsent)); [|exact Hmain].
      split; [intro H; split; [reflexivity|exact H]|intros [_ H]; exact H].
  - apply (decides_iff _ (rule_sem pat_sem env (as_optional d) (FOne v))); [|exact Hmain].
    split; [intro H; split; [discriminate|exact H]|intros [_ H]; exact H].
Qed.

Theorem c12_members : forall ds idx os fvs,
  forallb member_decl ds = true -> forallb (evaluable re_ok) ds = true ->
  write_props_from env idx ds = Ok os -> typed_obj ds fvs = true ->
  decides (validate_obj re_ok re_match (defined_numbers env) (map as_member os) fvs) (member_obj pat_sem env ds fvs).
Proof.
  unfold member_obj.
  induction ds as [|d r IH]; intros idx os fvs Hm Hev Hw Hty; cbn in Hw.
  - inversion Hw; subst. destruct fvs; [|discriminate]. cbn.
    apply (decides_iff _ True); [split; [constructor|exact (fun _ => I)]|exact decides_accept].
  - apply obind_ok in Hw as [o [Ho Hw]]. apply obind_ok in Hw as [os' [Hos Hw]]. inversion Hw; subst os.
    destruct fvs as [|v s]; [discriminate|].
    cbn [typed_obj] in Hty. apply andb_true_iff in Hty as [Hv Hs].
    cbn [forallb] in Hm, Hev. apply andb_true_iff in Hm as [Hm1 Hm2]. apply andb_true_iff in Hev as [He1 He2].
    cbn [map validate_obj].
    apply (decides_iff _ (member_sem pat_sem env d v /\ Forall2 (member_sem pat_sem env) r s)).
    + split; [intros [H1 H2]; constructor; assumption|intro H; inversion H; auto].
    + apply decides_vworst; [exact (c12_member idx d o v Hm1 He1 Ho Hv)|exact (IH (idx + 1)%N os' s Hm2 He2 Hos Hs)].
Qed.

End Oneof.

Section OneofDecide.
Variable re_match : str -> str -> bool.
Variable pat_sem : str -> str -> Prop.
Hypothesis re_dec : forall p s, re_match p s = true <-> pat_sem p s.
Variable env : enum_env.

Lemma member_semb_spec d fv : member_semb re_match env d fv = true <-> member_sem pat_sem env d fv.
Proof.
  unfold member_semb, member_sem. rewrite andb_true_iff, (rule_semb_spec re_match pat_sem re_dec env).
  split; intros [H1 H2]; split; try exact H2.
  - intros ->. apply negb_true_iff in H1. exact H1.
  - destruct fv; try reflexivity. rewrite (H1 eq_refl). reflexivity.
Qed.

Lemma member_objb_spec ds : forall fvs, member_objb re_match env ds fvs = true <-> member_obj pat_sem env ds fvs.
Proof.
  unfold member_obj. induction ds as [|d r IH]; intros [|v s]; cbn [member_objb].
  - split; [constructor|reflexivity].
  - split; [discriminate|intro H; inversion H].
  - split; [discriminate|intro H; inversion H].
  - rewrite andb_true_iff, member_semb_spec, IH. split; [intros [H1 H2]; constructor; assumption|intro H; inversion H; auto].
Qed.
End OneofDecide.

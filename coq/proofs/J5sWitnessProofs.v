(* J5sWitnessProofs.v — concrete valid packages on which the faithful model (and the real
   compiler: corpus cases of the same name in harness/j5sgen/corpus.go) violates C02 / C13. *)
From Coq Require Import String List NArith Bool.
From J5V.lib Require Import Outcome Corr Strcase.
From J5V.model Require Import J5sAst Desc J5sWalk J5sLink J5sConvert J5sContract J5sValid J5sEdit J5sCorr.
Import ListNotations.
Local Open Scope N_scope.

Definition valid (bd : bundle) : bool := valid_bundle to_snake to_camel bd.

Definition sfield (n : string) : property := Property (b n) false false (FScalar SString).
Definition foo_v1 : list str := [b "foo"; b "v1"].

(* object Foo { field foo object { field y string } } *)
Definition w_named_like_parent : bundle :=
  [BJ (mkJfile foo_v1 (b "a") []
     [EObject (b "Foo")
        (mkprops [Property (b "foo") false false (FObjInline [] (mkprops [sfield "y"]))]) NNil])].

Lemma named_like_parent_rejected :
  valid w_named_like_parent = true /\
  compile w_named_like_parent (b "foo.v1") = Err "unknown type: resolved to a name which is not defined".
Proof. split; vm_compute; reflexivity. Qed.

(* object Foo { field x object { field q string }  object Foo { object X { field other string } } } *)
Definition w_captured : bundle :=
  [BJ (mkJfile foo_v1 (b "a") []
     [EObject (b "Foo")
        (mkprops [Property (b "x") false false (FObjInline [] (mkprops [sfield "q"]))])
        (mknesteds [NObject (b "Foo") PNil (mknesteds [NObject (b "X") (mkprops [sfield "other"]) NNil])])])].

Definition first_field_tname (D : list dfile) : str :=
  match D with
  | f :: _ => match fl_msgs f with
              | m :: _ => match dm_fields m with df :: _ => f_tname df | [] => [] end
              | [] => []
              end
  | [] => []
  end.

(* the field's declared type is the inline object foo.v1.Foo.X; it resolves to foo.v1.Foo.Foo.X *)
Lemma captured_silently :
  valid w_captured = true /\
  exists D, compile w_captured (b "foo.v1") = Ok D /\
            first_field_tname D = b ".foo.v1.Foo.Foo.X" /\
            first_field_tname D <> abs_name (b "foo.v1") [b "Foo"; b "X"].
Proof.
  split; [vm_compute; reflexivity|]. eexists. split; [vm_compute; reflexivity|].
  split; [vm_compute; reflexivity|]. vm_compute. discriminate.
Qed.

(* C13: object Foo { field x object {} } compiles; appending `field foo object {}` (a valid
   package again) does not: an existing field's type no longer resolves *)
Definition w_before : bundle :=
  [BJ (mkJfile foo_v1 (b "a") []
     [EObject (b "Foo") (mkprops [Property (b "x") false false (FObjInline [] PNil)]) NNil])].
Definition w_edit : list edit := [EAppendField 0 0 (Property (b "foo") false false (FObjInline [] PNil))].

Lemma append_breaks_existing :
  valid w_before = true /\ valid (apply_edits w_before w_edit) = true /\
  is_ok (compile w_before (b "foo.v1")) = true /\
  is_err (compile (apply_edits w_before w_edit) (b "foo.v1")) = true.
Proof. repeat split; vm_compute; reflexivity. Qed.

Lemma full_statement_refuted :
  ~ (forall bd es pkg D,
       valid bd = true -> valid (apply_edits bd es) = true ->
       compile bd pkg = Ok D ->
       exists D', compile (apply_edits bd es) pkg = Ok D' /\ files_ext D D').
Proof.
  intros H. destruct append_breaks_existing as (V & V' & Hok & Herr).
  destruct (compile w_before (b "foo.v1")) as [D| | |] eqn:E; try discriminate.
  destruct (H w_before w_edit (b "foo.v1") D V V' E) as (D' & HD' & _).
  rewrite HD' in Herr. discriminate.
Qed.

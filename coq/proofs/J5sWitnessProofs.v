(* J5sWitnessProofs.v — concrete packages: the inputs of the defects found (all repaired; the
   same packages are corpus cases in harness/j5sgen/corpus.go and are replayed on the real
   compiler on every run) now compile to the declared contract. *)
From Coq Require Import String List NArith Bool.
From J5V.lib Require Import Outcome Corr Strcase.
From J5V.model Require Import J5sAst Desc J5sWalk J5sLink J5sConvert J5sContract J5sValid J5sEdit J5sCorr.
Import ListNotations.
Local Open Scope N_scope.


Definition sfield (n : string) : property := Property (b n) false false (FScalar SString).
Definition foo_v1 : list str := [b "foo"; b "v1"].

Definition first_field_tname (D : list dfile) : str :=
  match D with
  | f :: _ => match fl_msgs f with
              | m :: _ => match dm_fields m with df :: _ => f_tname df | [] => [] end
              | [] => []
              end
  | [] => []
  end.

(* object Foo { field foo object { field y string } }  (failed to link before fix 2ef7c92) *)
Definition w_named_like_parent : bundle :=
  [BJ (mkJfile foo_v1 (b "a") []
     [EObject (b "Foo")
        (mkprops [Property (b "foo") false false (FObjInline [] (mkprops [sfield "y"]))]) NNil])].

Lemma named_like_parent_compiles :
  valid w_named_like_parent = true /\
  exists D, compile w_named_like_parent (b "foo.v1") = Ok D /\
            first_field_tname D = abs_name (b "foo.v1") [b "Foo"; b "Foo"].
Proof. split; [vm_compute; reflexivity|]. eexists. split; vm_compute; reflexivity. Qed.

(* object Foo { field x object { field q string }  object Foo { object X { field other string } } }
   (field x silently got the type foo.v1.Foo.Foo.X before the fix) *)
Definition w_captured : bundle :=
  [BJ (mkJfile foo_v1 (b "a") []
     [EObject (b "Foo")
        (mkprops [Property (b "x") false false (FObjInline [] (mkprops [sfield "q"]))])
        (mknesteds [NObject (b "Foo") PNil (mknesteds [NObject (b "X") (mkprops [sfield "other"]) NNil])])])].

Lemma captured_resolves_to_declared :
  valid w_captured = true /\
  exists D, compile w_captured (b "foo.v1") = Ok D /\
            first_field_tname D = abs_name (b "foo.v1") [b "Foo"; b "X"].
Proof. split; [vm_compute; reflexivity|]. eexists. split; vm_compute; reflexivity. Qed.

(* C13: object Foo { field x object {} } + appended `field foo object {}` (broke field x before the fix) *)
Definition w_before : bundle :=
  [BJ (mkJfile foo_v1 (b "a") []
     [EObject (b "Foo") (mkprops [Property (b "x") false false (FObjInline [] PNil)]) NNil])].
Definition w_edit : list edit := [EAppendField 0 0 (Property (b "foo") false false (FObjInline [] PNil))].

Lemma append_keeps_existing :
  valid w_before = true /\ valid (apply_edits w_before w_edit) = true /\
  exists D D', compile w_before (b "foo.v1") = Ok D /\
               compile (apply_edits w_before w_edit) (b "foo.v1") = Ok D' /\
               first_field_tname D' = first_field_tname D /\
               first_field_tname D = abs_name (b "foo.v1") [b "Foo"; b "X"].
Proof.
  split; [vm_compute; reflexivity|]. split; [vm_compute; reflexivity|].
  eexists. eexists. repeat split; vm_compute; reflexivity.
Qed.

(* C13, regression (fix a65e1f2): enum Status {} compiles to STATUS_UNSPECIFIED = 0; before the fix the
   appended option OLD_UNSPECIFIED - then the FIRST option, and any first option ending in
   UNSPECIFIED was taken as the zero value - renamed value 0 to STATUS_OLD_UNSPECIFIED.  Now it is
   option number 1 and the old descriptors embed. *)
Definition w_empty_enum : bundle :=
  [BJ (mkJfile foo_v1 (b "a") [] [EEnum (mkEnum (b "Status") [] [])])].
Definition w_empty_enum_edit : list edit := [EAppendOption 0 0 (b "OLD_UNSPECIFIED")].

Definition zero_value (D : list dfile) : option (str * N) :=
  match D with
  | f :: _ => match fl_enums f with e :: _ => hd_error (en_vals e) | [] => None end
  | [] => None
  end.

Lemma append_to_empty_enum_keeps_zero :
  valid w_empty_enum = true /\ valid (apply_edits w_empty_enum w_empty_enum_edit) = true /\
  exists D D', compile w_empty_enum (b "foo.v1") = Ok D /\
               compile (apply_edits w_empty_enum w_empty_enum_edit) (b "foo.v1") = Ok D' /\
               zero_value D = Some (b "STATUS_UNSPECIFIED", 0) /\
               map en_vals (flat_map fl_enums D') = [[(b "STATUS_UNSPECIFIED", 0); (b "STATUS_OLD_UNSPECIFIED", 1)]] /\
               files_ext_b D D' = true.
Proof.
  split; [vm_compute; reflexivity|]. split; [vm_compute; reflexivity|].
  eexists. eexists. repeat split; vm_compute; reflexivity.
Qed.

(* C02, regression (fix a65e1f2): enum Status { option OLD_UNSPECIFIED  option ACTIVE } - the first option
   ends in UNSPECIFIED under a name of its own.  Before the fix it was taken as the zero value
   (STATUS_OLD_UNSPECIFIED = 0, STATUS_ACTIVE = 1: no STATUS_UNSPECIFIED, options numbered from 0);
   now it is an ordinary option after the implicit zero value. *)
Definition w_named_zero : bundle :=
  [BJ (mkJfile foo_v1 (b "a") [] [EEnum (mkEnum (b "Status") [] [b "OLD_UNSPECIFIED"; b "ACTIVE"])])].

Lemma named_zero_numbered_after_zero :
  valid w_named_zero = true /\
  exists D, compile w_named_zero (b "foo.v1") = Ok D /\
    map en_vals (flat_map fl_enums D) =
      [[(b "STATUS_UNSPECIFIED", 0); (b "STATUS_OLD_UNSPECIFIED", 1); (b "STATUS_ACTIVE", 2)]].
Proof.
  split; [vm_compute; reflexivity|]. eexists. split; vm_compute; reflexivity.
Qed.

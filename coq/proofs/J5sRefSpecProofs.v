(* J5sRefSpecProofs.v — the reference clause of validity, J5sValid.ref_is (it runs the model's
   resolver: importMap.expand + implicitImports + Package.ResolveType), holds exactly when the
   declarative condition J5sRefSpec.ref_declared does: soundness and completeness in one
   statement, "the last import line wins" included.  Hypotheses: the import lines are
   well-formed (import_map succeeds: part of validity) and the exported names of every package
   are distinct (part of validity). *)
From Coq Require Import String List NArith Bool Lia.
From J5V.lib Require Import Outcome Corr.
From J5V.model Require Import J5sAst Desc J5sWalk J5sLink J5sConvert J5sContract J5sValid J5sRefSpec.
From J5V.proofs Require Import J5sProofs J5sContractProofs J5sResolveProofs J5sExtProofs.
Import ListNotations.
Local Open Scope N_scope.

Lemma str_eqb_sym x y : str_eqb x y = str_eqb y x.
Proof.
  destruct (str_eqb x y) eqn:E.
  - apply str_eqb_eq in E. subst. symmetry. apply str_eqb_refl.
  - destruct (str_eqb y x) eqn:E'; [|reflexivity]. apply str_eqb_eq in E'. subst. rewrite str_eqb_refl in E. discriminate.
Qed.

Lemma import_key_b_spec i k : import_key_b i k = true <-> import_key i k.
Proof.
  unfold import_key_b, import_key. destruct (existsb (fun c => c =? 47) (i_path i)).
  - apply str_eqb_eq.
  - destruct (i_alias i) as [|a al].
    + rewrite orb_true_iff, str_eqb_eq. destruct (last_but_one (i_path i)) as [w|].
      * rewrite str_eqb_eq. split; (intros [H|H]; [left; exact H|right]); [subst; reflexivity|inversion H; reflexivity].
      * split; (intros [H|H]; [left; exact H|discriminate]).
    + apply str_eqb_eq.
Qed.

Lemma find_snoc {A} (p : A -> bool) l x :
  find p (l ++ [x]) = match find p l with Some y => Some y | None => if p x then Some x else None end.
Proof. induction l as [|a r IH]; cbn; [reflexivity|]. destruct (p a); [reflexivity|exact IH]. Qed.

(* what one import line adds to the alias map for the key k *)
Lemma import_map_step i r acc im k :
  import_map (i :: r) acc = Ok im ->
  exists acc', import_map r acc' = Ok im /\
    assoc k acc' = if import_key_b i k then Some (import_pkg i) else assoc k acc.
Proof.
  cbn [import_map]. destruct (i_path i) as [|c0 p0] eqn:Ep; [discriminate|]. rewrite <- Ep.
  unfold import_key_b, import_pkg.
  change (existsb (fun c => c =? 47) (i_path i)) with (contains_slash (i_path i)).
  destruct (contains_slash (i_path i)) eqn:Es.
  - intros H. eexists. split; [exact H|]. cbn [assoc]. rewrite (str_eqb_sym k (package_from_filename (i_path i))). reflexivity.
  - destruct (i_alias i) as [|a0 al] eqn:Ea.
    + unfold last_but_one. destruct (rev (split 46 (i_path i))) as [|s1 [|wv s2]] eqn:Er; try discriminate.
      intros H. eexists. split; [exact H|]. cbn [assoc]. rewrite (str_eqb_sym k (i_path i)), (str_eqb_sym k wv).
      destruct (str_eqb (i_path i) k); [reflexivity|]. cbn [orb]. destruct (str_eqb wv k); reflexivity.
    + intros H. eexists. split; [exact H|]. cbn [assoc]. rewrite (str_eqb_sym k (a0 :: al)). reflexivity.
Qed.

(* the alias map answers a prefix with the package of the LAST import line that claims it *)
Lemma import_map_last l : forall acc im k, import_map l acc = Ok im ->
  assoc k im = match find (fun i => import_key_b i k) (rev l) with
               | Some i => Some (import_pkg i)
               | None => assoc k acc
               end.
Proof.
  induction l as [|i r IH]; intros acc im k H.
  - cbn in H. inversion H. reflexivity.
  - destruct (import_map_step i r acc im k H) as (acc' & Hr & Ha).
    rewrite (IH acc' im k Hr). cbn [rev]. rewrite find_snoc.
    destruct (find (fun i0 => import_key_b i0 k) (rev r)); [reflexivity|]. rewrite Ha.
    destruct (import_key_b i k); reflexivity.
Qed.

Corollary import_map_for imports im k : import_map imports [] = Ok im ->
  assoc k im = option_map import_pkg (import_for imports k).
Proof.
  intros H. rewrite (import_map_last imports [] im k H). unfold import_for.
  destruct (find _ _); reflexivity.
Qed.

(* the implicit table *)
Lemma implicit_ref_complete tbl pkg name file :
  In (pkg, name, file) tbl -> exists t, implicit_ref tbl pkg name = Some t /\ tr_enum t = false.
Proof.
  induction tbl as [|[[p n] f] r IH]; intros Hin; [destruct Hin|]. cbn [implicit_ref].
  destruct (str_eqb p pkg && str_eqb n name) eqn:E; [eexists; split; reflexivity|].
  destruct Hin as [Heq|Hin]; [|apply IH; exact Hin].
  inversion Heq. subst. rewrite !str_eqb_refl in E. discriminate.
Qed.

Lemma implicit_ref_none pkg name : implicit_ref implicit_table pkg name = None <-> ~ implicit_type pkg name.
Proof.
  split.
  - intros H (file & Hin). destruct (implicit_ref_complete _ _ _ _ Hin) as (t & Ht & _). congruence.
  - intros H. destruct (implicit_ref implicit_table pkg name) as [t|] eqn:E; [|reflexivity].
    exfalso. apply H. destruct (implicit_ref_sound _ _ _ _ E) as (Hin & _). exists (tr_file t). exact Hin.
Qed.

Lemma implicit_ref_some pkg name t : implicit_ref implicit_table pkg name = Some t ->
  implicit_type pkg name /\ tr_enum t = false.
Proof.
  intros E. destruct (implicit_ref_sound _ _ _ _ E) as (Hin & _ & _ & He). split; [exists (tr_file t); exact Hin|exact He].
Qed.

Section RefSpec.
Variables (this : str) (imports : list import) (im : list (str * str)) (exports : str -> option (list typeref)).
Hypothesis Him : import_map imports [] = Ok im.
Hypothesis Hdist : forall p ex, exports p = Some ex -> J5sValid.distinct (map tr_name ex) = true.

(* looking a name up in a package with distinct exported names = "a declaration of that name" *)
Lemma lookup_declared_iff pkg name we :
  (exists t, match exports pkg with
             | Some ex => match lookup_last name ex None with Some t0 => Ok t0 | None => Err "type not found" end
             | None => Err "package not loaded"
             end = Ok t /\ tr_enum t = we) <-> declared_in exports pkg name we.
Proof.
  unfold declared_in. split.
  - intros (t & H & Hk). destruct (exports pkg) as [ex|] eqn:Ee; [|discriminate].
    destruct (lookup_last name ex None) as [t0|] eqn:El; [|discriminate]. inversion H. subst t0.
    destruct (lookup_last_sound _ _ _ _ El) as [Hn|[Hi Hn]]; [discriminate|]. exists ex, t. auto.
  - intros (ex & t & He & Hin & Hn & Hk). exists t. rewrite He, <- Hn.
    rewrite (lookup_last_distinct ex None t (Hdist pkg ex He) Hin). split; [reflexivity|exact Hk].
Qed.

Lemma own_dec spec :
  ((match spec with [] => true | _ => false end) || str_eqb spec this = true <-> is_own this spec).
Proof.
  unfold is_own. rewrite orb_true_iff, str_eqb_eq. split; (intros [H|H]; [left|right; exact H]).
  - destruct spec; [reflexivity|discriminate].
  - subst. reflexivity.
Qed.

(* soundness and completeness of the reference clause of [valid] *)
Theorem ref_is_iff_declared r we :
  ref_is (mkEnv this im exports) r we = true <-> ref_declared this imports exports r we.
Proof.
  unfold ref_is, resolve, ref_declared. cbn [ev_this ev_imports ev_exports].
  set (look := fun pkg name =>
         match exports pkg with
         | Some ex => match lookup_last name ex None with Some t0 => Ok t0 | None => Err "type not found" end
         | None => Err "package not loaded"
         end).
  assert (Hlook : forall pkg, (match look pkg (r_name r) with Ok t => Bool.eqb (tr_enum t) we | _ => false end = true)
                               <-> declared_in exports pkg (r_name r) we).
  { intros pkg. rewrite <- lookup_declared_iff. fold (look pkg (r_name r)). split.
    - destruct (look pkg (r_name r)) as [t| | |]; try discriminate. intros H. exists t. split; [reflexivity|apply eqb_prop; exact H].
    - intros (t & -> & Hk). rewrite Hk. apply eqb_reflx. }
  destruct ((match r_pkg r with [] => true | _ => false end) || str_eqb (r_pkg r) this) eqn:Eown.
  - apply own_dec in Eown. fold (look this (r_name r)). rewrite Hlook. split.
    + intros H. left. split; assumption.
    + intros [[_ H]|[[Hn _]|[Hn _]]]; [exact H|contradiction|contradiction].
  - assert (Hnown : ~ is_own this (r_pkg r)) by (intros H; apply own_dec in H; congruence).
    destruct (implicit_ref implicit_table (r_pkg r) (r_name r)) as [ti|] eqn:Ei.
    + destruct (implicit_ref_some _ _ _ Ei) as [Hty He]. rewrite He. split.
      * intros H. right. left. split; [exact Hnown|]. split; [exact Hty|]. destruct we; [discriminate|reflexivity].
      * intros [[Ho _]|[(_ & _ & Hw)|(_ & Hn & _)]]; [contradiction|subst; reflexivity|contradiction].
    + pose proof (proj1 (implicit_ref_none _ _) Ei) as Hnimp.
      rewrite (import_map_for imports im (r_pkg r) Him).
      destruct (import_for imports (r_pkg r)) as [i|] eqn:Ef; cbn [option_map].
      * destruct (implicit_ref implicit_table (import_pkg i) (r_name r)) as [ti|] eqn:Ei2.
        -- destruct (implicit_ref_some _ _ _ Ei2) as [Hty He]. rewrite He. split.
           ++ intros H. right. right. split; [exact Hnown|]. split; [exact Hnimp|]. exists i. split; [reflexivity|].
              left. split; [exact Hty|]. destruct we; [discriminate|reflexivity].
           ++ intros [[Ho _]|[(_ & Hy & _)|(_ & _ & j & Hj & Hc)]]; [contradiction|contradiction|].
              inversion Hj. subst j. destruct Hc as [[_ Hw]|[Hn _]]; [subst; reflexivity|contradiction].
        -- pose proof (proj1 (implicit_ref_none _ _) Ei2) as Hnimp2.
           fold (look (import_pkg i) (r_name r)). rewrite Hlook. split.
           ++ intros H. right. right. split; [exact Hnown|]. split; [exact Hnimp|]. exists i. split; [reflexivity|].
              right. split; assumption.
           ++ intros [[Ho _]|[(_ & Hy & _)|(_ & _ & j & Hj & Hc)]]; [contradiction|contradiction|].
              inversion Hj. subst j. destruct Hc as [[Hy _]|[_ H]]; [contradiction|exact H].
      * split; [discriminate|].
        intros [[Ho _]|[(_ & Hy & _)|(_ & _ & j & Hj & _)]]; [contradiction|contradiction|discriminate].
Qed.

End RefSpec.

(* ------------------------------------------------------------------ composed with validity *)
From J5V.proofs Require Import J5sCompileProofs J5sTotalProofs J5sPkgExtProofs.

Section WithValid.
Variables snake camel screaming : str -> str.

Lemma valid_distinct_exports bd :
  valid_bundle snake camel screaming bd = true ->
  forall p l, pkg_exports camel bd p = Some l -> J5sValid.distinct (map tr_name l) = true.
Proof.
  intros Hv p l Hl. unfold valid_bundle in Hv. apply andb_true_iff in Hv. destruct Hv as [Hv _].
  apply andb_true_iff in Hv. destruct Hv as [Hv _].
  apply andb_true_iff in Hv. destruct Hv as [_ Hv]. rewrite forallb_forall in Hv.
  unfold pkg_exports in Hl. destruct (pkg_files bd p) as [|y r] eqn:E; [discriminate|].
  assert (Hin : In y (pkg_files bd p)) by (rewrite E; left; reflexivity).
  apply in_pkg_files_iff in Hin. destruct Hin as [Hy Hpy].
  specialize (Hv (bfile_pkg y) (in_map bfile_pkg _ _ Hy)). rewrite Hpy in Hv. unfold pkg_exports in Hv. rewrite E in Hv.
  inversion Hl. subst l. exact Hv.
Qed.

(* in a valid bundle, for every source file: the import lines are well-formed, and the
   reference clause of validity - evaluated in the file's environment - is the declarative
   condition, for every reference and kind *)
Theorem valid_reference_clause bd f :
  valid_bundle snake camel screaming bd = true -> In (BJ f) bd ->
  exists im, import_map (jf_imports f) [] = Ok im /\
    forall r we, ref_is (mkEnv (j5s_pkg f) im (pkg_exports camel bd)) r we = true <->
                 ref_declared (j5s_pkg f) (jf_imports f) (pkg_exports camel bd) r we.
Proof.
  intros Hv Hf. pose proof (valid_files snake camel screaming bd Hv f Hf) as Hvf.
  unfold valid_file in Hvf. apply andb_true_iff in Hvf. destruct Hvf as [_ Hvf].
  destruct (import_map (jf_imports f) []) as [im| | |] eqn:Ei; try discriminate.
  exists im. split; [reflexivity|]. intros r we.
  apply ref_is_iff_declared; [exact Ei|]. exact (valid_distinct_exports bd Hv).
Qed.

End WithValid.

(* ProtoPrintFileFullProofs.v — the whole-file theorems of C05 at token level:
   for every well-formed descriptor D (any nesting depth, any option trees)
     parse_file_tokens imp (print_file_tokens st D) = Some (canon_file D),
     D and canon_file D are equivalent descriptors (same content, bodies and option lists permuted),
     print_file_tokens st' (canon_file D) = print_file_tokens st D. *)
From Coq Require Import String List Arith NArith ZArith Bool Lia ZifyN ZifyNat ZifyBool Permutation.
From J5V.lib Require Import Outcome Corr.
From J5V.model Require Import ProtoPrintLit ProtoPrint ProtoPrintFile ProtoParseFile.
From J5V.proofs Require Import ProtoPrintLitProofs ProtoPrintProofs ProtoPrintFileSyntaxProofs ProtoPrintFileSortProofs
  ProtoPrintFileSemProofs.
Import ListNotations.
Local Open Scope N_scope.

(* ------------------------------------------------------------------ the types a file declares *)
Lemma selem_types_msg prefix c n o body :
  selem_types prefix (SMsg c n o body) = (prefix ++ [n]) :: selems_types (prefix ++ [n]) body.
Proof.
  cbn [selem_types]. f_equal.
  induction body as [|y r IH]; [reflexivity|]. cbn [selems_types]. rewrite <- IH. reflexivity.
Qed.

Lemma delem_types_msg prefix k c n o body :
  delem_types prefix (DMsg k c n o body) = (prefix ++ [n]) :: delems_types (prefix ++ [n]) body.
Proof.
  cbn [delem_types]. f_equal.
  induction body as [|y r IH]; [reflexivity|]. cbn [delems_types]. rewrite <- IH. reflexivity.
Qed.

Lemma In_selems_types prefix l p : In p (selems_types prefix l) <-> exists e, In e l /\ In p (selem_types prefix e).
Proof.
  induction l as [|y r IH]; cbn [selems_types]; [split; [intros []|intros (e & [] & _)]|].
  rewrite in_app_iff, IH. split.
  - intros [H|(e & He & Hp)]; [exists y; split; [left; reflexivity|exact H]|exists e; split; [right; exact He|exact Hp]].
  - intros (e & [<-|He] & Hp); [left; exact Hp|right; exists e; split; assumption].
Qed.

Lemma In_delems_types prefix l p : In p (delems_types prefix l) <-> exists e, In e l /\ In p (delem_types prefix e).
Proof.
  induction l as [|y r IH]; cbn [delems_types]; [split; [intros []|intros (e & [] & _)]|].
  rewrite in_app_iff, IH. split.
  - intros [H|(e & He & Hp)]; [exists y; split; [left; reflexivity|exact H]|exists e; split; [right; exact He|exact Hp]].
  - intros (e & [<-|He] & Hp); [left; exact Hp|right; exists e; split; assumption].
Qed.

Lemma types_lay_elem st pkg : forall n e ctx prefix p, (ddepth e <= n)%nat ->
  (In p (selem_types prefix (lay_elem st pkg ctx e)) <-> In p (delem_types prefix e)).
Proof.
  induction n as [|n IH]; intros e ctx prefix p Hn; [pose proof (ddepth_pos e); lia|].
  destruct e as [f|k c nm o fs|k c nm o body|k c nm o vs|k c nm o ms]; try (cbn; tauto).
  rewrite lay_elem_msg, selem_types_msg, delem_types_msg. cbn [In].
  rewrite In_selems_types, In_delems_types, lay_body_eq.
  change (ddepth (DMsg k c nm o body)) with (S (ddepths body)) in Hn.
  split; (intros [H|(e & He & Hp)]; [left; exact H|right]).
  - apply in_map_iff in He as (d & <- & Hd). apply sorted_by_In in Hd. exists d. split; [exact Hd|].
    apply (IH d (ctx ++ [nm]) (prefix ++ [nm]) p); [pose proof (ddepths_In body d Hd); lia|exact Hp].
  - exists (lay_elem st pkg (ctx ++ [nm]) e). split.
    + apply in_map. apply sorted_by_In. exact He.
    + apply (IH e (ctx ++ [nm]) (prefix ++ [nm]) p); [pose proof (ddepths_In body e He); lia|exact Hp].
Qed.

Lemma types_lay_body st pkg ctx prefix body p :
  In p (selems_types prefix (lay_body st pkg ctx body)) <-> In p (delems_types prefix body).
Proof.
  rewrite In_selems_types, In_delems_types, lay_body_eq. split.
  - intros (e & He & Hp). apply in_map_iff in He as (d & <- & Hd). apply sorted_by_In in Hd. exists d. split; [exact Hd|].
    apply (types_lay_elem st pkg (ddepth d) d ctx prefix p); [lia|exact Hp].
  - intros (e & He & Hp). exists (lay_elem st pkg ctx e). split; [apply in_map; apply sorted_by_In; exact He|].
    apply (types_lay_elem st pkg (ddepth e) e ctx prefix p); [lia|exact Hp].
Qed.

Lemma types_canon_elem : forall n e prefix i p, (ddepth e <= n)%nat ->
  (In p (delem_types prefix (set_key i (canon_elem e))) <-> In p (delem_types prefix e)).
Proof.
  induction n as [|n IH]; intros e prefix i p Hn; [pose proof (ddepth_pos e); lia|].
  destruct e as [f|k c nm o fs|k c nm o body|k c nm o vs|k c nm o ms]; try (cbn; tauto).
  rewrite canon_elem_msg. cbn [set_key]. rewrite !delem_types_msg. cbn [In].
  rewrite !In_delems_types. unfold canon_body.
  change (ddepth (DMsg k c nm o body)) with (S (ddepths body)) in Hn.
  assert (G : forall l j, (forall e, In e l -> In e body) ->
    ((exists e, In e (number_from (fun j e => set_key j (canon_elem e)) j l) /\ In p (delem_types (prefix ++ [nm]) e))
     <-> (exists e, In e l /\ In p (delem_types (prefix ++ [nm]) e)))).
  { induction l as [|d r IHr]; intros j Hin; cbn [number_from]; [tauto|].
    assert (Hd : (ddepth d <= n)%nat) by (pose proof (ddepths_In body d (Hin d (or_introl eq_refl))); lia).
    specialize (IHr (j + 1) (fun e He => Hin e (or_intror He))). split.
    - intros (e & [<-|He] & Hp).
      + exists d. split; [left; reflexivity|]. apply (IH d (prefix ++ [nm]) j p Hd). exact Hp.
      + destruct (proj1 IHr (ex_intro _ e (conj He Hp))) as (e' & He' & Hp'). exists e'. split; [right; exact He'|exact Hp'].
    - intros (e & [<-|He] & Hp).
      + exists (set_key j (canon_elem d)). split; [left; reflexivity|]. apply (IH d (prefix ++ [nm]) j p Hd). exact Hp.
      + destruct (proj2 IHr (ex_intro _ e (conj He Hp))) as (e' & He' & Hp'). exists e'. split; [right; exact He'|exact Hp']. }
  rewrite (G (sorted_by ekey body) 1) by (intros e He; apply sorted_by_In in He; exact He).
  split; (intros [H|(e & He & Hp)]; [left; exact H|right; exists e; split; [|exact Hp]]).
  - apply sorted_by_In in He. exact He.
  - apply sorted_by_In. exact He.
Qed.

Lemma types_canon_body prefix body p :
  In p (delems_types prefix (canon_body body)) <-> In p (delems_types prefix body).
Proof.
  rewrite !In_delems_types. unfold canon_body.
  assert (G : forall l j,
    ((exists e, In e (number_from (fun j e => set_key j (canon_elem e)) j l) /\ In p (delem_types prefix e))
     <-> (exists e, In e l /\ In p (delem_types prefix e)))).
  { induction l as [|d r IHr]; intro j; cbn [number_from]; [tauto|]. specialize (IHr (j + 1)). split.
    - intros (e & [<-|He] & Hp).
      + exists d. split; [left; reflexivity|]. apply (types_canon_elem (ddepth d) d prefix j p (le_n _)). exact Hp.
      + destruct (proj1 IHr (ex_intro _ e (conj He Hp))) as (e' & He' & Hp'). exists e'. split; [right; exact He'|exact Hp'].
    - intros (e & [<-|He] & Hp).
      + exists (set_key j (canon_elem d)). split; [left; reflexivity|]. apply (types_canon_elem (ddepth d) d prefix j p (le_n _)). exact Hp.
      + destruct (proj2 IHr (ex_intro _ e (conj He Hp))) as (e' & He' & Hp'). exists e'. split; [right; exact He'|exact Hp']. }
  rewrite (G (sorted_by ekey body) 1).
  split; intros (e & He & Hp); exists e; (split; [|exact Hp]); [apply sorted_by_In in He; exact He|apply sorted_by_In; exact He].
Qed.

(* ------------------------------------------------------------------ tables with the same entries *)
Definition tab_equiv (x x' : xsymtab) : Prop :=
  (forall e, In e (x_types x) <-> In e (x_types x')) /\ x_pkgs x = x_pkgs x'.

Lemma tab_equiv_same x x' : tab_equiv x x' -> same_tab (to_symtab x) (to_symtab x').
Proof.
  intros [Ht Hp]. split; [|exact Hp]. intro n.
  assert (G : forall a b, (forall e, In e (x_types a) -> In e (x_types b)) ->
                          is_type (to_symtab a) n = true -> is_type (to_symtab b) n = true).
  { intros a b Hab H. apply is_type_In in H. apply is_type_In. cbn [to_symtab st_types] in *.
    apply in_map_iff in H as (e & <- & He). apply in_map. apply Hab. exact He. }
  destruct (is_type (to_symtab x) n) eqn:E1, (is_type (to_symtab x') n) eqn:E2; try reflexivity.
  - rewrite (G x x' (fun e => proj1 (Ht e)) E1) in E2. discriminate.
  - rewrite (G x' x (fun e => proj2 (Ht e)) E2) in E1. discriminate.
Qed.

Lemma tab_equiv_unique x x' : tab_equiv x x' -> flat_unique x -> flat_unique x'.
Proof. intros [Ht _] Hu e1 e2 H1 H2. apply Hu; apply Ht; assumption. Qed.

Lemma wf_target_same st st' pkg rp path : same_tab st st' -> wf_target st pkg rp path -> wf_target st' pkg rp path.
Proof.
  intros [Ht Hp] [H1 H2]. split.
  - intros E k Hk. rewrite <- Ht. apply (H1 E k Hk).
  - intro E. destruct (H2 E) as (A & B & C). rewrite <- Hp, <- Ht. auto.
Qed.

Lemma wf_tref_equiv x x' pkg rp path : tab_equiv x x' -> wf_tref x pkg rp path -> wf_tref x' pkg rp path.
Proof.
  intros He (A & B & C). split; [exact A|]. split; [exact (wf_target_same _ _ pkg rp path (tab_equiv_same x x' He) B)|].
  apply (proj1 He); exact C.
Qed.

Lemma wf_dfield_equiv x x' pkg f : tab_equiv x x' -> wf_dfield x pkg f -> wf_dfield x' pkg f.
Proof.
  intros He [Ht Ho]. split; [|exact Ho]. destruct (f_type f) as [v|k entry v]; cbn [wf_dtype] in *.
  - destruct v; cbn [wf_dvt] in *; [exact Ht|exact (wf_tref_equiv x x' pkg _ _ He Ht)].
  - destruct Ht as (A & B & C). split; [exact A|]. split; [exact B|].
    destruct v; cbn [wf_dvt] in *; [exact C|exact (wf_tref_equiv x x' pkg _ _ He C)].
Qed.

Lemma wf_delem_equiv x x' pkg : tab_equiv x x' -> forall n e, (ddepth e <= n)%nat -> wf_delem x pkg e -> wf_delem x' pkg e.
Proof.
  intro He. induction n as [|n IH]; intros e Hn Hw; [pose proof (ddepth_pos e); lia|].
  destruct e as [f|k c nm o fs|k c nm o body|k c nm o vs|k c nm o ms].
  - exact (wf_dfield_equiv x x' pkg f He Hw).
  - destruct Hw as [Ho Hf]. split; [exact Ho|]. rewrite Forall_forall in *. intros f Hin. apply (wf_dfield_equiv x x' pkg f He). apply Hf. exact Hin.
  - apply wf_delem_msg in Hw. apply wf_delem_msg. destruct Hw as [Ho Hb]. split; [exact Ho|].
    change (ddepth (DMsg k c nm o body)) with (S (ddepths body)) in Hn.
    assert (G : forall l, (forall e, In e l -> In e body) -> wf_delems x pkg l -> wf_delems x' pkg l).
    { induction l as [|d r IHr]; intros Hin Hl; [exact I|]. destruct Hl as [Hd Hr]. split.
      - apply IH; [pose proof (ddepths_In body d (Hin d (or_introl eq_refl))); lia|exact Hd].
      - apply IHr; [intros e Hin'; apply Hin; right; exact Hin'|exact Hr]. }
    apply G; [auto|exact Hb].
  - exact Hw.
  - destruct Hw as [Ho Hm]. split; [exact Ho|]. rewrite Forall_forall in *. intros m Hin. destruct (Hm m Hin) as (A & B & C).
    split; [exact (wf_tref_equiv x x' pkg _ _ He A)|]. split; [exact (wf_tref_equiv x x' pkg _ _ He B)|exact C].
Qed.

Lemma wf_delems_equiv x x' pkg l : tab_equiv x x' -> wf_delems x pkg l -> wf_delems x' pkg l.
Proof.
  intro He. induction l as [|d r IH]; intro H; [exact I|]. destruct H as [Hd Hr].
  split; [exact (wf_delem_equiv x x' pkg He (ddepth d) d (le_n _) Hd)|apply IH; exact Hr].
Qed.

(* ------------------------------------------------------------------ extension declarations, grouped *)
Definition payload_map {F G} (f : F -> G) (xf : qname * F) : qname * G := (fst xf, f (snd xf)).
Definition group_map {F G} (f : F -> G) (g : qname * list F) : qname * list G := (fst g, map f (snd g)).

Lemma add_group_map {F G} (f : F -> G) x a : forall bs,
  add_group x (f a) (map (group_map f) bs) = map (group_map f) (add_group x a bs).
Proof.
  induction bs as [|b r IH]; [reflexivity|]. cbn [map add_group].
  replace (fst (group_map f b)) with (fst b) by reflexivity.
  destruct (qname_eqb (fst b) x).
  - cbn [map]. unfold group_map. cbn [fst snd]. rewrite map_app. reflexivity.
  - cbn [map]. rewrite IH. reflexivity.
Qed.

Lemma group_by_map {F G} (f : F -> G) (l : list (qname * F)) :
  group_by (map (payload_map f) l) = map (group_map f) (group_by l).
Proof.
  unfold group_by.
  assert (H : forall l acc,
    fold_left (fun bs xf => add_group (fst xf) (snd xf) bs) (map (payload_map f) l) (map (group_map f) acc)
    = map (group_map f) (fold_left (fun bs xf => add_group (fst xf) (snd xf) bs) l acc)).
  { clear l. induction l as [|[x a] r IH]; intro acc; [reflexivity|].
    cbn [map fold_left]. change (payload_map f (x, a)) with (x, f a). cbn [fst snd]. rewrite add_group_map. apply IH. }
  exact (H l []).
Qed.

Definition flatten_groups {F} (gs : list (qname * list F)) : list (qname * F) :=
  flat_map (fun g => map (fun f => (fst g, f)) (snd g)) gs.

Lemma add_group_perm {F} x (a : F) : forall bs,
  Permutation (flatten_groups (add_group x a bs)) (flatten_groups bs ++ [(x, a)]).
Proof.
  induction bs as [|b r IH]; [apply Permutation_refl|]. cbn [add_group]. destruct (qname_eqb (fst b) x) eqn:E.
  - apply qname_eqb_eq in E. unfold flatten_groups. cbn [flat_map fst snd]. rewrite map_app. cbn [map].
    rewrite <- E. rewrite <- !app_assoc. apply Permutation_app_head. apply Permutation_app_comm.
  - unfold flatten_groups in *. cbn [flat_map]. rewrite <- app_assoc. apply Permutation_app_head. exact IH.
Qed.

Lemma group_by_perm {F} (l : list (qname * F)) : Permutation (flatten_groups (group_by l)) l.
Proof.
  unfold group_by.
  assert (H : forall (l : list (qname * F)) (acc : list (qname * list F)),
             Permutation (flatten_groups (fold_left (fun bs xf => add_group (fst xf) (snd xf) bs) l acc))
                         (flatten_groups acc ++ l)).
  { clear l. induction l as [|[x a] r IH]; intro acc; [rewrite app_nil_r; apply Permutation_refl|].
    cbn [fold_left fst snd]. eapply perm_trans; [apply IH|].
    eapply perm_trans; [apply Permutation_app_tail; apply add_group_perm|]. rewrite <- app_assoc. apply Permutation_refl. }
  exact (H l []).
Qed.

(* grouping a list that is the flattening of groups with distinct names gives those groups back *)
Definition distinct_groups {F} (gs : list (qname * list F)) : Prop := NoDup (map fst gs) /\ Forall (fun g => snd g <> []) gs.

Lemma add_group_new {F} x (a : F) : forall bs, ~ In x (map fst bs) -> add_group x a bs = bs ++ [(x, [a])].
Proof.
  induction bs as [|b r IH]; intro H; [reflexivity|]. cbn [add_group].
  destruct (qname_eqb (fst b) x) eqn:E; [apply qname_eqb_eq in E; exfalso; apply H; left; exact E|].
  cbn [app]. rewrite IH; [reflexivity|]. intro Hin. apply H. right. exact Hin.
Qed.

Lemma add_group_last {F} x (a : F) fs : forall bs, ~ In x (map fst bs) ->
  add_group x a (bs ++ [(x, fs)]) = bs ++ [(x, fs ++ [a])].
Proof.
  induction bs as [|b r IH]; intro H.
  - cbn [app add_group fst snd]. rewrite qname_eqb_refl. reflexivity.
  - cbn [app add_group]. destruct (qname_eqb (fst b) x) eqn:E; [apply qname_eqb_eq in E; exfalso; apply H; left; exact E|].
    rewrite IH; [reflexivity|]. intro Hin. apply H. right. exact Hin.
Qed.

Lemma fold_group_fields {F} x : forall (fs : list F) acc done, ~ In x (map fst acc) ->
  fold_left (fun bs xf => add_group (fst xf) (snd xf) bs) (map (fun f => (x, f)) fs) (acc ++ [(x, done)])
  = acc ++ [(x, done ++ fs)].
Proof.
  induction fs as [|a r IH]; intros acc done H; [rewrite app_nil_r; reflexivity|].
  cbn [map fold_left fst snd]. rewrite add_group_last by exact H. rewrite IH by exact H. rewrite <- app_assoc. reflexivity.
Qed.

Lemma group_by_flatten {F} : forall (gs acc : list (qname * list F)),
  NoDup (map fst (acc ++ gs)) -> Forall (fun g => snd g <> []) gs ->
  fold_left (fun bs xf => add_group (fst xf) (snd xf) bs) (flatten_groups gs) acc = acc ++ gs.
Proof.
  induction gs as [|[x fs] r IH]; intros acc Hnd Hne; [rewrite app_nil_r; reflexivity|].
  inversion Hne as [|? ? Hfs Hr]; subst. cbn [snd] in Hfs. destruct fs as [|a fs']; [contradiction|].
  unfold flatten_groups. cbn [flat_map fst snd map]. rewrite fold_left_app. cbn [fold_left fst snd].
  assert (Hx : ~ In x (map fst acc)).
  { rewrite map_app in Hnd. cbn [map fst] in Hnd. apply NoDup_remove_2 in Hnd. intro Hin. apply Hnd. apply in_or_app. left. exact Hin. }
  rewrite (add_group_new x a acc Hx). rewrite (fold_group_fields x fs' acc [a] Hx). cbn [app].
  fold (flatten_groups r). rewrite IH.
  - rewrite <- app_assoc. reflexivity.
  - rewrite <- app_assoc. exact Hnd.
  - exact Hr.
Qed.

Lemma add_group_distinct {F} x (a : F) : forall bs, distinct_groups bs -> distinct_groups (add_group x a bs).
Proof.
  induction bs as [|b r IH]; intros [Hnd Hne].
  - split; [cbn; constructor; [intros []|constructor]|constructor; [cbn; discriminate|constructor]].
  - cbn [add_group]. destruct (qname_eqb (fst b) x) eqn:E.
    + apply qname_eqb_eq in E. split.
      * cbn [map fst] in *. rewrite <- E. exact Hnd.
      * inversion Hne; subst. constructor; [cbn [snd]; intro H; apply app_eq_nil in H as [_ H]; discriminate H|assumption].
    + cbn [map] in Hnd. inversion Hnd as [|? ? Hnot Hnd']; subst. inversion Hne as [|? ? Hb Hr]; subst.
      destruct (IH (conj Hnd' Hr)) as [Hnd2 Hne2]. split.
      * cbn [map]. constructor; [|exact Hnd2]. intro Hin.
        assert (G : forall y, In y (map fst (add_group x a r)) -> y = x \/ In y (map fst r)).
        { clear. induction r as [|c r IH]; intros y Hy; cbn [add_group] in Hy.
          - cbn in Hy. destruct Hy as [<-|[]]. left; reflexivity.
          - destruct (qname_eqb (fst c) x) eqn:E; cbn [map fst] in Hy.
            + apply qname_eqb_eq in E. destruct Hy as [<-|Hy]; [left; reflexivity|right; right; exact Hy].
            + destruct Hy as [<-|Hy]; [right; left; reflexivity|]. destruct (IH y Hy) as [->|H]; [left; reflexivity|right; right; exact H]. }
        destruct (G _ Hin) as [Eq|Hin']; [|contradiction].
        rewrite Eq in E. rewrite qname_eqb_refl in E. discriminate.
      * constructor; assumption.
Qed.

Lemma group_by_distinct {F} (l : list (qname * F)) : distinct_groups (group_by l).
Proof.
  unfold group_by.
  assert (H : forall (l : list (qname * F)) (acc : list (qname * list F)),
             distinct_groups acc -> distinct_groups (fold_left (fun bs xf => add_group (fst xf) (snd xf) bs) l acc)).
  { clear l. induction l as [|[x a] r IH]; intros acc Ha; [exact Ha|]. cbn [fold_left fst snd]. apply IH. apply add_group_distinct. exact Ha. }
  apply H. split; [constructor|constructor].
Qed.

Lemma group_by_idem {F} (l : list (qname * F)) : group_by (flatten_groups (group_by l)) = group_by l.
Proof.
  destruct (group_by_distinct l) as [Hnd Hne]. unfold group_by at 1.
  rewrite (group_by_flatten (group_by l) []); [reflexivity|exact Hnd|exact Hne].
Qed.

(* ------------------------------------------------------------------ equivalence of descriptors *)
(* same content; source positions / indices aside; bodies, option lists, imports and extension
   declarations as multisets *)
Definition opt_equiv (a b : dopt) : Prop := o_full a = o_full b /\ o_name a = o_name b /\ o_val a = o_val b.
Definition perm_equiv {A} (R : A -> A -> Prop) (l l' : list A) : Prop :=
  exists m, Permutation l m /\ Forall2 R m l'.
Definition opts_equiv := perm_equiv opt_equiv.

Definition field_equiv (a b : dfield) : Prop :=
  f_cm a = f_cm b /\ f_label a = f_label b /\ f_type a = f_type b /\ f_name a = f_name b /\ f_num a = f_num b
  /\ f_json a = f_json b /\ opts_equiv (f_opts a) (f_opts b).
Definition value_equiv (a b : dvalue) : Prop :=
  v_cm a = v_cm b /\ v_name a = v_name b /\ v_num a = v_num b /\ opts_equiv (v_opts a) (v_opts b).
Definition method_equiv (a b : dmethod) : Prop :=
  m_cm a = m_cm b /\ m_name a = m_name b /\ m_in a = m_in b /\ m_out a = m_out b /\ opts_equiv (m_opts a) (m_opts b).

Inductive elem_equiv : delem -> delem -> Prop :=
| EqField a b : field_equiv a b -> elem_equiv (DField a) (DField b)
| EqOneof k k' c n o o' fs fs' : opts_equiv o o' -> perm_equiv field_equiv fs fs' ->
    elem_equiv (DOneof k c n o fs) (DOneof k' c n o' fs')
| EqMsg k k' c n o o' body body' m : opts_equiv o o' -> Permutation body m -> Forall2 elem_equiv m body' ->
    elem_equiv (DMsg k c n o body) (DMsg k' c n o' body')
| EqEnum k k' c n o o' vs vs' : opts_equiv o o' -> perm_equiv value_equiv vs vs' ->
    elem_equiv (DEnum k c n o vs) (DEnum k' c n o' vs')
| EqService k k' c n o o' ms ms' : opts_equiv o o' -> perm_equiv method_equiv ms ms' ->
    elem_equiv (DService k c n o ms) (DService k' c n o' ms').

Definition ext_equiv (a b : qname * dfield) : Prop := fst a = fst b /\ field_equiv (snd a) (snd b).

Definition desc_equiv (d d' : dfile) : Prop :=
  d_pkg d = d_pkg d' /\ Permutation (d_imports d) (d_imports d') /\ d_fopts d = d_fopts d'
  /\ perm_equiv ext_equiv (d_exts d) (d_exts d') /\ perm_equiv elem_equiv (d_body d) (d_body d').

Lemma canon_opt_equiv i o : opt_equiv o (canon_opt i o).
Proof. repeat split. Qed.

Lemma canon_sopts_equiv o : opts_equiv o (canon_sopts o).
Proof.
  exists (isort opt_less o). split; [apply Permutation_sym; apply isort_perm|].
  apply number_from_forall2. intros j x _. apply canon_opt_equiv.
Qed.

Lemma canon_fopts_equiv o : opts_equiv o (canon_fopts o).
Proof.
  exists (isort lay_less (isort opt_less o)). split.
  - apply Permutation_sym. eapply perm_trans; apply isort_perm.
  - apply number_from_forall2. intros j x _. apply canon_opt_equiv.
Qed.

Lemma canon_field_equiv i f : field_equiv f (canon_field i f).
Proof. unfold field_equiv, canon_field. cbn. repeat split. apply canon_fopts_equiv. Qed.

Lemma canon_fields_equiv fs : perm_equiv field_equiv fs (canon_fields fs).
Proof.
  exists (sorted_by fkey fs). split; [apply Permutation_sym; apply isort_perm|].
  apply number_from_forall2. intros j x _. apply canon_field_equiv.
Qed.

Lemma canon_values_equiv vs : perm_equiv value_equiv vs (canon_values vs).
Proof.
  exists (sorted_by vkey vs). split; [apply Permutation_sym; apply isort_perm|].
  apply number_from_forall2. intros j x _. unfold value_equiv, canon_value. cbn. repeat split. apply canon_fopts_equiv.
Qed.

Lemma canon_methods_equiv ms : perm_equiv method_equiv ms (canon_methods ms).
Proof.
  exists (sorted_by mkey ms). split; [apply Permutation_sym; apply isort_perm|].
  apply number_from_forall2. intros j x _. unfold method_equiv, canon_method. cbn. repeat split. apply canon_sopts_equiv.
Qed.

Theorem canon_elem_equiv : forall n e i, (ddepth e <= n)%nat -> elem_equiv e (set_key i (canon_elem e)).
Proof.
  induction n as [|n IH]; intros e i Hn; [pose proof (ddepth_pos e); lia|].
  destruct e as [f|k c nm o fs|k c nm o body|k c nm o vs|k c nm o ms].
  - cbn [canon_elem set_key]. constructor. exact (canon_field_equiv i f).
  - cbn [canon_elem set_key]. constructor; [apply canon_sopts_equiv|apply canon_fields_equiv].
  - rewrite canon_elem_msg. cbn [set_key]. apply (EqMsg _ _ _ _ _ _ _ _ (sorted_by ekey body)).
    + apply canon_sopts_equiv.
    + apply Permutation_sym. apply isort_perm.
    + unfold canon_body. apply number_from_forall2. intros j x Hx. apply sorted_by_In in Hx. apply IH.
      change (ddepth (DMsg k c nm o body)) with (S (ddepths body)) in Hn. pose proof (ddepths_In body x Hx). lia.
  - cbn [canon_elem set_key]. constructor; [apply canon_sopts_equiv|apply canon_values_equiv].
  - cbn [canon_elem set_key]. constructor; [apply canon_sopts_equiv|apply canon_methods_equiv].
Qed.

Lemma canon_body_equiv body : perm_equiv elem_equiv body (canon_body body).
Proof.
  exists (sorted_by ekey body). split; [apply Permutation_sym; apply isort_perm|].
  unfold canon_body. apply number_from_forall2. intros j x _. apply (canon_elem_equiv (ddepth x)). lia.
Qed.

(* ------------------------------------------------------------------ the canonical file *)
Definition canon_group (g : qname * list dfield) : qname * list dfield := (fst g, number_from canon_field 1 (snd g)).
Definition canon_exts (l : list (qname * dfield)) : list (qname * dfield) :=
  flatten_groups (map canon_group (group_by l)).

Definition canon_file (d : dfile) : dfile :=
  {| d_pkg := d_pkg d; d_imports := isort bytes_ltb (d_imports d); d_fopts := d_fopts d;
     d_exts := canon_exts (d_exts d); d_body := canon_body (d_body d) |}.

Lemma canon_exts_equiv l : perm_equiv ext_equiv l (canon_exts l).
Proof.
  exists (flatten_groups (group_by l)). split; [apply Permutation_sym; apply group_by_perm|].
  unfold canon_exts. induction (group_by l) as [|g r IH]; [constructor|].
  unfold flatten_groups in *. cbn [map flat_map]. apply Forall2_app; [|exact IH].
  unfold canon_group. cbn [fst snd]. generalize 1. induction (snd g) as [|f fs IHf]; intro j; [constructor|].
  cbn [map number_from]. constructor; [split; [reflexivity|apply canon_field_equiv]|apply IHf].
Qed.

Theorem canon_file_equiv d : desc_equiv d (canon_file d).
Proof.
  unfold desc_equiv, canon_file. cbn [d_pkg d_imports d_fopts d_exts d_body]. repeat split.
  - apply Permutation_sym. apply isort_perm.
  - apply canon_exts_equiv.
  - apply canon_body_equiv.
Qed.

(* ------------------------------------------------------------------ the layout does not depend on how the table is listed *)
Lemma lay_vt_same st st' pkg ctx t : same_tab st st' -> lay_vt st pkg ctx t = lay_vt st' pkg ctx t.
Proof. intro H. destruct t; [reflexivity|]. cbn [lay_vt]. apply crn_safe_same. exact H. Qed.

Lemma lay_field_same st st' pkg ctx is_ext f : same_tab st st' -> lay_field st pkg ctx is_ext f = lay_field st' pkg ctx is_ext f.
Proof.
  intro H. unfold lay_field. f_equal. destruct (f_type f) as [v|k e v]; cbn [lay_type].
  - rewrite (lay_vt_same st st' pkg ctx v H). reflexivity.
  - rewrite (lay_vt_same st st' pkg _ v H). reflexivity.
Qed.

Lemma lay_method_same st st' pkg svc m : same_tab st st' -> lay_method st pkg svc m = lay_method st' pkg svc m.
Proof. intro H. unfold lay_method. rewrite !(crn_safe_same st st' pkg [svc] _ _ H). reflexivity. Qed.

Lemma lay_elem_same st st' pkg : same_tab st st' -> forall n e ctx, (ddepth e <= n)%nat ->
  lay_elem st pkg ctx e = lay_elem st' pkg ctx e.
Proof.
  intro H. induction n as [|n IH]; intros e ctx Hn; [pose proof (ddepth_pos e); lia|].
  destruct e as [f|k c nm o fs|k c nm o body|k c nm o vs|k c nm o ms].
  - cbn [lay_elem]. rewrite (lay_field_same st st' pkg ctx false f H). reflexivity.
  - cbn [lay_elem]. f_equal. rewrite !lay_fields_eq. apply map_ext. intro f. apply lay_field_same. exact H.
  - rewrite !lay_elem_msg. f_equal. rewrite !lay_body_eq. apply map_ext_in. intros e He. apply sorted_by_In in He.
    apply IH. change (ddepth (DMsg k c nm o body)) with (S (ddepths body)) in Hn. pose proof (ddepths_In body e He). lia.
  - reflexivity.
  - cbn [lay_elem]. f_equal. rewrite !lay_methods_eq. apply map_ext. intro m. apply lay_method_same. exact H.
Qed.

Lemma lay_body_same st st' pkg ctx body : same_tab st st' -> lay_body st pkg ctx body = lay_body st' pkg ctx body.
Proof.
  intro H. rewrite !lay_body_eq. apply map_ext. intro e. apply (lay_elem_same st st' pkg H (ddepth e)). lia.
Qed.

(* ------------------------------------------------------------------ well-formed descriptors *)
Definition is_dtop (e : delem) : Prop :=
  match e with DMsg _ _ _ _ _ | DEnum _ _ _ _ _ | DService _ _ _ _ _ => True | _ => False end.

Definition wf_dext (x : xsymtab) (pkg : qname) (xf : qname * dfield) : Prop :=
  fst xf <> [] /\ wf_dfield x pkg (snd xf) /\ f_json (snd xf) = default_json (f_name (snd xf)).

Definition wf_dfile (imp : xsymtab) (d : dfile) : Prop :=
  let x := dfile_symtab imp d in
  d_pkg d <> [] /\ flat_unique x /\ Forall wf_fopt (d_fopts d) /\ Forall (wf_dext x (d_pkg d)) (d_exts d)
  /\ wf_delems x (d_pkg d) (d_body d) /\ Forall is_dtop (d_body d).

Lemma lay_file_exts st d :
  s_exts (lay_file st d) = group_exts (map (payload_map (lay_field st (d_pkg d) [] true)) (d_exts d)).
Proof. reflexivity. Qed.

Lemma group_exts_eq {F} (f : F -> sfield) (l : list (qname * F)) :
  group_exts (map (payload_map f) l)
  = map (fun g => {| sx_extendee := fst g; sx_fields := map f (snd g) |}) (group_by l).
Proof. unfold group_exts. rewrite group_by_map, map_map. reflexivity. Qed.

Lemma In_group_fields {F} (l : list (qname * F)) g a : In g (group_by l) -> In a (snd g) -> In (fst g, a) l.
Proof.
  intros Hg Ha. apply (Permutation_in _ (group_by_perm l)). unfold flatten_groups. apply in_flat_map.
  exists g. split; [exact Hg|]. apply in_map. exact Ha.
Qed.

Theorem lay_file_wf imp d : wf_dfile imp d -> wf_file (lay_file (to_symtab (dfile_symtab imp d)) d).
Proof.
  intros (Hp & _ & Hfo & Hx & Hb & Ht). set (x := dfile_symtab imp d) in *. set (st := to_symtab x).
  unfold wf_file. split; [exact Hp|]. split; [exact Hfo|]. split; [|split].
  - rewrite lay_file_exts, group_exts_eq. rewrite Forall_forall. intros b Hb'. apply in_map_iff in Hb' as (g & <- & Hg).
    destruct (group_by_distinct (d_exts d)) as [_ Hne]. rewrite Forall_forall in Hne. specialize (Hne g Hg).
    rewrite Forall_forall in Hx. split; cbn [sx_extendee sx_fields].
    + destruct (snd g) as [|a r] eqn:E; [contradiction|].
      assert (Hin : In (fst g, a) (d_exts d)) by (apply (In_group_fields _ g a Hg); rewrite E; left; reflexivity).
      exact (proj1 (Hx _ Hin)).
    + rewrite Forall_forall. intros s Hs. apply in_map_iff in Hs as (a & <- & Ha).
      apply (lay_field_wf st (d_pkg d) [] x). exact (proj1 (proj2 (Hx _ (In_group_fields _ g a Hg Ha)))).
  - cbn [lay_file s_body]. rewrite lay_body_eq.
    assert (G : forall l, (forall e, In e l -> In e (d_body d)) -> wf_elems (map (lay_elem st (d_pkg d) []) l)).
    { induction l as [|e r IH]; intro Hin; [exact I|]. cbn [map wf_elems]. split.
      - apply (lay_elem_wf st (d_pkg d) x (ddepth e)); [lia|]. apply (wf_delems_In x (d_pkg d) _ Hb). apply Hin. left; reflexivity.
      - apply IH. intros y Hy. apply Hin. right; exact Hy. }
    apply G. intros e He. apply sorted_by_In in He. exact He.
  - cbn [lay_file s_body]. rewrite lay_body_eq. rewrite Forall_forall. intros s Hs. apply in_map_iff in Hs as (e & <- & He).
    apply sorted_by_In in He. rewrite Forall_forall in Ht. specialize (Ht e He). destruct e; try destruct Ht; exact I.
Qed.

(* ------------------------------------------------------------------ the symbol table read from the printed file *)
Lemma lay_file_tab imp d st : tab_equiv (dfile_symtab imp d) (sfile_symtab imp (lay_file st d)).
Proof.
  split; [|reflexivity]. intro e. unfold dfile_symtab, sfile_symtab. cbn [x_types lay_file s_pkg s_body].
  rewrite !in_app_iff. split; (intros [H|H]; [left|right; exact H]);
    apply in_map_iff in H as (p & <- & Hp); apply in_map; apply (types_lay_body st (d_pkg d) [] [] (d_body d) p); exact Hp.
Qed.

Lemma canon_file_tab imp d : tab_equiv (dfile_symtab imp d) (dfile_symtab imp (canon_file d)).
Proof.
  split; [|reflexivity]. intro e. unfold dfile_symtab, canon_file. cbn [x_types d_pkg d_body].
  rewrite !in_app_iff. split; (intros [H|H]; [left|right; exact H]);
    apply in_map_iff in H as (p & <- & Hp); apply in_map; apply (types_canon_body [] (d_body d) p); exact Hp.
Qed.

(* ------------------------------------------------------------------ extension declarations *)
Lemma interp_exts_groups x st pkg : same_tab st (to_symtab x) -> flat_unique x -> forall gs,
  (forall g a, In g gs -> In a (snd g) -> wf_dfield x pkg a /\ f_json a = default_json (f_name a)) ->
  interp_exts x pkg (map (fun g => {| sx_extendee := fst g; sx_fields := map (lay_field st pkg [] true) (snd g) |}) gs)
  = Some (flatten_groups (map canon_group gs)).
Proof.
  intros Hs Hu. induction gs as [|g r IH]; intro Hw; [reflexivity|].
  cbn [map interp_exts sx_fields sx_extendee].
  rewrite (interp_fields_map x st pkg [] true Hs Hu (snd g) 1).
  - rewrite IH; [reflexivity|]. intros g' a Hg Ha. apply (Hw g' a); [right; exact Hg|exact Ha].
  - rewrite Forall_forall. intros a Ha. exact (proj1 (Hw g a (or_introl eq_refl) Ha)).
  - intros _. rewrite Forall_forall. intros a Ha. exact (proj2 (Hw g a (or_introl eq_refl) Ha)).
Qed.

Lemma canon_groups_distinct (gs : list (qname * list dfield)) : distinct_groups gs -> distinct_groups (map canon_group gs).
Proof.
  intros [Hnd Hne]. split.
  - rewrite map_map. cbn [canon_group fst]. exact Hnd.
  - rewrite Forall_forall in *. intros g Hg. apply in_map_iff in Hg as (g0 & <- & Hg0). specialize (Hne g0 Hg0).
    cbn [canon_group snd]. destruct (snd g0); [contradiction|discriminate].
Qed.

Lemma group_by_canon_exts l : group_by (canon_exts l) = map canon_group (group_by l).
Proof.
  unfold canon_exts. destruct (canon_groups_distinct _ (group_by_distinct l)) as [Hnd Hne].
  unfold group_by at 1. rewrite (group_by_flatten (map canon_group (group_by l)) []); [reflexivity|exact Hnd|exact Hne].
Qed.

Lemma lay_canon_exts st pkg l :
  group_exts (map (payload_map (lay_field st pkg [] true)) (canon_exts l))
  = group_exts (map (payload_map (lay_field st pkg [] true)) l).
Proof.
  rewrite !group_exts_eq, group_by_canon_exts, map_map. apply map_ext. intro g. cbn [canon_group fst snd]. f_equal.
  apply number_from_map. intros i f. apply lay_canon_field.
Qed.

(* ------------------------------------------------------------------ the three theorems *)
Theorem interp_lay_file imp d : wf_dfile imp d ->
  interp_file imp (lay_file (to_symtab (dfile_symtab imp d)) d) = Some (canon_file d).
Proof.
  intros (Hp & Hu & Hfo & Hx & Hb & Ht). set (xd := dfile_symtab imp d) in *. set (st := to_symtab xd).
  unfold interp_file. set (x' := sfile_symtab imp (lay_file st d)).
  pose proof (lay_file_tab imp d st) as He. fold xd x' in He.
  pose proof (tab_equiv_same xd x' He) as Hs. fold st in Hs.
  pose proof (tab_equiv_unique xd x' He Hu) as Hu'.
  rewrite lay_file_exts, group_exts_eq. cbn [lay_file s_pkg s_body s_imports s_fopts].
  rewrite (interp_exts_groups x' st (d_pkg d) Hs Hu').
  - rewrite (interp_lay_body x' st (d_pkg d) [] (d_body d) Hs Hu' (wf_delems_equiv xd x' _ _ He Hb)). reflexivity.
  - intros g a Hg Ha. rewrite Forall_forall in Hx. destruct (Hx _ (In_group_fields _ g a Hg Ha)) as (_ & Hf & Hj).
    cbn [snd] in *. split; [exact (wf_dfield_equiv xd x' _ _ He Hf)|exact Hj].
Qed.

Theorem file_roundtrip imp d : wf_dfile imp d ->
  parse_file_tokens imp (print_file_tokens (to_symtab (dfile_symtab imp d)) d) = Some (canon_file d).
Proof.
  intro Hw. unfold parse_file_tokens, print_file_tokens.
  rewrite (parse_file_emit _ (lay_file_wf imp d Hw)). apply interp_lay_file. exact Hw.
Qed.

Theorem lay_canon_file imp d :
  lay_file (to_symtab (dfile_symtab imp (canon_file d))) (canon_file d) = lay_file (to_symtab (dfile_symtab imp d)) d.
Proof.
  pose proof (tab_equiv_same _ _ (canon_file_tab imp d)) as Hs.
  set (st := to_symtab (dfile_symtab imp d)) in *. set (st' := to_symtab (dfile_symtab imp (canon_file d))) in *.
  unfold lay_file. cbn [canon_file d_pkg d_imports d_fopts d_exts d_body]. f_equal.
  - apply isort_idem. exact bytes_ltb_asym.
  - change (map (fun xf => (fst xf, lay_field st' (d_pkg d) [] true (snd xf))) (canon_exts (d_exts d)))
      with (map (payload_map (lay_field st' (d_pkg d) [] true)) (canon_exts (d_exts d))).
    change (map (fun xf => (fst xf, lay_field st (d_pkg d) [] true (snd xf))) (d_exts d))
      with (map (payload_map (lay_field st (d_pkg d) [] true)) (d_exts d)).
    rewrite lay_canon_exts. f_equal. apply map_ext. intros [xn f]. unfold payload_map. cbn [fst snd].
    rewrite (lay_field_same st st' (d_pkg d) [] true f Hs). reflexivity.
  - rewrite lay_canon_body. symmetry. apply lay_body_same. exact Hs.
Qed.

Theorem print_canon_file imp d :
  print_file_tokens (to_symtab (dfile_symtab imp (canon_file d))) (canon_file d)
  = print_file_tokens (to_symtab (dfile_symtab imp d)) d.
Proof. unfold print_file_tokens. rewrite lay_canon_file. reflexivity. Qed.

(* ------------------------------------------------------------------ the canonical file is well-formed again *)
Lemma In_number_from {A B} (f : N -> A -> B) : forall l i y, In y (number_from f i l) -> exists j x, In x l /\ y = f j x.
Proof.
  induction l as [|a r IH]; intros i y H; [destruct H|]. cbn [number_from] in H. destruct H as [<-|H].
  - exists i, a. split; [left; reflexivity|reflexivity].
  - destruct (IH _ _ H) as (j & x & Hx & E). exists j, x. split; [right; exact Hx|exact E].
Qed.

Lemma Forall_number_from {A B} (f : N -> A -> B) (P : A -> Prop) (Q : B -> Prop) l i :
  (forall j x, P x -> Q (f j x)) -> Forall P l -> Forall Q (number_from f i l).
Proof.
  intros H Hl. rewrite Forall_forall in *. intros y Hy. destruct (In_number_from f l i y Hy) as (j & x & Hx & ->).
  apply H. apply Hl. exact Hx.
Qed.

Lemma canon_sopts_wf o : Forall wf_dopt o -> Forall wf_dopt (canon_sopts o).
Proof. intro H. unfold canon_sopts. apply (Forall_number_from canon_opt wf_dopt wf_dopt); [intros j x Hx; exact Hx|apply Forall_isort; exact H]. Qed.
Lemma canon_fopts_wf o : Forall wf_dopt o -> Forall wf_dopt (canon_fopts o).
Proof. intro H. unfold canon_fopts. apply (Forall_number_from canon_opt wf_dopt wf_dopt); [intros j x Hx; exact Hx|do 2 apply Forall_isort; exact H]. Qed.

Lemma canon_field_wf x pkg i f : wf_dfield x pkg f -> wf_dfield x pkg (canon_field i f).
Proof. intros [Ht Ho]. split; [exact Ht|apply canon_fopts_wf; exact Ho]. Qed.

Lemma canon_elem_wf x pkg : forall n e i, (ddepth e <= n)%nat -> wf_delem x pkg e -> wf_delem x pkg (set_key i (canon_elem e)).
Proof.
  induction n as [|n IH]; intros e i Hn Hw; [pose proof (ddepth_pos e); lia|].
  destruct e as [f|k c nm o fs|k c nm o body|k c nm o vs|k c nm o ms].
  - exact (canon_field_wf x pkg i f Hw).
  - destruct Hw as [Ho Hf]. cbn [canon_elem set_key wf_delem]. split; [apply canon_sopts_wf; exact Ho|].
    unfold canon_fields. apply (Forall_number_from canon_field (wf_dfield x pkg) (wf_dfield x pkg)); [intros; apply canon_field_wf; assumption|apply Forall_isort; exact Hf].
  - apply wf_delem_msg in Hw. destruct Hw as [Ho Hb]. rewrite canon_elem_msg. cbn [set_key]. apply wf_delem_msg.
    split; [apply canon_sopts_wf; exact Ho|]. unfold canon_body.
    change (ddepth (DMsg k c nm o body)) with (S (ddepths body)) in Hn.
    assert (G : forall l j, (forall e, In e l -> In e body) ->
                wf_delems x pkg (number_from (fun j e => set_key j (canon_elem e)) j l)).
    { induction l as [|d r IHr]; intros j Hin; [exact I|]. cbn [number_from wf_delems]. split.
      - apply IH; [pose proof (ddepths_In body d (Hin d (or_introl eq_refl))); lia|].
        apply (wf_delems_In x pkg body Hb). apply Hin. left; reflexivity.
      - apply IHr. intros e He. apply Hin. right; exact He. }
    apply G. intros e He. apply sorted_by_In in He. exact He.
  - destruct Hw as [Ho Hv]. cbn [canon_elem set_key wf_delem]. split; [apply canon_sopts_wf; exact Ho|].
    unfold canon_values. apply (Forall_number_from canon_value wf_dvalue wf_dvalue); [|apply Forall_isort; exact Hv].
    intros j v [Hn' Ho']. split; [exact Hn'|apply canon_fopts_wf; exact Ho'].
  - destruct Hw as [Ho Hm]. cbn [canon_elem set_key wf_delem]. split; [apply canon_sopts_wf; exact Ho|].
    unfold canon_methods. apply (Forall_number_from canon_method (wf_dmethod x pkg) (wf_dmethod x pkg)); [|apply Forall_isort; exact Hm].
    intros j m (A & B & C). split; [exact A|]. split; [exact B|apply canon_sopts_wf; exact C].
Qed.

Theorem canon_file_wf imp d : wf_dfile imp d -> wf_dfile imp (canon_file d).
Proof.
  intros (Hp & Hu & Hfo & Hx & Hb & Ht). pose proof (canon_file_tab imp d) as He.
  set (x := dfile_symtab imp d) in *. set (x' := dfile_symtab imp (canon_file d)) in *.
  unfold wf_dfile. fold x'. cbn [canon_file d_pkg d_fopts d_exts d_body].
  split; [exact Hp|]. split; [exact (tab_equiv_unique x x' He Hu)|]. split; [exact Hfo|]. split; [|split].
  - unfold canon_exts, flatten_groups. rewrite Forall_forall. intros [xn f] Hin.
    apply in_flat_map in Hin as (g & Hg & Hf). apply in_map_iff in Hg as (g0 & <- & Hg0).
    cbn [canon_group fst snd] in Hf. apply in_map_iff in Hf as (f' & E & Hf'). inversion E; subst xn f; clear E.
    destruct (In_number_from canon_field _ _ _ Hf') as (j & a & Ha & ->).
    rewrite Forall_forall in Hx. destruct (Hx _ (In_group_fields _ g0 a Hg0 Ha)) as (A & B & C). cbn [fst snd] in *.
    split; [exact A|]. split; [apply canon_field_wf; exact (wf_dfield_equiv x x' _ _ He B)|exact C].
  - apply (wf_delems_equiv x x' _ _ He). unfold canon_body.
    assert (G : forall l j, (forall e, In e l -> In e (d_body d)) ->
                wf_delems x (d_pkg d) (number_from (fun j e => set_key j (canon_elem e)) j l)).
    { induction l as [|e r IHr]; intros j Hin; [exact I|]. cbn [number_from wf_delems]. split.
      - apply (canon_elem_wf x (d_pkg d) (ddepth e)); [lia|]. apply (wf_delems_In x _ _ Hb). apply Hin. left; reflexivity.
      - apply IHr. intros y Hy. apply Hin. right; exact Hy. }
    apply G. intros e He'. apply sorted_by_In in He'. exact He'.
  - unfold canon_body. rewrite Forall_forall. intros y Hy.
    destruct (In_number_from _ _ _ _ Hy) as (j & e & He' & ->). apply sorted_by_In in He'.
    rewrite Forall_forall in Ht. specialize (Ht e He'). destruct e; try destruct Ht; exact I.
Qed.

(* the canonical form is a fixed point of print + parse up to its own canonical form: in particular
   the printed tokens of every further round are the same *)
Corollary file_roundtrip_again imp d : wf_dfile imp d ->
  parse_file_tokens imp (print_file_tokens (to_symtab (dfile_symtab imp (canon_file d))) (canon_file d))
  = Some (canon_file (canon_file d)).
Proof. intro Hw. apply file_roundtrip. apply canon_file_wf. exact Hw. Qed.

(* ------------------------------------------------------------------ the statements of props/C05.v *)
Theorem token_roundtrip imp D : wf_dfile imp D ->
  let toks := print_file_tokens (to_symtab (dfile_symtab imp D)) D in
  exists D', parse_file_tokens imp toks = Some D'
    /\ desc_equiv D D'
    /\ wf_dfile imp D'
    /\ print_file_tokens (to_symtab (dfile_symtab imp D')) D' = toks.
Proof.
  intro Hw. exists (canon_file D). split; [exact (file_roundtrip imp D Hw)|].
  split; [exact (canon_file_equiv D)|]. split; [exact (canon_file_wf imp D Hw)|exact (print_canon_file imp D)].
Qed.

Theorem text_roundtrip_partial (render : xsymtab -> dfile -> list N) (scan : list N -> option (list token)) :
  (forall imp D, wf_dfile imp D ->
     scan (render imp D) = Some (print_file_tokens (to_symtab (dfile_symtab imp D)) D)) ->
  forall imp D, wf_dfile imp D ->
    exists D', match scan (render imp D) with Some ts => parse_file_tokens imp ts | None => None end = Some D'
      /\ desc_equiv D D'
      /\ scan (render imp D') = scan (render imp D).
Proof.
  intros H imp D Hw. exists (canon_file D). rewrite (H imp D Hw).
  split; [exact (file_roundtrip imp D Hw)|]. split; [exact (canon_file_equiv D)|].
  rewrite (H imp (canon_file D) (canon_file_wf imp D Hw)). rewrite print_canon_file. reflexivity.
Qed.

Theorem order_laws (l : list (key3 * selem)) :
  Permutation (isort (fun a b => key_less (fst a) (fst b)) l) l
  /\ isort (fun a b => key_less (fst a) (fst b)) (isort (fun a b => key_less (fst a) (fst b)) l)
     = isort (fun a b => key_less (fst a) (fst b)) l.
Proof. split; [apply isort_perm|]. apply isort_idem. intros a b. apply key_less_asym. Qed.

(* BclLexLitProofs.v — what the literals that the lexer emits look like, kind by
   kind; together with BclFmtLitProofs this gives: every token the lexer emits is
   read back, type and literal, from the text tokenSource renders for it. *)
From Coq Require Import String List NArith ZArith Bool Lia ZifyN ZifyNat ZifyBool.
From J5V.lib Require Import Text Outcome.
From J5V.model Require Import BclLexer BclParser BclFmt.
From J5V.proofs Require Import BclPosProofs BclLexerProofs BclLexerCoverProofs BclFmtLitProofs.
Import ListNotations.
Local Open Scope N_scope.
Arguments Nat.sub : simpl never.

(* the literal of a token of each kind, as the lexer can produce it *)
Definition lit_ok (typ : ttype) (l : list N) : Prop :=
  match typ with
  | STRING => True
  | REGEX => no_nl l /\ match l with [] => False | c :: _ => c <> 47 /\ c <> 42 end
  | COMMENT => no_nl l
  | BLOCK_COMMENT => has_star_slash l = false
  | DESCRIPTION => no_nl l /\ match l with [] => True | c :: _ => is_space c = false end
  | IDENT => match l with [] => False | c :: r => ident_start c /\ forallb ident_char r = true end
             /\ (list_N_eqb l lit_true || list_N_eqb l lit_false)%bool = false
  | BOOL => match l with [] => False | c :: r => ident_start c /\ forallb ident_char r = true end
            /\ (list_N_eqb l lit_true || list_N_eqb l lit_false)%bool = true
  | INT => match l with [] => False | c :: r => number_start c /\ forallb is_digit r = true end
  | DECIMAL => match l with [] => False
               | c :: r => number_start c /\ exists d1 d2, r = d1 ++ 46 :: d2 /\ forallb is_digit d1 = true /\ forallb is_digit d2 = true end
  | EOL => l = [10]
  | _ => match l with [c] => op_of c = Some typ | _ => False end
  end.

Lemma take_line_lit : forall fuel s acc l s', take_line fuel s acc = ROk l s' ->
  exists y, l = acc ++ y /\ no_nl y /\
            match peek s with Some v => if N.eqb v 10 then y = [] else hd_error y = Some v | None => y = [] end.
Proof.
  induction fuel as [|f IH]; intros s acc l s'; cbn [take_line]; [discriminate|].
  unfold peek. destruct (rest s) as [|v t] eqn:Hr; cbn [hd_error].
  - intros [= <- <-]. exists []. rewrite app_nil_r. repeat split; constructor.
  - destruct (N.eqb v 10) eqn:Ev.
    + intros [= <- <-]. exists []. rewrite app_nil_r. split; [reflexivity|]. split; [constructor|reflexivity].
    + intros H. apply IH in H. destruct H as (y & -> & Hy & _).
      unfold ch_list, next. rewrite Hr. cbn [ch]. exists (v :: y). rewrite <- app_assoc.
      split; [reflexivity|]. split; [constructor; [lia|exact Hy]|reflexivity].
Qed.

Lemma regex_loop_lit : forall fuel s acc l s', regex_loop fuel s acc = ROk l s' ->
  exists y, l = acc ++ y /\ no_nl y.
Proof.
  induction fuel as [|f IH]; intros s acc l s'; cbn [regex_loop]; [discriminate|].
  destruct (ch (next s)) as [c|]; [|discriminate].
  destruct (N.eqb c 10) eqn:E10; [discriminate|]. destruct (N.eqb c 47) eqn:E47.
  - destruct (opt_eq (peek (next s)) 47).
    + intros H. apply IH in H. destruct H as (y & -> & Hy). exists (47 :: y). rewrite <- app_assoc.
      split; [reflexivity|constructor; [discriminate|exact Hy]].
    + intros [= <- <-]. exists []. rewrite app_nil_r. split; [reflexivity|constructor].
  - intros H. apply IH in H. destruct H as (y & -> & Hy). exists (c :: y). rewrite <- app_assoc.
    split; [reflexivity|constructor; [lia|exact Hy]].
Qed.

(* block comments: no star-slash inside; a star at the end is never followed by a slash *)
Lemma has_star_slash_snoc a c : has_star_slash a = false ->
  (last a 0 = 42 -> a <> [] -> c <> 47) -> has_star_slash (a ++ [c]) = false.
Proof.
  induction a as [|x r IH]; intros H Hl; [cbn; rewrite andb_false_r; reflexivity|].
  cbn [app has_star_slash] in *. apply orb_false_iff in H. destruct H as [H1 H2].
  apply orb_false_iff. split.
  - destruct r as [|y r']; cbn [app].
    + destruct (N.eqb x 42) eqn:E; [|reflexivity]. cbn. apply N.eqb_neq. apply Hl; [cbn; lia|discriminate].
    + exact H1.
  - destruct r as [|y r']; [cbn; rewrite andb_false_r; reflexivity|].
    apply IH; [exact H2|]. intros Hla _. apply Hl; [|discriminate].
    change (last (x :: y :: r') 0) with (last (y :: r') 0). exact Hla.
Qed.

Lemma block_comment_loop_lit : forall fuel s acc l s',
  has_star_slash acc = false -> (acc <> [] -> last acc 0 = 42 -> opt_eq (peek s) 47 = false) ->
  block_comment_loop fuel s acc = ROk l s' -> has_star_slash l = false.
Proof.
  induction fuel as [|f IH]; intros s acc l s' Ha Hb; cbn [block_comment_loop]; [discriminate|].
  destruct (opt_eq (ch (next s)) 42 && opt_eq (peek (next s)) 47)%bool eqn:E.
  - intros [= <- <-]. exact Ha.
  - destruct (ch (next s)) as [c|] eqn:Ec.
    + apply IH.
      * apply has_star_slash_snoc; [exact Ha|]. intros Hl Hne Hc. subst c.
        specialize (Hb Hne Hl). unfold peek, opt_eq in Hb. unfold next in Ec.
        destruct (rest s) as [|v t]; cbn in *; [discriminate|]. injection Ec as ->. discriminate.
      * intros _ Hl. rewrite last_last in Hl. subst c. cbn [opt_eq] in E. rewrite N.eqb_refl in E. exact E.
    + intros [= <- <-]. exact Ha.
Qed.

Lemma skip_whitespace_peek : forall fuel s s', skip_whitespace fuel s = Some s' ->
  match peek s' with Some v => is_space v = false \/ v = 10 | None => True end.
Proof.
  induction fuel as [|f IH]; intros s s'; cbn [skip_whitespace]; [discriminate|].
  destruct (peek s) as [v|] eqn:Ep.
  - destruct (is_space v && negb (N.eqb v 10))%bool eqn:E; [apply IH|].
    intros [= <-]. rewrite Ep. apply andb_false_iff in E. destruct E as [E|E]; [left; exact E|right; lia].
  - intros [= <-]. rewrite Ep. exact I.
Qed.

Lemma ident_loop_lit : forall fuel s acc l s', ident_loop fuel s acc = ROk l s' ->
  exists y, l = acc ++ y /\ forallb ident_char y = true.
Proof.
  induction fuel as [|f IH]; intros s acc l s'; cbn [ident_loop]; [discriminate|].
  unfold peek. destruct (rest s) as [|v t] eqn:Hr; cbn [hd_error].
  - intros [= <- <-]. exists []. rewrite app_nil_r. auto.
  - destruct (is_letter v || is_digit v || N.eqb v 95)%bool eqn:Ev.
    + intros H. apply IH in H. destruct H as (y & -> & Hy). unfold ch_list, next. rewrite Hr. cbn [ch].
      exists (v :: y). rewrite <- app_assoc. split; [reflexivity|]. cbn [forallb]. unfold ident_char at 1. rewrite Ev. exact Hy.
    + intros [= <- <-]. exists []. rewrite app_nil_r. auto.
Qed.

Lemma number_loop_lit : forall fuel s sd acc typ l s', number_loop fuel s sd acc = ROk (typ, l) s' ->
  exists y, l = acc ++ y /\
            (typ = INT -> sd = false /\ forallb is_digit y = true) /\
            (typ = DECIMAL -> (sd = true /\ forallb is_digit y = true) \/
                              (sd = false /\ exists d1 d2, y = d1 ++ 46 :: d2 /\ forallb is_digit d1 = true /\ forallb is_digit d2 = true)).
Proof.
  induction fuel as [|f IH]; intros s sd acc typ l s'; cbn [number_loop]; [discriminate|].
  unfold peek. destruct (rest s) as [|v t] eqn:Hr; cbn [hd_error].
  - intros H. inversion H; subst. exists []. rewrite app_nil_r. split; [reflexivity|].
    destruct sd; split; intros Ht; try discriminate; auto.
  - destruct (is_digit v) eqn:Ev.
    + intros H. apply IH in H. destruct H as (y & -> & Hi & Hd). unfold ch_list, next. rewrite Hr. cbn [ch].
      exists (v :: y). rewrite <- app_assoc. split; [reflexivity|]. split.
      * intros Ht. destruct (Hi Ht) as [A B]. split; [exact A|]. cbn [forallb]. rewrite Ev. exact B.
      * intros Ht. destruct (Hd Ht) as [[A B]|(A & d1 & d2 & -> & B1 & B2)].
        -- left. split; [exact A|]. cbn [forallb]. rewrite Ev. exact B.
        -- right. split; [exact A|]. exists (v :: d1), d2. split; [reflexivity|]. cbn [forallb]. rewrite Ev. auto.
    + destruct (N.eqb v 46) eqn:E46.
      * destruct sd; [discriminate|]. intros H. apply IH in H. destruct H as (y & -> & Hi & Hd).
        exists (46 :: y). rewrite <- app_assoc. split; [reflexivity|]. split.
        -- intros Ht. destruct (Hi Ht) as [A _]. discriminate.
        -- intros Ht. right. split; [reflexivity|]. destruct (Hd Ht) as [[_ B]|(A & _)]; [|discriminate].
           exists [], y. auto.
      * intros H. inversion H; subst. exists []. rewrite app_nil_r. split; [reflexivity|].
        destruct sd; split; intros Ht; try discriminate; auto.
Qed.

Lemma op_of_inj c op : op_of c = Some op -> forall typ, op = typ -> op_of c = Some typ.
Proof. intros H typ <-. exact H. Qed.

(* every token NextToken returns has a literal of the shape of its kind *)
Theorem next_token_lit_ok : forall fuel s t s', next_token_fuel fuel s = (LTok t, s') -> lit_ok (ty t) (lit t).
Proof.
  induction fuel as [|f IH]; intros s t s'; cbn [next_token_fuel]; [discriminate|].
  destruct (ch (next s)) as [c|] eqn:Hch; [|discriminate].
  destruct (op_of c) as [op|] eqn:Eop.
  { intros [= <- <-]. cbn [ty lit]. unfold lit_ok.
    revert Eop. unfold op_of, model_operators. cbn [assoc_N].
    repeat (match goal with |- context [N.eqb ?k c] => destruct (N.eqb k c) eqn:? end;
            [intros [= <-]; match goal with H : N.eqb _ c = true |- _ => apply N.eqb_eq in H; subst c end; reflexivity|]).
    discriminate. }
  destruct (N.eqb c 47) eqn:E47.
  { destruct (opt_eq (peek (next s)) 47) eqn:E1.
    - unfold lift_lit, lex_line_comment.
      destruct (take_line _ (next (next s)) []) as [l s1|d s1|] eqn:E; try discriminate.
      intros [= <- <-]. cbn. destruct (take_line_lit _ _ _ _ _ E) as (y & -> & Hy & _). exact Hy.
    - destruct (opt_eq (peek (next s)) 42) eqn:E2.
      + unfold lift_lit, lex_block_comment.
        destruct (block_comment_loop _ (next (next s)) []) as [l s1|d s1|] eqn:E; try discriminate.
        intros [= <- <-]. cbn. eapply block_comment_loop_lit; [| |exact E]; [reflexivity|congruence].
      + unfold lift_lit, lex_regex.
        destruct (regex_loop (S (length (rest (next s)))) (next s) []) as [l s1|d s1|] eqn:E; try discriminate.
        intros [= <- <-]. cbn. destruct (regex_loop_lit _ _ _ _ _ E) as (y & -> & Hy). split; [exact Hy|].
        (* the first rune of the literal is the rune after the slash: neither a slash nor a star *)
        cbn [regex_loop] in E. unfold peek in E1, E2.
        destruct (rest (next s)) as [|c1 t1] eqn:Hr.
        * unfold next in E at 1. rewrite Hr in E. cbn in E. discriminate.
        * cbn [hd_error opt_eq] in E1, E2.
          assert (Hc1 : ch (next (next s)) = Some c1) by (unfold next at 1; rewrite Hr; reflexivity).
          rewrite Hc1 in E. destruct (N.eqb c1 10); [discriminate|]. rewrite E1 in E.
          destruct (regex_loop_lit _ _ _ _ _ E) as (y' & Hy' & _). cbn [app] in Hy'.
          rewrite Hy'. split; lia. }
  destruct (N.eqb c 34) eqn:E34.
  { unfold lift_lit. destruct (lex_string (next s)) as [l s1|d s1|]; try discriminate. intros [= <- <-]. exact I. }
  destruct (N.eqb c 124) eqn:E124.
  { unfold lift_lit, lex_description_line.
    destruct (skip_whitespace _ (next s)) as [s1|] eqn:Es; [|discriminate].
    destruct (take_line _ s1 []) as [l s2|d s2|] eqn:E; try discriminate.
    intros [= <- <-]. cbn. destruct (take_line_lit _ _ _ _ _ E) as (y & -> & Hy & Hp). split; [exact Hy|].
    pose proof (skip_whitespace_peek _ _ _ Es) as Hk. cbn [app].
    destruct (peek s1) as [v|]; [|subst y; exact I].
    destruct y as [|y0 yr]; [exact I|].
    destruct (N.eqb v 10) eqn:Ev; [discriminate|]. cbn in Hp. injection Hp as ->.
    destruct Hk as [Hk|Hk]; [exact Hk|lia]. }
  destruct (N.eqb c 10) eqn:E10.
  { intros [= <- <-]. cbn. apply N.eqb_eq in E10. subst c. reflexivity. }
  destruct (is_space c) eqn:Esp.
  { apply IH. }
  destruct (is_digit c) eqn:Edg.
  { unfold lex_number.
    destruct (number_loop _ (next s) false (ch_list (next s))) as [[typ l] s1|d s1|] eqn:E; try discriminate.
    intros [= <- <-]. cbn [ty lit]. destruct (number_loop_lit _ _ _ _ _ _ _ E) as (y & -> & Hi & Hd).
    unfold ch_list. rewrite Hch. cbn [app].
    assert (Hs : number_start c).
    { repeat split; auto; try lia. }
    destruct (number_loop_type _ _ _ _ _ _ _ E) as [-> | ->]; cbn.
    - split; [exact Hs|]. apply Hi. reflexivity.
    - split; [exact Hs|]. destruct (Hd eq_refl) as [[A _]|(_ & H)]; [discriminate|exact H]. }
  destruct (is_letter c) eqn:Elt; [|discriminate].
  unfold lex_ident. destruct (ident_loop _ (next s) (ch_list (next s))) as [l s1|d s1|] eqn:E; try discriminate.
  destruct (ident_loop_lit _ _ _ _ _ E) as (y & -> & Hy). unfold ch_list. rewrite Hch. cbn [app].
  assert (Hs : ident_start c).
  { repeat split; auto; try lia. }
  destruct (list_N_eqb (c :: y) lit_true || list_N_eqb (c :: y) lit_false)%bool eqn:Eb; intros [= <- <-]; cbn; auto.
Qed.

(* ---- the remaining kinds read back -------------------------------------------------------- *)
Lemma relex_op c typ tail s : op_of c = Some typ -> rest s = [c] ++ tail -> lexes_to s typ [c] tail.
Proof.
  intros Ho Hr. unfold lexes_to, next_token. cbn [next_token_fuel app] in *.
  destruct (next_cons s _ _ Hr) as [Hc Ht]. rewrite Hc, Ho. eauto.
Qed.

Lemma relex_eol tail s : rest s = [10] ++ tail -> lexes_to s EOL [10] tail.
Proof.
  intros Hr. unfold lexes_to, next_token. cbn [next_token_fuel app] in *.
  destruct (next_cons s _ _ Hr) as [Hc Ht]. rewrite Hc. cbn. eauto.
Qed.

Lemma relex_decimal c d1 d2 tail s :
  number_start c -> forallb is_digit d1 = true -> forallb is_digit d2 = true ->
  match tail with [] => True | d :: _ => is_digit d = false /\ d <> 46 end ->
  rest s = (c :: d1 ++ 46 :: d2) ++ tail -> lexes_to s DECIMAL (c :: d1 ++ 46 :: d2) tail.
Proof.
  intros (Hop & H47 & H34 & H124 & H10 & Hsp & Hdg) H1 H2 Ht Hs. cbn [app] in Hs.
  unfold lexes_to, next_token. cbn [next_token_fuel].
  destruct (next_cons s _ _ Hs) as [Hc Hn]. rewrite Hc, Hop.
  replace (N.eqb c 47) with false by lia. replace (N.eqb c 34) with false by lia.
  replace (N.eqb c 124) with false by lia. replace (N.eqb c 10) with false by lia.
  rewrite Hsp, Hdg. unfold lex_number.
  (* digits up to the dot *)
  rewrite <- app_assoc in Hn. cbn [app] in Hn.
  assert (Hloop : forall fuel s0 acc, rest s0 = d1 ++ 46 :: d2 ++ tail -> (length (rest s0) < fuel)%nat ->
            exists s1, number_loop fuel s0 false acc = ROk (DECIMAL, acc ++ d1 ++ 46 :: d2) s1 /\ rest s1 = tail).
  { clear - H1 H2 Ht. induction d1 as [|x r IH]; intros fuel s0 acc Hr Hf.
    - cbn [app] in Hr. destruct fuel as [|f]; [lia|]. cbn [number_loop]. unfold peek. rewrite Hr. cbn [hd_error].
      replace (is_digit 46) with false by (vm_compute; reflexivity). cbn.
      destruct (next_cons s0 _ _ Hr) as [_ Hn0].
      assert (Ht' : match tail with [] => True | c0 :: _ => is_digit c0 = false /\ (c0 = 46 -> true = false -> False) /\ (c0 = 46 -> true = true -> False) end).
      { destruct tail as [|d t]; [exact I|]. destruct Ht as [A B]. split; [exact A|]. split; intros; [discriminate|contradiction]. }
      destruct (number_loop_digits d2 f (next s0) true (acc ++ [46]) tail H2 Ht' Hn0) as (s1 & E & Hs1).
      { rewrite Hn0. rewrite Hr in Hf. cbn in Hf. lia. }
      exists s1. rewrite E. rewrite <- app_assoc. auto.
    - cbn [forallb] in H1. apply andb_true_iff in H1. destruct H1 as [Hx H1].
      cbn [app] in Hr. destruct fuel as [|f]; [lia|]. cbn [number_loop]. unfold peek. rewrite Hr. cbn [hd_error]. rewrite Hx.
      destruct (next_cons s0 _ _ Hr) as [Hch Hn0].
      destruct (IH H1 f (next s0) (acc ++ ch_list (next s0)) Hn0) as (s1 & E & Hs1).
      { rewrite Hn0. rewrite Hr in Hf. cbn in Hf. lia. }
      exists s1. rewrite E. unfold ch_list. rewrite Hch. rewrite <- !app_assoc. auto. }
  destruct (Hloop (S (length (rest (next s)))) (next s) (ch_list (next s)) Hn) as (s1 & E & Hs1); [lia|].
  rewrite E. unfold ch_list. rewrite Hc. cbn. eauto.
Qed.

(* what may follow a token in the text without changing how it is read *)
Definition sep_ok (typ : ttype) (tail : list N) : Prop :=
  match typ with
  | REGEX => not_starting 47 tail
  | COMMENT | DESCRIPTION => line_end tail
  | IDENT | BOOL => not_extending ident_char tail
  | INT | DECIMAL => match tail with [] => True | d :: _ => is_digit d = false /\ d <> 46 end
  | _ => True
  end.

(* a token of a well-shaped literal is read back from its rendering *)
Theorem relex_token typ l tail s : lit_ok typ l -> sep_ok typ tail ->
  rest s = token_source (mkTok typ l pos0 pos0) ++ tail -> lexes_to s typ l tail.
Proof.
  intros Hl Hs Hr. destruct typ; cbn [lit_ok sep_ok] in *;
    try (cbn [token_source ty lit] in Hr; destruct l as [|c [|c2 r]]; try contradiction; apply relex_op; assumption).
  - (* EOL *) subst l. apply relex_eol. exact Hr.
  - (* IDENT *) destruct Hl as [Hl Hb]. destruct l as [|c r]; [contradiction|]. destruct Hl as [H1 H2].
    cbn [token_source ty lit] in Hr.
    unfold lexes_to, next_token. cbn [next_token_fuel app] in *.
    destruct (next_cons s _ _ Hr) as [Hc Hn]. rewrite Hc.
    destruct H1 as (Hop & H47 & H34 & H124 & H10 & Hsp & Hdg & Hlt). rewrite Hop.
    replace (N.eqb c 47) with false by lia. replace (N.eqb c 34) with false by lia.
    replace (N.eqb c 124) with false by lia. replace (N.eqb c 10) with false by lia.
    rewrite Hsp, Hdg, Hlt. unfold lex_ident.
    destruct (ident_loop_inverse r (S (length (rest (next s)))) (next s) (ch_list (next s)) tail H2 Hs Hn) as (s1 & E1 & Hs1); [lia|].
    rewrite E1. unfold ch_list. rewrite Hc. cbn [app]. rewrite Hb. eauto.
  - (* STRING *) apply relex_string. exact Hr.
  - (* REGEX *) destruct Hl as [H1 H2]. apply relex_regex; assumption.
  - (* INT *) destruct l as [|c r]; [contradiction|]. destruct Hl as [H1 H2]. apply relex_int; assumption.
  - (* DECIMAL *) destruct l as [|c r]; [contradiction|]. destruct Hl as (H1 & d1 & d2 & -> & H2 & H3).
    apply relex_decimal; assumption.
  - (* BOOL *) destruct Hl as [Hl Hb]. destruct l as [|c r]; [contradiction|]. destruct Hl as [H1 H2].
    cbn [token_source ty lit] in Hr.
    unfold lexes_to, next_token. cbn [next_token_fuel app] in *.
    destruct (next_cons s _ _ Hr) as [Hc Hn]. rewrite Hc.
    destruct H1 as (Hop & H47 & H34 & H124 & H10 & Hsp & Hdg & Hlt). rewrite Hop.
    replace (N.eqb c 47) with false by lia. replace (N.eqb c 34) with false by lia.
    replace (N.eqb c 124) with false by lia. replace (N.eqb c 10) with false by lia.
    rewrite Hsp, Hdg, Hlt. unfold lex_ident.
    destruct (ident_loop_inverse r (S (length (rest (next s)))) (next s) (ch_list (next s)) tail H2 Hs Hn) as (s1 & E1 & Hs1); [lia|].
    rewrite E1. unfold ch_list. rewrite Hc. cbn [app]. rewrite Hb. eauto.
  - (* COMMENT *) apply relex_comment; assumption.
  - (* BLOCK_COMMENT *) apply relex_block_comment; assumption.
  - (* DESCRIPTION *) destruct Hl as [H1 H2]. apply relex_description; assumption.
Qed.

(* the token-level round trip: whatever the lexer emits, it reads back from tokenSource *)
Theorem token_roundtrip : forall fuel s t s' tail s2,
  next_token_fuel fuel s = (LTok t, s') -> sep_ok (ty t) tail ->
  rest s2 = token_source (mkTok (ty t) (lit t) pos0 pos0) ++ tail ->
  lexes_to s2 (ty t) (lit t) tail.
Proof.
  intros fuel s t s' tail s2 E Hs Hr. apply relex_token; [eapply next_token_lit_ok; eauto|exact Hs|exact Hr].
Qed.

(* J5sNamedProofs.v — the descriptors the converter writes for well-formed declarations have the
   naming form [named_ok] (J5sLinkExtProofs.v): nested names are dot-free, and a field's type
   name is empty, fully qualified, a dotted path below the package, or the name of the map entry
   nested next to the field. *)
From Coq Require Import String List NArith Bool Lia.
From J5V.lib Require Import Outcome Corr.
From J5V.model Require Import J5sAst Desc J5sWalk J5sLink J5sConvert J5sContract J5sValid J5sEdit.
From J5V.proofs Require Import J5sProofs J5sContractProofs J5sLinkProofs J5sExtProofs J5sCompileProofs J5sLinkExtProofs.
Import ListNotations.
Local Open Scope N_scope.

Lemma rel_tn_ok_incl nested nested' tn : incl nested nested' -> rel_tn_ok nested tn -> rel_tn_ok nested' tn.
Proof. intros Hi [H|[H|[H|H]]]; unfold rel_tn_ok; auto. Qed.

Lemma has_dot_app_r x y : has_dot y = true -> has_dot (x ++ y) = true.
Proof. unfold has_dot. intros H. rewrite existsb_app, H. apply orb_true_r. Qed.

Lemma has_dot_join a l : l <> [] -> has_dot (join dot (a :: l)) = true.
Proof.
  destruct l as [|c r]; [contradiction|]. intros _.
  change (join dot (a :: c :: r)) with (a ++ dot ++ join dot (c :: r)).
  apply has_dot_app_r. reflexivity.
Qed.

Lemma has_dot_rel path n : path <> [] -> has_dot (rel_name (path ++ [n])) = true.
Proof.
  intros Hne. unfold rel_name. destruct path as [|a r]; [contradiction|]. cbn [app].
  apply has_dot_join. destruct r; discriminate.
Qed.

Lemma map_name_go_nodot s : forall up, nodot_b s = true -> nodot_b (map_name_go s up) = true.
Proof.
  induction s as [|c r IH]; intros up H; [reflexivity|]. cbn [map_name_go].
  unfold nodot_b in H. cbn in H. apply andb_true_iff in H. destruct H as [Hc Hr].
  destruct (c =? 95); [apply IH; exact Hr|].
  apply negb_true_iff in Hc. apply N.eqb_neq in Hc.
  assert (Hu : (if up then upper c else c) <> 46).
  { destruct up; [|exact Hc]. unfold upper. destruct ((97 <=? c) && (c <=? 122)) eqn:E; [|exact Hc].
    apply andb_true_iff in E. destruct E as [E1 E2]. apply N.leb_le in E1, E2. lia. }
  pose proof (IH false Hr) as Hrest. unfold nodot_b in *. cbn [forallb].
  rewrite Hrest, andb_true_r. apply negb_true_iff. apply N.eqb_neq. exact Hu.
Qed.

Lemma map_name_nodot s : nodot_b s = true -> nodot_b (map_name s) = true.
Proof. intros H. unfold map_name. apply nodot_app; [apply map_name_go_nodot; exact H|reflexivity]. Qed.

Section Named.
Variables snake camel screaming : str -> str.
Hypothesis Hcamel : forall s, nodot_b (camel s) = true.
Hypothesis Hsnake : forall s, nodot_b (snake s) = true.
Variable ev : env.
(* every resolved type has a package, so its type name is fully qualified *)
Hypothesis Henv : forall r t, resolve ev r = Ok t -> tr_pkg t <> [].

Notation cv_item := (cv_item snake camel screaming).
Notation cv_props := (cv_props snake camel screaming).
Notation cv_property := (cv_property snake camel screaming).
Notation wf_item := (wf_item snake camel).
Notation wf_props := (wf_props snake camel).
Notation wf_property := (wf_property snake camel).

Definition tn_shape (tn : str) : Prop := tn = [] \/ hd 0 tn = 46 \/ has_dot tn = true.

Definition pieces_ok (msgs : list dmsg) : Prop :=
  Forall named_ok msgs /\ forall m, In m msgs -> nodot_b (dm_name m) = true.

Lemma pieces_app a c : pieces_ok a -> pieces_ok c -> pieces_ok (a ++ c).
Proof.
  intros [A1 A2] [C1 C2]. split; [apply Forall_app; split; assumption|].
  intros m Hm. apply in_app_or in Hm. destruct Hm; auto.
Qed.

Lemma name_opt_nodot dflt nm : nodot_b dflt = true -> name_opt_ok nm = true -> nodot_b (inline_name dflt nm) = true.
Proof.
  intros Hd Hn. destruct nm as [|c r]; [exact Hd|]. cbn [inline_name]. unfold name_opt_ok in Hn.
  apply type_ident_facts in Hn. apply Hn.
Qed.

Lemma scalar_tn_shape s : tn_shape (fc_tname (scalar_core s)).
Proof. destruct s as [| | |[]|[]| | | |[]|]; cbn; unfold tn_shape; auto. Qed.

Lemma ref_core_shape_tn r we c : ref_core ev r we = Ok c -> tn_shape (fc_tname c) /\ fc_msgs c = [].
Proof.
  unfold ref_core. intros H. inv_ok H. pose proof (Henv _ _ E) as Hp.
  assert (Hd : hd 0 (tr_tname a) = 46).
  { unfold tr_tname. destruct (tr_pkg a); [contradiction|]. reflexivity. }
  destruct we; destruct (tr_enum a); try discriminate; inversion H; subst; cbn; split; try reflexivity; right; left; exact Hd.
Qed.

Definition item_named0 (f : field) : Prop :=
  wf_item ev f = true -> forall path dflt c, path <> [] -> nodot_b dflt = true ->
    cv_item ev path dflt f = Ok c -> tn_shape (fc_tname c) /\ pieces_ok (fc_msgs c).
Definition item_named (f : field) : Prop :=
  item_named0 f /\ match f with FArray it | FMap it => item_named0 it | _ => True end.

Definition fields_named (r : pres) : Prop :=
  (forall f, In f (pr_fields r) -> rel_tn_ok (map dm_name (pr_msgs r)) (f_tname f)) /\ pieces_ok (pr_msgs r).

Lemma named_msg n k r : fields_named r -> named_ok (DMsg n k (pr_fields r) (pr_msgs r) (pr_enums r)).
Proof. intros [Hf [Hj Hn]]. constructor; assumption. Qed.

Theorem convert_named :
  (forall f, item_named f) /\
  (forall ps io, wf_props ev io ps = true -> forall path n r, path <> [] ->
      cv_props ev path io n ps = Ok r -> fields_named r) /\
  (forall p io, wf_property ev io p = true -> forall path n r, path <> [] ->
      cv_property ev path io n p = Ok r -> fields_named r).
Proof.
  apply ast_mutind.
  - intros s. split; [|exact I]. intros _ path dflt c _ _ H. cbn in H. inversion H. subst c.
    split; [apply scalar_tn_shape|]. destruct (scalar_core_msgs s) as [Hm _]. rewrite Hm. split; [constructor|intros m []].
  - intros r. split; [|exact I]. intros _ path dflt c _ _ H. cbn in H.
    destruct (ref_core_shape_tn _ _ _ H) as [Ht Hm]. rewrite Hm. split; [exact Ht|split; [constructor|intros m []]].
  - intros nm ps IH. split; [|exact I]. intros Hw path dflt c Hp Hd H. cbn in Hw.
    apply andb_true_iff in Hw. destruct Hw as [Hw _]. apply andb_true_iff in Hw. destruct Hw as [Hn Hw].
    rewrite (cv_item_obj snake camel screaming) in H. inv_ok H. inversion H. subst c. clear H.
    cbn [fc_tname fc_msgs]. split; [right; right; apply has_dot_rel; exact Hp|].
    assert (Hne : path ++ [inline_name dflt nm] <> []) by (destruct path; discriminate).
    pose proof (IH false Hw _ _ _ Hne E) as Hr.
    split; [constructor; [apply named_msg; exact Hr|constructor]|].
    intros m [<-|[]]. cbn [dm_name]. apply name_opt_nodot; assumption.
  - intros r. split; [|exact I]. intros _ path dflt c _ _ H. cbn in H.
    destruct (ref_core_shape_tn _ _ _ H) as [Ht Hm]. rewrite Hm. split; [exact Ht|split; [constructor|intros m []]].
  - intros nm ps IH. split; [|exact I]. intros Hw path dflt c Hp Hd H. cbn in Hw.
    apply andb_true_iff in Hw. destruct Hw as [Hw _]. apply andb_true_iff in Hw. destruct Hw as [Hw _].
    apply andb_true_iff in Hw. destruct Hw as [Hn Hw].
    rewrite (cv_item_oneof snake camel screaming) in H. inv_ok H. inversion H. subst c. clear H.
    cbn [fc_tname fc_msgs]. split; [right; right; apply has_dot_rel; exact Hp|].
    assert (Hne : path ++ [inline_name dflt nm] <> []) by (destruct path; discriminate).
    pose proof (IH true Hw _ _ _ Hne E) as Hr.
    split; [constructor; [apply named_msg; exact Hr|constructor]|].
    intros m [<-|[]]. cbn [dm_name]. apply name_opt_nodot; assumption.
  - intros r. split; [|exact I]. intros _ path dflt c _ _ H. cbn in H.
    destruct (ref_core_shape_tn _ _ _ H) as [Ht Hm]. rewrite Hm. split; [exact Ht|split; [constructor|intros m []]].
  - intros e. split; [|exact I]. intros _ path dflt c Hp _ H. cbn in H. inversion H. subst c. cbn [fc_tname fc_msgs].
    split; [right; right; apply has_dot_rel; exact Hp|split; [constructor|intros m []]].
  - intros it [IH _]. split; [|exact IH]. intros Hw. cbn in Hw. discriminate.
  - intros it [IH _]. split; [|exact IH]. intros Hw. cbn in Hw. discriminate.
  - intros io _ path n r _ H. cbn in H. inversion H. subst r. split; [intros f []|split; [constructor|intros m []]].
  - intros p IHp ps IHps io Hw path n r Hp H. cbn in Hw. apply andb_true_iff in Hw. destruct Hw as [H1 H2].
    rewrite (cv_props_cons snake camel screaming) in H. inv_ok H. inversion H. subst r. clear H.
    destruct (IHp io H1 _ _ _ Hp E) as [Fa Pa]. destruct (IHps io H2 _ _ _ Hp E0) as [Fc Pc].
    split; [|apply pieces_app; assumption]. cbn [pres_app pr_fields pr_msgs]. rewrite map_app.
    intros f Hf. apply in_app_or in Hf. destruct Hf as [Hf|Hf].
    + eapply rel_tn_ok_incl; [|apply Fa; exact Hf]. apply incl_appl. apply incl_refl.
    + eapply rel_tn_ok_incl; [|apply Fc; exact Hf]. apply incl_appr. apply incl_refl.
  - intros n rq op f [IH IHit] io Hw path num r Hp H. cbn in Hw.
    apply andb_true_iff in Hw. destruct Hw as [Hw Hwf]. rewrite (cv_property_eq snake camel screaming) in H.
    assert (Hshape : forall tn, tn_shape tn -> forall nested, rel_tn_ok nested tn).
    { intros tn [Ht|[Ht|Ht]] nested; unfold rel_tn_ok; auto. }
    destruct f as [s|rf|nm ps|rf|nm ps|rf|e|it|it].
    1-7: inv_ok H; apply finish_inv in H; destruct H as (Hf & Hm & He);
         destruct (IH Hwf _ _ _ Hp (Hcamel n) E) as [Ht Hpc]; unfold fields_named; rewrite Hf, Hm;
         (split; [intros x [<-|[]]; cbn [f_tname]; apply Hshape; exact Ht|exact Hpc]).
    + inv_ok H. apply finish_inv in H. destruct H as (Hf & Hm & He).
      destruct (IHit Hwf _ _ _ Hp (Hcamel n) E) as [Ht Hpc]. unfold fields_named. rewrite Hf, Hm.
      split; [intros x [<-|[]]; cbn [f_tname]; apply Hshape; exact Ht|exact Hpc].
    + inv_ok H. destruct io; [discriminate|]. apply finish_inv in H. destruct H as (Hf & Hm & He).
      destruct (IHit Hwf _ _ _ Hp (Hcamel n) E) as [Ht Hpc]. unfold fields_named. rewrite Hf, Hm.
      assert (Hen : nodot_b (map_name (snake n)) = true) by (apply map_name_nodot; apply Hsnake).
      split.
      * intros x [<-|[]]. cbn [f_tname]. right. right. left. rewrite map_app. apply in_or_app. right. left. reflexivity.
      * apply pieces_app; [exact Hpc|]. split.
        -- constructor; [|constructor]. constructor; [intros m []| |constructor].
           intros x [<-|[<-|[]]]; cbn [f_tname key_field value_field]; [left; reflexivity|apply Hshape; exact Ht].
        -- intros m [<-|[]]. exact Hen.
Qed.

End Named.

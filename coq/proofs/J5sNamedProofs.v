(* J5sNamedProofs.v — the descriptors the converter writes for well-formed declarations have the
   naming form [named_ok] (J5sLinkExtProofs.v): nested names are dot-free, and a field's type
   name is empty, fully qualified, a dotted path below the package, or the name of the map entry
   nested next to the field. *)
From Coq Require Import String List NArith Bool Lia.
From J5V.lib Require Import Outcome Corr.
From J5V.model Require Import J5sAst Desc J5sWalk J5sLink J5sConvert J5sContract J5sValid J5sEdit.
From J5V.proofs Require Import J5sProofs J5sContractProofs J5sLinkProofs J5sExtProofs J5sTotalProofs J5sCompileProofs J5sLinkExtProofs.
Import ListNotations.
Local Open Scope N_scope.

Lemma rel_tn_ok_incl nested nested' tn : incl nested nested' -> rel_tn_ok nested tn -> rel_tn_ok nested' tn.
Proof. intros Hi [H|[H|[H|H]]]; unfold rel_tn_ok; auto. Qed.

Lemma has_dot_app_r x y : has_dot y = true -> has_dot (x ++ y) = true.
Proof. unfold has_dot. intros H. rewrite existsb_app, H. apply orb_true_r. Qed.

Lemma has_dot_join a l : l <> [] -> has_dot (join dot (a :: l)) = true.
Proof.
  destruct l as [|c r]; [contradiction|]. intros _.
  change (join dot (a :: c :: r)) with (a ++ dot ++ join dot (c :: r)).
  apply has_dot_app_r. reflexivity.
Qed.

Lemma has_dot_rel path n : path <> [] -> has_dot (rel_name (path ++ [n])) = true.
Proof.
  intros Hne. unfold rel_name. destruct path as [|a r]; [contradiction|]. cbn [app].
  apply has_dot_join. destruct r; discriminate.
Qed.

Lemma map_name_go_nodot s : forall up, nodot_b s = true -> nodot_b (map_name_go s up) = true.
Proof.
  induction s as [|c r IH]; intros up H; [reflexivity|]. cbn [map_name_go].
  unfold nodot_b in H. cbn in H. apply andb_true_iff in H. destruct H as [Hc Hr].
  destruct (c =? 95); [apply IH; exact Hr|].
  apply negb_true_iff in Hc. apply N.eqb_neq in Hc.
  assert (Hu : (if up then upper c else c) <> 46).
  { destruct up; [|exact Hc]. unfold upper. destruct ((97 <=? c) && (c <=? 122)) eqn:E; [|exact Hc].
    apply andb_true_iff in E. destruct E as [E1 E2]. apply N.leb_le in E1, E2. lia. }
  pose proof (IH false Hr) as Hrest. unfold nodot_b in *. cbn [forallb].
  rewrite Hrest, andb_true_r. apply negb_true_iff. apply N.eqb_neq. exact Hu.
Qed.

Lemma map_name_nodot s : nodot_b s = true -> nodot_b (map_name s) = true.
Proof. intros H. unfold map_name. apply nodot_app; [apply map_name_go_nodot; exact H|reflexivity]. Qed.

Section Named.
Variables snake camel screaming : str -> str.
Hypothesis Hcamel : forall s, nodot_b (camel s) = true.
Hypothesis Hsnake : forall s, nodot_b (snake s) = true.
Variable ev : env.
(* every resolved type has a package, so its type name is fully qualified *)
Hypothesis Henv : forall r t, resolve ev r = Ok t -> tr_pkg t <> [].

Notation cv_item := (cv_item snake camel screaming).
Notation cv_props := (cv_props snake camel screaming).
Notation cv_property := (cv_property snake camel screaming).
Notation wf_item := (wf_item snake camel).
Notation wf_props := (wf_props snake camel).
Notation wf_property := (wf_property snake camel).

Definition tn_shape (tn : str) : Prop := tn = [] \/ hd 0 tn = 46 \/ has_dot tn = true.

Definition pieces_ok (msgs : list dmsg) : Prop :=
  Forall named_ok msgs /\ forall m, In m msgs -> nodot_b (dm_name m) = true.

Lemma pieces_app a c : pieces_ok a -> pieces_ok c -> pieces_ok (a ++ c).
Proof.
  intros [A1 A2] [C1 C2]. split; [apply Forall_app; split; assumption|].
  intros m Hm. apply in_app_or in Hm. destruct Hm; auto.
Qed.

Lemma name_opt_nodot dflt nm : nodot_b dflt = true -> name_opt_ok nm = true -> nodot_b (inline_name dflt nm) = true.
Proof.
  intros Hd Hn. destruct nm as [|c r]; [exact Hd|]. cbn [inline_name]. unfold name_opt_ok in Hn.
  apply type_ident_facts in Hn. apply Hn.
Qed.

Lemma scalar_tn_shape s : tn_shape (fc_tname (scalar_core s)).
Proof. destruct s as [| | |[]|[]| | | |[]|]; cbn; unfold tn_shape; auto. Qed.

Lemma ref_core_shape_tn r we c : ref_core ev r we = Ok c -> tn_shape (fc_tname c) /\ fc_msgs c = [].
Proof.
  unfold ref_core. intros H. inv_ok H. pose proof (Henv _ _ E) as Hp.
  assert (Hd : hd 0 (tr_tname a) = 46).
  { unfold tr_tname. destruct (tr_pkg a); [contradiction|]. reflexivity. }
  destruct we; destruct (tr_enum a); try discriminate; inversion H; subst; cbn; split; try reflexivity; right; left; exact Hd.
Qed.

Definition item_named0 (f : field) : Prop :=
  wf_item ev f = true -> forall path dflt c, path <> [] -> nodot_b dflt = true ->
    cv_item ev path dflt f = Ok c -> tn_shape (fc_tname c) /\ pieces_ok (fc_msgs c).
Definition item_named (f : field) : Prop :=
  item_named0 f /\ match f with FArray it | FMap it => item_named0 it | _ => True end.

Definition fields_named (r : pres) : Prop :=
  (forall f, In f (pr_fields r) -> rel_tn_ok (map dm_name (pr_msgs r)) (f_tname f)) /\ pieces_ok (pr_msgs r).

Lemma named_msg n k r : fields_named r -> named_ok (DMsg n k (pr_fields r) (pr_msgs r) (pr_enums r)).
Proof. intros [Hf [Hj Hn]]. constructor; assumption. Qed.

Theorem convert_named :
  (forall f, item_named f) /\
  (forall ps io, wf_props ev io ps = true -> forall path n r, path <> [] ->
      cv_props ev path io n ps = Ok r -> fields_named r) /\
  (forall p io, wf_property ev io p = true -> forall path n r, path <> [] ->
      cv_property ev path io n p = Ok r -> fields_named r).
Proof.
  apply ast_mutind.
  - intros s. split; [|exact I]. intros _ path dflt c _ _ H. cbn in H. inversion H. subst c.
    split; [apply scalar_tn_shape|]. destruct (scalar_core_msgs s) as [Hm _]. rewrite Hm. split; [constructor|intros m []].
  - intros r. split; [|exact I]. intros _ path dflt c _ _ H. cbn in H.
    destruct (ref_core_shape_tn _ _ _ H) as [Ht Hm]. rewrite Hm. split; [exact Ht|split; [constructor|intros m []]].
  - intros nm ps IH. split; [|exact I]. intros Hw path dflt c Hp Hd H. cbn in Hw.
    apply andb_true_iff in Hw. destruct Hw as [Hw _]. apply andb_true_iff in Hw. destruct Hw as [Hn Hw].
    rewrite (cv_item_obj snake camel screaming) in H. inv_ok H. inversion H. subst c. clear H.
    cbn [fc_tname fc_msgs]. split; [right; right; apply has_dot_rel; exact Hp|].
    assert (Hne : path ++ [inline_name dflt nm] <> []) by (destruct path; discriminate).
    pose proof (IH false Hw _ _ _ Hne E) as Hr.
    split; [constructor; [apply named_msg; exact Hr|constructor]|].
    intros m [<-|[]]. cbn [dm_name]. apply name_opt_nodot; assumption.
  - intros r. split; [|exact I]. intros _ path dflt c _ _ H. cbn in H.
    destruct (ref_core_shape_tn _ _ _ H) as [Ht Hm]. rewrite Hm. split; [exact Ht|split; [constructor|intros m []]].
  - intros nm ps IH. split; [|exact I]. intros Hw path dflt c Hp Hd H. cbn in Hw.
    apply andb_true_iff in Hw. destruct Hw as [Hw _]. apply andb_true_iff in Hw. destruct Hw as [Hw _].
    apply andb_true_iff in Hw. destruct Hw as [Hn Hw].
    rewrite (cv_item_oneof snake camel screaming) in H. inv_ok H. inversion H. subst c. clear H.
    cbn [fc_tname fc_msgs]. split; [right; right; apply has_dot_rel; exact Hp|].
    assert (Hne : path ++ [inline_name dflt nm] <> []) by (destruct path; discriminate).
    pose proof (IH true Hw _ _ _ Hne E) as Hr.
    split; [constructor; [apply named_msg; exact Hr|constructor]|].
    intros m [<-|[]]. cbn [dm_name]. apply name_opt_nodot; assumption.
  - intros r. split; [|exact I]. intros _ path dflt c _ _ H. cbn in H.
    destruct (ref_core_shape_tn _ _ _ H) as [Ht Hm]. rewrite Hm. split; [exact Ht|split; [constructor|intros m []]].
  - intros e. split; [|exact I]. intros _ path dflt c Hp _ H. cbn in H. inversion H. subst c. cbn [fc_tname fc_msgs].
    split; [right; right; apply has_dot_rel; exact Hp|split; [constructor|intros m []]].
  - intros it [IH _]. split; [|exact IH]. intros Hw. cbn in Hw. discriminate.
  - intros it [IH _]. split; [|exact IH]. intros Hw. cbn in Hw. discriminate.
  - intros io _ path n r _ H. cbn in H. inversion H. subst r. split; [intros f []|split; [constructor|intros m []]].
  - intros p IHp ps IHps io Hw path n r Hp H. cbn in Hw. apply andb_true_iff in Hw. destruct Hw as [H1 H2].
    rewrite (cv_props_cons snake camel screaming) in H. inv_ok H. inversion H. subst r. clear H.
    destruct (IHp io H1 _ _ _ Hp E) as [Fa Pa]. destruct (IHps io H2 _ _ _ Hp E0) as [Fc Pc].
    split; [|apply pieces_app; assumption]. cbn [pres_app pr_fields pr_msgs]. rewrite map_app.
    intros f Hf. apply in_app_or in Hf. destruct Hf as [Hf|Hf].
    + eapply rel_tn_ok_incl; [|apply Fa; exact Hf]. apply incl_appl. apply incl_refl.
    + eapply rel_tn_ok_incl; [|apply Fc; exact Hf]. apply incl_appr. apply incl_refl.
  - intros n rq op f [IH IHit] io Hw path num r Hp H. cbn in Hw.
    apply andb_true_iff in Hw. destruct Hw as [Hw Hwf]. rewrite (cv_property_eq snake camel screaming) in H.
    assert (Hshape : forall tn, tn_shape tn -> forall nested, rel_tn_ok nested tn).
    { intros tn [Ht|[Ht|Ht]] nested; unfold rel_tn_ok; auto. }
    destruct f as [s|rf|nm ps|rf|nm ps|rf|e|it|it].
    1-7: inv_ok H; apply finish_inv in H; destruct H as (Hf & Hm & He);
         destruct (IH Hwf _ _ _ Hp (Hcamel n) E) as [Ht Hpc]; unfold fields_named; rewrite Hf, Hm;
         (split; [intros x [<-|[]]; cbn [f_tname]; apply Hshape; exact Ht|exact Hpc]).
    + inv_ok H. apply finish_inv in H. destruct H as (Hf & Hm & He).
      destruct (IHit Hwf _ _ _ Hp (Hcamel n) E) as [Ht Hpc]. unfold fields_named. rewrite Hf, Hm.
      split; [intros x [<-|[]]; cbn [f_tname]; apply Hshape; exact Ht|exact Hpc].
    + inv_ok H. destruct io; [discriminate|]. apply finish_inv in H. destruct H as (Hf & Hm & He).
      destruct (IHit Hwf _ _ _ Hp (Hcamel n) E) as [Ht Hpc]. unfold fields_named. rewrite Hf, Hm.
      assert (Hen : nodot_b (map_name (snake n)) = true) by (apply map_name_nodot; apply Hsnake).
      split.
      * intros x [<-|[]]. cbn [f_tname]. right. right. left. rewrite map_app. apply in_or_app. right. left. reflexivity.
      * apply pieces_app; [exact Hpc|]. split.
        -- constructor; [|constructor]. constructor; [intros m []| |constructor].
           intros x [<-|[<-|[]]]; cbn [f_tname key_field value_field]; [left; reflexivity|apply Hshape; exact Ht].
        -- intros m [<-|[]]. exact Hen.
Qed.

End Named.

(* ================================================================== declarations, services, files *)
Section NamedFiles.
Variables snake camel screaming : str -> str.
Hypothesis Hcamel : forall s, nodot_b (camel s) = true.
Hypothesis Hsnake : forall s, nodot_b (snake s) = true.
Variable ev : env.
Hypothesis Henv : forall r t, resolve ev r = Ok t -> tr_pkg t <> [].

Notation cv_props := (cv_props snake camel screaming).
Notation cv_nested := (cv_nested snake camel screaming).
Notation cv_nesteds := (cv_nesteds snake camel screaming).
Notation cv_virtual := (cv_virtual snake camel screaming).
Notation wf_props := (wf_props snake camel).
Notation wf_nested := (wf_nested snake camel).
Notation wf_nesteds := (wf_nesteds snake camel).

Lemma props_named ps io : wf_props ev io ps = true -> forall path n r, path <> [] ->
  cv_props ev path io n ps = Ok r -> fields_named r.
Proof. exact (proj1 (proj2 (convert_named snake camel screaming Hcamel Hsnake ev Henv)) ps io). Qed.

Lemma named_with_subs n k r sm se :
  fields_named r -> pieces_ok sm ->
  named_ok (DMsg n k (pr_fields r) (pr_msgs r ++ sm) (pr_enums r ++ se)).
Proof.
  intros [Hf Hp] Hs. destruct (pieces_app _ _ Hp Hs) as [Hj Hn]. constructor; [exact Hn| |exact Hj].
  intros f Hin. eapply rel_tn_ok_incl; [|apply Hf; exact Hin]. rewrite map_app. apply incl_appl. apply incl_refl.
Qed.

Theorem nested_named :
  (forall n, wf_nested ev n = true -> forall path ms es is, cv_nested ev path n = Ok (ms, es, is) -> pieces_ok ms) /\
  (forall ns, wf_nesteds ev ns = true -> forall path ms es is, cv_nesteds ev path ns = Ok (ms, es, is) -> pieces_ok ms).
Proof.
  apply nested_mutind.
  - intros nm ps subs IH Hw path ms es is H. cbn in Hw. repeat (apply andb_true_iff in Hw; destruct Hw as [Hw ?]).
    rewrite (cv_nested_obj snake camel screaming) in H. inv_ok H. destruct a0 as [[sm se] si]. inversion H. subst. clear H.
    assert (Hne : path ++ [nm] <> []) by (destruct path; discriminate).
    pose proof (props_named ps false ltac:(assumption) _ _ _ Hne E) as Hr.
    pose proof (IH ltac:(assumption) _ _ _ _ E0) as Hs.
    split; [constructor; [apply named_with_subs; assumption|constructor]|].
    intros m [<-|[]]. cbn [dm_name]. apply type_ident_facts. assumption.
  - intros nm ps subs IH Hw path ms es is H. cbn in Hw. repeat (apply andb_true_iff in Hw; destruct Hw as [Hw ?]).
    rewrite (cv_nested_oneof snake camel screaming) in H. inv_ok H. destruct a0 as [[sm se] si]. inversion H. subst. clear H.
    assert (Hne : path ++ [nm] <> []) by (destruct path; discriminate).
    pose proof (props_named ps true ltac:(assumption) _ _ _ Hne E) as Hr.
    pose proof (IH ltac:(assumption) _ _ _ _ E0) as Hs.
    split; [constructor; [apply named_with_subs; assumption|constructor]|].
    intros m [<-|[]]. cbn [dm_name]. apply type_ident_facts. assumption.
  - intros e _ path ms es is H. cbn in H. inversion H. subst. split; [constructor|intros m []].
  - intros _ path ms es is H. cbn in H. inversion H. subst. split; [constructor|intros m []].
  - intros n IHn r IHr Hw path ms es is H. cbn in Hw. apply andb_true_iff in Hw. destruct Hw as [H1 H2].
    rewrite (cv_nesteds_cons snake camel screaming) in H. inv_ok H.
    destruct a as [[am ae] ai]. destruct a0 as [[cm ce] ci]. inversion H. subst. clear H.
    apply pieces_app; [eapply IHn; eassumption|eapply IHr; eassumption].
Qed.

Lemma virtual_named name virt ps m is :
  wf_virtual snake camel ev (papp virt ps) = true -> nodot_b name = true ->
  cv_virtual ev name virt ps = Ok (m, is) -> named_ok m /\ dm_name m = name.
Proof.
  unfold wf_virtual, J5sConvert.cv_virtual. intros Hw Hn H. apply andb_true_iff in Hw. destruct Hw as [Hw _].
  inv_ok H. inversion H. subst. clear H.
  assert (Hne : [name] <> []) by discriminate.
  pose proof (props_named _ false Hw _ _ _ Hne E) as Hr. split; [apply named_msg; exact Hr|reflexivity].
Qed.

(* ---- services and topics *)
Lemma method_named base m ms dm is :
  wf_method snake camel ev base m = true ->
  cv_method snake camel screaming ev base m = Ok (ms, dm, is) -> Forall named_ok ms.
Proof.
  unfold wf_method, J5sConvert.cv_method. intros Hw H. apply and4 in Hw. destruct Hw as (Hn & Hrq & Hrs & _).
  apply type_ident_facts in Hn. destruct Hn as [_ Hnd].
  apply obind_ok in H. destruct H as ([rq rqi] & Erq & H).
  apply obind_ok in H. destruct H as ([[rmsgs outn] rimps] & Ers & H).
  apply obind_ok in H. destruct H as (h & _ & H). inversion H. subst. clear H. cbn [fst].
  destruct (virtual_named _ PNil _ _ _ Hrq (nodot_app _ (b "Request") Hnd eq_refl) Erq) as [Jq _].
  constructor; [exact Jq|]. destruct (m_response m) as [rs|].
  - apply obind_ok in Ers. destruct Ers as ([rm rmi] & Erm & Ers). inversion Ers. subst. cbn [fst].
    destruct (virtual_named _ PNil _ _ _ Hrs (nodot_app _ (b "Response") Hnd eq_refl) Erm) as [Jr _].
    constructor; [exact Jr|constructor].
  - inversion Ers. subst. constructor.
Qed.

Lemma methods_named base l : forall ms ds is,
  forallb (wf_method snake camel ev base) l = true ->
  cv_methods snake camel screaming ev base l = Ok (ms, ds, is) -> Forall named_ok ms.
Proof.
  induction l as [|m r IH]; intros ms ds is Hw H; cbn [forallb J5sConvert.cv_methods] in Hw, H.
  - inversion H. constructor.
  - apply andb_true_iff in Hw. destruct Hw as [H1 H2].
    apply obind_ok in H. destruct H as ([[am ad] ai] & Ea & H).
    apply obind_ok in H. destruct H as ([[cm cd] ci] & Ec & H). inversion H. subst. clear H.
    apply Forall_app. split; [eapply method_named; eassumption|eapply IH; eassumption].
Qed.

Lemma service_named s ms ss is :
  wf_service snake camel ev s = true -> cv_service snake camel screaming ev s = Ok (ms, ss, is) -> Forall named_ok ms.
Proof.
  unfold wf_service, J5sConvert.cv_service. intros Hw H.
  apply andb_true_iff in Hw. destruct Hw as [Hw _]. apply andb_true_iff in Hw. destruct Hw as [_ Hw].
  apply obind_ok in H. destruct H as ([[m1 d1] i1] & E & H). inversion H. subst.
  eapply methods_named; eassumption.
Qed.

Lemma tmsgs_named tname single virt l : forall ms ds is,
  nodot_b tname = true -> forallb (wf_tmsg snake camel ev single virt) l = true ->
  cv_tmsgs snake camel screaming ev tname single virt l = Ok (ms, ds, is) -> Forall named_ok ms.
Proof.
  induction l as [|t r IH]; intros ms ds is Hn Hw H; cbn [forallb J5sConvert.cv_tmsgs] in Hw, H.
  - inversion H. constructor.
  - apply andb_true_iff in Hw. destruct Hw as [H1 H2]. unfold wf_tmsg in H1.
    apply andb_true_iff in H1. destruct H1 as [Hv Hnm].
    apply obind_ok in H. destruct H as (mn & Emn & H).
    apply obind_ok in H. destruct H as ([m1 i1] & Ev & H).
    apply obind_ok in H. destruct H as ([[cm cd] ci] & Er & H). inversion H. subst. clear H. cbn [fst].
    assert (Hmn : nodot_b mn = true).
    { destruct (tm_name t) as [x|]; [inversion Emn; subst; apply type_ident_facts in Hnm; apply Hnm|].
      destruct single; inversion Emn. subst. exact Hn. }
    destruct (virtual_named _ _ _ _ _ Hv (nodot_app _ (b "Message") Hmn eq_refl) Ev) as [J _].
    constructor; [exact J|eapply IH; eassumption].
Qed.

Lemma accept_named tname topic_name rl virt l ms ss is :
  nodot_b tname = true -> forallb (wf_tmsg snake camel ev (is_single_b l) virt) l = true ->
  accept_topic snake camel screaming ev tname topic_name rl virt l = Ok (ms, ss, is) -> Forall named_ok ms.
Proof.
  unfold J5sConvert.accept_topic. intros Hn Hw H.
  assert (Hs : is_single l = is_single_b l) by (destruct l as [|? [|? ?]]; reflexivity). rewrite Hs in H.
  apply obind_ok in H. destruct H as ([[m1 d1] i1] & E & H). inversion H. subst.
  eapply tmsgs_named; eassumption.
Qed.

Lemma topic_named t ms ss is :
  wf_topic snake camel ev t = true -> cv_topic snake camel screaming ev t = Ok (ms, ss, is) -> Forall named_ok ms.
Proof.
  destruct t as [name msgs|name req reply|name entity msg|name entity msg]; cbn [wf_topic J5sConvert.cv_topic]; intros Hw H.
  - apply andb_true_iff in Hw. destruct Hw as [Hn Hw]. apply type_ident_facts in Hn.
    eapply accept_named; [apply Hn|exact Hw|exact H].
  - apply andb_true_iff in Hw. destruct Hw as [Hw Hr]. apply andb_true_iff in Hw. destruct Hw as [Hn Hq].
    apply type_ident_facts in Hn. destruct Hn as [_ Hn].
    apply obind_ok in H. destruct H as ([[am asv] ai] & Ea & H).
    apply obind_ok in H. destruct H as ([[cm csv] ci] & Ec & H). inversion H. subst. clear H.
    apply Forall_app. split.
    + eapply accept_named; [apply (nodot_app _ (b "Request") Hn eq_refl)|exact Hq|exact Ea].
    + eapply accept_named; [apply (nodot_app _ (b "Reply") Hn eq_refl)|exact Hr|exact Ec].
  - apply andb_true_iff in Hw. destruct Hw as [Hn Hw]. pose proof (type_ident_facts _ Hn) as [_ Hnd].
    eapply accept_named; [exact Hnd| |exact H]. cbn [forallb is_single_b]. rewrite andb_true_r.
    unfold wf_tmsg, default_tm_name in *. apply andb_true_iff in Hw. destruct Hw as [Hv Hnm].
    destruct (tm_name msg) eqn:E; cbn [tm_fields tm_name]; rewrite Hv; [rewrite E; exact Hnm|exact Hn].
  - apply andb_true_iff in Hw. destruct Hw as [Hn Hw]. pose proof (type_ident_facts _ Hn) as [_ Hnd].
    eapply accept_named; [exact Hnd| |exact H]. cbn [forallb is_single_b]. rewrite Hw. reflexivity.
Qed.

(* ---- elements: all three output files hold converter-shaped messages *)
Lemma elements_named pkg els : forall m s t m' s' t',
  forallb (wf_element snake camel ev) els = true ->
  Forall named_ok (fa_msgs m) -> Forall named_ok (fa_msgs s) -> Forall named_ok (fa_msgs t) ->
  cv_elements snake camel screaming ev pkg els m s t = Ok (m', s', t') ->
  Forall named_ok (fa_msgs m') /\ Forall named_ok (fa_msgs s') /\ Forall named_ok (fa_msgs t').
Proof.
  induction els as [|e r IH]; intros m s t m' s' t' Hw Jm Js Jt H; cbn [forallb J5sConvert.cv_elements] in Hw, H.
  - inversion H. subst. auto.
  - apply andb_true_iff in Hw. destruct Hw as [Hw1 Hw2]. destruct e as [nm ps subs|nm ps subs|en|sv|tp]; cbn [wf_element] in Hw1.
    + apply obind_ok in H. destruct H as ([[ms es] is] & E & H).
      destruct (proj1 nested_named _ Hw1 _ _ _ _ E) as [J _].
      eapply IH; [exact Hw2| |exact Js|exact Jt|exact H]. cbn. apply Forall_app. auto.
    + apply obind_ok in H. destruct H as ([[ms es] is] & E & H).
      destruct (proj1 nested_named _ Hw1 _ _ _ _ E) as [J _].
      eapply IH; [exact Hw2| |exact Js|exact Jt|exact H]. cbn. apply Forall_app. auto.
    + eapply IH; [exact Hw2| |exact Js|exact Jt|exact H]. cbn. rewrite app_nil_r. exact Jm.
    + apply obind_ok in H. destruct H as ([[ms ss] is] & E & H).
      pose proof (service_named _ _ _ _ Hw1 E) as J.
      eapply IH; [exact Hw2|exact Jm| |exact Jt|exact H]. cbn. apply Forall_app. auto.
    + apply obind_ok in H. destruct H as ([[ms ss] is] & E & H).
      pose proof (topic_named _ _ _ _ Hw1 E) as J.
      eapply IH; [exact Hw2|exact Jm|exact Js| |exact H]. cbn. apply Forall_app. auto.
Qed.

End NamedFiles.

(* J5sExtProofs.v — C13 at the level of whole source files: a source file extended by append
   edits (fields at the end of objects, oneofs, requests, responses, topic messages; options
   at the end of enums; declarations at the end of the file - any number of them, i.e. any
   sequence of such edits) converts to descriptors into which the old descriptors embed. *)
From Coq Require Import String List NArith Bool Lia ZifyN ZifyNat ZifyBool.
From J5V.lib Require Import Outcome Corr.
From J5V.model Require Import J5sAst Desc J5sWalk J5sLink J5sConvert J5sContract J5sValid J5sEdit.
From J5V.proofs Require Import J5sProofs J5sContractProofs J5sLinkProofs J5sEditProofs J5sResolveProofs.
Import ListNotations.
Local Open Scope N_scope.

(* ------------------------------------------------------------------ embeddings *)
Lemma prefix_of_refl {A} (l : list A) : prefix_of l l.
Proof. exists []. rewrite app_nil_r. reflexivity. Qed.
Lemma prefix_of_app {A} (l t : list A) : prefix_of l (l ++ t).
Proof. exists t. reflexivity. Qed.
Lemma prefix_of_trans {A} (a c d : list A) : prefix_of a c -> prefix_of c d -> prefix_of a d.
Proof. intros [t ->] [u ->]. exists (t ++ u). rewrite app_assoc. reflexivity. Qed.

Lemma sub_list_refl {A} (R : A -> A -> Prop) l : Forall (fun a => R a a) l -> sub_list R l l.
Proof. intros H. induction H; constructor; assumption. Qed.

Lemma sub_list_app {A} (R : A -> A -> Prop) a a' c c' :
  sub_list R a a' -> sub_list R c c' -> sub_list R (a ++ c) (a' ++ c').
Proof.
  intros Ha Hc. induction Ha as [l|x y l l' Hxy Hl IH|y l l' Hl IH]; cbn.
  - induction l as [|z r IHr]; cbn; [exact Hc|]. apply sl_skip. exact IHr.
  - apply sl_keep; assumption.
  - apply sl_skip. assumption.
Qed.

Lemma sub_list_skip_mid {A} (R : A -> A -> Prop) a x c :
  Forall (fun z => R z z) a -> Forall (fun z => R z z) c -> sub_list R (a ++ c) (a ++ x ++ c).
Proof.
  intros Ha Hc. apply sub_list_app; [apply sub_list_refl; exact Ha|].
  induction x as [|z r IH]; cbn; [apply sub_list_refl; exact Hc|]. apply sl_skip. exact IH.
Qed.

Lemma enum_ext_refl e : enum_ext e e.
Proof. split; [reflexivity|apply prefix_of_refl]. Qed.

Lemma msg_ext_refl : forall m, msg_ext m m.
Proof.
  induction m as [n k fs ms es IH] using dmsg_ind2.
  constructor; [apply prefix_of_refl|apply sub_list_refl; exact IH|].
  apply sub_list_refl. apply Forall_forall. intros e _. apply enum_ext_refl.
Qed.

Lemma msgs_refl (l : list dmsg) : Forall (fun m => msg_ext m m) l.
Proof. apply Forall_forall. intros m _. apply msg_ext_refl. Qed.
Lemma enums_refl (l : list denum) : Forall (fun e => enum_ext e e) l.
Proof. apply Forall_forall. intros e _. apply enum_ext_refl. Qed.

Lemma service_ext_refl s : service_ext s s.
Proof. repeat split; try reflexivity. apply prefix_of_refl. Qed.
Lemma svcs_refl (l : list dservice) : Forall (fun s => service_ext s s) l.
Proof. apply Forall_forall. intros s _. apply service_ext_refl. Qed.

(* ------------------------------------------------------------------ environments that only grow *)
Definition env_le (ev ev' : env) : Prop :=
  forall r t, resolve ev r = Ok t -> resolve ev' r = Ok t.

Lemma env_le_refl ev : env_le ev ev.
Proof. intros r t H. exact H. Qed.

Section Ext.
Variables snake camel screaming : str -> str.
Notation cv_item := (cv_item snake camel screaming).
Notation cv_props := (cv_props snake camel screaming).
Notation cv_property := (cv_property snake camel screaming).

Lemma ref_core_le ev ev' r we c : env_le ev ev' -> ref_core ev r we = Ok c -> ref_core ev' r we = Ok c.
Proof.
  intros Hle H. unfold ref_core in *. inv_ok H. rewrite (Hle _ _ E). cbn [obind]. exact H.
Qed.

(* conversion under a larger environment gives the same result *)
Theorem convert_env_le ev ev' (Hle : env_le ev ev') :
  (forall f, (forall path dflt c, cv_item ev path dflt f = Ok c -> cv_item ev' path dflt f = Ok c) /\
             match f with
             | FArray it | FMap it => forall path dflt c, cv_item ev path dflt it = Ok c -> cv_item ev' path dflt it = Ok c
             | _ => True
             end) /\
  (forall ps path io n r, cv_props ev path io n ps = Ok r -> cv_props ev' path io n ps = Ok r) /\
  (forall p path io n r, cv_property ev path io n p = Ok r -> cv_property ev' path io n p = Ok r).
Proof.
  apply ast_mutind.
  - intros s. split; [|exact I]. intros path dflt c H. exact H.
  - intros r. split; [|exact I]. intros path dflt c H. cbn in *. eapply ref_core_le; eassumption.
  - intros nm ps IH. split; [|exact I]. intros path dflt c H.
    rewrite (cv_item_obj snake camel screaming) in *. inv_ok H. rewrite (IH _ _ _ _ E). exact H.
  - intros r. split; [|exact I]. intros path dflt c H. cbn in *. eapply ref_core_le; eassumption.
  - intros nm ps IH. split; [|exact I]. intros path dflt c H.
    rewrite (cv_item_oneof snake camel screaming) in *. inv_ok H. rewrite (IH _ _ _ _ E). exact H.
  - intros r. split; [|exact I]. intros path dflt c H. cbn in *. eapply ref_core_le; eassumption.
  - intros e. split; [|exact I]. intros path dflt c H. exact H.
  - intros it [IH _]. split; [|exact IH]. intros path dflt c H. cbn in H. discriminate.
  - intros it [IH _]. split; [|exact IH]. intros path dflt c H. cbn in H. discriminate.
  - intros path io n r H. exact H.
  - intros p IHp ps IHps path io n r H. rewrite (cv_props_cons snake camel screaming) in *.
    inv_ok H. rewrite (IHp _ _ _ _ E). cbn [obind]. rewrite (IHps _ _ _ _ E0). exact H.
  - intros n rq op f [IH IHit] path io num r H. rewrite (cv_property_eq snake camel screaming) in *.
    destruct f; inv_ok H;
      first [rewrite (IH _ _ _ E)|rewrite (IHit _ _ _ E)]; exact H.
Qed.

Notation cv_nested := (cv_nested snake camel screaming).
Notation cv_nesteds := (cv_nesteds snake camel screaming).
Notation cv_virtual := (cv_virtual snake camel screaming).
Notation cv_enum := (cv_enum screaming).

Theorem nested_env_le ev ev' (Hle : env_le ev ev') :
  (forall n path r, cv_nested ev path n = Ok r -> cv_nested ev' path n = Ok r) /\
  (forall ns path r, cv_nesteds ev path ns = Ok r -> cv_nesteds ev' path ns = Ok r).
Proof.
  destruct (convert_env_le ev ev' Hle) as (_ & Hp & _).
  apply nested_mutind.
  - intros nm ps subs IH path r H. rewrite (cv_nested_obj snake camel screaming) in *.
    inv_ok H. rewrite (Hp _ _ _ _ _ E). cbn [obind]. rewrite (IH _ _ E0). exact H.
  - intros nm ps subs IH path r H. rewrite (cv_nested_oneof snake camel screaming) in *.
    inv_ok H. rewrite (Hp _ _ _ _ _ E). cbn [obind]. rewrite (IH _ _ E0). exact H.
  - intros e path r H. exact H.
  - intros path r H. exact H.
  - intros n IHn r IHr path res H. rewrite (cv_nesteds_cons snake camel screaming) in *.
    inv_ok H. rewrite (IHn _ _ E). cbn [obind]. rewrite (IHr _ _ E0). exact H.
Qed.

(* ---- the extension relation on the syntax carries over to what the converter produces *)
Definition pres_ext (r r' : pres) : Prop :=
  prefix_of (pr_fields r) (pr_fields r') /\ sub_list msg_ext (pr_msgs r) (pr_msgs r') /\
  sub_list enum_ext (pr_enums r) (pr_enums r').

Definition core_ext (c c' : fcore) : Prop :=
  fc_type c' = fc_type c /\ fc_tname c' = fc_tname c /\
  sub_list msg_ext (fc_msgs c) (fc_msgs c') /\ sub_list enum_ext (fc_enums c) (fc_enums c').

Lemma core_ext_refl c : core_ext c c.
Proof. repeat split; [apply sub_list_refl, msgs_refl|apply sub_list_refl, enums_refl]. Qed.

Lemma pres_ext_app a a' c c' : pres_ext a a' -> length (pr_fields a) = length (pr_fields a') ->
  pres_ext c c' -> pres_ext (pres_app a c) (pres_app a' c').
Proof.
  intros ([t Ht] & M1 & E1) Hl ([u Hu] & M2 & E2). unfold pres_ext, pres_app. cbn [pr_fields pr_msgs pr_enums].
  assert (t = []) as ->.
  { rewrite Ht, app_length in Hl. destruct t; [reflexivity|cbn in Hl; lia]. }
  rewrite app_nil_r in Ht. split; [exists u; rewrite Ht, Hu, app_assoc; reflexivity|].
  split; apply sub_list_app; assumption.
Qed.

Section ExtCore.
Variables ev ev' : env.
Hypothesis Hle : env_le ev ev'.

Definition item_rel (f f' : field) : Prop :=
  forall path dflt c c', cv_item ev path dflt f = Ok c -> cv_item ev' path dflt f' = Ok c' -> core_ext c c'.

Definition field_rel (f f' : field) : Prop :=
  item_rel f f' /\
  match f, f' with
  | FArray it, FArray it' | FMap it, FMap it' => item_rel it it'
  | FArray _, _ | FMap _, _ => False
  | _, FArray _ | _, FMap _ => False
  | _, _ => True
  end.

Lemma item_rel_refl f : item_rel f f.
Proof.
  intros path dflt c c' H H'. destruct (convert_env_le ev ev' Hle) as (Hi & _ & _).
  rewrite (proj1 (Hi f) _ _ _ H) in H'. inversion H'. subst. apply core_ext_refl.
Qed.

Lemma field_rel_refl f : field_rel f f.
Proof. split; [apply item_rel_refl|]. destruct f; try exact I; apply item_rel_refl. Qed.

Lemma enum_core_ext name nm pfx opts extra :
  enum_ext (cv_enum name (mkEnum nm pfx opts)) (cv_enum name (mkEnum nm pfx (opts ++ extra))).
Proof.
  destruct opts as [|o0 r].
  { (* an enum without options: value 0 is <PREFIX>UNSPECIFIED before and after, whatever the
       first new option is called *)
    destruct extra as [|o r]; [split; [reflexivity|exists []; rewrite app_nil_r; reflexivity]|].
    unfold J5sConvert.cv_enum. cbn [e_opts e_prefix app].
    destruct (explicit_zero _ o) eqn:Hx; (split; cbn [en_name en_vals]; [reflexivity|]).
    - unfold explicit_zero in Hx. apply str_eqb_eq in Hx. rewrite Hx. eexists. cbn [app]. reflexivity.
    - eexists. cbn [app]. reflexivity. }
  unfold J5sConvert.cv_enum. cbn [e_opts e_prefix app].
  destruct (explicit_zero _ o0); split; cbn [en_name en_vals]; try reflexivity.
  - rewrite (number_opts_app snake camel screaming). eexists. rewrite app_comm_cons. reflexivity.
  - change (o0 :: r ++ extra) with ((o0 :: r) ++ extra). rewrite (number_opts_app snake camel screaming).
    eexists. rewrite app_comm_cons. reflexivity.
Qed.

(* one property whose field was extended: the field of the message is unchanged, what is nested
   for it embeds *)
Lemma property_rel n rq op f f' path io num a a' :
  field_rel f f' ->
  cv_property ev path io num (Property n rq op f) = Ok a ->
  cv_property ev' path io num (Property n rq op f') = Ok a' ->
  pres_ext a a' /\ length (pr_fields a) = length (pr_fields a').
Proof.
  intros [Hitem Hcont] H H'. rewrite (cv_property_eq snake camel screaming) in H, H'.
  assert (Hfin : forall c c' lbl (Hc : core_ext c c')
            (Ha : finish io rq op (snake n) n num c lbl (fc_type c) (fc_tname c) (fc_msgs c) (fc_imports c) = Ok a \/
                  exists imps, finish io rq op (snake n) n num c lbl (fc_type c) (fc_tname c) (fc_msgs c) imps = Ok a)
            (Ha' : exists imps', finish io rq op (snake n) n num c' lbl (fc_type c') (fc_tname c') (fc_msgs c') imps' = Ok a'),
            pres_ext a a' /\ length (pr_fields a) = length (pr_fields a')).
  { intros c c' lbl (Ht & Hn & Hm & He) Ha [imps' Ha'].
    assert (Hax : exists imps, finish io rq op (snake n) n num c lbl (fc_type c) (fc_tname c) (fc_msgs c) imps = Ok a)
      by (destruct Ha as [Ha|Ha]; [eexists; exact Ha|exact Ha]).
    destruct Hax as [imps Hax]. apply finish_inv in Hax. apply finish_inv in Ha'.
    destruct Hax as (F1 & M1 & E1). destruct Ha' as (F2 & M2 & E2).
    unfold pres_ext. rewrite F1, F2, M1, M2, E1, E2, Ht, Hn.
    split; [|reflexivity]. split; [apply prefix_of_refl|]. split; assumption. }
  destruct f as [s|rf|nm ps|rf|nm ps|rf|e|it|it]; destruct f' as [s'|rf'|nm' ps'|rf'|nm' ps'|rf'|e'|it'|it']; try contradiction.
  all: try (inv_ok H; inv_ok H'; eapply (Hfin _ _ _ (Hitem _ _ _ _ E E0)); [left; exact H|eexists; exact H']).
  - (* array *)
    inv_ok H. inv_ok H'. eapply (Hfin _ _ _ (Hcont _ _ _ _ E E0)); [right; eexists; exact H|eexists; exact H'].
  - (* map *)
    inv_ok H. inv_ok H'. destruct io; [discriminate|].
    destruct (Hcont _ _ _ _ E E0) as (Ht & Hn & Hm & He).
    apply finish_inv in H. apply finish_inv in H'. destruct H as (F1 & M1 & E1). destruct H' as (F2 & M2 & E2).
    unfold pres_ext. rewrite F1, F2, M1, M2, E1, E2.
    split; [|reflexivity]. split; [apply prefix_of_refl|]. split; [|exact He].
    apply sub_list_app; [exact Hm|]. apply sl_keep; [|constructor].
    unfold value_field. rewrite Ht, Hn. apply msg_ext_refl.
Qed.

Theorem ext_core :
  (forall f f', field_ext f f' -> field_rel f f') /\
  (forall ps ps', props_ext ps ps' -> forall path io n r r',
      cv_props ev path io n ps = Ok r -> cv_props ev' path io n ps' = Ok r' -> pres_ext r r').
Proof.
  apply ext_min.
  - intros f. apply field_rel_refl.
  - intros nm ps ps' Hps IH. split; [|exact I]. intros path dflt c c' H H'.
    rewrite (cv_item_obj snake camel screaming) in H, H'. inv_ok H. inv_ok H'. inversion H. inversion H'. subst. clear H H'.
    destruct (IH _ _ _ _ _ E E0) as (Pf & Pm & Pe). unfold core_ext. cbn [fc_type fc_tname fc_msgs fc_enums].
    repeat split; [|constructor]. apply sl_keep; [constructor; assumption|constructor].
  - intros nm ps ps' Hps IH. split; [|exact I]. intros path dflt c c' H H'.
    rewrite (cv_item_oneof snake camel screaming) in H, H'. inv_ok H. inv_ok H'. inversion H. inversion H'. subst. clear H H'.
    destruct (IH _ _ _ _ _ E E0) as (Pf & Pm & Pe). unfold core_ext. cbn [fc_type fc_tname fc_msgs fc_enums].
    repeat split; [|constructor]. apply sl_keep; [constructor; assumption|constructor].
  - intros nm pfx opts extra. split; [|exact I]. intros path dflt c c' H H'. cbn in H, H'.
    inversion H. inversion H'. subst. unfold core_ext. cbn [fc_type fc_tname fc_msgs fc_enums e_name].
    repeat split; [constructor|]. apply sl_keep; [apply enum_core_ext|constructor].
  - intros it it' Hit [IH _]. split; [|exact IH]. intros path dflt c c' H. cbn in H. discriminate.
  - intros it it' Hit [IH _]. split; [|exact IH]. intros path dflt c c' H. cbn in H. discriminate.
  - intros extra path io n r r' H _. cbn in H. inversion H. subst. unfold pres_ext. cbn.
    split; [exists (pr_fields r'); reflexivity|]. split; constructor.
  - intros n rq op f f' ps ps' Hf IHf Hps IHps path io num r r' H H'.
    rewrite (cv_props_cons snake camel screaming) in H, H'. inv_ok H. inv_ok H'. inversion H. inversion H'. subst. clear H H'.
    destruct (property_rel _ _ _ _ _ _ _ _ _ _ IHf E E1) as [Pa Hl].
    apply pres_ext_app; [exact Pa|exact Hl|eapply IHps; eassumption].
Qed.

End ExtCore.

Lemma props_ext_refl : (forall f, field_ext f f) /\ (forall ps, props_ext ps ps).
Proof.
  split; [intros f; apply fe_refl|]. induction ps as [|p r IH]; [constructor|]. destruct p. constructor; [apply fe_refl|exact IH].
Qed.

Lemma props_ext_papp_l virt ps ps' : props_ext ps ps' -> props_ext (papp virt ps) (papp virt ps').
Proof. intros H. induction virt as [|p r IH]; cbn; [exact H|]. destruct p. constructor; [apply fe_refl|exact IH]. Qed.

Lemma props_ext_snoc ps extra : props_ext ps (papp ps extra).
Proof. induction ps as [|p r IH]; cbn; [constructor|]. destruct p. constructor; [apply fe_refl|exact IH]. Qed.

(* enum options appended: every earlier value keeps name and number, for EVERY enum and every
   option names (before fix a65e1f2: not for an option ending in UNSPECIFIED appended to an enum
   without options, which became the zero value) *)
Lemma cv_enum_ext name nm pfx opts extra :
  enum_ext (cv_enum name (mkEnum nm pfx opts)) (cv_enum name (mkEnum nm pfx (opts ++ extra))).
Proof.
  destruct opts as [|o0 r].
  { (* an enum without options: value 0 is <PREFIX>UNSPECIFIED before and after, whatever the
       first new option is called *)
    destruct extra as [|o r]; [split; [reflexivity|exists []; rewrite app_nil_r; reflexivity]|].
    unfold J5sConvert.cv_enum. cbn [e_opts e_prefix app].
    destruct (explicit_zero _ o) eqn:Hx; (split; cbn [en_name en_vals]; [reflexivity|]).
    - unfold explicit_zero in Hx. apply str_eqb_eq in Hx. rewrite Hx. eexists. cbn [app]. reflexivity.
    - eexists. cbn [app]. reflexivity. }
  unfold J5sConvert.cv_enum. cbn [e_opts e_prefix app].
  destruct (explicit_zero _ o0); split; cbn [en_name en_vals]; try reflexivity.
  - rewrite (number_opts_app snake camel screaming). eexists. rewrite app_comm_cons. reflexivity.
  - change (o0 :: r ++ extra) with ((o0 :: r) ++ extra). rewrite (number_opts_app snake camel screaming).
    eexists. rewrite app_comm_cons. reflexivity.
Qed.

Theorem cv_enum_snoc_always name nm pfx opts o :
  enum_ext (cv_enum name (mkEnum nm pfx opts)) (cv_enum name (mkEnum nm pfx (opts ++ [o]))).
Proof. apply cv_enum_ext. Qed.

(* declared objects / oneofs / enums with their nested declarations *)
Theorem nested_ext_core ev ev' (Hle : env_le ev ev') :
  (forall n n', nested_ext n n' -> forall path ms es is ms' es' is',
     cv_nested ev path n = Ok (ms, es, is) -> cv_nested ev' path n' = Ok (ms', es', is') ->
     sub_list msg_ext ms ms' /\ sub_list enum_ext es es') /\
  (forall ns ns', nesteds_ext ns ns' -> forall path ms es is ms' es' is',
     cv_nesteds ev path ns = Ok (ms, es, is) -> cv_nesteds ev' path ns' = Ok (ms', es', is') ->
     sub_list msg_ext ms ms' /\ sub_list enum_ext es es').
Proof.
  apply next_min.
  - intros n path ms es is ms' es' is' H H'.
    rewrite (proj1 (nested_env_le _ _ Hle) _ _ _ H) in H'. inversion H'. subst.
    split; [apply sub_list_refl, msgs_refl|apply sub_list_refl, enums_refl].
  - intros nm ps ps' subs subs' Hps Hsubs IH path ms es is ms' es' is' H H'.
    rewrite (cv_nested_obj snake camel screaming) in *. inv_ok H. inv_ok H'.
    destruct a0 as [[sm se] si]. destruct a2 as [[sm' se'] si']. inversion H. inversion H'. subst. clear H H'.
    destruct (proj2 (ext_core ev ev' Hle) _ _ Hps _ _ _ _ _ E E1) as (Pf & Pm & Pe).
    destruct (IH _ _ _ _ _ _ _ E0 E2) as [Sm Se].
    split; [|constructor]. apply sl_keep; [|apply sl_nil]. constructor; [exact Pf| |]; apply sub_list_app; assumption.
  - intros nm ps ps' subs subs' Hps Hsubs IH path ms es is ms' es' is' H H'.
    rewrite (cv_nested_oneof snake camel screaming) in *. inv_ok H. inv_ok H'.
    destruct a0 as [[sm se] si]. destruct a2 as [[sm' se'] si']. inversion H. inversion H'. subst. clear H H'.
    destruct (proj2 (ext_core ev ev' Hle) _ _ Hps _ _ _ _ _ E E1) as (Pf & Pm & Pe).
    destruct (IH _ _ _ _ _ _ _ E0 E2) as [Sm Se].
    split; [|constructor]. apply sl_keep; [|apply sl_nil]. constructor; [exact Pf| |]; apply sub_list_app; assumption.
  - intros nm pfx opts extra path ms es is ms' es' is' H H'. cbn in H, H'. inversion H. inversion H'. subst.
    split; [constructor|]. apply sl_keep; [apply cv_enum_ext|constructor].
  - intros extra path ms es is ms' es' is' H _. cbn in H. inversion H. split; constructor.
  - intros n n' r r' Hn IHn Hr IHr path ms es is ms' es' is' H H'.
    rewrite (cv_nesteds_cons snake camel screaming) in *. inv_ok H. inv_ok H'.
    destruct a as [[am ae] ai]. destruct a0 as [[cm ce] ci]. destruct a1 as [[am' ae'] ai']. destruct a2 as [[cm' ce'] ci'].
    inversion H. inversion H'. subst. clear H H'.
    destruct (IHn _ _ _ _ _ _ _ E E1) as [A1 A2]. destruct (IHr _ _ _ _ _ _ _ E0 E2) as [B1 B2].
    split; apply sub_list_app; assumption.
Qed.

(* one declared object / oneof *)
Lemma cv_nested_obj_ext ev ev' (Hle : env_le ev ev') path nm ps ps' subs subs' ms es is ms' es' is' :
  props_ext ps ps' -> nesteds_ext subs subs' ->
  cv_nested ev path (NObject nm ps subs) = Ok (ms, es, is) ->
  cv_nested ev' path (NObject nm ps' subs') = Ok (ms', es', is') ->
  sub_list msg_ext ms ms' /\ es = [] /\ es' = [].
Proof.
  intros Hps Hsubs H H'.
  destruct (proj1 (nested_ext_core ev ev' Hle) _ _ (ne_obj nm _ _ _ _ Hps Hsubs) _ _ _ _ _ _ _ H H') as [S _].
  split; [exact S|]. rewrite (cv_nested_obj snake camel screaming) in H, H'. inv_ok H. inv_ok H'.
  destruct a0 as [[sm se] si]. destruct a2 as [[sm' se'] si']. inversion H. inversion H'. split; reflexivity.
Qed.

Lemma cv_nested_oneof_ext ev ev' (Hle : env_le ev ev') path nm ps ps' subs subs' ms es is ms' es' is' :
  props_ext ps ps' -> nesteds_ext subs subs' ->
  cv_nested ev path (NOneof nm ps subs) = Ok (ms, es, is) ->
  cv_nested ev' path (NOneof nm ps' subs') = Ok (ms', es', is') ->
  sub_list msg_ext ms ms' /\ es = [] /\ es' = [].
Proof.
  intros Hps Hsubs H H'.
  destruct (proj1 (nested_ext_core ev ev' Hle) _ _ (ne_oneof nm _ _ _ _ Hps Hsubs) _ _ _ _ _ _ _ H H') as [S _].
  split; [exact S|]. rewrite (cv_nested_oneof snake camel screaming) in H, H'. inv_ok H. inv_ok H'.
  destruct a0 as [[sm se] si]. destruct a2 as [[sm' se'] si']. inversion H. inversion H'. split; reflexivity.
Qed.

(* a request / response / topic message *)
Lemma cv_virtual_ext ev ev' (Hle : env_le ev ev') name virt ps ps' m is m' is' :
  props_ext ps ps' ->
  cv_virtual ev name virt ps = Ok (m, is) ->
  cv_virtual ev' name virt ps' = Ok (m', is') ->
  msg_ext m m'.
Proof.
  unfold J5sConvert.cv_virtual. intros Hps H H'. inv_ok H. inv_ok H'. inversion H. inversion H'. subst. clear H H'.
  destruct (proj2 (ext_core ev ev' Hle) _ _ (props_ext_papp_l virt _ _ Hps) _ _ _ _ _ E E0) as (Pf & Pm & Pe).
  constructor; assumption.
Qed.

(* ------------------------------------------------------------------ services *)
Notation cv_method := (cv_method snake camel screaming).
Notation cv_methods := (cv_methods snake camel screaming).
Notation cv_service := (cv_service snake camel screaming).
Notation http_rule := (http_rule snake).
Notation rewrite_segs := (rewrite_segs snake).

Lemma has_prop_ext nm ps ps' : props_ext ps ps' -> has_prop nm ps = true -> has_prop nm ps' = true.
Proof.
  intros H. induction H as [extra|n rq op f f' r r' Hf Hr IH]; cbn; [discriminate|].
  intros Hp. apply orb_true_iff in Hp. destruct Hp as [Hp|Hp]; [rewrite Hp; reflexivity|].
  rewrite (IH Hp). apply orb_true_r.
Qed.

Lemma rewrite_segs_ext req req' segs l :
  props_ext req req' -> rewrite_segs req segs = Ok l -> rewrite_segs req' segs = Ok l.
Proof.
  intros Hr. revert l. induction segs as [|s r IH]; intros l H; cbn in *; [exact H|].
  inv_ok H. rewrite (IH _ E). cbn [obind]. destruct s as [|c nm]; [exact H|].
  destruct (c =? colon); [|exact H].
  destruct (has_prop nm req) eqn:Hp; [|discriminate]. rewrite (has_prop_ext _ _ _ Hr Hp). exact H.
Qed.

Lemma http_rule_ext base m m' h : method_ext m m' -> http_rule base m = Ok h -> http_rule base m' = Ok h.
Proof.
  intros (Hn & Hv & Hp & Hr & _) H. unfold J5sConvert.http_rule in *. rewrite Hv, Hp.
  inv_ok H. rewrite (rewrite_segs_ext _ _ _ _ Hr E). exact H.
Qed.

Lemma forall2_sub_list {A} (R : A -> A -> Prop) l l' : Forall2 R l l' -> sub_list R l l'.
Proof. intros H. induction H; constructor; assumption. Qed.

Lemma cv_method_ext ev ev' (Hle : env_le ev ev') base m m' ms d is ms' d' is' :
  method_ext m m' ->
  cv_method ev base m = Ok (ms, d, is) -> cv_method ev' base m' = Ok (ms', d', is') ->
  sub_list msg_ext ms ms' /\ d' = d.
Proof.
  intros Hext H H'. pose proof Hext as (Hn & Hv & Hp & Hr & Hresp).
  unfold J5sConvert.cv_method in *. rewrite Hn in H'. inv_ok H. inv_ok H'.
  destruct a as [rq rqi]. destruct a2 as [rq' rqi'].
  pose proof (cv_virtual_ext _ _ Hle _ _ _ _ _ _ _ _ Hr E E2) as Hrq.
  rewrite (http_rule_ext _ _ _ _ Hext E1) in E4. inversion E4. subst a4. clear E4.
  destruct (m_response m) as [rs|] eqn:Ers; destruct (m_response m') as [rs'|] eqn:Ers'; try contradiction.
  - apply obind_ok in E0. destruct E0 as ([rm rmi] & Erm & E0).
    apply obind_ok in E3. destruct E3 as ([rm' rmi'] & Erm' & E3).
    inversion E0. inversion E3. subst a0 a3. clear E0 E3.
    pose proof (cv_virtual_ext _ _ Hle _ _ _ _ _ _ _ _ Hresp Erm Erm') as Hrs.
    inversion H. inversion H'. subst. cbn [fst snd]. split; [|reflexivity].
    apply sl_keep; [exact Hrq|]. apply sl_keep; [exact Hrs|apply sl_nil].
  - inversion E0. inversion E3. subst a0 a3. inversion H. inversion H'. subst. cbn [fst snd]. split; [|reflexivity].
    apply sl_keep; [exact Hrq|apply sl_nil].
Qed.

Lemma cv_methods_ext ev ev' (Hle : env_le ev ev') base ms ms' :
  Forall2 method_ext ms ms' -> forall msgs ds is msgs' ds' is',
  cv_methods ev base ms = Ok (msgs, ds, is) -> cv_methods ev' base ms' = Ok (msgs', ds', is') ->
  sub_list msg_ext msgs msgs' /\ ds' = ds.
Proof.
  intros HF. induction HF as [|m m' r r' Hm Hr IH]; intros msgs ds is msgs' ds' is' H H'.
  - cbn in H, H'. inversion H. inversion H'. subst. split; [constructor|reflexivity].
  - cbn [J5sConvert.cv_methods] in H, H'. inv_ok H. inv_ok H'.
    destruct a as [[am ad] ai]. destruct a0 as [[cm cd] ci].
    destruct a1 as [[am' ad'] ai']. destruct a2 as [[cm' cd'] ci'].
    inversion H. inversion H'. subst. clear H H'.
    destruct (cv_method_ext _ _ Hle _ _ _ _ _ _ _ _ _ Hm E E1) as [S1 ->].
    destruct (IH _ _ _ _ _ _ E0 E2) as [S2 ->].
    split; [apply sub_list_app; assumption|reflexivity].
Qed.

Lemma cv_service_ext ev ev' (Hle : env_le ev ev') nm base ms ms' msgs svcs is msgs' svcs' is' :
  Forall2 method_ext ms ms' ->
  cv_service ev (mkService nm base ms) = Ok (msgs, svcs, is) ->
  cv_service ev' (mkService nm base ms') = Ok (msgs', svcs', is') ->
  sub_list msg_ext msgs msgs' /\ svcs' = svcs.
Proof.
  intros HF H H'. unfold J5sConvert.cv_service in *. cbn [sv_name sv_base sv_methods] in *.
  inv_ok H. inv_ok H'. destruct a as [[m1 d1] i1]. destruct a0 as [[m2 d2] i2].
  inversion H. inversion H'. subst. clear H H'.
  destruct (cv_methods_ext _ _ Hle _ _ _ HF _ _ _ _ _ _ E E0) as [S ->]. split; [exact S|reflexivity].
Qed.

(* ------------------------------------------------------------------ topics *)
Notation cv_tmsgs := (cv_tmsgs snake camel screaming).
Notation accept_topic := (accept_topic snake camel screaming).
Notation cv_topic := (cv_topic snake camel screaming).

Lemma cv_tmsgs_ext ev ev' (Hle : env_le ev ev') tn single virt l l' :
  Forall2 tmsg_ext l l' -> forall ms ds is ms' ds' is',
  cv_tmsgs ev tn single virt l = Ok (ms, ds, is) -> cv_tmsgs ev' tn single virt l' = Ok (ms', ds', is') ->
  sub_list msg_ext ms ms' /\ ds' = ds.
Proof.
  intros HF. induction HF as [|t t' r r' Ht Hr IH]; intros ms ds is ms' ds' is' H H'.
  - cbn in H, H'. inversion H. inversion H'. subst. split; [constructor|reflexivity].
  - destruct Ht as [Hn Hf]. cbn [J5sConvert.cv_tmsgs] in H, H'. rewrite Hn in H'.
    apply obind_ok in H. destruct H as (mn & Emn & H).
    apply obind_ok in H'. destruct H' as (mn' & Emn' & H').
    rewrite Emn in Emn'. inversion Emn'. subst mn'. clear Emn'.
    apply obind_ok in H. destruct H as ([m1 i1] & Ev & H).
    apply obind_ok in H'. destruct H' as ([m1' i1'] & Ev' & H').
    apply obind_ok in H. destruct H as ([[cm cd] ci] & Er & H).
    apply obind_ok in H'. destruct H' as ([[cm' cd'] ci'] & Er' & H').
    inversion H. inversion H'. subst. clear H H'. cbn [fst snd].
    pose proof (cv_virtual_ext _ _ Hle _ _ _ _ _ _ _ _ Hf Ev Ev') as Hm.
    destruct (IH _ _ _ _ _ _ Er Er') as [S ->].
    split; [apply sl_keep; assumption|reflexivity].
Qed.

Lemma is_single_forall2 {A B} (R : A -> B -> Prop) l l' : Forall2 R l l' -> is_single l = is_single l'.
Proof. intros H. destruct H as [|x y r r' _ Hr]; [reflexivity|]. destruct Hr; reflexivity. Qed.

Lemma accept_topic_ext ev ev' (Hle : env_le ev ev') tn topic_name rl virt l l' ms ss is ms' ss' is' :
  Forall2 tmsg_ext l l' ->
  accept_topic ev tn topic_name rl virt l = Ok (ms, ss, is) ->
  accept_topic ev' tn topic_name rl virt l' = Ok (ms', ss', is') ->
  sub_list msg_ext ms ms' /\ ss' = ss.
Proof.
  intros HF H H'. unfold J5sConvert.accept_topic in *. rewrite <- (is_single_forall2 _ _ _ HF) in H'.
  apply obind_ok in H. destruct H as ([[m1 d1] i1] & E & H).
  apply obind_ok in H'. destruct H' as ([[m1' d1'] i1'] & E' & H').
  inversion H. inversion H'. subst. clear H H'.
  destruct (cv_tmsgs_ext _ _ Hle _ _ _ _ _ HF _ _ _ _ _ _ E E') as [S ->]. split; [exact S|reflexivity].
Qed.

Lemma sub_list_app_r0 {A} (R : A -> A -> Prop) l l' x : sub_list R l l' -> sub_list R l (l' ++ x).
Proof. intros H. induction H; cbn [app]; [apply sl_nil|apply sl_keep; assumption|apply sl_skip; assumption]. Qed.

(* messages appended to a topic whose messages all carry names: the names of the rpcs / messages
   do not depend on the number of messages, the earlier ones are a prefix *)
Lemma cv_tmsgs_single_irrel ev tn virt l s s' :
  forallb tm_named l = true -> cv_tmsgs ev tn s virt l = cv_tmsgs ev tn s' virt l.
Proof.
  induction l as [|t r IH]; intros H; [reflexivity|]. cbn [forallb] in H. apply andb_true_iff in H. destruct H as [Ht Hr].
  cbn [J5sConvert.cv_tmsgs]. unfold tm_named in Ht. destruct (tm_name t) as [n|]; [|discriminate Ht].
  rewrite (IH Hr). reflexivity.
Qed.

Lemma cv_tmsgs_app_inv ev tn s virt extra : forall l ms' ds' is',
  cv_tmsgs ev tn s virt (l ++ extra) = Ok (ms', ds', is') ->
  exists ms1 ds1 is1 ms2 ds2 is2, cv_tmsgs ev tn s virt l = Ok (ms1, ds1, is1) /\
    cv_tmsgs ev tn s virt extra = Ok (ms2, ds2, is2) /\ ms' = ms1 ++ ms2 /\ ds' = ds1 ++ ds2.
Proof.
  induction l as [|t r IH]; intros ms' ds' is' H'.
  - cbn [app] in H'. exists [], [], [], ms', ds', is'. repeat split; [exact H'].
  - cbn [J5sConvert.cv_tmsgs app] in H' |- *.
    apply obind_ok in H'. destruct H' as (mn & Emn & H'). rewrite Emn. cbn [obind].
    apply obind_ok in H'. destruct H' as (a & Ea & H'). rewrite Ea. cbn [obind].
    apply obind_ok in H'. destruct H' as ([[cm cd] ci] & Er & H').
    destruct (IH _ _ _ Er) as (ms1 & ds1 & is1 & ms2 & ds2 & is2 & E1 & E2 & -> & ->).
    rewrite E1. cbn [obind]. inversion H'. subst.
    eexists. eexists. eexists. exists ms2, ds2, is2. repeat split; [exact E2].
Qed.

Lemma accept_topic_ext_app ev ev' (Hle : env_le ev ev') tn topic_name rl virt l l1 extra ms ss is ms' ss' is' :
  Forall2 tmsg_ext l l1 -> forallb tm_named l = true ->
  accept_topic ev tn topic_name rl virt l = Ok (ms, ss, is) ->
  accept_topic ev' tn topic_name rl virt (l1 ++ extra) = Ok (ms', ss', is') ->
  sub_list msg_ext ms ms' /\ sub_list service_ext ss ss'.
Proof.
  intros HF Hn H H'. unfold J5sConvert.accept_topic in *.
  rewrite (cv_tmsgs_single_irrel ev tn virt l (is_single l) (is_single (l1 ++ extra)) Hn) in H.
  apply obind_ok in H. destruct H as ([[m1 d1] i1] & E & H).
  apply obind_ok in H'. destruct H' as ([[m1' d1'] i1'] & E' & H').
  inversion H. inversion H'. subst. clear H H'.
  destruct (cv_tmsgs_app_inv _ _ _ _ _ _ _ _ _ E') as (ms1 & ds1 & is1 & ms2 & ds2 & is2 & E1 & _ & -> & ->).
  destruct (cv_tmsgs_ext _ _ Hle _ _ _ _ _ HF _ _ _ _ _ _ E E1) as [S ->].
  split; [apply sub_list_app_r0; exact S|].
  apply sl_keep; [|constructor]. unfold service_ext. cbn [ds_name ds_topic ds_methods].
  repeat split. exists ds2. reflexivity.
Qed.

Lemma cv_topic_ext ev ev' (Hle : env_le ev ev') t t' ms ss is ms' ss' is' :
  topic_ext t t' ->
  cv_topic ev t = Ok (ms, ss, is) -> cv_topic ev' t' = Ok (ms', ss', is') ->
  sub_list msg_ext ms ms' /\ sub_list service_ext ss ss'.
Proof.
  intros Ht H H'. destruct Ht as [n l l' HF|n rq rq' rp rp' HF1 HF2|n en m m' Hm|n en m m' Hm|n l l1 extra HF Hn];
    cbn [J5sConvert.cv_topic] in H, H'.
  5: { eapply accept_topic_ext_app; eassumption. }
  all: cut (sub_list msg_ext ms ms' /\ ss' = ss); [intros [S0 ->]; split; [exact S0|apply sub_list_refl, svcs_refl]|].
  - eapply accept_topic_ext; eassumption.
  - apply obind_ok in H. destruct H as ([[am asv] ai] & Ea & H).
    apply obind_ok in H. destruct H as ([[cm csv] ci] & Ec & H).
    apply obind_ok in H'. destruct H' as ([[am' asv'] ai'] & Ea' & H').
    apply obind_ok in H'. destruct H' as ([[cm' csv'] ci'] & Ec' & H').
    inversion H. inversion H'. subst. clear H H'.
    edestruct accept_topic_ext as [S1 Q1]; [exact Hle|exact HF1|exact Ea|exact Ea'|].
    edestruct accept_topic_ext as [S2 Q2]; [exact Hle|exact HF2|exact Ec|exact Ec'|]. subst.
    split; [apply sub_list_app; assumption|reflexivity].
  - eapply accept_topic_ext; [exact Hle| |exact H|exact H'].
    constructor; [|constructor]. destruct Hm as [Hn Hf]. unfold default_tm_name.
    rewrite Hn. destruct (tm_name m) as [x|] eqn:Em.
    + split; [rewrite Hn, Em; reflexivity|exact Hf].
    + split; [reflexivity|cbn [tm_fields]; exact Hf].
  - eapply accept_topic_ext; [exact Hle| |exact H|exact H']. constructor; [exact Hm|constructor].
Qed.

(* ------------------------------------------------------------------ files *)
Notation cv_elements := (cv_elements snake camel screaming).

Definition facc_ext (a a' : facc) : Prop :=
  sub_list msg_ext (fa_msgs a) (fa_msgs a') /\ sub_list enum_ext (fa_enums a) (fa_enums a') /\
  sub_list service_ext (fa_svcs a) (fa_svcs a') /\ (fa_used a = true -> fa_used a' = true).

Lemma sub_list_app_r {A} (R : A -> A -> Prop) l l' x : sub_list R l l' -> sub_list R l (l' ++ x).
Proof.
  intros H. replace l with (l ++ []) by apply app_nil_r. apply sub_list_app; [exact H|constructor].
Qed.

Lemma facc_ext_refl a : facc_ext a a.
Proof.
  split; [apply sub_list_refl, msgs_refl|]. split; [apply sub_list_refl, enums_refl|].
  split; [apply sub_list_refl, svcs_refl|]. auto.
Qed.

Lemma facc_ext_add a a' ms es ss is ms' es' ss' is' :
  facc_ext a a' -> sub_list msg_ext ms ms' -> sub_list enum_ext es es' -> sub_list service_ext ss ss' ->
  facc_ext (facc_add a ms es ss is) (facc_add a' ms' es' ss' is').
Proof.
  intros (H1 & H2 & H3 & H4) Hm He Hs. unfold facc_ext, facc_add. cbn.
  split; [apply sub_list_app; assumption|]. split; [apply sub_list_app; assumption|].
  split; [apply sub_list_app; assumption|]. auto.
Qed.

Lemma facc_ext_grow a a' ms es ss is :
  facc_ext a a' -> facc_ext a (facc_add a' ms es ss is).
Proof.
  intros (H1 & H2 & H3 & H4). unfold facc_ext, facc_add. cbn.
  split; [apply sub_list_app_r; assumption|]. split; [apply sub_list_app_r; assumption|].
  split; [apply sub_list_app_r; assumption|]. auto.
Qed.

Lemma cv_elements_app ev pkg x y : forall m s t,
  cv_elements ev pkg (x ++ y) m s t =
  obind (cv_elements ev pkg x m s t) (fun r => let '(m1, s1, t1) := r in cv_elements ev pkg y m1 s1 t1).
Proof.
  induction x as [|e r IH]; intros m s t; [reflexivity|].
  cbn [app J5sConvert.cv_elements]. destruct e as [nm ps subs|nm ps subs|en|sv|tp].
  - destruct (J5sConvert.cv_nested snake camel screaming ev [] (NObject nm ps subs)) as [[[ms es] is]| | |]; cbn [obind]; try reflexivity. apply IH.
  - destruct (J5sConvert.cv_nested snake camel screaming ev [] (NOneof nm ps subs)) as [[[ms es] is]| | |]; cbn [obind]; try reflexivity. apply IH.
  - apply IH.
  - destruct (cv_service ev sv) as [[[ms ss] is]| | |]; cbn [obind]; try reflexivity. apply IH.
  - destruct (cv_topic ev tp) as [[[ms ss] is]| | |]; cbn [obind]; try reflexivity. apply IH.
Qed.

(* declarations appended at the end only add to the three output files *)
Lemma cv_elements_grow ev pkg els : forall m s t m0 s0 t0 m1 s1 t1,
  facc_ext m0 m -> facc_ext s0 s -> facc_ext t0 t ->
  cv_elements ev pkg els m s t = Ok (m1, s1, t1) ->
  facc_ext m0 m1 /\ facc_ext s0 s1 /\ facc_ext t0 t1.
Proof.
  induction els as [|e r IH]; intros m s t m0 s0 t0 m1 s1 t1 Hm Hs Ht H.
  - cbn in H. inversion H. subst. auto.
  - cbn [J5sConvert.cv_elements] in H. destruct e as [nm ps subs|nm ps subs|en|sv|tp].
    + apply obind_ok in H. destruct H as ([[ms es] is] & _ & H).
      eapply IH; [| | |exact H]; try assumption. apply facc_ext_grow. exact Hm.
    + apply obind_ok in H. destruct H as ([[ms es] is] & _ & H).
      eapply IH; [| | |exact H]; try assumption. apply facc_ext_grow. exact Hm.
    + eapply IH; [| | |exact H]; try assumption. apply facc_ext_grow. exact Hm.
    + apply obind_ok in H. destruct H as ([[ms ss] is] & _ & H).
      eapply IH; [| | |exact H]; try assumption. apply facc_ext_grow. exact Hs.
    + apply obind_ok in H. destruct H as ([[ms ss] is] & _ & H).
      eapply IH; [| | |exact H]; try assumption. apply facc_ext_grow. exact Ht.
Qed.

(* pointwise extended declarations *)
Lemma cv_elements_ext ev ev' (Hle : env_le ev ev') pkg els els' :
  Forall2 element_ext els els' -> forall m s t m' s' t' m1 s1 t1 m1' s1' t1',
  facc_ext m m' -> facc_ext s s' -> facc_ext t t' ->
  cv_elements ev pkg els m s t = Ok (m1, s1, t1) ->
  cv_elements ev' pkg els' m' s' t' = Ok (m1', s1', t1') ->
  facc_ext m1 m1' /\ facc_ext s1 s1' /\ facc_ext t1 t1'.
Proof.
  intros HF. induction HF as [|e e' r r' He Hr IH]; intros m s t m' s' t' m1 s1 t1 m1' s1' t1' Hm Hs Ht H H'.
  - cbn in H, H'. inversion H. inversion H'. subst. auto.
  - cbn [J5sConvert.cv_elements] in H, H'.
    destruct He as [nm ps ps' subs subs' Hps Hsubs|nm ps ps' subs subs' Hps Hsubs|en|nm pfx opts extra|nm base ms ms' HFm|tp tp' Htp].
    + apply obind_ok in H. destruct H as ([[ms es] is] & E & H).
      apply obind_ok in H'. destruct H' as ([[ms' es'] is'] & E' & H').
      destruct (cv_nested_obj_ext _ _ Hle _ _ _ _ _ _ _ _ _ _ _ _ Hps Hsubs E E') as (S & -> & ->).
      eapply IH; [| | |exact H|exact H']; try assumption.
      apply facc_ext_add; try assumption; constructor.
    + apply obind_ok in H. destruct H as ([[ms es] is] & E & H).
      apply obind_ok in H'. destruct H' as ([[ms' es'] is'] & E' & H').
      destruct (cv_nested_oneof_ext _ _ Hle _ _ _ _ _ _ _ _ _ _ _ _ Hps Hsubs E E') as (S & -> & ->).
      eapply IH; [| | |exact H|exact H']; try assumption.
      apply facc_ext_add; try assumption; constructor.
    + eapply IH; [| | |exact H|exact H']; try assumption.
      apply facc_ext_add; try assumption; try constructor; [apply enum_ext_refl|constructor].
    + eapply IH; [| | |exact H|exact H']; try assumption.
      apply facc_ext_add; try assumption; try constructor; [|constructor].
      cbn [e_name]. apply cv_enum_ext.
    + apply obind_ok in H. destruct H as ([[ms1 ss1] is1] & E & H).
      apply obind_ok in H'. destruct H' as ([[ms1' ss1'] is1'] & E' & H').
      destruct (cv_service_ext _ _ Hle _ _ _ _ _ _ _ _ _ _ HFm E E') as [S ->].
      eapply IH; [| | |exact H|exact H']; try assumption.
      apply facc_ext_add; try assumption; try constructor. apply sub_list_refl, svcs_refl.
    + apply obind_ok in H. destruct H as ([[ms1 ss1] is1] & E & H).
      apply obind_ok in H'. destruct H' as ([[ms1' ss1'] is1'] & E' & H').
      destruct (cv_topic_ext _ _ Hle _ _ _ _ _ _ _ _ Htp E E') as [S S2].
      eapply IH; [| | |exact H|exact H']; try assumption.
      apply facc_ext_add; try assumption; constructor.
Qed.

Lemma mk_file_ext path pkg a a' : facc_ext a a' -> file_ext (mk_file path pkg a) (mk_file path pkg a').
Proof.
  intros (H1 & H2 & H3 & _). unfold file_ext, mk_file. cbn. repeat split; assumption.
Qed.

(* C13 for one source file: extended by any number of append edits, converted under an
   environment that only grew, the old descriptors embed into the new ones *)
Theorem cv_file_ext exports exports' f f' D D' :
  file_src_ext f f' ->
  (forall im, env_le (mkEnv (j5s_pkg f) im exports) (mkEnv (j5s_pkg f) im exports')) ->
  cv_file snake camel screaming exports f = Ok D ->
  cv_file snake camel screaming exports' f' = Ok D' ->
  files_ext D D'.
Proof.
  intros (Hd & Hb & Hi & els1 & extra & HF & Hels) Hle H H'.
  assert (Hpkg : j5s_pkg f' = j5s_pkg f) by (unfold j5s_pkg; rewrite Hd; reflexivity).
  assert (Hmain : main_proto_path f' = main_proto_path f) by (unfold main_proto_path, j5s_path; rewrite Hd, Hb; reflexivity).
  assert (Hsub : forall sub, sub_proto_path f' sub = sub_proto_path f sub) by (intros sub; unfold sub_proto_path; rewrite Hd, Hb; reflexivity).
  unfold cv_file in H, H'. rewrite Hpkg, Hi, Hmain, !Hsub, Hels in H'.
  apply obind_ok in H. destruct H as (im & Eim & H). rewrite Eim in H'. cbn [obind] in H'.
  apply obind_ok in H. destruct H as ([[main svc] top] & E & H).
  apply obind_ok in H'. destruct H' as ([[main' svc'] top'] & E' & H').
  rewrite cv_elements_app in E'. apply obind_ok in E'. destruct E' as ([[m1 s1] t1] & E1 & E2).
  destruct (cv_elements_ext _ _ (Hle im) _ _ _ HF _ _ _ _ _ _ _ _ _ _ _ _
              (facc_ext_refl _) (facc_ext_refl _) (facc_ext_refl _) E E1) as (A1 & A2 & A3).
  destruct (cv_elements_grow _ _ _ _ _ _ _ _ _ _ _ _ A1 A2 A3 E2) as (B1 & B2 & B3).
  inversion H. inversion H'. subst D D'. clear H H'. unfold files_ext.
  apply sl_keep; [apply mk_file_ext; exact B1|].
  destruct B2 as (S1 & S2 & S3 & U2). destruct B3 as (T1 & T2 & T3 & U3).
  destruct (fa_used svc) eqn:Us; destruct (fa_used top) eqn:Ut;
    try rewrite (U2 eq_refl); try rewrite (U3 eq_refl); cbn [app].
  - apply sl_keep; [apply mk_file_ext; repeat split; auto|].
    apply sl_keep; [apply mk_file_ext; repeat split; auto|constructor].
  - apply sl_keep; [apply mk_file_ext; repeat split; auto|]. constructor.
  - destruct (fa_used svc'); cbn [app].
    + apply sl_skip. apply sl_keep; [apply mk_file_ext; repeat split; auto|constructor].
    + apply sl_keep; [apply mk_file_ext; repeat split; auto|constructor].
  - constructor.
Qed.

End Ext.

(* ================================================================== edits are extensions *)
Lemma papp_nil_r ps : papp ps PNil = ps.
Proof. induction ps as [|p r IH]; cbn; [reflexivity|]. rewrite IH. reflexivity. Qed.
Lemma papp_assoc x y z : papp (papp x y) z = papp x (papp y z).
Proof. induction x as [|p r IH]; cbn; [reflexivity|]. rewrite IH. reflexivity. Qed.

Theorem props_ext_trans :
  (forall a c, field_ext a c -> forall d, field_ext c d -> field_ext a d) /\
  (forall a c, props_ext a c -> forall d, props_ext c d -> props_ext a d).
Proof.
  apply ext_min.
  - intros f d H. exact H.
  - intros nm ps ps' Hps IH d H. inversion H; subst; [constructor; exact Hps|constructor; apply IH; assumption].
  - intros nm ps ps' Hps IH d H. inversion H; subst; [constructor; exact Hps|constructor; apply IH; assumption].
  - intros nm pfx opts extra d H. inversion H as [| | |nm' pfx' opts' extra' E1 E2| |]; subst.
    + constructor.
    + rewrite <- app_assoc. constructor.
  - intros it it' Hit IH d H. inversion H; subst; [constructor; exact Hit|constructor; apply IH; assumption].
  - intros it it' Hit IH d H. inversion H; subst; [constructor; exact Hit|constructor; apply IH; assumption].
  - intros extra d _. constructor.
  - intros n rq op f f' r r' Hf IHf Hr IHr d H. inversion H; subst. constructor; [apply IHf; assumption|apply IHr; assumption].
Qed.

Theorem nesteds_ext_trans :
  (forall a c, nested_ext a c -> forall d, nested_ext c d -> nested_ext a d) /\
  (forall a c, nesteds_ext a c -> forall d, nesteds_ext c d -> nesteds_ext a d).
Proof.
  apply next_min.
  - intros n d H. exact H.
  - intros nm ps ps' subs subs' Hps Hs IH d H. inversion H; subst.
    + constructor; assumption.
    + constructor; [eapply (proj2 props_ext_trans); eassumption|apply IH; assumption].
  - intros nm ps ps' subs subs' Hps Hs IH d H. inversion H; subst.
    + constructor; assumption.
    + constructor; [eapply (proj2 props_ext_trans); eassumption|apply IH; assumption].
  - intros nm pfx opts extra d H. inversion H as [| | |nm' pfx' opts' extra' E1 E2]; subst.
    + constructor.
    + rewrite <- app_assoc. constructor.
  - intros extra d _. constructor.
  - intros n n' r r' Hn IHn Hr IHr d H. inversion H; subst. constructor; [apply IHn; assumption|apply IHr; assumption].
Qed.

Lemma nesteds_ext_refl ns : nesteds_ext ns ns.
Proof. induction ns as [|n r IH]; constructor; [apply ne_refl|exact IH]. Qed.

Lemma nesteds_ext_napp ns extra : nesteds_ext ns (napp ns extra).
Proof. induction ns as [|n r IH]; cbn; constructor; [apply ne_refl|exact IH]. Qed.

Lemma method_ext_refl m : method_ext m m.
Proof.
  repeat split; try reflexivity; [apply props_ext_refl|].
  destruct (m_response m); [apply props_ext_refl|exact I].
Qed.

Lemma method_ext_trans a c d : method_ext a c -> method_ext c d -> method_ext a d.
Proof.
  intros (A1 & A2 & A3 & A4 & A5) (B1 & B2 & B3 & B4 & B5).
  repeat split; try congruence.
  - eapply (proj2 props_ext_trans); eassumption.
  - destruct (m_response a), (m_response c), (m_response d); try contradiction; try exact I.
    eapply (proj2 props_ext_trans); eassumption.
Qed.

Lemma tmsg_ext_refl t : tmsg_ext t t.
Proof. split; [reflexivity|apply props_ext_refl]. Qed.
Lemma tmsg_ext_trans a c d : tmsg_ext a c -> tmsg_ext c d -> tmsg_ext a d.
Proof.
  intros [A1 A2] [B1 B2]. split; [congruence|]. eapply (proj2 props_ext_trans); eassumption.
Qed.

Lemma forall2_refl {A} (R : A -> A -> Prop) l : (forall a, R a a) -> Forall2 R l l.
Proof. intros H. induction l; constructor; auto. Qed.
Lemma forall2_trans {A} (R : A -> A -> Prop) :
  (forall a c d, R a c -> R c d -> R a d) -> forall l l' l'', Forall2 R l l' -> Forall2 R l' l'' -> Forall2 R l l''.
Proof.
  intros HR l l' l'' H. revert l''. induction H as [|x y r s Hxy Hrs IH]; intros l'' H'; inversion H'; subst; constructor.
  - eapply HR; eassumption.
  - apply IH. assumption.
Qed.

Lemma topic_ext_refl t : topic_ext t t.
Proof. destruct t; constructor; try apply forall2_refl; try apply tmsg_ext_refl. Qed.
Lemma named_forall2 l l' : Forall2 tmsg_ext l l' -> forallb tm_named l' = forallb tm_named l.
Proof.
  intros H. induction H as [|x y r r' [Hn _] _ IH]; [reflexivity|]. cbn [forallb]. rewrite IH. unfold tm_named. rewrite Hn. reflexivity.
Qed.

Lemma topic_ext_trans a c d : topic_ext a c -> topic_ext c d -> topic_ext a d.
Proof.
  intros H H'. destruct H as [n l l' HF|n rq rq' rp rp' HF1 HF2|n en m m' Hm|n en m m' Hm|n l l1 extra HF Hn].
  - inversion H' as [n0 x y HF'| | | |n0 x y1 extra' HF' Hn']; subst.
    + constructor. eapply forall2_trans; [exact tmsg_ext_trans| |]; eassumption.
    + apply te_publish_app; [eapply forall2_trans; [exact tmsg_ext_trans| |]; eassumption|].
      rewrite <- (named_forall2 _ _ HF). exact Hn'.
  - inversion H'; subst. constructor; (eapply forall2_trans; [exact tmsg_ext_trans| |]; eassumption).
  - inversion H'; subst. constructor. eapply tmsg_ext_trans; eassumption.
  - inversion H'; subst. constructor. eapply tmsg_ext_trans; eassumption.
  - inversion H' as [n0 x y HF'| | | |n0 x y1 extra' HF' Hn']; subst.
    + apply Forall2_app_inv_l in HF'. destruct HF' as (y1 & y2 & Ha & Hb & ->).
      apply te_publish_app; [eapply forall2_trans; [exact tmsg_ext_trans| |]; eassumption|exact Hn].
    + apply Forall2_app_inv_l in HF'. destruct HF' as (z1 & z2 & Ha & Hb & ->).
      rewrite <- app_assoc. apply te_publish_app; [eapply forall2_trans; [exact tmsg_ext_trans| |]; eassumption|exact Hn].
Qed.

Lemma element_ext_refl e : element_ext e e.
Proof.
  destruct e as [nm ps subs|nm ps subs|en|[nm base ms]|t].
  - constructor; [apply props_ext_refl|apply nesteds_ext_refl].
  - constructor; [apply props_ext_refl|apply nesteds_ext_refl].
  - constructor.
  - constructor. apply forall2_refl. apply method_ext_refl.
  - constructor. apply topic_ext_refl.
Qed.

Lemma element_ext_trans a c d : element_ext a c -> element_ext c d -> element_ext a d.
Proof.
  intros H H'. destruct H as [nm ps ps' subs subs' Hps Hs|nm ps ps' subs subs' Hps Hs|en|nm pfx opts x|nm base ms ms' HF|t t' Ht].
  - inversion H'; subst. constructor; [eapply (proj2 props_ext_trans); eassumption|eapply (proj2 nesteds_ext_trans); eassumption].
  - inversion H'; subst. constructor; [eapply (proj2 props_ext_trans); eassumption|eapply (proj2 nesteds_ext_trans); eassumption].
  - exact H'.
  - inversion H' as [| |en' E1 E2|nm' pfx' opts' y E1 E2| |]; subst.
    + constructor.
    + rewrite <- app_assoc. constructor.
  - inversion H'; subst. constructor. eapply forall2_trans; [exact method_ext_trans| |]; eassumption.
  - inversion H'; subst. constructor. eapply topic_ext_trans; eassumption.
Qed.

Lemma file_src_ext_refl f : file_src_ext f f.
Proof.
  repeat split; try reflexivity. exists (jf_elements f), []. split; [|rewrite app_nil_r; reflexivity].
  apply forall2_refl. apply element_ext_refl.
Qed.

Lemma file_src_ext_trans a c d : file_src_ext a c -> file_src_ext c d -> file_src_ext a d.
Proof.
  intros (A1 & A2 & A3 & e1 & x1 & AF & AE) (B1 & B2 & B3 & e2 & x2 & BF & BE).
  repeat split; try congruence.
  rewrite AE in BF. apply Forall2_app_inv_l in BF. destruct BF as (p & q & Fp & Fq & ->).
  exists p, (q ++ x2). split; [|rewrite BE, app_assoc; reflexivity].
  eapply forall2_trans; [exact element_ext_trans| |]; eassumption.
Qed.

Lemma forall2_update_nth {A} (R : A -> A -> Prop) (g : A -> A) k l :
  (forall a, R a a) -> (forall a, R a (g a)) -> Forall2 R l (update_nth k g l).
Proof.
  intros Hr Hg. revert k. induction l as [|x r IH]; intros k; destruct k; cbn; constructor; auto.
  apply forall2_refl. exact Hr.
Qed.

Lemma enum_snoc_ext e o :
  field_ext (FEnumInline e) (FEnumInline (enum_snoc e o)) /\ nested_ext (NEnum e) (NEnum (enum_snoc e o)).
Proof.
  destruct e as [nm pfx opts]. unfold enum_snoc. cbn [e_opts e_name e_prefix]. split; constructor.
Qed.

Lemma in_field_ext onmsg onenum :
  (forall ps, props_ext ps (onmsg ps)) -> (forall e, field_ext (FEnumInline e) (FEnumInline (onenum e))) ->
  forall f, field_ext f (in_field onmsg onenum f).
Proof.
  intros Hg He f. induction f; cbn [in_field]; try apply fe_refl.
  - constructor. apply Hg.
  - constructor. apply Hg.
  - apply He.
  - constructor. apply IHf.
  - constructor. apply IHf.
Qed.

Lemma in_nested_ext onmsg onenum :
  (forall ps subs, props_ext ps (fst (onmsg ps subs)) /\ nesteds_ext subs (snd (onmsg ps subs))) ->
  (forall e, nested_ext (NEnum e) (NEnum (onenum e))) ->
  forall n, nested_ext n (in_nested onmsg onenum n).
Proof.
  intros Hg He n. destruct n as [nm ps subs|nm ps subs|e]; cbn [in_nested].
  - destruct (Hg ps subs) as [A B]. destruct (onmsg ps subs). constructor; assumption.
  - destruct (Hg ps subs) as [A B]. destruct (onmsg ps subs). constructor; assumption.
  - apply He.
Qed.

Lemma update_prop_ext g : (forall f, field_ext f (g f)) ->
  forall ps i, props_ext ps (update_prop i g ps).
Proof.
  intros Hg ps. induction ps as [|[n rq op f] r IH]; intros i; destruct i; cbn [update_prop] in *; try constructor;
    try apply props_ext_refl; try apply Hg; try apply IH.
Qed.

Lemma update_nested_ext g : (forall n, nested_ext n (g n)) ->
  forall ns k, nesteds_ext ns (update_nested k g ns).
Proof.
  intros Hg ns. induction ns as [|n r IH]; intros k; destruct k; cbn [update_nested] in *; try constructor;
    try apply nesteds_ext_refl; try apply ne_refl; try apply Hg; try apply IH.
Qed.

(* appending at an address inside a message - into inline types and nested declarations, to any
   depth - is an extension, for every address and every action *)
Lemma apply_at_ext a path : forall ps subs,
  props_ext ps (fst (apply_at path a ps subs)) /\ nesteds_ext subs (snd (apply_at path a ps subs)).
Proof.
  induction path as [|st rest IH]; intros ps subs.
  - cbn [apply_at]. destruct a; cbn [fst snd]; split;
      try apply props_ext_refl; try apply nesteds_ext_refl; [apply props_ext_snoc|apply nesteds_ext_napp].
  - destruct st as [i|k]; cbn [apply_at fst snd] in *; split;
      try apply props_ext_refl; try apply nesteds_ext_refl.
    + apply update_prop_ext. apply in_field_ext.
      * intros q. apply IH.
      * intros e. destruct rest; [destruct a; try apply fe_refl; apply enum_snoc_ext|apply fe_refl].
    + apply update_nested_ext. apply in_nested_ext.
      * intros q s. apply IH.
      * intros e. destruct rest; [destruct a; try apply ne_refl; apply enum_snoc_ext|apply ne_refl].
Qed.

Lemma apply_props_ext a path ps : props_ext ps (apply_props path a ps).
Proof. apply apply_at_ext. Qed.

Lemma edit_element_ext e el : element_ext el (edit_element e el).
Proof.
  destruct e as [fi k p|fi k o|fi d|fi k mi p|fi k mi p|fi k mi p|fi k rt path act|fi k tm].
  7: { destruct rt as [|mi|mi|reply mi]; destruct el as [nm ps subs|nm ps subs|en|[nm base ms]|t];
         cbn [edit_element] in *; try apply element_ext_refl.
       - destruct (apply_at_ext act path ps subs) as [A B]. destruct (apply_at path act ps subs). constructor; assumption.
       - destruct (apply_at_ext act path ps subs) as [A B]. destruct (apply_at path act ps subs). constructor; assumption.
       - constructor. cbn [sv_methods] in *.
         apply forall2_update_nth; [apply method_ext_refl|].
         intros m. repeat split; try reflexivity; cbn.
         + apply apply_props_ext.
         + destruct (m_response m); [apply props_ext_refl|exact I].
       - constructor. cbn [sv_methods] in *.
         apply forall2_update_nth; [apply method_ext_refl|].
         intros m. repeat split; try reflexivity; cbn.
         + apply props_ext_refl.
         + destruct (m_response m); [apply apply_props_ext|exact I].
       - constructor. destruct t as [n ms|n rq rp|n en m|n en m]; [|destruct reply| |]; constructor;
           try (apply forall2_update_nth; [apply tmsg_ext_refl|]; intros x; split; [reflexivity|apply apply_props_ext]);
           try (apply forall2_refl; apply tmsg_ext_refl);
           try (split; [reflexivity|apply apply_props_ext]). }
  all: destruct el as [nm ps subs|nm ps subs|en|[nm base ms]|t];
    cbn [edit_element] in *; try apply element_ext_refl.
  - constructor; [apply props_ext_snoc|apply nesteds_ext_refl].
  - constructor; [apply props_ext_snoc|apply nesteds_ext_refl].
  - destruct en as [n pf os]. cbn [e_name e_prefix e_opts] in *. constructor.
  - constructor. cbn [sv_methods]. apply forall2_update_nth; [apply method_ext_refl|].
    intros m. repeat split; try reflexivity; cbn.
    + apply props_ext_snoc.
    + destruct (m_response m); [apply props_ext_refl|exact I].
  - constructor. cbn [sv_methods]. apply forall2_update_nth; [apply method_ext_refl|].
    intros m. repeat split; try reflexivity; cbn.
    + apply props_ext_refl.
    + destruct (m_response m); [apply props_ext_snoc|exact I].
  - constructor. destruct t as [n ms|n rq rp|n en m|n en m]; constructor;
      try (apply forall2_update_nth; [apply tmsg_ext_refl|]; intros x; split; [reflexivity|apply props_ext_snoc]);
      try (apply forall2_refl; apply tmsg_ext_refl);
      try (split; [reflexivity|apply props_ext_snoc]).
  - destruct t as [n ms|n rq rp|n en m|n en m]; try apply element_ext_refl.
    destruct (forallb tm_named ms) eqn:En; [|apply element_ext_refl].
    constructor. apply te_publish_app; [apply forall2_refl; apply tmsg_ext_refl|exact En].
Qed.

Lemma update_edit_ext e l k : Forall2 element_ext l (update_nth k (edit_element e) l).
Proof.
  apply forall2_update_nth; [apply element_ext_refl|]. intros el. apply edit_element_ext.
Qed.

(* every C13 edit extends the source file in the sense of [file_src_ext] *)
Theorem edit_file_ext e f : file_src_ext f (edit_file e f).
Proof.
  destruct e as [fi k p|fi k o|fi d|fi k mi p|fi k mi p|fi k mi p|fi k rt path act|fi k tm]; cbn [edit_file].
  3: { repeat split; try reflexivity. exists (jf_elements f), [d]. split; [|reflexivity].
       apply forall2_refl. apply element_ext_refl. }
  all: repeat split; try reflexivity; eexists; exists []; (split; [|cbn [jf_elements]; rewrite app_nil_r; reflexivity]).
  all: apply update_edit_ext.
Qed.

(* ... hence so does every sequence of edits applied to that file (induction over the list) *)
Theorem edit_sequence_ext es : forall f,
  file_src_ext f (fold_left (fun g e => edit_file e g) es f).
Proof.
  induction es as [|e r IH]; intros f; cbn [fold_left].
  - apply file_src_ext_refl.
  - eapply file_src_ext_trans; [apply edit_file_ext|apply IH].
Qed.

(* ================================================================== the environment only grows *)
(* The hypothesis [env_le] of the embedding theorem holds for bundles edited by appends, as
   long as the exported names of every package stay distinct (part of validity). *)
Lemma lookup_last_nomatch name l acc :
  (forall t, In t l -> tr_name t <> name) -> lookup_last name l acc = acc.
Proof.
  revert acc. induction l as [|x r IH]; intros acc H; cbn; [reflexivity|].
  rewrite IH by (intros t Ht; apply H; right; exact Ht).
  destruct (str_eqb (tr_name x) name) eqn:E; [|reflexivity].
  apply str_eqb_eq in E. exfalso. apply (H x (or_introl eq_refl) E).
Qed.

Lemma distinct_cons x l : J5sValid.distinct (x :: l) = true -> ~ In x l /\ J5sValid.distinct l = true.
Proof.
  cbn. intros H. apply andb_true_iff in H. destruct H as [H1 H2]. split; [|exact H2].
  intros Hin. apply negb_true_iff in H1. assert (existsb (str_eqb x) l = true).
  { apply existsb_exists. exists x. split; [exact Hin|apply str_eqb_refl]. }
  congruence.
Qed.

Lemma lookup_last_distinct l : forall acc t,
  J5sValid.distinct (map tr_name l) = true -> In t l -> lookup_last (tr_name t) l acc = Some t.
Proof.
  induction l as [|x r IH]; intros acc t Hd Hin; [destruct Hin|].
  cbn [map] in Hd. apply distinct_cons in Hd. destruct Hd as [Hn Hd]. cbn [lookup_last].
  destruct Hin as [<-|Hin].
  - rewrite str_eqb_refl. apply lookup_last_nomatch. intros t Ht E. apply Hn. rewrite <- E. apply in_map. exact Ht.
  - apply IH; assumption.
Qed.

Definition exports_le (ex ex' : str -> option (list typeref)) : Prop :=
  forall p l, ex p = Some l -> exists l', ex' p = Some l' /\ incl l l' /\ J5sValid.distinct (map tr_name l') = true.

Theorem env_le_of_exports this im ex ex' :
  exports_le ex ex' -> env_le (mkEnv this im ex) (mkEnv this im ex').
Proof.
  intros Hle r t H. unfold resolve in *. cbn [ev_this ev_imports ev_exports] in *.
  assert (Hlk : forall pkg,
    match ex pkg with
    | Some l => match lookup_last (r_name r) l None with Some t0 => Ok t0 | None => Err "type not found" end
    | None => Err "package not loaded"
    end = Ok t ->
    match ex' pkg with
    | Some l => match lookup_last (r_name r) l None with Some t0 => Ok t0 | None => Err "type not found" end
    | None => Err "package not loaded"
    end = Ok t).
  { intros pkg Hp. destruct (ex pkg) as [l|] eqn:El; [|discriminate].
    destruct (lookup_last (r_name r) l None) as [t0|] eqn:Ek; [|discriminate]. inversion Hp. subst t0.
    destruct (lookup_last_sound _ _ _ _ Ek) as [Hn|[Hi Hn]]; [discriminate|].
    destruct (Hle _ _ El) as (l' & El' & Hinc & Hd). rewrite El'. rewrite <- Hn.
    rewrite (lookup_last_distinct l' None t Hd (Hinc _ Hi)). reflexivity. }
  destruct ((match r_pkg r with [] => true | _ => false end) || str_eqb (r_pkg r) this); [apply Hlk; exact H|].
  destruct (implicit_ref implicit_table (r_pkg r) (r_name r)); [exact H|].
  destruct (assoc (r_pkg r) im) as [full|]; [|exact H].
  destruct (implicit_ref implicit_table full (r_name r)); [exact H|]. apply Hlk. exact H.
Qed.

(* exports of a source file extended by appends include the old ones *)
Section Exports.
Variable camel : str -> str.

(* the inline types of an extended message include the old ones, under the same names *)
Lemma exp_props_ext pkg file :
  (forall f f', field_ext f f' -> forall path dflt,
     incl (exp_field camel pkg file path dflt f) (exp_field camel pkg file path dflt f')) /\
  (forall ps ps', props_ext ps ps' -> forall path,
     incl (exp_props camel pkg file path ps) (exp_props camel pkg file path ps')).
Proof.
  apply ext_min.
  - intros f path dflt. apply incl_refl.
  - intros nm ps ps' _ IH path dflt. cbn [exp_field]. intros t [<-|Hin]; [left; reflexivity|right; eapply IH; exact Hin].
  - intros nm ps ps' _ IH path dflt. cbn [exp_field]. intros t [<-|Hin]; [left; reflexivity|right; eapply IH; exact Hin].
  - intros nm pfx opts extra path dflt. cbn [exp_field e_name]. apply incl_refl.
  - intros it it' _ IH path dflt. cbn [exp_field]. apply IH.
  - intros it it' _ IH path dflt. cbn [exp_field]. apply IH.
  - intros extra path. cbn [exp_props]. intros t [].
  - intros n rq op f f' r r' _ IHf _ IHr path. cbn [exp_props exp_property].
    apply incl_app; [apply incl_appl; apply IHf|apply incl_appr; apply IHr].
Qed.

Lemma exp_nesteds_ext pkg file :
  (forall n n', nested_ext n n' -> forall path,
     incl (exp_nested camel pkg file path n) (exp_nested camel pkg file path n')) /\
  (forall ns ns', nesteds_ext ns ns' -> forall path,
     incl (exp_nesteds camel pkg file path ns) (exp_nesteds camel pkg file path ns')).
Proof.
  apply next_min.
  - intros n path. apply incl_refl.
  - intros nm ps ps' subs subs' Hps _ IH path. cbn [exp_nested].
    intros t [<-|Hin]; [left; reflexivity|right].
    apply in_app_or in Hin. apply in_or_app. destruct Hin as [Hin|Hin]; [left|right; eapply IH; exact Hin].
    eapply (proj2 (exp_props_ext pkg file)); eassumption.
  - intros nm ps ps' subs subs' Hps _ IH path. cbn [exp_nested].
    intros t [<-|Hin]; [left; reflexivity|right].
    apply in_app_or in Hin. apply in_or_app. destruct Hin as [Hin|Hin]; [left|right; eapply IH; exact Hin].
    eapply (proj2 (exp_props_ext pkg file)); eassumption.
  - intros nm pfx opts extra path. cbn [exp_nested e_name]. apply incl_refl.
  - intros extra path. cbn [exp_nesteds]. intros t [].
  - intros n n' r r' _ IHn _ IHr path. cbn [exp_nesteds].
    apply incl_app; [apply incl_appl; apply IHn|apply incl_appr; apply IHr].
Qed.

Lemma exp_element_ext pkg file e e' :
  element_ext e e' -> incl (exp_element camel pkg file e) (exp_element camel pkg file e').
Proof.
  intros H. destruct H as [nm ps ps' subs subs' Hps Hs|nm ps ps' subs subs' Hps Hs|en|nm pfx opts x|nm base ms ms' HF|t t' Ht];
    cbn [exp_element]; try apply incl_refl.
  - apply (proj1 (exp_nesteds_ext pkg file)). constructor; assumption.
  - apply (proj1 (exp_nesteds_ext pkg file)). constructor; assumption.
Qed.

Lemma exp_file_ext f f' :
  file_src_ext f f' -> incl (exp_bfile camel (BJ f)) (exp_bfile camel (BJ f')).
Proof.
  intros (Hd & Hb & Hi & els1 & extra & HF & Hels). cbn [exp_bfile].
  assert (Hpkg : j5s_pkg f' = j5s_pkg f) by (unfold j5s_pkg; rewrite Hd; reflexivity).
  assert (Hmain : main_proto_path f' = main_proto_path f) by (unfold main_proto_path, j5s_path; rewrite Hd, Hb; reflexivity).
  rewrite Hpkg, Hmain, Hels, flat_map_app. apply incl_appl. clear Hels.
  induction HF as [|e e' r r' He Hr IH]; cbn [flat_map]; [apply incl_refl|].
  apply incl_app; [apply incl_appl; apply exp_element_ext; exact He|apply incl_appr; exact IH].
Qed.

End Exports.

Lemma in_update_nth {A} (g : A -> A) l : forall k x,
  In x l -> In x (update_nth k g l) \/ (nth_error l k = Some x /\ In (g x) (update_nth k g l)).
Proof.
  induction l as [|y r IH]; intros k x Hin; [destruct Hin|]. destruct k; cbn [update_nth nth_error].
  - destruct Hin as [<-|Hin]; [right; split; [reflexivity|left; reflexivity]|left; right; exact Hin].
  - destruct Hin as [<-|Hin]; [left; left; reflexivity|].
    destruct (IH k x Hin) as [H|[H1 H2]]; [left; right; exact H|right; split; [exact H1|right; exact H2]].
Qed.

Lemma in_pkg_files_iff bd p x : In x (pkg_files bd p) <-> In x bd /\ bfile_pkg x = p.
Proof.
  unfold pkg_files. rewrite in_sort_by, filter_In. split; intros [H1 H2]; split; try assumption.
  - apply str_eqb_eq. exact H2.
  - apply str_eqb_eq. exact H2.
Qed.

(* a bundle in which one source file was extended by appends *)
Theorem exports_le_of_edit camel bd k f f' :
  nth_error bd k = Some (BJ f) -> file_src_ext f f' ->
  (forall p l, pkg_exports camel (update_nth k (fun _ => BJ f') bd) p = Some l ->
               J5sValid.distinct (map tr_name l) = true) ->
  exports_le (pkg_exports camel bd) (pkg_exports camel (update_nth k (fun _ => BJ f') bd)).
Proof.
  intros Hk Hext Hdist p l Hl. set (bd' := update_nth k (fun _ => BJ f') bd) in *.
  assert (Hpkg : bfile_pkg (BJ f') = bfile_pkg (BJ f)).
  { destruct Hext as (Hd & _). cbn. unfold j5s_pkg. rewrite Hd. reflexivity. }
  assert (Hfiles : forall x, In x (pkg_files bd p) -> exists x', In x' (pkg_files bd' p) /\
                                                      incl (exp_bfile camel x) (exp_bfile camel x')).
  { intros x Hx. apply in_pkg_files_iff in Hx. destruct Hx as [Hin Hp].
    destruct (in_update_nth (fun _ => BJ f') bd k x Hin) as [H|[H1 H2]].
    - exists x. split; [apply in_pkg_files_iff; split; assumption|apply incl_refl].
    - rewrite Hk in H1. inversion H1. subst x. exists (BJ f'). split.
      + apply in_pkg_files_iff. split; [exact H2|rewrite Hpkg; exact Hp].
      + apply exp_file_ext. exact Hext. }
  unfold pkg_exports in Hl |- *.
  destruct (pkg_files bd p) as [|x0 r0] eqn:E; [discriminate|]. inversion Hl. subst l. clear Hl.
  destruct (Hfiles x0 (or_introl eq_refl)) as (x0' & Hx0' & _).
  destruct (pkg_files bd' p) as [|y0 s0] eqn:E'; [destruct Hx0'|].
  eexists. split; [reflexivity|]. split.
  - intros t Ht. change (In t (flat_map (exp_bfile camel) (x0 :: r0))) in Ht.
    apply in_flat_map in Ht. destruct Ht as (x & Hx & Ht).
    destruct (Hfiles x Hx) as (x' & Hx' & Hinc). apply in_flat_map. exists x'. split; [exact Hx'|apply Hinc; exact Ht].
  - apply (Hdist p). unfold pkg_exports. fold bd'. rewrite E'. reflexivity.
Qed.

(* J5sExtProofs.v — C13 at the level of whole source files: a source file extended by append
   edits (fields at the end of objects, oneofs, requests, responses, topic messages; options
   at the end of enums; declarations at the end of the file - any number of them, i.e. any
   sequence of such edits) converts to descriptors into which the old descriptors embed. *)
From Coq Require Import String List NArith Bool Lia ZifyN ZifyNat ZifyBool.
From J5V.lib Require Import Outcome Corr.
From J5V.model Require Import J5sAst Desc J5sWalk J5sLink J5sConvert J5sContract J5sValid J5sEdit.
From J5V.proofs Require Import J5sProofs J5sContractProofs J5sLinkProofs J5sEditProofs J5sResolveProofs.
Import ListNotations.
Local Open Scope N_scope.

(* ------------------------------------------------------------------ embeddings *)
Lemma prefix_of_refl {A} (l : list A) : prefix_of l l.
Proof. exists []. rewrite app_nil_r. reflexivity. Qed.
Lemma prefix_of_app {A} (l t : list A) : prefix_of l (l ++ t).
Proof. exists t. reflexivity. Qed.
Lemma prefix_of_trans {A} (a c d : list A) : prefix_of a c -> prefix_of c d -> prefix_of a d.
Proof. intros [t ->] [u ->]. exists (t ++ u). rewrite app_assoc. reflexivity. Qed.

Lemma sub_list_refl {A} (R : A -> A -> Prop) l : Forall (fun a => R a a) l -> sub_list R l l.
Proof. intros H. induction H; constructor; assumption. Qed.

Lemma sub_list_app {A} (R : A -> A -> Prop) a a' c c' :
  sub_list R a a' -> sub_list R c c' -> sub_list R (a ++ c) (a' ++ c').
Proof.
  intros Ha Hc. induction Ha as [l|x y l l' Hxy Hl IH|y l l' Hl IH]; cbn.
  - induction l as [|z r IHr]; cbn; [exact Hc|]. apply sl_skip. exact IHr.
  - apply sl_keep; assumption.
  - apply sl_skip. assumption.
Qed.

Lemma sub_list_skip_mid {A} (R : A -> A -> Prop) a x c :
  Forall (fun z => R z z) a -> Forall (fun z => R z z) c -> sub_list R (a ++ c) (a ++ x ++ c).
Proof.
  intros Ha Hc. apply sub_list_app; [apply sub_list_refl; exact Ha|].
  induction x as [|z r IH]; cbn; [apply sub_list_refl; exact Hc|]. apply sl_skip. exact IH.
Qed.

Lemma enum_ext_refl e : enum_ext e e.
Proof. split; [reflexivity|apply prefix_of_refl]. Qed.

Lemma msg_ext_refl : forall m, msg_ext m m.
Proof.
  induction m as [n k fs ms es IH] using dmsg_ind2.
  constructor; [apply prefix_of_refl|apply sub_list_refl; exact IH|].
  apply sub_list_refl. apply Forall_forall. intros e _. apply enum_ext_refl.
Qed.

Lemma msgs_refl (l : list dmsg) : Forall (fun m => msg_ext m m) l.
Proof. apply Forall_forall. intros m _. apply msg_ext_refl. Qed.
Lemma enums_refl (l : list denum) : Forall (fun e => enum_ext e e) l.
Proof. apply Forall_forall. intros e _. apply enum_ext_refl. Qed.

Lemma service_ext_refl s : service_ext s s.
Proof. repeat split; try reflexivity. apply prefix_of_refl. Qed.
Lemma svcs_refl (l : list dservice) : Forall (fun s => service_ext s s) l.
Proof. apply Forall_forall. intros s _. apply service_ext_refl. Qed.

(* ------------------------------------------------------------------ environments that only grow *)
Definition env_le (ev ev' : env) : Prop :=
  forall r t, resolve ev r = Ok t -> resolve ev' r = Ok t.

Lemma env_le_refl ev : env_le ev ev.
Proof. intros r t H. exact H. Qed.

Section Ext.
Variables snake camel screaming : str -> str.
Notation cv_item := (cv_item snake camel screaming).
Notation cv_props := (cv_props snake camel screaming).
Notation cv_property := (cv_property snake camel screaming).

Lemma ref_core_le ev ev' r we c : env_le ev ev' -> ref_core ev r we = Ok c -> ref_core ev' r we = Ok c.
Proof.
  intros Hle H. unfold ref_core in *. inv_ok H. rewrite (Hle _ _ E). cbn [obind]. exact H.
Qed.

(* conversion under a larger environment gives the same result *)
Theorem convert_env_le ev ev' (Hle : env_le ev ev') :
  (forall f, (forall path dflt c, cv_item ev path dflt f = Ok c -> cv_item ev' path dflt f = Ok c) /\
             match f with
             | FArray it | FMap it => forall path dflt c, cv_item ev path dflt it = Ok c -> cv_item ev' path dflt it = Ok c
             | _ => True
             end) /\
  (forall ps path io n r, cv_props ev path io n ps = Ok r -> cv_props ev' path io n ps = Ok r) /\
  (forall p path io n r, cv_property ev path io n p = Ok r -> cv_property ev' path io n p = Ok r).
Proof.
  apply ast_mutind.
  - intros s. split; [|exact I]. intros path dflt c H. exact H.
  - intros r. split; [|exact I]. intros path dflt c H. cbn in *. eapply ref_core_le; eassumption.
  - intros nm ps IH. split; [|exact I]. intros path dflt c H.
    rewrite (cv_item_obj snake camel screaming) in *. inv_ok H. rewrite (IH _ _ _ _ E). exact H.
  - intros r. split; [|exact I]. intros path dflt c H. cbn in *. eapply ref_core_le; eassumption.
  - intros nm ps IH. split; [|exact I]. intros path dflt c H.
    rewrite (cv_item_oneof snake camel screaming) in *. inv_ok H. rewrite (IH _ _ _ _ E). exact H.
  - intros r. split; [|exact I]. intros path dflt c H. cbn in *. eapply ref_core_le; eassumption.
  - intros e. split; [|exact I]. intros path dflt c H. exact H.
  - intros it [IH _]. split; [|exact IH]. intros path dflt c H. cbn in H. discriminate.
  - intros it [IH _]. split; [|exact IH]. intros path dflt c H. cbn in H. discriminate.
  - intros path io n r H. exact H.
  - intros p IHp ps IHps path io n r H. rewrite (cv_props_cons snake camel screaming) in *.
    inv_ok H. rewrite (IHp _ _ _ _ E). cbn [obind]. rewrite (IHps _ _ _ _ E0). exact H.
  - intros n rq op f [IH IHit] path io num r H. rewrite (cv_property_eq snake camel screaming) in *.
    destruct f; inv_ok H;
      first [rewrite (IH _ _ _ E)|rewrite (IHit _ _ _ E)]; exact H.
Qed.

Notation cv_nested := (cv_nested snake camel screaming).
Notation cv_nesteds := (cv_nesteds snake camel screaming).
Notation cv_virtual := (cv_virtual snake camel screaming).
Notation cv_enum := (cv_enum screaming).

Theorem nested_env_le ev ev' (Hle : env_le ev ev') :
  (forall n path r, cv_nested ev path n = Ok r -> cv_nested ev' path n = Ok r) /\
  (forall ns path r, cv_nesteds ev path ns = Ok r -> cv_nesteds ev' path ns = Ok r).
Proof.
  destruct (convert_env_le ev ev' Hle) as (_ & Hp & _).
  apply nested_mutind.
  - intros nm ps subs IH path r H. rewrite (cv_nested_obj snake camel screaming) in *.
    inv_ok H. rewrite (Hp _ _ _ _ _ E). cbn [obind]. rewrite (IH _ _ E0). exact H.
  - intros nm ps subs IH path r H. rewrite (cv_nested_oneof snake camel screaming) in *.
    inv_ok H. rewrite (Hp _ _ _ _ _ E). cbn [obind]. rewrite (IH _ _ E0). exact H.
  - intros e path r H. exact H.
  - intros path r H. exact H.
  - intros n IHn r IHr path res H. rewrite (cv_nesteds_cons snake camel screaming) in *.
    inv_ok H. rewrite (IHn _ _ E). cbn [obind]. rewrite (IHr _ _ E0). exact H.
Qed.

(* a run of properties with more properties appended, under a larger environment *)
Lemma cv_props_ext ev ev' (Hle : env_le ev ev') path io n ps extra r r' :
  cv_props ev path io n ps = Ok r -> cv_props ev' path io n (papp ps extra) = Ok r' ->
  exists a, r' = pres_app r a.
Proof.
  intros H H'. destruct (convert_env_le ev ev' Hle) as (_ & Hp & _).
  rewrite (cv_props_app snake camel screaming), (Hp _ _ _ _ _ H) in H'. cbn [obind] in H'.
  inv_ok H'. inversion H'. exists a. reflexivity.
Qed.

(* one declared object / oneof *)
Lemma cv_nested_obj_ext ev ev' (Hle : env_le ev ev') path nm ps extra subs ms es is ms' es' is' :
  cv_nested ev path (NObject nm ps subs) = Ok (ms, es, is) ->
  cv_nested ev' path (NObject nm (papp ps extra) subs) = Ok (ms', es', is') ->
  sub_list msg_ext ms ms' /\ es = [] /\ es' = [].
Proof.
  intros H H'. rewrite (cv_nested_obj snake camel screaming) in *. inv_ok H. inv_ok H'.
  destruct a0 as [[sm se] si]. destruct a2 as [[sm' se'] si']. inversion H. inversion H'. subst. clear H H'.
  destruct (cv_props_ext _ _ Hle _ _ _ _ _ _ _ E E1) as [x ->].
  pose proof (proj2 (nested_env_le _ _ Hle) _ _ _ E0) as E0'. rewrite E0' in E2. inversion E2. subst. clear E2.
  split; [|split; reflexivity]. apply sl_keep; [|apply sl_nil].
  cbn [pres_app pr_fields pr_msgs pr_enums]. constructor.
  - apply prefix_of_app.
  - rewrite <- app_assoc. apply sub_list_skip_mid; apply msgs_refl.
  - rewrite <- app_assoc. apply sub_list_skip_mid; apply enums_refl.
Qed.

Lemma cv_nested_oneof_ext ev ev' (Hle : env_le ev ev') path nm ps extra subs ms es is ms' es' is' :
  cv_nested ev path (NOneof nm ps subs) = Ok (ms, es, is) ->
  cv_nested ev' path (NOneof nm (papp ps extra) subs) = Ok (ms', es', is') ->
  sub_list msg_ext ms ms' /\ es = [] /\ es' = [].
Proof.
  intros H H'. rewrite (cv_nested_oneof snake camel screaming) in *. inv_ok H. inv_ok H'.
  destruct a0 as [[sm se] si]. destruct a2 as [[sm' se'] si']. inversion H. inversion H'. subst. clear H H'.
  destruct (cv_props_ext _ _ Hle _ _ _ _ _ _ _ E E1) as [x ->].
  pose proof (proj2 (nested_env_le _ _ Hle) _ _ _ E0) as E0'. rewrite E0' in E2. inversion E2. subst. clear E2.
  split; [|split; reflexivity]. apply sl_keep; [|apply sl_nil].
  cbn [pres_app pr_fields pr_msgs pr_enums]. constructor.
  - apply prefix_of_app.
  - rewrite <- app_assoc. apply sub_list_skip_mid; apply msgs_refl.
  - rewrite <- app_assoc. apply sub_list_skip_mid; apply enums_refl.
Qed.

(* enum options appended *)
Lemma cv_enum_ext name nm pfx opts extra :
  opts <> [] -> enum_ext (cv_enum name (mkEnum nm pfx opts)) (cv_enum name (mkEnum nm pfx (opts ++ extra))).
Proof.
  intros Hne. destruct opts as [|o0 r]; [contradiction|].
  unfold J5sConvert.cv_enum. cbn [e_opts e_prefix app].
  destruct (has_suffix unspecified o0); split; cbn [en_name en_vals]; try reflexivity.
  - rewrite (number_opts_app snake camel screaming). eexists. rewrite app_comm_cons. reflexivity.
  - change (o0 :: r ++ extra) with ((o0 :: r) ++ extra). rewrite (number_opts_app snake camel screaming).
    eexists. rewrite app_comm_cons. reflexivity.
Qed.

(* a request / response / topic message *)
Lemma cv_virtual_ext ev ev' (Hle : env_le ev ev') name virt ps extra m is m' is' :
  cv_virtual ev name virt ps = Ok (m, is) ->
  cv_virtual ev' name virt (papp ps extra) = Ok (m', is') ->
  msg_ext m m'.
Proof.
  unfold J5sConvert.cv_virtual. intros H H'. inv_ok H. inv_ok H'. inversion H. inversion H'. subst. clear H H'.
  assert (Hpa : papp virt (papp ps extra) = papp (papp virt ps) extra).
  { clear. induction virt as [|p r IH]; cbn; [reflexivity|]. rewrite IH. reflexivity. }
  rewrite Hpa in E0. destruct (cv_props_ext _ _ Hle _ _ _ _ _ _ _ E E0) as [x ->].
  cbn [pres_app pr_fields pr_msgs pr_enums]. constructor.
  - apply prefix_of_app.
  - replace (pr_msgs a) with (pr_msgs a ++ []) at 1 by apply app_nil_r.
    replace (pr_msgs a ++ pr_msgs x) with (pr_msgs a ++ pr_msgs x ++ []) by (rewrite app_nil_r; reflexivity).
    apply sub_list_skip_mid; [apply msgs_refl|constructor].
  - replace (pr_enums a) with (pr_enums a ++ []) at 1 by apply app_nil_r.
    replace (pr_enums a ++ pr_enums x) with (pr_enums a ++ pr_enums x ++ []) by (rewrite app_nil_r; reflexivity).
    apply sub_list_skip_mid; [apply enums_refl|constructor].
Qed.

(* ------------------------------------------------------------------ services *)
Notation cv_method := (cv_method snake camel screaming).
Notation cv_methods := (cv_methods snake camel screaming).
Notation cv_service := (cv_service snake camel screaming).
Notation http_rule := (http_rule snake).
Notation rewrite_segs := (rewrite_segs snake).

Lemma has_prop_papp nm ps extra : has_prop nm ps = true -> has_prop nm (papp ps extra) = true.
Proof.
  induction ps as [|p r IH]; cbn; [discriminate|]. intros H. apply orb_true_iff in H.
  destruct H as [H|H]; [rewrite H; reflexivity|]. rewrite (IH H). apply orb_true_r.
Qed.

Lemma rewrite_segs_ext req extra segs l :
  rewrite_segs req segs = Ok l -> rewrite_segs (papp req extra) segs = Ok l.
Proof.
  revert l. induction segs as [|s r IH]; intros l H; cbn in *; [exact H|].
  inv_ok H. rewrite (IH _ E). cbn [obind]. destruct s as [|c nm]; [exact H|].
  destruct (c =? colon); [|exact H].
  destruct (has_prop nm req) eqn:Hp; [|discriminate]. rewrite (has_prop_papp _ _ _ Hp). exact H.
Qed.

Lemma http_rule_ext base m m' h : method_ext m m' -> http_rule base m = Ok h -> http_rule base m' = Ok h.
Proof.
  intros (Hn & Hv & Hp & [extra Hr] & _) H. unfold J5sConvert.http_rule in *. rewrite Hv, Hp, Hr.
  inv_ok H. rewrite (rewrite_segs_ext _ _ _ _ E). exact H.
Qed.

Lemma forall2_sub_list {A} (R : A -> A -> Prop) l l' : Forall2 R l l' -> sub_list R l l'.
Proof. intros H. induction H; constructor; assumption. Qed.

Lemma cv_method_ext ev ev' (Hle : env_le ev ev') base m m' ms d is ms' d' is' :
  method_ext m m' ->
  cv_method ev base m = Ok (ms, d, is) -> cv_method ev' base m' = Ok (ms', d', is') ->
  sub_list msg_ext ms ms' /\ d' = d.
Proof.
  intros Hext H H'. pose proof Hext as (Hn & Hv & Hp & [extra Hr] & Hresp).
  unfold J5sConvert.cv_method in *. rewrite Hn, Hr in H'. inv_ok H. inv_ok H'.
  destruct a as [rq rqi]. destruct a2 as [rq' rqi'].
  pose proof (cv_virtual_ext _ _ Hle _ _ _ _ _ _ _ _ E E2) as Hrq.
  rewrite (http_rule_ext _ _ _ _ Hext E1) in E4. inversion E4. subst a4. clear E4.
  destruct (m_response m) as [rs|] eqn:Ers; destruct (m_response m') as [rs'|] eqn:Ers'; try contradiction.
  - destruct Hresp as [extra2 ->].
    apply obind_ok in E0. destruct E0 as ([rm rmi] & Erm & E0).
    apply obind_ok in E3. destruct E3 as ([rm' rmi'] & Erm' & E3).
    inversion E0. inversion E3. subst a0 a3. clear E0 E3.
    pose proof (cv_virtual_ext _ _ Hle _ _ _ _ _ _ _ _ Erm Erm') as Hrs.
    inversion H. inversion H'. subst. cbn [fst snd]. split; [|reflexivity].
    apply sl_keep; [exact Hrq|]. apply sl_keep; [exact Hrs|apply sl_nil].
  - inversion E0. inversion E3. subst a0 a3. inversion H. inversion H'. subst. cbn [fst snd]. split; [|reflexivity].
    apply sl_keep; [exact Hrq|apply sl_nil].
Qed.

Lemma cv_methods_ext ev ev' (Hle : env_le ev ev') base ms ms' :
  Forall2 method_ext ms ms' -> forall msgs ds is msgs' ds' is',
  cv_methods ev base ms = Ok (msgs, ds, is) -> cv_methods ev' base ms' = Ok (msgs', ds', is') ->
  sub_list msg_ext msgs msgs' /\ ds' = ds.
Proof.
  intros HF. induction HF as [|m m' r r' Hm Hr IH]; intros msgs ds is msgs' ds' is' H H'.
  - cbn in H, H'. inversion H. inversion H'. subst. split; [constructor|reflexivity].
  - cbn [J5sConvert.cv_methods] in H, H'. inv_ok H. inv_ok H'.
    destruct a as [[am ad] ai]. destruct a0 as [[cm cd] ci].
    destruct a1 as [[am' ad'] ai']. destruct a2 as [[cm' cd'] ci'].
    inversion H. inversion H'. subst. clear H H'.
    destruct (cv_method_ext _ _ Hle _ _ _ _ _ _ _ _ _ Hm E E1) as [S1 ->].
    destruct (IH _ _ _ _ _ _ E0 E2) as [S2 ->].
    split; [apply sub_list_app; assumption|reflexivity].
Qed.

Lemma cv_service_ext ev ev' (Hle : env_le ev ev') nm base ms ms' msgs svcs is msgs' svcs' is' :
  Forall2 method_ext ms ms' ->
  cv_service ev (mkService nm base ms) = Ok (msgs, svcs, is) ->
  cv_service ev' (mkService nm base ms') = Ok (msgs', svcs', is') ->
  sub_list msg_ext msgs msgs' /\ svcs' = svcs.
Proof.
  intros HF H H'. unfold J5sConvert.cv_service in *. cbn [sv_name sv_base sv_methods] in *.
  inv_ok H. inv_ok H'. destruct a as [[m1 d1] i1]. destruct a0 as [[m2 d2] i2].
  inversion H. inversion H'. subst. clear H H'.
  destruct (cv_methods_ext _ _ Hle _ _ _ HF _ _ _ _ _ _ E E0) as [S ->]. split; [exact S|reflexivity].
Qed.

(* ------------------------------------------------------------------ topics *)
Notation cv_tmsgs := (cv_tmsgs snake camel screaming).
Notation accept_topic := (accept_topic snake camel screaming).
Notation cv_topic := (cv_topic snake camel screaming).

Lemma cv_tmsgs_ext ev ev' (Hle : env_le ev ev') tn single virt l l' :
  Forall2 tmsg_ext l l' -> forall ms ds is ms' ds' is',
  cv_tmsgs ev tn single virt l = Ok (ms, ds, is) -> cv_tmsgs ev' tn single virt l' = Ok (ms', ds', is') ->
  sub_list msg_ext ms ms' /\ ds' = ds.
Proof.
  intros HF. induction HF as [|t t' r r' Ht Hr IH]; intros ms ds is ms' ds' is' H H'.
  - cbn in H, H'. inversion H. inversion H'. subst. split; [constructor|reflexivity].
  - destruct Ht as [Hn [extra Hf]]. cbn [J5sConvert.cv_tmsgs] in H, H'. rewrite Hn, Hf in H'.
    apply obind_ok in H. destruct H as (mn & Emn & H).
    apply obind_ok in H'. destruct H' as (mn' & Emn' & H').
    rewrite Emn in Emn'. inversion Emn'. subst mn'. clear Emn'.
    apply obind_ok in H. destruct H as ([m1 i1] & Ev & H).
    apply obind_ok in H'. destruct H' as ([m1' i1'] & Ev' & H').
    apply obind_ok in H. destruct H as ([[cm cd] ci] & Er & H).
    apply obind_ok in H'. destruct H' as ([[cm' cd'] ci'] & Er' & H').
    inversion H. inversion H'. subst. clear H H'. cbn [fst snd].
    pose proof (cv_virtual_ext _ _ Hle _ _ _ _ _ _ _ _ Ev Ev') as Hm.
    destruct (IH _ _ _ _ _ _ Er Er') as [S ->].
    split; [apply sl_keep; assumption|reflexivity].
Qed.

Lemma is_single_forall2 {A B} (R : A -> B -> Prop) l l' : Forall2 R l l' -> is_single l = is_single l'.
Proof. intros H. destruct H as [|x y r r' _ Hr]; [reflexivity|]. destruct Hr; reflexivity. Qed.

Lemma accept_topic_ext ev ev' (Hle : env_le ev ev') tn topic_name rl virt l l' ms ss is ms' ss' is' :
  Forall2 tmsg_ext l l' ->
  accept_topic ev tn topic_name rl virt l = Ok (ms, ss, is) ->
  accept_topic ev' tn topic_name rl virt l' = Ok (ms', ss', is') ->
  sub_list msg_ext ms ms' /\ ss' = ss.
Proof.
  intros HF H H'. unfold J5sConvert.accept_topic in *. rewrite <- (is_single_forall2 _ _ _ HF) in H'.
  apply obind_ok in H. destruct H as ([[m1 d1] i1] & E & H).
  apply obind_ok in H'. destruct H' as ([[m1' d1'] i1'] & E' & H').
  inversion H. inversion H'. subst. clear H H'.
  destruct (cv_tmsgs_ext _ _ Hle _ _ _ _ _ HF _ _ _ _ _ _ E E') as [S ->]. split; [exact S|reflexivity].
Qed.

Lemma cv_topic_ext ev ev' (Hle : env_le ev ev') t t' ms ss is ms' ss' is' :
  topic_ext t t' ->
  cv_topic ev t = Ok (ms, ss, is) -> cv_topic ev' t' = Ok (ms', ss', is') ->
  sub_list msg_ext ms ms' /\ ss' = ss.
Proof.
  intros Ht H H'. destruct Ht as [n l l' HF|n rq rq' rp rp' HF1 HF2|n en m m' Hm|n en m m' Hm];
    cbn [J5sConvert.cv_topic] in H, H'.
  - eapply accept_topic_ext; eassumption.
  - apply obind_ok in H. destruct H as ([[am asv] ai] & Ea & H).
    apply obind_ok in H. destruct H as ([[cm csv] ci] & Ec & H).
    apply obind_ok in H'. destruct H' as ([[am' asv'] ai'] & Ea' & H').
    apply obind_ok in H'. destruct H' as ([[cm' csv'] ci'] & Ec' & H').
    inversion H. inversion H'. subst. clear H H'.
    edestruct accept_topic_ext as [S1 Q1]; [exact Hle|exact HF1|exact Ea|exact Ea'|].
    edestruct accept_topic_ext as [S2 Q2]; [exact Hle|exact HF2|exact Ec|exact Ec'|]. subst.
    split; [apply sub_list_app; assumption|reflexivity].
  - eapply accept_topic_ext; [exact Hle| |exact H|exact H'].
    constructor; [|constructor]. destruct Hm as [Hn [extra Hf]]. unfold default_tm_name.
    rewrite Hn. destruct (tm_name m) as [x|] eqn:Em.
    + split; [rewrite Hn, Em; reflexivity|exists extra; exact Hf].
    + split; [reflexivity|cbn [tm_fields]; exists extra; exact Hf].
  - eapply accept_topic_ext; [exact Hle| |exact H|exact H']. constructor; [exact Hm|constructor].
Qed.

(* ------------------------------------------------------------------ files *)
Notation cv_elements := (cv_elements snake camel screaming).

Definition facc_ext (a a' : facc) : Prop :=
  sub_list msg_ext (fa_msgs a) (fa_msgs a') /\ sub_list enum_ext (fa_enums a) (fa_enums a') /\
  sub_list service_ext (fa_svcs a) (fa_svcs a') /\ (fa_used a = true -> fa_used a' = true).

Lemma sub_list_app_r {A} (R : A -> A -> Prop) l l' x : sub_list R l l' -> sub_list R l (l' ++ x).
Proof.
  intros H. replace l with (l ++ []) by apply app_nil_r. apply sub_list_app; [exact H|constructor].
Qed.

Lemma facc_ext_refl a : facc_ext a a.
Proof.
  split; [apply sub_list_refl, msgs_refl|]. split; [apply sub_list_refl, enums_refl|].
  split; [apply sub_list_refl, svcs_refl|]. auto.
Qed.

Lemma facc_ext_add a a' ms es ss is ms' es' ss' is' :
  facc_ext a a' -> sub_list msg_ext ms ms' -> sub_list enum_ext es es' -> sub_list service_ext ss ss' ->
  facc_ext (facc_add a ms es ss is) (facc_add a' ms' es' ss' is').
Proof.
  intros (H1 & H2 & H3 & H4) Hm He Hs. unfold facc_ext, facc_add. cbn.
  split; [apply sub_list_app; assumption|]. split; [apply sub_list_app; assumption|].
  split; [apply sub_list_app; assumption|]. auto.
Qed.

Lemma facc_ext_grow a a' ms es ss is :
  facc_ext a a' -> facc_ext a (facc_add a' ms es ss is).
Proof.
  intros (H1 & H2 & H3 & H4). unfold facc_ext, facc_add. cbn.
  split; [apply sub_list_app_r; assumption|]. split; [apply sub_list_app_r; assumption|].
  split; [apply sub_list_app_r; assumption|]. auto.
Qed.

Lemma cv_elements_app ev pkg x y : forall m s t,
  cv_elements ev pkg (x ++ y) m s t =
  obind (cv_elements ev pkg x m s t) (fun r => let '(m1, s1, t1) := r in cv_elements ev pkg y m1 s1 t1).
Proof.
  induction x as [|e r IH]; intros m s t; [reflexivity|].
  cbn [app J5sConvert.cv_elements]. destruct e as [nm ps subs|nm ps subs|en|sv|tp].
  - destruct (J5sConvert.cv_nested snake camel screaming ev [] (NObject nm ps subs)) as [[[ms es] is]| | |]; cbn [obind]; try reflexivity. apply IH.
  - destruct (J5sConvert.cv_nested snake camel screaming ev [] (NOneof nm ps subs)) as [[[ms es] is]| | |]; cbn [obind]; try reflexivity. apply IH.
  - apply IH.
  - destruct (cv_service ev sv) as [[[ms ss] is]| | |]; cbn [obind]; try reflexivity. apply IH.
  - destruct (cv_topic ev tp) as [[[ms ss] is]| | |]; cbn [obind]; try reflexivity. apply IH.
Qed.

(* declarations appended at the end only add to the three output files *)
Lemma cv_elements_grow ev pkg els : forall m s t m0 s0 t0 m1 s1 t1,
  facc_ext m0 m -> facc_ext s0 s -> facc_ext t0 t ->
  cv_elements ev pkg els m s t = Ok (m1, s1, t1) ->
  facc_ext m0 m1 /\ facc_ext s0 s1 /\ facc_ext t0 t1.
Proof.
  induction els as [|e r IH]; intros m s t m0 s0 t0 m1 s1 t1 Hm Hs Ht H.
  - cbn in H. inversion H. subst. auto.
  - cbn [J5sConvert.cv_elements] in H. destruct e as [nm ps subs|nm ps subs|en|sv|tp].
    + apply obind_ok in H. destruct H as ([[ms es] is] & _ & H).
      eapply IH; [| | |exact H]; try assumption. apply facc_ext_grow. exact Hm.
    + apply obind_ok in H. destruct H as ([[ms es] is] & _ & H).
      eapply IH; [| | |exact H]; try assumption. apply facc_ext_grow. exact Hm.
    + eapply IH; [| | |exact H]; try assumption. apply facc_ext_grow. exact Hm.
    + apply obind_ok in H. destruct H as ([[ms ss] is] & _ & H).
      eapply IH; [| | |exact H]; try assumption. apply facc_ext_grow. exact Hs.
    + apply obind_ok in H. destruct H as ([[ms ss] is] & _ & H).
      eapply IH; [| | |exact H]; try assumption. apply facc_ext_grow. exact Ht.
Qed.

(* pointwise extended declarations *)
Lemma cv_elements_ext ev ev' (Hle : env_le ev ev') pkg els els' :
  Forall2 element_ext els els' -> forall m s t m' s' t' m1 s1 t1 m1' s1' t1',
  facc_ext m m' -> facc_ext s s' -> facc_ext t t' ->
  cv_elements ev pkg els m s t = Ok (m1, s1, t1) ->
  cv_elements ev' pkg els' m' s' t' = Ok (m1', s1', t1') ->
  facc_ext m1 m1' /\ facc_ext s1 s1' /\ facc_ext t1 t1'.
Proof.
  intros HF. induction HF as [|e e' r r' He Hr IH]; intros m s t m' s' t' m1 s1 t1 m1' s1' t1' Hm Hs Ht H H'.
  - cbn in H, H'. inversion H. inversion H'. subst. auto.
  - cbn [J5sConvert.cv_elements] in H, H'.
    destruct He as [nm ps extra subs|nm ps extra subs|en|nm pfx opts extra Hne|nm base ms ms' HFm|tp tp' Htp].
    + apply obind_ok in H. destruct H as ([[ms es] is] & E & H).
      apply obind_ok in H'. destruct H' as ([[ms' es'] is'] & E' & H').
      destruct (cv_nested_obj_ext _ _ Hle _ _ _ _ _ _ _ _ _ _ _ E E') as (S & -> & ->).
      eapply IH; [| | |exact H|exact H']; try assumption.
      apply facc_ext_add; try assumption; constructor.
    + apply obind_ok in H. destruct H as ([[ms es] is] & E & H).
      apply obind_ok in H'. destruct H' as ([[ms' es'] is'] & E' & H').
      destruct (cv_nested_oneof_ext _ _ Hle _ _ _ _ _ _ _ _ _ _ _ E E') as (S & -> & ->).
      eapply IH; [| | |exact H|exact H']; try assumption.
      apply facc_ext_add; try assumption; constructor.
    + eapply IH; [| | |exact H|exact H']; try assumption.
      apply facc_ext_add; try assumption; try constructor; [apply enum_ext_refl|constructor].
    + eapply IH; [| | |exact H|exact H']; try assumption.
      apply facc_ext_add; try assumption; try constructor; [|constructor].
      cbn [e_name]. apply cv_enum_ext. exact Hne.
    + apply obind_ok in H. destruct H as ([[ms1 ss1] is1] & E & H).
      apply obind_ok in H'. destruct H' as ([[ms1' ss1'] is1'] & E' & H').
      destruct (cv_service_ext _ _ Hle _ _ _ _ _ _ _ _ _ _ HFm E E') as [S ->].
      eapply IH; [| | |exact H|exact H']; try assumption.
      apply facc_ext_add; try assumption; try constructor. apply sub_list_refl, svcs_refl.
    + apply obind_ok in H. destruct H as ([[ms1 ss1] is1] & E & H).
      apply obind_ok in H'. destruct H' as ([[ms1' ss1'] is1'] & E' & H').
      destruct (cv_topic_ext _ _ Hle _ _ _ _ _ _ _ _ Htp E E') as [S ->].
      eapply IH; [| | |exact H|exact H']; try assumption.
      apply facc_ext_add; try assumption; try constructor. apply sub_list_refl, svcs_refl.
Qed.

Lemma mk_file_ext path pkg a a' : facc_ext a a' -> file_ext (mk_file path pkg a) (mk_file path pkg a').
Proof.
  intros (H1 & H2 & H3 & _). unfold file_ext, mk_file. cbn. repeat split; assumption.
Qed.

(* C13 for one source file: extended by any number of append edits, converted under an
   environment that only grew, the old descriptors embed into the new ones *)
Theorem cv_file_ext exports exports' f f' D D' :
  file_src_ext f f' ->
  (forall im, env_le (mkEnv (j5s_pkg f) im exports) (mkEnv (j5s_pkg f) im exports')) ->
  cv_file snake camel screaming exports f = Ok D ->
  cv_file snake camel screaming exports' f' = Ok D' ->
  files_ext D D'.
Proof.
  intros (Hd & Hb & Hi & els1 & extra & HF & Hels) Hle H H'.
  assert (Hpkg : j5s_pkg f' = j5s_pkg f) by (unfold j5s_pkg; rewrite Hd; reflexivity).
  assert (Hmain : main_proto_path f' = main_proto_path f) by (unfold main_proto_path, j5s_path; rewrite Hd, Hb; reflexivity).
  assert (Hsub : forall sub, sub_proto_path f' sub = sub_proto_path f sub) by (intros sub; unfold sub_proto_path; rewrite Hd, Hb; reflexivity).
  unfold cv_file in H, H'. rewrite Hpkg, Hi, Hmain, !Hsub, Hels in H'.
  apply obind_ok in H. destruct H as (im & Eim & H). rewrite Eim in H'. cbn [obind] in H'.
  apply obind_ok in H. destruct H as ([[main svc] top] & E & H).
  apply obind_ok in H'. destruct H' as ([[main' svc'] top'] & E' & H').
  rewrite cv_elements_app in E'. apply obind_ok in E'. destruct E' as ([[m1 s1] t1] & E1 & E2).
  destruct (cv_elements_ext _ _ (Hle im) _ _ _ HF _ _ _ _ _ _ _ _ _ _ _ _
              (facc_ext_refl _) (facc_ext_refl _) (facc_ext_refl _) E E1) as (A1 & A2 & A3).
  destruct (cv_elements_grow _ _ _ _ _ _ _ _ _ _ _ _ A1 A2 A3 E2) as (B1 & B2 & B3).
  inversion H. inversion H'. subst D D'. clear H H'. unfold files_ext.
  apply sl_keep; [apply mk_file_ext; exact B1|].
  destruct B2 as (S1 & S2 & S3 & U2). destruct B3 as (T1 & T2 & T3 & U3).
  destruct (fa_used svc) eqn:Us; destruct (fa_used top) eqn:Ut;
    try rewrite (U2 eq_refl); try rewrite (U3 eq_refl); cbn [app].
  - apply sl_keep; [apply mk_file_ext; repeat split; auto|].
    apply sl_keep; [apply mk_file_ext; repeat split; auto|constructor].
  - apply sl_keep; [apply mk_file_ext; repeat split; auto|]. constructor.
  - destruct (fa_used svc'); cbn [app].
    + apply sl_skip. apply sl_keep; [apply mk_file_ext; repeat split; auto|constructor].
    + apply sl_keep; [apply mk_file_ext; repeat split; auto|constructor].
  - constructor.
Qed.

End Ext.

(* ================================================================== edits are extensions *)
Lemma papp_nil_r ps : papp ps PNil = ps.
Proof. induction ps as [|p r IH]; cbn; [reflexivity|]. rewrite IH. reflexivity. Qed.
Lemma papp_assoc x y z : papp (papp x y) z = papp x (papp y z).
Proof. induction x as [|p r IH]; cbn; [reflexivity|]. rewrite IH. reflexivity. Qed.

Lemma method_ext_refl m : method_ext m m.
Proof.
  repeat split; try reflexivity; [exists PNil; rewrite papp_nil_r; reflexivity|].
  destruct (m_response m); [exists PNil; rewrite papp_nil_r; reflexivity|exact I].
Qed.

Lemma method_ext_trans a c d : method_ext a c -> method_ext c d -> method_ext a d.
Proof.
  intros (A1 & A2 & A3 & [x Ax] & A5) (B1 & B2 & B3 & [y By] & B5).
  repeat split; try congruence.
  - exists (papp x y). rewrite By, Ax, papp_assoc. reflexivity.
  - destruct (m_response a), (m_response c), (m_response d); try contradiction; try exact I.
    destruct A5 as [u ->]. destruct B5 as [v ->]. exists (papp u v). apply papp_assoc.
Qed.

Lemma tmsg_ext_refl t : tmsg_ext t t.
Proof. split; [reflexivity|exists PNil; rewrite papp_nil_r; reflexivity]. Qed.
Lemma tmsg_ext_trans a c d : tmsg_ext a c -> tmsg_ext c d -> tmsg_ext a d.
Proof.
  intros [A1 [x Ax]] [B1 [y By]]. split; [congruence|]. exists (papp x y). rewrite By, Ax, papp_assoc. reflexivity.
Qed.

Lemma forall2_refl {A} (R : A -> A -> Prop) l : (forall a, R a a) -> Forall2 R l l.
Proof. intros H. induction l; constructor; auto. Qed.
Lemma forall2_trans {A} (R : A -> A -> Prop) :
  (forall a c d, R a c -> R c d -> R a d) -> forall l l' l'', Forall2 R l l' -> Forall2 R l' l'' -> Forall2 R l l''.
Proof.
  intros HR l l' l'' H. revert l''. induction H as [|x y r s Hxy Hrs IH]; intros l'' H'; inversion H'; subst; constructor.
  - eapply HR; eassumption.
  - apply IH. assumption.
Qed.

Lemma topic_ext_refl t : topic_ext t t.
Proof. destruct t; constructor; try apply forall2_refl; try apply tmsg_ext_refl. Qed.
Lemma topic_ext_trans a c d : topic_ext a c -> topic_ext c d -> topic_ext a d.
Proof.
  intros H H'. destruct H; inversion H'; subst; constructor;
    try (eapply forall2_trans; [exact tmsg_ext_trans| |]; eassumption);
    try (eapply tmsg_ext_trans; eassumption).
Qed.

Lemma element_ext_refl e : element_ext e e.
Proof.
  destruct e as [nm ps subs|nm ps subs|en|[nm base ms]|t].
  - rewrite <- (papp_nil_r ps) at 2. constructor.
  - rewrite <- (papp_nil_r ps) at 2. constructor.
  - constructor.
  - constructor. apply forall2_refl. apply method_ext_refl.
  - constructor. apply topic_ext_refl.
Qed.

Lemma element_ext_trans a c d : element_ext a c -> element_ext c d -> element_ext a d.
Proof.
  intros H H'. destruct H as [nm ps x subs|nm ps x subs|en|nm pfx opts x Hne|nm base ms ms' HF|t t' Ht].
  - inversion H'; subst. rewrite papp_assoc. constructor.
  - inversion H'; subst. rewrite papp_assoc. constructor.
  - exact H'.
  - inversion H' as [| |en' E1 E2|nm' pfx' opts' y Hne' E1 E2| |]; subst.
    + constructor. exact Hne.
    + rewrite <- app_assoc. constructor. exact Hne.
  - inversion H'; subst. constructor. eapply forall2_trans; [exact method_ext_trans| |]; eassumption.
  - inversion H'; subst. constructor. eapply topic_ext_trans; eassumption.
Qed.

Lemma file_src_ext_refl f : file_src_ext f f.
Proof.
  repeat split; try reflexivity. exists (jf_elements f), []. split; [|rewrite app_nil_r; reflexivity].
  apply forall2_refl. apply element_ext_refl.
Qed.

Lemma file_src_ext_trans a c d : file_src_ext a c -> file_src_ext c d -> file_src_ext a d.
Proof.
  intros (A1 & A2 & A3 & e1 & x1 & AF & AE) (B1 & B2 & B3 & e2 & x2 & BF & BE).
  repeat split; try congruence.
  rewrite AE in BF. apply Forall2_app_inv_l in BF. destruct BF as (p & q & Fp & Fq & ->).
  exists p, (q ++ x2). split; [|rewrite BE, app_assoc; reflexivity].
  eapply forall2_trans; [exact element_ext_trans| |]; eassumption.
Qed.

Lemma forall2_update_nth {A} (R : A -> A -> Prop) (g : A -> A) k l :
  (forall a, R a a) -> (forall a, R a (g a)) -> Forall2 R l (update_nth k g l).
Proof.
  intros Hr Hg. revert k. induction l as [|x r IH]; intros k; destruct k; cbn; constructor; auto.
  apply forall2_refl. exact Hr.
Qed.

(* an option may only be appended to an enum that already has options: otherwise the new
   option could take the place of the implicit zero value *)
Definition edit_ok (e : edit) (f : jfile) : Prop :=
  match e with
  | EAppendOption _ k _ =>
      match nth_error (jf_elements f) k with
      | Some (EEnum en) => e_opts en <> []
      | _ => True
      end
  | _ => True
  end.

Lemma edit_element_ext e el :
  (match e, el with EAppendOption _ _ _, EEnum en => e_opts en <> [] | _, _ => True end) ->
  element_ext el (edit_element e el).
Proof.
  intros Hok. destruct e as [fi k p|fi k o|fi d|fi k mi p|fi k mi p|fi k mi p]; destruct el as [nm ps subs|nm ps subs|en|[nm base ms]|t];
    cbn [edit_element]; try apply element_ext_refl.
  - constructor.
  - constructor.
  - destruct en as [n pf os]. cbn [e_name e_prefix e_opts] in *. constructor. exact Hok.
  - constructor. cbn [sv_methods]. apply forall2_update_nth; [apply method_ext_refl|].
    intros m. repeat split; try reflexivity; cbn.
    + exists (PCons p PNil). reflexivity.
    + destruct (m_response m); [exists PNil; rewrite papp_nil_r; reflexivity|exact I].
  - constructor. cbn [sv_methods]. apply forall2_update_nth; [apply method_ext_refl|].
    intros m. repeat split; try reflexivity; cbn.
    + exists PNil. rewrite papp_nil_r. reflexivity.
    + destruct (m_response m); [exists (PCons p PNil); reflexivity|exact I].
  - constructor. destruct t as [n ms|n rq rp|n en m|n en m]; constructor;
      try (apply forall2_update_nth; [apply tmsg_ext_refl|]; intros x; split; [reflexivity|exists (PCons p PNil); reflexivity]);
      try (apply forall2_refl; apply tmsg_ext_refl);
      try (split; [reflexivity|exists (PCons p PNil); reflexivity]).
Qed.

Lemma update_edit_ext e l : forall k,
  (match e with
   | EAppendOption _ _ _ => match nth_error l k with Some (EEnum en) => e_opts en <> [] | _ => True end
   | _ => True
   end) ->
  Forall2 element_ext l (update_nth k (edit_element e) l).
Proof.
  induction l as [|x r IH]; intros k Hok; destruct k; cbn [update_nth]; try constructor.
  - apply edit_element_ext. destruct e; try (destruct x; exact I). cbn in Hok. destruct x; try exact I. exact Hok.
  - apply forall2_refl. apply element_ext_refl.
  - apply element_ext_refl.
  - apply IH. destruct e; try exact I. exact Hok.
Qed.

(* every C13 edit extends the source file in the sense of [file_src_ext] *)
Theorem edit_file_ext e f : edit_ok e f -> file_src_ext f (edit_file e f).
Proof.
  intros Hok. destruct e as [fi k p|fi k o|fi d|fi k mi p|fi k mi p|fi k mi p]; cbn [edit_file].
  3: { repeat split; try reflexivity. exists (jf_elements f), [d]. split; [|reflexivity].
       apply forall2_refl. apply element_ext_refl. }
  all: repeat split; try reflexivity; eexists; exists []; (split; [|cbn [jf_elements]; rewrite app_nil_r; reflexivity]).
  all: apply update_edit_ext; try exact I.
  exact Hok.
Qed.

(* ... hence so does every sequence of edits applied to that file (induction over the list) *)
Fixpoint edits_ok (es : list edit) (f : jfile) : Prop :=
  match es with
  | [] => True
  | e :: r => edit_ok e f /\ edits_ok r (edit_file e f)
  end.

Theorem edit_sequence_ext es : forall f, edits_ok es f ->
  file_src_ext f (fold_left (fun g e => edit_file e g) es f).
Proof.
  induction es as [|e r IH]; intros f H; cbn [fold_left].
  - apply file_src_ext_refl.
  - destruct H as [H1 H2]. eapply file_src_ext_trans; [apply edit_file_ext; exact H1|apply IH; exact H2].
Qed.

(* ================================================================== the environment only grows *)
(* The hypothesis [env_le] of the embedding theorem holds for bundles edited by appends, as
   long as the exported names of every package stay distinct (part of validity). *)
Lemma lookup_last_nomatch name l acc :
  (forall t, In t l -> tr_name t <> name) -> lookup_last name l acc = acc.
Proof.
  revert acc. induction l as [|x r IH]; intros acc H; cbn; [reflexivity|].
  rewrite IH by (intros t Ht; apply H; right; exact Ht).
  destruct (str_eqb (tr_name x) name) eqn:E; [|reflexivity].
  apply str_eqb_eq in E. exfalso. apply (H x (or_introl eq_refl) E).
Qed.

Lemma distinct_cons x l : J5sValid.distinct (x :: l) = true -> ~ In x l /\ J5sValid.distinct l = true.
Proof.
  cbn. intros H. apply andb_true_iff in H. destruct H as [H1 H2]. split; [|exact H2].
  intros Hin. apply negb_true_iff in H1. assert (existsb (str_eqb x) l = true).
  { apply existsb_exists. exists x. split; [exact Hin|apply str_eqb_refl]. }
  congruence.
Qed.

Lemma lookup_last_distinct l : forall acc t,
  J5sValid.distinct (map tr_name l) = true -> In t l -> lookup_last (tr_name t) l acc = Some t.
Proof.
  induction l as [|x r IH]; intros acc t Hd Hin; [destruct Hin|].
  cbn [map] in Hd. apply distinct_cons in Hd. destruct Hd as [Hn Hd]. cbn [lookup_last].
  destruct Hin as [<-|Hin].
  - rewrite str_eqb_refl. apply lookup_last_nomatch. intros t Ht E. apply Hn. rewrite <- E. apply in_map. exact Ht.
  - apply IH; assumption.
Qed.

Definition exports_le (ex ex' : str -> option (list typeref)) : Prop :=
  forall p l, ex p = Some l -> exists l', ex' p = Some l' /\ incl l l' /\ J5sValid.distinct (map tr_name l') = true.

Theorem env_le_of_exports this im ex ex' :
  exports_le ex ex' -> env_le (mkEnv this im ex) (mkEnv this im ex').
Proof.
  intros Hle r t H. unfold resolve in *. cbn [ev_this ev_imports ev_exports] in *.
  assert (Hlk : forall pkg,
    match ex pkg with
    | Some l => match lookup_last (r_name r) l None with Some t0 => Ok t0 | None => Err "type not found" end
    | None => Err "package not loaded"
    end = Ok t ->
    match ex' pkg with
    | Some l => match lookup_last (r_name r) l None with Some t0 => Ok t0 | None => Err "type not found" end
    | None => Err "package not loaded"
    end = Ok t).
  { intros pkg Hp. destruct (ex pkg) as [l|] eqn:El; [|discriminate].
    destruct (lookup_last (r_name r) l None) as [t0|] eqn:Ek; [|discriminate]. inversion Hp. subst t0.
    destruct (lookup_last_sound _ _ _ _ Ek) as [Hn|[Hi Hn]]; [discriminate|].
    destruct (Hle _ _ El) as (l' & El' & Hinc & Hd). rewrite El'. rewrite <- Hn.
    rewrite (lookup_last_distinct l' None t Hd (Hinc _ Hi)). reflexivity. }
  destruct ((match r_pkg r with [] => true | _ => false end) || str_eqb (r_pkg r) this); [apply Hlk; exact H|].
  destruct (implicit_ref implicit_table (r_pkg r) (r_name r)); [exact H|].
  destruct (assoc (r_pkg r) im) as [full|]; [|exact H].
  destruct (implicit_ref implicit_table full (r_name r)); [exact H|]. apply Hlk. exact H.
Qed.

(* exports of a source file extended by appends include the old ones *)
Section Exports.
Variable camel : str -> str.

Lemma exp_props_app pkg file path x y :
  exp_props camel pkg file path (papp x y) = exp_props camel pkg file path x ++ exp_props camel pkg file path y.
Proof. induction x as [|p r IH]; cbn; [reflexivity|]. rewrite IH, app_assoc. reflexivity. Qed.

Lemma exp_element_ext pkg file e e' :
  element_ext e e' -> incl (exp_element camel pkg file e) (exp_element camel pkg file e').
Proof.
  intros H. destruct H as [nm ps x subs|nm ps x subs|en|nm pfx opts x Hne|nm base ms ms' HF|t t' Ht];
    cbn [exp_element exp_nested]; try apply incl_refl.
  - rewrite exp_props_app. intros t [<-|Hin]; [left; reflexivity|right].
    apply in_app_or in Hin. apply in_or_app. destruct Hin as [Hin|Hin]; [left; apply in_or_app; left; exact Hin|right; exact Hin].
  - rewrite exp_props_app. intros t [<-|Hin]; [left; reflexivity|right].
    apply in_app_or in Hin. apply in_or_app. destruct Hin as [Hin|Hin]; [left; apply in_or_app; left; exact Hin|right; exact Hin].
Qed.

Lemma exp_file_ext f f' :
  file_src_ext f f' -> incl (exp_bfile camel (BJ f)) (exp_bfile camel (BJ f')).
Proof.
  intros (Hd & Hb & Hi & els1 & extra & HF & Hels). cbn [exp_bfile].
  assert (Hpkg : j5s_pkg f' = j5s_pkg f) by (unfold j5s_pkg; rewrite Hd; reflexivity).
  assert (Hmain : main_proto_path f' = main_proto_path f) by (unfold main_proto_path, j5s_path; rewrite Hd, Hb; reflexivity).
  rewrite Hpkg, Hmain, Hels, flat_map_app. apply incl_appl. clear Hels.
  induction HF as [|e e' r r' He Hr IH]; cbn [flat_map]; [apply incl_refl|].
  apply incl_app; [apply incl_appl; apply exp_element_ext; exact He|apply incl_appr; exact IH].
Qed.

End Exports.

Lemma in_update_nth {A} (g : A -> A) l : forall k x,
  In x l -> In x (update_nth k g l) \/ (nth_error l k = Some x /\ In (g x) (update_nth k g l)).
Proof.
  induction l as [|y r IH]; intros k x Hin; [destruct Hin|]. destruct k; cbn [update_nth nth_error].
  - destruct Hin as [<-|Hin]; [right; split; [reflexivity|left; reflexivity]|left; right; exact Hin].
  - destruct Hin as [<-|Hin]; [left; left; reflexivity|].
    destruct (IH k x Hin) as [H|[H1 H2]]; [left; right; exact H|right; split; [exact H1|right; exact H2]].
Qed.

Lemma in_pkg_files_iff bd p x : In x (pkg_files bd p) <-> In x bd /\ bfile_pkg x = p.
Proof.
  unfold pkg_files. rewrite in_sort_by, filter_In. split; intros [H1 H2]; split; try assumption.
  - apply str_eqb_eq. exact H2.
  - apply str_eqb_eq. exact H2.
Qed.

(* a bundle in which one source file was extended by appends *)
Theorem exports_le_of_edit camel bd k f f' :
  nth_error bd k = Some (BJ f) -> file_src_ext f f' ->
  (forall p l, pkg_exports camel (update_nth k (fun _ => BJ f') bd) p = Some l ->
               J5sValid.distinct (map tr_name l) = true) ->
  exports_le (pkg_exports camel bd) (pkg_exports camel (update_nth k (fun _ => BJ f') bd)).
Proof.
  intros Hk Hext Hdist p l Hl. set (bd' := update_nth k (fun _ => BJ f') bd) in *.
  assert (Hpkg : bfile_pkg (BJ f') = bfile_pkg (BJ f)).
  { destruct Hext as (Hd & _). cbn. unfold j5s_pkg. rewrite Hd. reflexivity. }
  assert (Hfiles : forall x, In x (pkg_files bd p) -> exists x', In x' (pkg_files bd' p) /\
                                                      incl (exp_bfile camel x) (exp_bfile camel x')).
  { intros x Hx. apply in_pkg_files_iff in Hx. destruct Hx as [Hin Hp].
    destruct (in_update_nth (fun _ => BJ f') bd k x Hin) as [H|[H1 H2]].
    - exists x. split; [apply in_pkg_files_iff; split; assumption|apply incl_refl].
    - rewrite Hk in H1. inversion H1. subst x. exists (BJ f'). split.
      + apply in_pkg_files_iff. split; [exact H2|rewrite Hpkg; exact Hp].
      + apply exp_file_ext. exact Hext. }
  unfold pkg_exports in Hl |- *.
  destruct (pkg_files bd p) as [|x0 r0] eqn:E; [discriminate|]. inversion Hl. subst l. clear Hl.
  destruct (Hfiles x0 (or_introl eq_refl)) as (x0' & Hx0' & _).
  destruct (pkg_files bd' p) as [|y0 s0] eqn:E'; [destruct Hx0'|].
  eexists. split; [reflexivity|]. split.
  - intros t Ht. change (In t (flat_map (exp_bfile camel) (x0 :: r0))) in Ht.
    apply in_flat_map in Ht. destruct Ht as (x & Hx & Ht).
    destruct (Hfiles x Hx) as (x' & Hx' & Hinc). apply in_flat_map. exists x'. split; [exact Hx'|apply Hinc; exact Ht].
  - apply (Hdist p). unfold pkg_exports. fold bd'. rewrite E'. reflexivity.
Qed.

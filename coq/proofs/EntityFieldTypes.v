(* C17, field TYPES of the Keys and Data schemas (notes/ent.md "Left": until now the specification
   stated names and flags of the declared fields, their types were compared in the descriptor dump
   only). The declared type of a field is read off the DECLARATION here (sp_declared_type), the clause
   is stated over an arbitrary component list and proved of every expansion / everything the model
   of the compiler accepts. *)
From Coq Require Import String Ascii List NArith Bool.
From J5V.lib Require Import Outcome Strcase.
From J5V.model Require Import Entity.
From J5V.proofs Require Import StrcaseProofs EntityProofs EntitySpec EntitySpecProofs.
Import ListNotations.
Local Open Scope N_scope.

Lemma of_ufield_as_declared : forall u, field_as_declared u (of_ufield u).
Proof.
  intros u. unfold field_as_declared, of_ufield, sp_declared_type, sp_repeated, sp_key_flags, sp_inline_type, inline_type.
  destruct (uf_kind u) as [pt j|n|n|n|p fo te|tn j|i|i|sfs|sfs|os|tk tfs];
    cbn [f_json f_type f_repeated f_primary f_tenant f_foreign f_flatten];
    repeat split; try reflexivity; try (destruct i; reflexivity).
Qed.

Theorem spec_field_types_holds : forall e fl, spec_field_types e (expand_with e fl).
Proof.
  intros e fl. exists (keys_msg e), (data_msg e). unfold has_msg.
  split; [apply in_expand_head; cbn; auto|].
  split; [cbn [keys_msg m_name]; now rewrite cn_keys|].
  split; [apply in_expand_head; cbn; auto|].
  split; [cbn [data_msg m_name]; now rewrite cn_data|].
  cbn [keys_msg data_msg m_fields]. split.
  - apply (Forall2_map_r _ (fun k => of_ufield (k_def k))). intros k _. apply of_ufield_as_declared.
  - apply Forall2_map_r. intros u _. apply of_ufield_as_declared.
Qed.

Theorem field_types_as_declared : forall e cs, compile e = Ok cs -> spec_field_types e cs.
Proof.
  intros e cs H. destruct (compile_inv e cs H) as [_ [_ [Hl [fl [_ [-> _]]]]]].
  apply spec_field_types_holds.
Qed.

(* ---- members: events, command methods, summaries ------------------------------------------------------ *)
Lemma Forall2_as_declared : forall us, Forall2 field_as_declared us (map of_ufield us).
Proof. intros us. apply Forall2_map_r. intros u _. apply of_ufield_as_declared. Qed.

Lemma in_expand_command : forall e fl c x, In c (e_commands e) -> In x (command_components e c) -> In x (expand_with e fl).
Proof.
  intros e fl c x Hc Hx. unfold expand_with. apply in_or_app. right. apply in_or_app. right.
  apply in_or_app. left. apply in_flat_map. exists c. auto.
Qed.

Theorem spec_member_field_types_holds : forall e fl, spec_member_field_types e (expand_with e fl).
Proof.
  intros e fl. split; [|split; [|split]].
  - exists (event_type_msg e). unfold has_msg. split; [apply in_expand_head; cbn; auto 10|].
    cbn [event_type_msg m_name m_nested]. unfold event_type_name. rewrite cn_event_type. split; [reflexivity|].
    apply (Forall2_map_r _ (fun ev => (ev_name ev, map of_ufield (ev_fields ev)))).
    intros ev _. cbn [fst snd]. split; [reflexivity|apply Forall2_as_declared].
  - intros c md Hc Hmd.
    assert (Hin : forall x, In x (fst (method_components
                     (match c_base c with Some b => [47] ++ base_url e ++ [47] ++ b | None => [47] ++ base_url e ++ bs "/c" end)
                     (md_name md) (md_verb md) (md_path md) (map of_ufield (md_request md))
                     (option_map (map of_ufield) (md_response md)) 0)) -> In x (expand_with e fl)).
    { intros x Hx. apply (in_expand_command e fl c x Hc). unfold command_components, service_components.
      apply in_or_app. left. apply in_flat_map. eexists. split; [apply in_map; exact Hmd|exact Hx]. }
    split.
    + eexists. split; [apply Hin; cbn [method_components fst]; left; reflexivity|].
      cbn [m_name m_fields]. split; [reflexivity|apply Forall2_as_declared].
    + intros r Hr. eexists. split.
      * apply Hin. rewrite Hr. cbn [method_components fst option_map]. right. left. reflexivity.
      * cbn [m_name m_fields]. split; [reflexivity|apply Forall2_as_declared].
  - intros s Hs. eexists. eexists. split.
    + apply (in_expand_summary e fl s _ Hs). unfold summary_components, topic_components. left. reflexivity.
    + cbn [m_name m_fields tl hd_error].
      assert (E : summary_topic_name e s = sp_summary_name e s).
      { unfold summary_topic_name, sp_summary_name, camel_name, sp_camel. destruct (s_name s); reflexivity. }
      rewrite E. split; [reflexivity|]. split; [apply Forall2_as_declared|]. split; reflexivity.
  - intros s Hs.
    assert (Hin : In (schema_component s) (expand_with e fl)).
    { unfold expand_with. do 5 (apply in_or_app; right). apply in_map. exact Hs. }
    destruct s as [n fs|n fs|n os]; [| |exact I]; cbn [schema_component] in Hin;
      (eexists; split; [exact Hin|]; cbn [m_name m_oneof m_fields]; repeat split; apply Forall2_as_declared).
Qed.

Theorem member_field_types_as_declared : forall e cs, compile e = Ok cs -> spec_member_field_types e cs.
Proof.
  intros e cs H. destruct (compile_inv e cs H) as [_ [_ [Hl [fl [_ [-> _]]]]]].
  apply spec_member_field_types_holds.
Qed.

(* non-vacuity: a key, an array of integers, a map of object references, an inline object *)
Definition field_types_sample : entity :=
  mkE (bs "foo.v1") (bs "Foo") []
      [mkK (mkU (bs "fooId") (KKey true None (Some (bs "org"))) false false) false]
      [mkU (bs "counts") (KArray (IScalar 3 (bs "integer"))) false false]
      [bs "ACTIVE"] [] [] [] None [].
Lemma field_types_sample_ok :
  is_ok (compile field_types_sample) = true
  /\ map (fun k => sp_declared_type (k_def k)) (e_keys field_types_sample) = [TScalar 9 (bs "key")]
  /\ map sp_declared_type (e_data field_types_sample) = [TScalar 3 (bs "integer")]
  /\ map sp_repeated (e_data field_types_sample) = [true]
  /\ map (fun k => sp_key_flags (k_def k)) (e_keys field_types_sample) = [(true, Some (bs "org"), None)].
Proof. repeat split; vm_compute; reflexivity. Qed.

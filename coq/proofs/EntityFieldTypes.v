(* C17, field TYPES of the Keys and Data schemas (notes/ent.md "Left": until now the specification
   stated names and flags of the declared fields, their types were compared in the descriptor dump
   only). The declared type of a field is read off the DECLARATION here (sp_declared_type), the clause
   is stated over an arbitrary component list and proved of every expansion / everything the model
   of the compiler accepts. *)
From Coq Require Import String Ascii List NArith Bool.
From J5V.lib Require Import Outcome Strcase.
From J5V.model Require Import Entity.
From J5V.proofs Require Import StrcaseProofs EntityProofs EntitySpec EntitySpecProofs.
Import ListNotations.
Local Open Scope N_scope.

(* the type the schema language gives an item: a scalar / well-known message / reference by name *)
Definition sp_item_type (i : ikind) : otype :=
  match i with
  | IScalar pt k => TScalar pt k
  | IExt tn k => TExt tn k
  | IObject n => TObject [] n
  | IOneof n => TOneof [] n
  | IEnum n => TEnum [] n
  end.
(* an inline (anonymous) schema becomes a type nested in the message, named Camel(field name);
   as the value of a map it sits inside the map type *)
Definition sp_inline_type (container : N) (field : bytes) (k : N) : otype :=
  if container =? 2 then TMap (TNested (to_camel field) k) else TNested (to_camel field) k.
Definition sp_declared_type (u : ufield) : otype :=
  match uf_kind u with
  | KScalar pt k => TScalar pt k
  | KObject n => TObject [] n
  | KOneof n => TOneof [] n
  | KEnum n => TEnum [] n
  | KKey _ _ _ => TScalar 9 (bs "key")          (* a string carrying the key annotation *)
  | KExt tn k => TExt tn k
  | KArray i => sp_item_type i
  | KMap v => TMap (sp_item_type v)
  | KInlineObject _ => sp_inline_type (uf_container u) (uf_name u) 0
  | KInlineOneof _ => sp_inline_type (uf_container u) (uf_name u) 1
  | KInlineEnum _ => sp_inline_type (uf_container u) (uf_name u) 2
  | KInlineTree k _ => sp_inline_type (uf_container u) (uf_name u) k
  end.
Definition sp_repeated (u : ufield) : bool :=
  match uf_kind u with
  | KArray _ | KMap _ => true
  | KInlineObject _ | KInlineOneof _ | KInlineEnum _ | KInlineTree _ _ => negb (uf_container u =? 0)
  | _ => false
  end.
Definition sp_key_flags (u : ufield) : bool * option bytes * option (bytes * bytes) :=
  match uf_kind u with
  | KKey p fo te => (p, te, fo)
  | _ => (false, None, None)
  end.

(* a property of a generated message IS the declared field: name, type, repeated, key flags
   (primary / tenant / foreign key), never flattened *)
Definition field_as_declared (u : ufield) (f : ofield) : Prop :=
  f_json f = uf_name u /\ f_type f = sp_declared_type u /\ f_repeated f = sp_repeated u
  /\ (f_primary f, f_tenant f, f_foreign f) = sp_key_flags u /\ f_flatten f = false.

Definition spec_field_types (e : entity) (cs : list component) : Prop :=
  exists mk md,
    has_msg cs 0 mk /\ m_name mk = sp_name e "Keys" /\ has_msg cs 0 md /\ m_name md = sp_name e "Data"
    /\ Forall2 (fun k f => field_as_declared (k_def k) f) (e_keys e) (m_fields mk)
    /\ Forall2 field_as_declared (e_data e) (m_fields md).

Lemma of_ufield_as_declared : forall u, field_as_declared u (of_ufield u).
Proof.
  intros u. unfold field_as_declared, of_ufield, sp_declared_type, sp_repeated, sp_key_flags, sp_inline_type, inline_type.
  destruct (uf_kind u) as [pt j|n|n|n|p fo te|tn j|i|i|sfs|sfs|os|tk tfs];
    cbn [f_json f_type f_repeated f_primary f_tenant f_foreign f_flatten];
    repeat split; try reflexivity; try (destruct i; reflexivity).
Qed.

Theorem spec_field_types_holds : forall e fl, spec_field_types e (expand_with e fl).
Proof.
  intros e fl. exists (keys_msg e), (data_msg e). unfold has_msg.
  split; [apply in_expand_head; cbn; auto|].
  split; [cbn [keys_msg m_name]; now rewrite cn_keys|].
  split; [apply in_expand_head; cbn; auto|].
  split; [cbn [data_msg m_name]; now rewrite cn_data|].
  cbn [keys_msg data_msg m_fields]. split.
  - apply (Forall2_map_r _ (fun k => of_ufield (k_def k))). intros k _. apply of_ufield_as_declared.
  - apply Forall2_map_r. intros u _. apply of_ufield_as_declared.
Qed.

Theorem field_types_as_declared : forall e cs, compile e = Ok cs -> spec_field_types e cs.
Proof.
  intros e cs H. destruct (compile_inv e cs H) as [_ [_ [Hl [fl [_ [-> _]]]]]].
  apply spec_field_types_holds.
Qed.

(* non-vacuity: a key, an array of integers, a map of object references, an inline object *)
Definition field_types_sample : entity :=
  mkE (bs "foo.v1") (bs "Foo") []
      [mkK (mkU (bs "fooId") (KKey true None (Some (bs "org"))) false false) false]
      [mkU (bs "counts") (KArray (IScalar 3 (bs "integer"))) false false]
      [bs "ACTIVE"] [] [] [] None [].
Lemma field_types_sample_ok :
  is_ok (compile field_types_sample) = true
  /\ map (fun k => sp_declared_type (k_def k)) (e_keys field_types_sample) = [TScalar 9 (bs "key")]
  /\ map sp_declared_type (e_data field_types_sample) = [TScalar 3 (bs "integer")]
  /\ map sp_repeated (e_data field_types_sample) = [true]
  /\ map (fun k => sp_key_flags (k_def k)) (e_keys field_types_sample) = [(true, Some (bs "org"), None)].
Proof. repeat split; vm_compute; reflexivity. Qed.

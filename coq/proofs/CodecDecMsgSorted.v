(* CodecDecMsgSorted.v — messages of the model are association lists kept sorted by field number
   (msg_put inserts in order).  Sorted messages are determined by what msg_get reads from them
   (extensionality); every operation of the decoder model keeps them sorted, at every level of
   nesting ([wf]). *)
From Coq Require Import String List NArith ZArith Bool Lia ZifyN ZifyBool.
From J5V.lib Require Import Outcome Json.
From J5V.model Require Import CodecTypes.
From J5V.proofs Require Import CodecDecStored.
Import ListNotations.
Local Open Scope N_scope.

(* every field number up to k is absent *)
Definition lb (k : N) (m : msg) : Prop := forall n, n <= k -> msg_get n m = None.

Fixpoint sorted (m : msg) : Prop :=
  match m with
  | [] => True
  | (k, _) :: r => lb k r /\ sorted r
  end.

Lemma msg_get_cons n k v r : msg_get n ((k, v) :: r) = if k =? n then Some v else msg_get n r.
Proof. reflexivity. Qed.

Lemma lb_weaken k k' m : k' <= k -> lb k m -> lb k' m.
Proof. intros H L n Hn. apply L. lia. Qed.

Lemma sorted_put n v m : sorted m -> sorted (msg_put n v m).
Proof.
  induction m as [|[k w] r IH]; intros S; cbn [msg_put].
  - split; [intros x _; reflexivity|exact I].
  - destruct S as [L S]. destruct (k =? n) eqn:E1.
    + apply N.eqb_eq in E1. subst k. split; assumption.
    + destruct (n <? k) eqn:E2.
      * split; [|split; assumption]. intros x Hx. rewrite msg_get_cons.
        replace (k =? x) with false by lia. apply L. lia.
      * split; [|apply IH; exact S]. intros x Hx. rewrite msg_get_put_other by lia. apply L. exact Hx.
Qed.

Lemma sorted_del n m : sorted m -> sorted (msg_del n m).
Proof.
  induction m as [|[k w] r IH]; intros S; cbn [msg_del]; [exact I|].
  destruct S as [L S]. destruct (k =? n); [apply IH; exact S|].
  split; [|apply IH; exact S]. intros x Hx. apply msg_get_del_none. apply L. exact Hx.
Qed.

Lemma sorted_clear_all ns : forall m, sorted m -> sorted (msg_clear_all ns m).
Proof.
  unfold msg_clear_all. induction ns as [|n r IH]; intros m S; cbn [fold_left]; [exact S|].
  apply IH. apply sorted_del. exact S.
Qed.

(* extensionality *)
Lemma msg_ext m1 : forall m2, sorted m1 -> sorted m2 -> (forall n, msg_get n m1 = msg_get n m2) -> m1 = m2.
Proof.
  induction m1 as [|[k1 v1] r1 IH]; intros m2 S1 S2 H.
  - destruct m2 as [|[k2 v2] r2]; [reflexivity|]. specialize (H k2). cbn in H. rewrite N.eqb_refl in H. discriminate.
  - destruct m2 as [|[k2 v2] r2].
    + specialize (H k1). cbn in H. rewrite N.eqb_refl in H. discriminate.
    + destruct S1 as [L1 S1]. destruct S2 as [L2 S2].
      assert (Hk : k1 = k2).
      { pose proof (H k1) as H1. pose proof (H k2) as H2. rewrite !msg_get_cons in H1, H2.
        rewrite N.eqb_refl in H1, H2.
        destruct (k2 =? k1) eqn:E; [apply N.eqb_eq in E; congruence|].
        destruct (k1 =? k2) eqn:E'; [apply N.eqb_eq in E'; congruence|].
        destruct (N.le_gt_cases k1 k2) as [Hle|Hgt].
        - rewrite (L2 k1 Hle) in H1. discriminate.
        - rewrite (L1 k2 ltac:(lia)) in H2. discriminate. }
      subst k2. pose proof (H k1) as Hv. rewrite !msg_get_cons, N.eqb_refl in Hv. injection Hv as ->.
      f_equal. apply IH; try assumption. intros n. specialize (H n). rewrite !msg_get_cons in H.
      destruct (k1 =? n) eqn:E; [|exact H]. apply N.eqb_eq in E. subst n.
      rewrite (L1 k1 ltac:(lia)), (L2 k1 ltac:(lia)). reflexivity.
Qed.

Lemma msg_put_put_same n x y m : msg_put n x (msg_put n y m) = msg_put n x m.
Proof.
  induction m as [|[k w] r IH]; cbn [msg_put].
  - rewrite N.eqb_refl. reflexivity.
  - destruct (k =? n) eqn:E1; cbn [msg_put].
    + rewrite N.eqb_refl. reflexivity.
    + destruct (n <? k) eqn:E2; cbn [msg_put].
      * rewrite N.eqb_refl. reflexivity.
      * rewrite E1, E2, IH. reflexivity.
Qed.

Lemma msg_clear_all_nil m : msg_clear_all [] m = m.
Proof. reflexivity. Qed.

Lemma msg_get_clear_all_in x ns : forall m, In x ns -> msg_get x (msg_clear_all ns m) = None.
Proof.
  unfold msg_clear_all. induction ns as [|n r IH]; intros m H; [contradiction|]. cbn [fold_left].
  destruct (N.eq_dec x n) as [->|Hne].
  - apply (msg_get_clear_all_none n r). apply msg_get_del_same.
  - destruct H as [H|H]; [congruence|]. apply IH. exact H.
Qed.

(* ---------------------------------------------------------------- sorted at every level *)
Fixpoint wf_val (v : pval) : Prop :=
  match v with
  | VMsg m => sorted m /\ (fix all (l : msg) : Prop := match l with [] => True | (_, x) :: r => wf_val x /\ all r end) m
  | _ => True
  end.
Definition wf_fields (m : msg) : Prop :=
  (fix all (l : msg) : Prop := match l with [] => True | (_, x) :: r => wf_val x /\ all r end) m.
Definition wf (m : msg) : Prop := sorted m /\ wf_fields m.

Lemma wf_val_msg m : wf_val (VMsg m) = wf m.
Proof. reflexivity. Qed.

Lemma wf_fields_cons k x r : wf_fields ((k, x) :: r) = (wf_val x /\ wf_fields r).
Proof. reflexivity. Qed.

Lemma wf_nil : wf [].
Proof. split; exact I. Qed.

Lemma wf_fields_get n m v : wf_fields m -> msg_get n m = Some v -> wf_val v.
Proof.
  induction m as [|[k w] r IH]; intros W H; [discriminate|].
  rewrite wf_fields_cons in W. destruct W as [Ww Wr]. rewrite msg_get_cons in H.
  destruct (k =? n); [injection H as <-; exact Ww|apply IH; assumption].
Qed.

Lemma wf_get n m sub : wf m -> msg_get n m = Some (VMsg sub) -> wf sub.
Proof. intros [_ W] H. exact (wf_fields_get n m _ W H). Qed.

Lemma wf_fields_put n v m : wf_val v -> wf_fields m -> wf_fields (msg_put n v m).
Proof.
  intros Wv. induction m as [|[k w] r IH]; intros W; cbn [msg_put].
  - rewrite wf_fields_cons. split; [exact Wv|exact I].
  - rewrite wf_fields_cons in W. destruct W as [Ww Wr].
    destruct (k =? n); [rewrite wf_fields_cons; split; assumption|].
    destruct (n <? k); rewrite !wf_fields_cons; [repeat split; assumption|].
    split; [exact Ww|apply IH; exact Wr].
Qed.

Lemma wf_fields_del n m : wf_fields m -> wf_fields (msg_del n m).
Proof.
  induction m as [|[k w] r IH]; intros W; cbn [msg_del]; [exact I|].
  rewrite wf_fields_cons in W. destruct W as [Ww Wr].
  destruct (k =? n); [apply IH; exact Wr|]. rewrite wf_fields_cons. split; [exact Ww|apply IH; exact Wr].
Qed.

Lemma wf_put n v m : wf_val v -> wf m -> wf (msg_put n v m).
Proof. intros Wv [S W]. split; [apply sorted_put; exact S|apply wf_fields_put; assumption]. Qed.

Lemma wf_del n m : wf m -> wf (msg_del n m).
Proof. intros [S W]. split; [apply sorted_del; exact S|apply wf_fields_del; exact W]. Qed.

Lemma wf_clear_all ns : forall m, wf m -> wf (msg_clear_all ns m).
Proof.
  unfold msg_clear_all. induction ns as [|n r IH]; intros m W; cbn [fold_left]; [exact W|].
  apply IH. apply wf_del. exact W.
Qed.

Lemma wf_set explicit sibs n v m : wf_val v -> wf m -> wf (msg_set explicit sibs n v m).
Proof.
  intros Wv W. unfold msg_set.
  assert (D : wf (msg_del n m)) by (apply wf_del; exact W).
  assert (P : wf (msg_put n v (msg_clear_all sibs m))) by (apply wf_put; [exact Wv|apply wf_clear_all; exact W]).
  destruct v as [| | | | | | |l|l]; try (destruct (negb explicit && _); assumption).
  - destruct l; [exact D|]. destruct (negb explicit && _); assumption.
  - destruct l; [exact D|]. destruct (negb explicit && _); assumption.
Qed.

Lemma wf_mutable sibs n m : wf m -> wf (fst (msg_mutable sibs n m)) /\ wf (snd (msg_mutable sibs n m)).
Proof.
  intros W. unfold msg_mutable. destruct (msg_get n m) as [v|] eqn:E.
  - destruct v; cbn [fst snd]; try (split; [apply wf_nil|apply wf_put; [apply wf_nil|apply wf_clear_all; exact W]]).
    split; [exact (wf_get n m _ W E)|exact W].
  - cbn [fst snd]. split; [apply wf_nil|apply wf_put; [apply wf_nil|apply wf_clear_all; exact W]].
Qed.

(* J5sDepsProofs.v — "references resolve and add the right import", for compiled packages: every
   reference written in a declaration (at any depth; implicit leading fields included) resolves,
   and the file that defines its target is the generated file itself or one of its dependencies
   - in the main, .service or .topic file the declaration goes to. *)
From Coq Require Import String List NArith Bool Lia.
From J5V.lib Require Import Outcome Corr.
From J5V.model Require Import J5sAst Desc J5sWalk J5sLink J5sConvert J5sContract J5sValid.
From J5V.proofs Require Import J5sProofs J5sContractProofs J5sLinkProofs J5sResolveProofs J5sServiceProofs
  J5sSymbolProofs J5sTotalProofs J5sCompileProofs J5sSubPkgProofs.
Import ListNotations.
Local Open Scope N_scope.

Lemma refs_imported_incl ev refs imps imps' :
  incl imps imps' -> refs_imported ev refs imps -> refs_imported ev refs imps'.
Proof. intros Hi H rf Hrf. destruct (H rf Hrf) as (t & Ht & Hin). exists t. split; [exact Ht|apply Hi; exact Hin]. Qed.

Lemma refs_imported_app ev r1 r2 imps :
  refs_imported ev r1 imps -> refs_imported ev r2 imps -> refs_imported ev (r1 ++ r2) imps.
Proof. intros H1 H2 rf Hrf. apply in_app_or in Hrf. destruct Hrf; auto. Qed.

Lemma refs_imported_nil ev imps : refs_imported ev [] imps.
Proof. intros rf []. Qed.

Section Deps.
Variables snake camel screaming : str -> str.
Variable ev : env.
Notation cv_props := (cv_props snake camel screaming).
Notation cv_nested := (cv_nested snake camel screaming).
Notation cv_nesteds := (cv_nesteds snake camel screaming).
Notation cv_virtual := (cv_virtual snake camel screaming).
Notation cv_method := (cv_method snake camel screaming).
Notation cv_methods := (cv_methods snake camel screaming).
Notation cv_service := (cv_service snake camel screaming).
Notation cv_tmsgs := (cv_tmsgs snake camel screaming).
Notation accept_topic := (accept_topic snake camel screaming).
Notation cv_topic := (cv_topic snake camel screaming).
Notation cv_elements := (cv_elements snake camel screaming).

Lemma props_imports ps path io n r :
  cv_props ev path io n ps = Ok r -> refs_imported ev (refs_of_props ps) (pr_imports r).
Proof. exact (proj1 (proj2 (convert_imports snake camel screaming ev)) ps path io n r). Qed.

Theorem nested_imports :
  (forall n path ms es is, cv_nested ev path n = Ok (ms, es, is) -> refs_imported ev (refs_of_nested n) is) /\
  (forall ns path ms es is, cv_nesteds ev path ns = Ok (ms, es, is) -> refs_imported ev (refs_of_nesteds ns) is).
Proof.
  apply nested_mutind.
  - intros nm ps subs IH path ms es is H. rewrite (cv_nested_obj snake camel screaming) in H. inv_ok H.
    destruct a0 as [[sm se] si]. inversion H. subst ms es is. clear H. cbn [refs_of_nested].
    apply refs_imported_app.
    + eapply refs_imported_incl; [|eapply props_imports; exact E]. intros x Hx. right. apply in_or_app. left. exact Hx.
    + eapply refs_imported_incl; [|eapply IH; exact E0]. intros x Hx. right. apply in_or_app. right. exact Hx.
  - intros nm ps subs IH path ms es is H. rewrite (cv_nested_oneof snake camel screaming) in H. inv_ok H.
    destruct a0 as [[sm se] si]. inversion H. subst ms es is. clear H. cbn [refs_of_nested].
    apply refs_imported_app.
    + eapply refs_imported_incl; [|eapply props_imports; exact E]. intros x Hx. right. apply in_or_app. left. exact Hx.
    + eapply refs_imported_incl; [|eapply IH; exact E0]. intros x Hx. right. apply in_or_app. right. exact Hx.
  - intros e path ms es is H. apply refs_imported_nil.
  - intros path ms es is H. apply refs_imported_nil.
  - intros n IHn r IHr path ms es is H. rewrite (cv_nesteds_cons snake camel screaming) in H. inv_ok H.
    destruct a as [[am ae] ai]. destruct a0 as [[cm ce] ci]. inversion H. subst ms es is. clear H. cbn [refs_of_nesteds].
    apply refs_imported_app.
    + eapply refs_imported_incl; [|eapply IHn; exact E]. apply incl_appl. apply incl_refl.
    + eapply refs_imported_incl; [|eapply IHr; exact E0]. apply incl_appr. apply incl_refl.
Qed.

Lemma virtual_imports name virt decl m is :
  cv_virtual ev name virt decl = Ok (m, is) -> refs_imported ev (refs_of_props (papp virt decl)) is.
Proof.
  unfold J5sConvert.cv_virtual. intros H. inv_ok H. inversion H. subst m is.
  eapply refs_imported_incl; [|eapply props_imports; exact E]. intros x Hx. right. exact Hx.
Qed.

Lemma method_imports base m ms dm is :
  cv_method ev base m = Ok (ms, dm, is) -> refs_imported ev (refs_of_method m) is.
Proof.
  unfold J5sConvert.cv_method. intros H.
  apply obind_ok in H. destruct H as ([rq rqi] & Erq & H).
  apply obind_ok in H. destruct H as ([[rmsgs outn] rimps] & Ers & H).
  apply obind_ok in H. destruct H as (h & _ & H). inversion H. subst ms dm is. clear H.
  unfold refs_of_method. apply refs_imported_app.
  - eapply refs_imported_incl; [|exact (virtual_imports _ _ _ _ _ Erq)]. cbn [snd]. apply incl_appl. apply incl_refl.
  - destruct (m_response m) as [ps|]; [|apply refs_imported_nil].
    apply obind_ok in Ers. destruct Ers as ([rs rsi] & Ev & Ers). inversion Ers. subst.
    eapply refs_imported_incl; [|exact (virtual_imports _ _ _ _ _ Ev)]. cbn [snd].
    apply incl_appr. apply incl_appl. apply incl_refl.
Qed.

Lemma methods_imports base l : forall ms ds is,
  cv_methods ev base l = Ok (ms, ds, is) -> refs_imported ev (flat_map refs_of_method l) is.
Proof.
  induction l as [|m r IH]; intros ms ds is H; cbn [J5sConvert.cv_methods] in H; [apply refs_imported_nil|].
  apply obind_ok in H. destruct H as ([[am ad] ai] & Ea & H).
  apply obind_ok in H. destruct H as ([[cm cd] ci] & Ec & H). inversion H. subst. clear H. cbn [flat_map].
  apply refs_imported_app.
  - eapply refs_imported_incl; [|eapply method_imports; exact Ea]. apply incl_appl. apply incl_refl.
  - eapply refs_imported_incl; [|eapply IH; exact Ec]. apply incl_appr. apply incl_refl.
Qed.

Lemma tmsgs_imports tname single virt l : forall ms ds is,
  cv_tmsgs ev tname single virt l = Ok (ms, ds, is) -> refs_imported ev (refs_of_tmsgs virt l) is.
Proof.
  induction l as [|t r IH]; intros ms ds is H; [apply refs_imported_nil|].
  cbn [J5sConvert.cv_tmsgs] in H.
  apply obind_ok in H. destruct H as (mn & _ & H).
  apply obind_ok in H. destruct H as ([m1 i1] & Ev & H).
  apply obind_ok in H. destruct H as ([[cm cd] ci] & Er & H). inversion H. subst. clear H.
  unfold refs_of_tmsgs. cbn [flat_map]. apply refs_imported_app.
  - eapply refs_imported_incl; [|exact (virtual_imports _ _ _ _ _ Ev)]. cbn [snd]. apply incl_appl. apply incl_refl.
  - eapply refs_imported_incl; [|eapply IH; exact Er]. apply incl_appr. apply incl_refl.
Qed.

Lemma accept_imports tname topic_name rl virt l ms ss is :
  accept_topic ev tname topic_name rl virt l = Ok (ms, ss, is) -> refs_imported ev (refs_of_tmsgs virt l) is.
Proof.
  unfold J5sConvert.accept_topic. intros H. apply obind_ok in H. destruct H as ([[m1 d1] i1] & E & H). inversion H. subst.
  eapply refs_imported_incl; [|eapply tmsgs_imports; exact E]. apply incl_appl. apply incl_refl.
Qed.

Lemma topic_imports t ms ss is : cv_topic ev t = Ok (ms, ss, is) -> refs_imported ev (refs_of_topic t) is.
Proof.
  destruct t as [name msgs|name req reply|name entity msg|name entity msg]; cbn [J5sConvert.cv_topic refs_of_topic]; intros H.
  - eapply accept_imports; exact H.
  - apply obind_ok in H. destruct H as ([[am asv] ai] & Ea & H).
    apply obind_ok in H. destruct H as ([[cm csv] ci] & Ec & H). inversion H. subst. clear H.
    apply refs_imported_app.
    + eapply refs_imported_incl; [|eapply accept_imports; exact Ea]. apply incl_appl. apply incl_refl.
    + eapply refs_imported_incl; [|eapply accept_imports; exact Ec]. apply incl_appr. apply incl_refl.
  - pose proof (accept_imports _ _ _ _ _ _ _ _ H) as Hi. unfold refs_of_tmsgs, default_tm_name in *. cbn [flat_map] in *.
    destruct (tm_name msg); exact Hi.
  - eapply accept_imports; exact H.
Qed.

Lemma cv_elements_imports pkg els : forall m s t m' s' t',
  cv_elements ev pkg els m s t = Ok (m', s', t') ->
  incl (fa_imports m) (fa_imports m') /\ incl (fa_imports s) (fa_imports s') /\ incl (fa_imports t) (fa_imports t') /\
  forall e, In e els ->
    refs_imported ev (main_refs e) (fa_imports m') /\
    refs_imported ev (service_refs e) (fa_imports s') /\
    refs_imported ev (topic_refs e) (fa_imports t').
Proof.
  induction els as [|e r IH]; intros m s t m' s' t' H; cbn [J5sConvert.cv_elements] in H.
  - inversion H. subst. repeat split; try apply incl_refl; destruct H0.
  - destruct e as [nm ps subs|nm ps subs|en|sv|tp].
    + apply obind_ok in H. destruct H as ([[ms es] is] & E & H).
      destruct (IH _ _ _ _ _ _ H) as (I1 & I2 & I3 & I4). cbn [facc_add fa_imports] in I1.
      split; [intros x Hx; apply I1; apply in_or_app; left; exact Hx|]. split; [exact I2|]. split; [exact I3|].
      intros e [<-|He]; [|apply I4; exact He]. cbn [main_refs service_refs topic_refs].
      split; [|split; apply refs_imported_nil].
      eapply refs_imported_incl; [|exact (proj1 nested_imports _ _ _ _ _ E)]. intros x Hx. apply I1. apply in_or_app. right. exact Hx.
    + apply obind_ok in H. destruct H as ([[ms es] is] & E & H).
      destruct (IH _ _ _ _ _ _ H) as (I1 & I2 & I3 & I4). cbn [facc_add fa_imports] in I1.
      split; [intros x Hx; apply I1; apply in_or_app; left; exact Hx|]. split; [exact I2|]. split; [exact I3|].
      intros e [<-|He]; [|apply I4; exact He]. cbn [main_refs service_refs topic_refs].
      split; [|split; apply refs_imported_nil].
      eapply refs_imported_incl; [|exact (proj1 nested_imports _ _ _ _ _ E)]. intros x Hx. apply I1. apply in_or_app. right. exact Hx.
    + destruct (IH _ _ _ _ _ _ H) as (I1 & I2 & I3 & I4). cbn [facc_add fa_imports] in I1.
      split; [intros x Hx; apply I1; apply in_or_app; left; exact Hx|]. split; [exact I2|]. split; [exact I3|].
      intros e [<-|He]; [|apply I4; exact He]. cbn [main_refs service_refs topic_refs].
      repeat split; apply refs_imported_nil.
    + apply obind_ok in H. destruct H as ([[ms ss] is] & E & H).
      destruct (IH _ _ _ _ _ _ H) as (I1 & I2 & I3 & I4). cbn [facc_add fa_imports] in I2.
      split; [exact I1|]. split; [intros x Hx; apply I2; apply in_or_app; left; exact Hx|]. split; [exact I3|].
      intros e [<-|He]; [|apply I4; exact He]. cbn [main_refs service_refs topic_refs].
      split; [apply refs_imported_nil|]. split; [|apply refs_imported_nil].
      unfold J5sConvert.cv_service in E. apply obind_ok in E. destruct E as ([[m1 d1] i1] & E & E'). inversion E'. subst.
      eapply refs_imported_incl; [|eapply methods_imports; exact E]. intros x Hx. apply I2. apply in_or_app. right. exact Hx.
    + apply obind_ok in H. destruct H as ([[ms ss] is] & E & H).
      destruct (IH _ _ _ _ _ _ H) as (I1 & I2 & I3 & I4). cbn [facc_add fa_imports] in I3.
      split; [exact I1|]. split; [exact I2|]. split; [intros x Hx; apply I3; apply in_or_app; left; exact Hx|].
      intros e [<-|He]; [|apply I4; exact He]. cbn [main_refs service_refs topic_refs].
      split; [apply refs_imported_nil|]. split; [apply refs_imported_nil|].
      eapply refs_imported_incl; [|eapply topic_imports; exact E]. intros x Hx. apply I3. apply in_or_app. right. exact Hx.
Qed.

End Deps.

(* ------------------------------------------------------------------ files and packages *)
Definition target_reached (rf_file : str) (df : dfile) : Prop :=
  rf_file = fl_path df \/ In rf_file (fl_deps df).

Lemma deps_reach path pkg a x : In x (fa_imports a) -> target_reached x (mk_file path pkg a).
Proof.
  intros Hin. unfold target_reached, mk_file. cbn [fl_path fl_deps].
  destruct (str_eqb x path) eqn:E; [left; apply str_eqb_eq; exact E|right].
  apply in_deps_of; [exact Hin|]. intros ->. rewrite str_eqb_refl in E. discriminate.
Qed.

Lemma link_file_deps df df' : link_file df = Ok df' -> fl_deps df' = fl_deps df.
Proof. unfold link_file. intros H. apply obind_ok in H. destruct H as (ss & _ & H). inversion H. reflexivity. Qed.

Section DepsFiles.
Variables snake camel screaming : str -> str.

(* where the references of the declarations of a source file must be reachable from *)
Definition refs_reach (ev : env) (refs : list ref) (path : str) (D : list dfile) : Prop :=
  forall rf, In rf refs -> exists t df, resolve ev rf = Ok t /\ In df D /\ fl_path df = path /\ target_reached (tr_file t) df.

Definition file_refs_ok (ev : env) (f : jfile) (D : list dfile) : Prop :=
  forall e, In e (jf_elements f) ->
    refs_reach ev (main_refs e) (main_proto_path f) D /\
    refs_reach ev (service_refs e) (sub_proto_path f (b "service")) D /\
    refs_reach ev (topic_refs e) (sub_proto_path f (b "topic")) D.

Lemma service_refs_used e els : In e els -> service_refs e <> [] -> flat_map elem_services els <> [].
Proof.
  intros Hin Hne. destruct e; try (exfalso; apply Hne; reflexivity).
  intros Hnil. assert (Hs : In s (flat_map elem_services els)) by (apply in_flat_map; exists (EService s); split; [exact Hin|left; reflexivity]).
  rewrite Hnil in Hs. destruct Hs.
Qed.
Lemma topic_refs_used e els : In e els -> topic_refs e <> [] -> flat_map elem_topics els <> [].
Proof.
  intros Hin Hne. destruct e; try (exfalso; apply Hne; reflexivity).
  intros Hnil. assert (Hs : In t (flat_map elem_topics els)) by (apply in_flat_map; exists (ETopic t); split; [exact Hin|left; reflexivity]).
  rewrite Hnil in Hs. destruct Hs.
Qed.

Lemma cv_file_refs exports f D im :
  import_map (jf_imports f) [] = Ok im ->
  cv_file snake camel screaming exports f = Ok D ->
  file_refs_ok (mkEnv (j5s_pkg f) im exports) f D.
Proof.
  unfold cv_file. intros Him H. rewrite Him in H. cbn [obind] in H.
  apply obind_ok in H. destruct H as ([[m s] t] & E & H). inversion H. subst D. clear H.
  set (ev := mkEnv (j5s_pkg f) im exports) in *.
  destruct (cv_elements_imports snake camel screaming ev _ _ _ _ _ _ _ _ E) as (_ & _ & _ & I4).
  destruct (J5sSubPkgAux_used snake camel screaming _ _ _ _ _ _ _ _ _ E) as [Us Ut]. cbn [facc_nil fa_used orb] in Us, Ut.
  intros e He. destruct (I4 e He) as (Rm & Rs & Rt). split; [|split].
  - intros rf Hrf. destruct (Rm rf Hrf) as (tr & Hres & Hin). eexists tr, _. split; [exact Hres|].
    split; [left; reflexivity|]. split; [reflexivity|apply deps_reach; exact Hin].
  - intros rf Hrf. destruct (Rs rf Hrf) as (tr & Hres & Hin).
    assert (Hu : fa_used s = true).
    { rewrite Us. pose proof (service_refs_used e _ He) as Hne.
      destruct (flat_map elem_services (jf_elements f)); [exfalso; apply Hne; [intros Hn; rewrite Hn in Hrf; destruct Hrf|reflexivity]|reflexivity]. }
    eexists tr, _. split; [exact Hres|]. split; [right; apply in_or_app; left; rewrite Hu; left; reflexivity|].
    split; [reflexivity|apply deps_reach; exact Hin].
  - intros rf Hrf. destruct (Rt rf Hrf) as (tr & Hres & Hin).
    assert (Hu : fa_used t = true).
    { rewrite Ut. pose proof (topic_refs_used e _ He) as Hne.
      destruct (flat_map elem_topics (jf_elements f)); [exfalso; apply Hne; [intros Hn; rewrite Hn in Hrf; destruct Hrf|reflexivity]|reflexivity]. }
    eexists tr, _. split; [exact Hres|]. split; [right; apply in_or_app; right; rewrite Hu; left; reflexivity|].
    split; [reflexivity|apply deps_reach; exact Hin].
Qed.

Lemma refs_reach_link ev refs path D D' :
  link_files D = Ok D' -> refs_reach ev refs path D -> refs_reach ev refs path D'.
Proof.
  intros Hl H rf Hrf. destruct (H rf Hrf) as (t & df & Hres & Hin & Hp & Ht).
  destruct (link_files_of _ _ _ Hl Hin) as (df' & Hin' & Hl'). exists t, df'.
  split; [exact Hres|]. split; [exact Hin'|]. split; [rewrite (link_file_path _ _ Hl'); exact Hp|].
  unfold target_reached in *. rewrite (link_file_path _ _ Hl'), (link_file_deps _ _ Hl'). exact Ht.
Qed.

Lemma refs_reach_incl ev refs path D D' : incl D D' -> refs_reach ev refs path D -> refs_reach ev refs path D'.
Proof.
  intros Hi H rf Hrf. destruct (H rf Hrf) as (t & df & Hres & Hin & Hp & Ht). exists t, df. auto.
Qed.

(* whatever compiles: every reference of every declaration of the package resolves, and the file
   defining the target is the generated file the declaration goes to or one of its dependencies *)
Theorem compile_refs_imported bd pkg D :
  compile_package snake camel screaming bd pkg = Ok D ->
  forall f im, In (BJ f) bd -> j5s_pkg f = pkg -> import_map (jf_imports f) [] = Ok im ->
  file_refs_ok (mkEnv (j5s_pkg f) im (pkg_exports camel bd)) f D.
Proof.
  intros HD f im Hin Hp Him.
  destruct (compile_package_inv snake camel screaming _ _ _ HD) as (fs & Efs & _ & El & _).
  unfold convert_package in Efs. destruct (pkg_files bd pkg) as [|x0 r0] eqn:Epf; [discriminate|].
  rewrite <- Epf in Efs. destruct (cv_files_split snake camel screaming _ _ _ Efs) as [I1 _].
  destruct (I1 f (in_pkg_files _ _ _ Hin Hp)) as (Df & Hc & Hi).
  pose proof (cv_file_refs _ _ _ _ Him Hc) as Hok.
  intros e He. destruct (Hok e He) as (A & B & C).
  repeat split; eapply refs_reach_link; try exact El; eapply refs_reach_incl; try exact Hi; assumption.
Qed.

End DepsFiles.

(* ================================================================== ... and nothing else *)
(* Every dependency of a generated file is the defining file of a reference written in the
   declarations that go to that file, or one of the fixed files of the j5 / protobuf
   infrastructure (annotations, validation, well-known types, HTTP, messaging). *)
Definition infra_files : list str :=
  [imp_ext; imp_validate; imp_timestamp; imp_date; imp_decimal; imp_any; imp_http; imp_httpbody; imp_messaging; imp_empty].

Definition only_refs (ev : env) (refs : list ref) (imps : list str) : Prop :=
  forall x, In x imps -> In x infra_files \/ exists rf t, In rf refs /\ resolve ev rf = Ok t /\ tr_file t = x.

Lemma only_refs_nil ev refs : only_refs ev refs [].
Proof. intros x []. Qed.
Lemma only_refs_app ev refs a c : only_refs ev refs a -> only_refs ev refs c -> only_refs ev refs (a ++ c).
Proof. intros Ha Hc x Hx. apply in_app_or in Hx. destruct Hx; auto. Qed.
Lemma only_refs_more ev refs refs' imps : incl refs refs' -> only_refs ev refs imps -> only_refs ev refs' imps.
Proof.
  intros Hi H x Hx. destruct (H x Hx) as [Hl|(rf & t & Hr & Hres & Hf)]; [left; exact Hl|].
  right. exists rf, t. split; [apply Hi; exact Hr|]. split; assumption.
Qed.
Lemma only_refs_infra ev refs imps : incl imps infra_files -> only_refs ev refs imps.
Proof. intros Hi x Hx. left. apply Hi. exact Hx. Qed.

Lemma in_deps_of_inv self imps x : In x (deps_of self imps) -> In x imps.
Proof.
  unfold deps_of.
  assert (G : forall l acc, In x (fold_left (fun acc i => if str_eqb i self then acc else insert_dep i acc) l acc) ->
              In x acc \/ In x l).
  { induction l as [|y r IH]; intros acc H; cbn [fold_left] in H; [left; exact H|].
    destruct (IH _ H) as [Ha|Hr]; [|right; right; exact Hr].
    destruct (str_eqb y self); [left; exact Ha|]. apply in_insert_dep in Ha. destruct Ha as [->|Ha]; [right; left; reflexivity|left; exact Ha]. }
  intros H. destruct (G _ _ H) as [[]|Hl]. exact Hl.
Qed.

Ltac infra := let x := fresh in let Hx := fresh in intros x Hx; cbn in Hx; unfold infra_files; cbn [In]; intuition (subst; auto 20).

Section Only.
Variables snake camel screaming : str -> str.
Variable ev : env.
Notation cv_item := (cv_item snake camel screaming).
Notation cv_props := (cv_props snake camel screaming).
Notation cv_property := (cv_property snake camel screaming).
Notation cv_nested := (cv_nested snake camel screaming).
Notation cv_nesteds := (cv_nesteds snake camel screaming).
Notation cv_virtual := (cv_virtual snake camel screaming).
Notation cv_method := (cv_method snake camel screaming).
Notation cv_methods := (cv_methods snake camel screaming).
Notation cv_service := (cv_service snake camel screaming).
Notation cv_tmsgs := (cv_tmsgs snake camel screaming).
Notation accept_topic := (accept_topic snake camel screaming).
Notation cv_topic := (cv_topic snake camel screaming).
Notation cv_elements := (cv_elements snake camel screaming).

Lemma scalar_only refs s : only_refs ev refs (fc_imports (scalar_core s) ++ if fc_validate (scalar_core s) then [imp_validate] else []).
Proof. apply only_refs_infra. destruct s as [| | |[]|[]| | | |[]|]; infra. Qed.

Lemma ref_only r we c : ref_core ev r we = Ok c -> only_refs ev [r] (fc_imports c ++ if fc_validate c then [imp_validate] else []).
Proof.
  unfold ref_core. intros H. inv_ok H.
  assert (Hc : incl (fc_imports c ++ if fc_validate c then [imp_validate] else []) (tr_file a :: infra_files)).
  { destruct we; destruct (tr_enum a); try discriminate; inversion H; subst; infra. }
  intros x Hx. apply Hc in Hx. destruct Hx as [<-|Hx]; [|left; exact Hx].
  right. exists r, a. split; [left; reflexivity|]. split; [exact E|reflexivity].
Qed.

Lemma finish_only io rq op sn n num c lbl ty tn msgs imps r refs :
  finish io rq op sn n num c lbl ty tn msgs imps = Ok r -> only_refs ev refs imps -> only_refs ev refs (pr_imports r).
Proof.
  unfold finish. destruct (rq && op); [discriminate|]. destruct (io && _); [discriminate|].
  intros H Ho. inversion H. subst. cbn [pr_imports]. apply only_refs_app; [exact Ho|].
  apply only_refs_infra. destruct rq; infra.
Qed.

(* an item's imports with the validate import its property may add *)
Definition item_imps (c : fcore) : list str := fc_imports c ++ if fc_validate c then [imp_validate] else [].

Theorem convert_only :
  (forall f, (forall path dflt c, cv_item ev path dflt f = Ok c -> only_refs ev (refs_of_field f) (item_imps c)) /\
             match f with
             | FArray it | FMap it => forall path dflt c, cv_item ev path dflt it = Ok c -> only_refs ev (refs_of_field it) (item_imps c)
             | _ => True
             end) /\
  (forall ps path io n r, cv_props ev path io n ps = Ok r -> only_refs ev (refs_of_props ps) (pr_imports r)) /\
  (forall p path io n r, cv_property ev path io n p = Ok r -> only_refs ev (refs_of_property p) (pr_imports r)).
Proof.
  apply ast_mutind.
  - intros s. split; [|exact I]. intros path dflt c H. cbn in H. inversion H. subst. apply scalar_only.
  - intros r. split; [|exact I]. intros path dflt c H. cbn in H. exact (ref_only _ _ _ H).
  - intros nm ps IH. split; [|exact I]. intros path dflt c H.
    rewrite (cv_item_obj snake camel screaming) in H. inv_ok H. inversion H. subst c. unfold item_imps. cbn [fc_imports fc_validate refs_of_field].
    rewrite app_nil_r. change (imp_ext :: pr_imports a) with ([imp_ext] ++ pr_imports a).
    apply only_refs_app; [apply only_refs_infra; infra|exact (IH _ _ _ _ E)].
  - intros r. split; [|exact I]. intros path dflt c H. cbn in H. exact (ref_only _ _ _ H).
  - intros nm ps IH. split; [|exact I]. intros path dflt c H.
    rewrite (cv_item_oneof snake camel screaming) in H. inv_ok H. inversion H. subst c. unfold item_imps. cbn [fc_imports fc_validate refs_of_field].
    rewrite app_nil_r. change (imp_ext :: pr_imports a) with ([imp_ext] ++ pr_imports a).
    apply only_refs_app; [apply only_refs_infra; infra|exact (IH _ _ _ _ E)].
  - intros r. split; [|exact I]. intros path dflt c H. cbn in H. exact (ref_only _ _ _ H).
  - intros e. split; [|exact I]. intros path dflt c H. cbn [J5sConvert.cv_item] in H. inversion H. subst c.
    apply only_refs_infra. infra.
  - intros it [IH _]. split; [|exact IH]. intros path dflt c H. cbn in H. discriminate.
  - intros it [IH _]. split; [|exact IH]. intros path dflt c H. cbn in H. discriminate.
  - intros path io n r H. cbn in H. inversion H. subst. apply only_refs_nil.
  - intros p IHp ps IHps path io n r H. rewrite (cv_props_cons snake camel screaming) in H. inv_ok H. inversion H. subst r.
    cbn [pres_app pr_imports refs_of_props]. apply only_refs_app.
    + eapply only_refs_more; [|exact (IHp _ _ _ _ E)]. apply incl_appl. apply incl_refl.
    + eapply only_refs_more; [|exact (IHps _ _ _ _ E0)]. apply incl_appr. apply incl_refl.
  - intros n rq op f [IH IHit] path io num r H. rewrite (cv_property_eq snake camel screaming) in H.
    destruct f as [s|rf|nm ps|rf|nm ps|rf|e|it|it]; cbn [refs_of_property].
    1-7: inv_ok H; eapply finish_only; [exact H|]; pose proof (IH _ _ _ E) as Hi; unfold item_imps in Hi;
         intros x Hx; apply Hi; apply in_or_app; left; exact Hx.
    + inv_ok H. eapply finish_only; [exact H|]. pose proof (IHit _ _ _ E) as Hi. unfold item_imps in Hi.
      intros x [<-|Hx]; [left; unfold infra_files; cbn [In]; tauto|apply Hi; exact Hx].
    + inv_ok H. destruct io; [discriminate|]. eapply finish_only; [exact H|].
      pose proof (IHit _ _ _ E) as Hi. unfold item_imps in Hi. intros x Hx. apply Hi. apply in_or_app. left. exact Hx.
Qed.

Lemma props_only ps path io n r : cv_props ev path io n ps = Ok r -> only_refs ev (refs_of_props ps) (pr_imports r).
Proof. exact (proj1 (proj2 convert_only) ps path io n r). Qed.

Theorem nested_only :
  (forall n path ms es is, cv_nested ev path n = Ok (ms, es, is) -> only_refs ev (refs_of_nested n) is) /\
  (forall ns path ms es is, cv_nesteds ev path ns = Ok (ms, es, is) -> only_refs ev (refs_of_nesteds ns) is).
Proof.
  apply nested_mutind.
  - intros nm ps subs IH path ms es is H. rewrite (cv_nested_obj snake camel screaming) in H. inv_ok H.
    destruct a0 as [[sm se] si]. inversion H. subst ms es is. cbn [refs_of_nested].
    change (imp_ext :: pr_imports a ++ si) with ([imp_ext] ++ pr_imports a ++ si).
    apply only_refs_app; [apply only_refs_infra; infra|]. apply only_refs_app.
    + eapply only_refs_more; [|eapply props_only; exact E]. apply incl_appl. apply incl_refl.
    + eapply only_refs_more; [|eapply IH; exact E0]. apply incl_appr. apply incl_refl.
  - intros nm ps subs IH path ms es is H. rewrite (cv_nested_oneof snake camel screaming) in H. inv_ok H.
    destruct a0 as [[sm se] si]. inversion H. subst ms es is. cbn [refs_of_nested].
    change (imp_ext :: pr_imports a ++ si) with ([imp_ext] ++ pr_imports a ++ si).
    apply only_refs_app; [apply only_refs_infra; infra|]. apply only_refs_app.
    + eapply only_refs_more; [|eapply props_only; exact E]. apply incl_appl. apply incl_refl.
    + eapply only_refs_more; [|eapply IH; exact E0]. apply incl_appr. apply incl_refl.
  - intros e path ms es is H. cbn in H. inversion H. apply only_refs_nil.
  - intros path ms es is H. cbn in H. inversion H. apply only_refs_nil.
  - intros n IHn r IHr path ms es is H. rewrite (cv_nesteds_cons snake camel screaming) in H. inv_ok H.
    destruct a as [[am ae] ai]. destruct a0 as [[cm ce] ci]. inversion H. subst ms es is. cbn [refs_of_nesteds].
    apply only_refs_app.
    + eapply only_refs_more; [|eapply IHn; exact E]. apply incl_appl. apply incl_refl.
    + eapply only_refs_more; [|eapply IHr; exact E0]. apply incl_appr. apply incl_refl.
Qed.

Lemma virtual_only name virt decl m is :
  cv_virtual ev name virt decl = Ok (m, is) -> only_refs ev (refs_of_props (papp virt decl)) is.
Proof.
  unfold J5sConvert.cv_virtual. intros H. inv_ok H. inversion H. subst m is.
  change (imp_ext :: pr_imports a) with ([imp_ext] ++ pr_imports a).
  apply only_refs_app; [apply only_refs_infra; infra|eapply props_only; exact E].
Qed.

Lemma method_only base m ms dm is : cv_method ev base m = Ok (ms, dm, is) -> only_refs ev (refs_of_method m) is.
Proof.
  unfold J5sConvert.cv_method. intros H.
  apply obind_ok in H. destruct H as ([rq rqi] & Erq & H).
  apply obind_ok in H. destruct H as ([[rmsgs outn] rimps] & Ers & H).
  apply obind_ok in H. destruct H as (h & _ & H). inversion H. subst ms dm is. clear H.
  unfold refs_of_method. cbn [snd]. apply only_refs_app; [|apply only_refs_app; [|apply only_refs_infra; infra]].
  - eapply only_refs_more; [|exact (virtual_only _ _ _ _ _ Erq)]. apply incl_appl. apply incl_refl.
  - destruct (m_response m) as [ps|].
    + apply obind_ok in Ers. destruct Ers as ([rs rsi] & Ev & Ers). inversion Ers. subst. cbn [snd].
      eapply only_refs_more; [|exact (virtual_only _ _ _ _ _ Ev)]. apply incl_appr. apply incl_refl.
    + inversion Ers. subst. apply only_refs_infra. infra.
Qed.

Lemma methods_only base l : forall ms ds is,
  cv_methods ev base l = Ok (ms, ds, is) -> only_refs ev (flat_map refs_of_method l) is.
Proof.
  induction l as [|m r IH]; intros ms ds is H; cbn [J5sConvert.cv_methods] in H; [inversion H; apply only_refs_nil|].
  apply obind_ok in H. destruct H as ([[am ad] ai] & Ea & H).
  apply obind_ok in H. destruct H as ([[cm cd] ci] & Ec & H). inversion H. subst. cbn [flat_map].
  apply only_refs_app.
  - eapply only_refs_more; [|eapply method_only; exact Ea]. apply incl_appl. apply incl_refl.
  - eapply only_refs_more; [|eapply IH; exact Ec]. apply incl_appr. apply incl_refl.
Qed.

Lemma tmsgs_only tname single virt l : forall ms ds is,
  cv_tmsgs ev tname single virt l = Ok (ms, ds, is) -> only_refs ev (refs_of_tmsgs virt l) is.
Proof.
  induction l as [|t r IH]; intros ms ds is H; [cbn in H; inversion H; apply only_refs_nil|].
  cbn [J5sConvert.cv_tmsgs] in H.
  apply obind_ok in H. destruct H as (mn & _ & H).
  apply obind_ok in H. destruct H as ([m1 i1] & Ev & H).
  apply obind_ok in H. destruct H as ([[cm cd] ci] & Er & H). inversion H. subst. clear H.
  unfold refs_of_tmsgs. cbn [flat_map snd]. apply only_refs_app.
  - eapply only_refs_more; [|exact (virtual_only _ _ _ _ _ Ev)]. apply incl_appl. apply incl_refl.
  - eapply only_refs_more; [|eapply IH; exact Er]. apply incl_appr. apply incl_refl.
Qed.

Lemma accept_only tname topic_name rl virt l ms ss is :
  accept_topic ev tname topic_name rl virt l = Ok (ms, ss, is) -> only_refs ev (refs_of_tmsgs virt l) is.
Proof.
  unfold J5sConvert.accept_topic. intros H. apply obind_ok in H. destruct H as ([[m1 d1] i1] & E & H). inversion H. subst.
  apply only_refs_app; [eapply tmsgs_only; exact E|apply only_refs_infra; infra].
Qed.

Lemma topic_only t ms ss is : cv_topic ev t = Ok (ms, ss, is) -> only_refs ev (refs_of_topic t) is.
Proof.
  destruct t as [name msgs|name req reply|name entity msg|name entity msg]; cbn [J5sConvert.cv_topic refs_of_topic]; intros H.
  - eapply accept_only; exact H.
  - apply obind_ok in H. destruct H as ([[am asv] ai] & Ea & H).
    apply obind_ok in H. destruct H as ([[cm csv] ci] & Ec & H). inversion H. subst. clear H.
    apply only_refs_app.
    + eapply only_refs_more; [|eapply accept_only; exact Ea]. apply incl_appl. apply incl_refl.
    + eapply only_refs_more; [|eapply accept_only; exact Ec]. apply incl_appr. apply incl_refl.
  - pose proof (accept_only _ _ _ _ _ _ _ _ H) as Hi. unfold refs_of_tmsgs, default_tm_name in *. cbn [flat_map] in *.
    destruct (tm_name msg); exact Hi.
  - eapply accept_only; exact H.
Qed.

Lemma cv_elements_only pkg Rm Rs Rt els : forall m s t m' s' t',
  cv_elements ev pkg els m s t = Ok (m', s', t') ->
  incl (flat_map main_refs els) Rm -> incl (flat_map service_refs els) Rs -> incl (flat_map topic_refs els) Rt ->
  only_refs ev Rm (fa_imports m) -> only_refs ev Rs (fa_imports s) -> only_refs ev Rt (fa_imports t) ->
  only_refs ev Rm (fa_imports m') /\ only_refs ev Rs (fa_imports s') /\ only_refs ev Rt (fa_imports t').
Proof.
  induction els as [|e r IH]; intros m s t m' s' t' H Im Is It Hm Hs Ht; cbn [J5sConvert.cv_elements] in H.
  - inversion H. subst. auto.
  - cbn [flat_map] in Im, Is, It.
    assert (Im' := fun x Hx => Im x (in_or_app _ _ x (or_intror Hx))).
    assert (Is' := fun x Hx => Is x (in_or_app _ _ x (or_intror Hx))).
    assert (It' := fun x Hx => It x (in_or_app _ _ x (or_intror Hx))).
    assert (Im0 := fun x Hx => Im x (in_or_app _ _ x (or_introl Hx))).
    assert (Is0 := fun x Hx => Is x (in_or_app _ _ x (or_introl Hx))).
    assert (It0 := fun x Hx => It x (in_or_app _ _ x (or_introl Hx))).
    destruct e as [nm ps subs|nm ps subs|en|sv|tp].
    + apply obind_ok in H. destruct H as ([[ms es] is] & E & H).
      eapply IH; [exact H|exact Im'|exact Is'|exact It'| |exact Hs|exact Ht].
      cbn [facc_add fa_imports]. apply only_refs_app; [exact Hm|].
      eapply only_refs_more; [exact Im0|]. exact (proj1 nested_only _ _ _ _ _ E).
    + apply obind_ok in H. destruct H as ([[ms es] is] & E & H).
      eapply IH; [exact H|exact Im'|exact Is'|exact It'| |exact Hs|exact Ht].
      cbn [facc_add fa_imports]. apply only_refs_app; [exact Hm|].
      eapply only_refs_more; [exact Im0|]. exact (proj1 nested_only _ _ _ _ _ E).
    + eapply IH; [exact H|exact Im'|exact Is'|exact It'| |exact Hs|exact Ht].
      cbn [facc_add fa_imports]. rewrite app_nil_r. exact Hm.
    + apply obind_ok in H. destruct H as ([[ms ss] is] & E & H).
      eapply IH; [exact H|exact Im'|exact Is'|exact It'|exact Hm| |exact Ht].
      cbn [facc_add fa_imports]. apply only_refs_app; [exact Hs|].
      eapply only_refs_more; [exact Is0|]. cbn [service_refs].
      unfold J5sConvert.cv_service in E. apply obind_ok in E. destruct E as ([[m1 d1] i1] & E & E'). inversion E'. subst.
      eapply methods_only; exact E.
    + apply obind_ok in H. destruct H as ([[ms ss] is] & E & H).
      eapply IH; [exact H|exact Im'|exact Is'|exact It'|exact Hm|exact Hs|].
      cbn [facc_add fa_imports]. apply only_refs_app; [exact Ht|].
      eapply only_refs_more; [exact It0|]. eapply topic_only; exact E.
Qed.

End Only.

(* ---- files and packages *)
Section OnlyFiles.
Variables snake camel screaming : str -> str.

(* which of the three generated files of a source file *)
Inductive out_kind := KMain | KService | KTopic.
Definition kind_path (f : jfile) (k : out_kind) : str :=
  match k with
  | KMain => main_proto_path f
  | KService => sub_proto_path f (b "service")
  | KTopic => sub_proto_path f (b "topic")
  end.
Definition kind_refs (f : jfile) (k : out_kind) : list ref :=
  match k with
  | KMain => flat_map main_refs (jf_elements f)
  | KService => flat_map service_refs (jf_elements f)
  | KTopic => flat_map topic_refs (jf_elements f)
  end.

Lemma deps_only ev refs path pkg a : only_refs ev refs (fa_imports a) -> only_refs ev refs (fl_deps (mk_file path pkg a)).
Proof. intros H x Hx. unfold mk_file in Hx. cbn [fl_deps] in Hx. apply in_deps_of_inv in Hx. apply H. exact Hx. Qed.

Lemma cv_file_only exports f D :
  cv_file snake camel screaming exports f = Ok D ->
  exists im, import_map (jf_imports f) [] = Ok im /\
    forall df, In df D -> exists k, fl_path df = kind_path f k /\
      only_refs (mkEnv (j5s_pkg f) im exports) (kind_refs f k) (fl_deps df).
Proof.
  unfold cv_file. intros H. apply obind_ok in H. destruct H as (im & Him & H). exists im. split; [exact Him|].
  apply obind_ok in H. destruct H as ([[m s] t] & E & H). inversion H. subst D. clear H.
  set (ev := mkEnv (j5s_pkg f) im exports) in *.
  destruct (cv_elements_only snake camel screaming ev _ _ _ _ _ _ _ _ _ _ _ E (incl_refl _) (incl_refl _) (incl_refl _)
              (only_refs_nil _ _) (only_refs_nil _ _) (only_refs_nil _ _)) as (Om & Os & Ot).
  intros df [<-|Hin]; [exists KMain; split; [reflexivity|apply deps_only; exact Om]|].
  apply in_app_or in Hin. destruct Hin as [Hin|Hin].
  - destruct (fa_used s); [|destruct Hin]. destruct Hin as [<-|[]]. exists KService. split; [reflexivity|apply deps_only; exact Os].
  - destruct (fa_used t); [|destruct Hin]. destruct Hin as [<-|[]]. exists KTopic. split; [reflexivity|apply deps_only; exact Ot].
Qed.

(* whatever compiles: every dependency of every generated file is an infrastructure file or the
   defining file of a reference written in the declarations that go to that file *)
Theorem compile_deps_only bd pkg D :
  compile_package snake camel screaming bd pkg = Ok D ->
  forall df, In df D -> exists f im k,
    In (BJ f) bd /\ j5s_pkg f = pkg /\ import_map (jf_imports f) [] = Ok im /\
    fl_path df = kind_path f k /\
    only_refs (mkEnv (j5s_pkg f) im (pkg_exports camel bd)) (kind_refs f k) (fl_deps df).
Proof.
  intros HD df' Hd'.
  destruct (compile_package_inv snake camel screaming _ _ _ HD) as (fs & Efs & _ & El & _).
  unfold convert_package in Efs. destruct (pkg_files bd pkg) as [|x0 r0] eqn:Epf; [discriminate|].
  rewrite <- Epf in Efs. destruct (cv_files_split snake camel screaming _ _ _ Efs) as [_ I2].
  destruct (link_files_in _ _ _ El Hd') as (df & Hd & Hl).
  destruct (I2 df Hd) as (f & Df & Hf & Hc & Hin).
  assert (Hb : In (BJ f) bd /\ j5s_pkg f = pkg).
  { unfold pkg_files in Hf. apply in_sort_by in Hf. apply filter_In in Hf. destruct Hf as [Hb Hp]. split; [exact Hb|].
    cbn in Hp. apply str_eqb_eq in Hp. exact Hp. }
  destruct Hb as [Hb Hp]. destruct (cv_file_only _ _ _ Hc) as (im & Him & Hall). destruct (Hall df Hin) as (k & Hk & Ho).
  exists f, im, k. split; [exact Hb|]. split; [exact Hp|]. split; [exact Him|].
  rewrite (link_file_path _ _ Hl), (link_file_deps _ _ Hl). split; assumption.
Qed.

End OnlyFiles.

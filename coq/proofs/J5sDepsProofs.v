(* J5sDepsProofs.v — "references resolve and add the right import", for compiled packages: every
   reference written in a declaration (at any depth; implicit leading fields included) resolves,
   and the file that defines its target is the generated file itself or one of its dependencies
   - in the main, .service or .topic file the declaration goes to. *)
From Coq Require Import String List NArith Bool Lia.
From J5V.lib Require Import Outcome Corr.
From J5V.model Require Import J5sAst Desc J5sWalk J5sLink J5sConvert J5sContract J5sValid.
From J5V.proofs Require Import J5sProofs J5sContractProofs J5sLinkProofs J5sResolveProofs J5sServiceProofs
  J5sSymbolProofs J5sTotalProofs J5sCompileProofs J5sSubPkgProofs.
Import ListNotations.
Local Open Scope N_scope.

Lemma refs_imported_incl ev refs imps imps' :
  incl imps imps' -> refs_imported ev refs imps -> refs_imported ev refs imps'.
Proof. intros Hi H rf Hrf. destruct (H rf Hrf) as (t & Ht & Hin). exists t. split; [exact Ht|apply Hi; exact Hin]. Qed.

Lemma refs_imported_app ev r1 r2 imps :
  refs_imported ev r1 imps -> refs_imported ev r2 imps -> refs_imported ev (r1 ++ r2) imps.
Proof. intros H1 H2 rf Hrf. apply in_app_or in Hrf. destruct Hrf; auto. Qed.

Lemma refs_imported_nil ev imps : refs_imported ev [] imps.
Proof. intros rf []. Qed.

Section Deps.
Variables snake camel screaming : str -> str.
Variable ev : env.
Notation cv_props := (cv_props snake camel screaming).
Notation cv_nested := (cv_nested snake camel screaming).
Notation cv_nesteds := (cv_nesteds snake camel screaming).
Notation cv_virtual := (cv_virtual snake camel screaming).
Notation cv_method := (cv_method snake camel screaming).
Notation cv_methods := (cv_methods snake camel screaming).
Notation cv_service := (cv_service snake camel screaming).
Notation cv_tmsgs := (cv_tmsgs snake camel screaming).
Notation accept_topic := (accept_topic snake camel screaming).
Notation cv_topic := (cv_topic snake camel screaming).
Notation cv_elements := (cv_elements snake camel screaming).

Lemma props_imports ps path io n r :
  cv_props ev path io n ps = Ok r -> refs_imported ev (refs_of_props ps) (pr_imports r).
Proof. exact (proj1 (proj2 (convert_imports snake camel screaming ev)) ps path io n r). Qed.

Theorem nested_imports :
  (forall n path ms es is, cv_nested ev path n = Ok (ms, es, is) -> refs_imported ev (refs_of_nested n) is) /\
  (forall ns path ms es is, cv_nesteds ev path ns = Ok (ms, es, is) -> refs_imported ev (refs_of_nesteds ns) is).
Proof.
  apply nested_mutind.
  - intros nm ps subs IH path ms es is H. rewrite (cv_nested_obj snake camel screaming) in H. inv_ok H.
    destruct a0 as [[sm se] si]. inversion H. subst ms es is. clear H. cbn [refs_of_nested].
    apply refs_imported_app.
    + eapply refs_imported_incl; [|eapply props_imports; exact E]. intros x Hx. right. apply in_or_app. left. exact Hx.
    + eapply refs_imported_incl; [|eapply IH; exact E0]. intros x Hx. right. apply in_or_app. right. exact Hx.
  - intros nm ps subs IH path ms es is H. rewrite (cv_nested_oneof snake camel screaming) in H. inv_ok H.
    destruct a0 as [[sm se] si]. inversion H. subst ms es is. clear H. cbn [refs_of_nested].
    apply refs_imported_app.
    + eapply refs_imported_incl; [|eapply props_imports; exact E]. intros x Hx. right. apply in_or_app. left. exact Hx.
    + eapply refs_imported_incl; [|eapply IH; exact E0]. intros x Hx. right. apply in_or_app. right. exact Hx.
  - intros e path ms es is H. apply refs_imported_nil.
  - intros path ms es is H. apply refs_imported_nil.
  - intros n IHn r IHr path ms es is H. rewrite (cv_nesteds_cons snake camel screaming) in H. inv_ok H.
    destruct a as [[am ae] ai]. destruct a0 as [[cm ce] ci]. inversion H. subst ms es is. clear H. cbn [refs_of_nesteds].
    apply refs_imported_app.
    + eapply refs_imported_incl; [|eapply IHn; exact E]. apply incl_appl. apply incl_refl.
    + eapply refs_imported_incl; [|eapply IHr; exact E0]. apply incl_appr. apply incl_refl.
Qed.

Lemma virtual_imports name virt decl m is :
  cv_virtual ev name virt decl = Ok (m, is) -> refs_imported ev (refs_of_props (papp virt decl)) is.
Proof.
  unfold J5sConvert.cv_virtual. intros H. inv_ok H. inversion H. subst m is.
  eapply refs_imported_incl; [|eapply props_imports; exact E]. intros x Hx. right. exact Hx.
Qed.

Lemma method_imports base m ms dm is :
  cv_method ev base m = Ok (ms, dm, is) -> refs_imported ev (refs_of_method m) is.
Proof.
  unfold J5sConvert.cv_method. intros H.
  apply obind_ok in H. destruct H as ([rq rqi] & Erq & H).
  apply obind_ok in H. destruct H as ([[rmsgs outn] rimps] & Ers & H).
  apply obind_ok in H. destruct H as (h & _ & H). inversion H. subst ms dm is. clear H.
  unfold refs_of_method. apply refs_imported_app.
  - eapply refs_imported_incl; [|exact (virtual_imports _ _ _ _ _ Erq)]. cbn [snd]. apply incl_appl. apply incl_refl.
  - destruct (m_response m) as [ps|]; [|apply refs_imported_nil].
    apply obind_ok in Ers. destruct Ers as ([rs rsi] & Ev & Ers). inversion Ers. subst.
    eapply refs_imported_incl; [|exact (virtual_imports _ _ _ _ _ Ev)]. cbn [snd].
    apply incl_appr. apply incl_appl. apply incl_refl.
Qed.

Lemma methods_imports base l : forall ms ds is,
  cv_methods ev base l = Ok (ms, ds, is) -> refs_imported ev (flat_map refs_of_method l) is.
Proof.
  induction l as [|m r IH]; intros ms ds is H; cbn [J5sConvert.cv_methods] in H; [apply refs_imported_nil|].
  apply obind_ok in H. destruct H as ([[am ad] ai] & Ea & H).
  apply obind_ok in H. destruct H as ([[cm cd] ci] & Ec & H). inversion H. subst. clear H. cbn [flat_map].
  apply refs_imported_app.
  - eapply refs_imported_incl; [|eapply method_imports; exact Ea]. apply incl_appl. apply incl_refl.
  - eapply refs_imported_incl; [|eapply IH; exact Ec]. apply incl_appr. apply incl_refl.
Qed.

Lemma tmsgs_imports tname single virt l : forall ms ds is,
  cv_tmsgs ev tname single virt l = Ok (ms, ds, is) -> refs_imported ev (refs_of_tmsgs virt l) is.
Proof.
  induction l as [|t r IH]; intros ms ds is H; [apply refs_imported_nil|].
  cbn [J5sConvert.cv_tmsgs] in H.
  apply obind_ok in H. destruct H as (mn & _ & H).
  apply obind_ok in H. destruct H as ([m1 i1] & Ev & H).
  apply obind_ok in H. destruct H as ([[cm cd] ci] & Er & H). inversion H. subst. clear H.
  unfold refs_of_tmsgs. cbn [flat_map]. apply refs_imported_app.
  - eapply refs_imported_incl; [|exact (virtual_imports _ _ _ _ _ Ev)]. cbn [snd]. apply incl_appl. apply incl_refl.
  - eapply refs_imported_incl; [|eapply IH; exact Er]. apply incl_appr. apply incl_refl.
Qed.

Lemma accept_imports tname topic_name rl virt l ms ss is :
  accept_topic ev tname topic_name rl virt l = Ok (ms, ss, is) -> refs_imported ev (refs_of_tmsgs virt l) is.
Proof.
  unfold J5sConvert.accept_topic. intros H. apply obind_ok in H. destruct H as ([[m1 d1] i1] & E & H). inversion H. subst.
  eapply refs_imported_incl; [|eapply tmsgs_imports; exact E]. apply incl_appl. apply incl_refl.
Qed.

Lemma topic_imports t ms ss is : cv_topic ev t = Ok (ms, ss, is) -> refs_imported ev (refs_of_topic t) is.
Proof.
  destruct t as [name msgs|name req reply|name entity msg|name entity msg]; cbn [J5sConvert.cv_topic refs_of_topic]; intros H.
  - eapply accept_imports; exact H.
  - apply obind_ok in H. destruct H as ([[am asv] ai] & Ea & H).
    apply obind_ok in H. destruct H as ([[cm csv] ci] & Ec & H). inversion H. subst. clear H.
    apply refs_imported_app.
    + eapply refs_imported_incl; [|eapply accept_imports; exact Ea]. apply incl_appl. apply incl_refl.
    + eapply refs_imported_incl; [|eapply accept_imports; exact Ec]. apply incl_appr. apply incl_refl.
  - pose proof (accept_imports _ _ _ _ _ _ _ _ H) as Hi. unfold refs_of_tmsgs, default_tm_name in *. cbn [flat_map] in *.
    destruct (tm_name msg); exact Hi.
  - eapply accept_imports; exact H.
Qed.

Lemma cv_elements_imports pkg els : forall m s t m' s' t',
  cv_elements ev pkg els m s t = Ok (m', s', t') ->
  incl (fa_imports m) (fa_imports m') /\ incl (fa_imports s) (fa_imports s') /\ incl (fa_imports t) (fa_imports t') /\
  forall e, In e els ->
    refs_imported ev (main_refs e) (fa_imports m') /\
    refs_imported ev (service_refs e) (fa_imports s') /\
    refs_imported ev (topic_refs e) (fa_imports t').
Proof.
  induction els as [|e r IH]; intros m s t m' s' t' H; cbn [J5sConvert.cv_elements] in H.
  - inversion H. subst. repeat split; try apply incl_refl; destruct H0.
  - destruct e as [nm ps subs|nm ps subs|en|sv|tp].
    + apply obind_ok in H. destruct H as ([[ms es] is] & E & H).
      destruct (IH _ _ _ _ _ _ H) as (I1 & I2 & I3 & I4). cbn [facc_add fa_imports] in I1.
      split; [intros x Hx; apply I1; apply in_or_app; left; exact Hx|]. split; [exact I2|]. split; [exact I3|].
      intros e [<-|He]; [|apply I4; exact He]. cbn [main_refs service_refs topic_refs].
      split; [|split; apply refs_imported_nil].
      eapply refs_imported_incl; [|exact (proj1 nested_imports _ _ _ _ _ E)]. intros x Hx. apply I1. apply in_or_app. right. exact Hx.
    + apply obind_ok in H. destruct H as ([[ms es] is] & E & H).
      destruct (IH _ _ _ _ _ _ H) as (I1 & I2 & I3 & I4). cbn [facc_add fa_imports] in I1.
      split; [intros x Hx; apply I1; apply in_or_app; left; exact Hx|]. split; [exact I2|]. split; [exact I3|].
      intros e [<-|He]; [|apply I4; exact He]. cbn [main_refs service_refs topic_refs].
      split; [|split; apply refs_imported_nil].
      eapply refs_imported_incl; [|exact (proj1 nested_imports _ _ _ _ _ E)]. intros x Hx. apply I1. apply in_or_app. right. exact Hx.
    + destruct (IH _ _ _ _ _ _ H) as (I1 & I2 & I3 & I4). cbn [facc_add fa_imports] in I1.
      split; [intros x Hx; apply I1; apply in_or_app; left; exact Hx|]. split; [exact I2|]. split; [exact I3|].
      intros e [<-|He]; [|apply I4; exact He]. cbn [main_refs service_refs topic_refs].
      repeat split; apply refs_imported_nil.
    + apply obind_ok in H. destruct H as ([[ms ss] is] & E & H).
      destruct (IH _ _ _ _ _ _ H) as (I1 & I2 & I3 & I4). cbn [facc_add fa_imports] in I2.
      split; [exact I1|]. split; [intros x Hx; apply I2; apply in_or_app; left; exact Hx|]. split; [exact I3|].
      intros e [<-|He]; [|apply I4; exact He]. cbn [main_refs service_refs topic_refs].
      split; [apply refs_imported_nil|]. split; [|apply refs_imported_nil].
      unfold J5sConvert.cv_service in E. apply obind_ok in E. destruct E as ([[m1 d1] i1] & E & E'). inversion E'. subst.
      eapply refs_imported_incl; [|eapply methods_imports; exact E]. intros x Hx. apply I2. apply in_or_app. right. exact Hx.
    + apply obind_ok in H. destruct H as ([[ms ss] is] & E & H).
      destruct (IH _ _ _ _ _ _ H) as (I1 & I2 & I3 & I4). cbn [facc_add fa_imports] in I3.
      split; [exact I1|]. split; [exact I2|]. split; [intros x Hx; apply I3; apply in_or_app; left; exact Hx|].
      intros e [<-|He]; [|apply I4; exact He]. cbn [main_refs service_refs topic_refs].
      split; [apply refs_imported_nil|]. split; [apply refs_imported_nil|].
      eapply refs_imported_incl; [|eapply topic_imports; exact E]. intros x Hx. apply I3. apply in_or_app. right. exact Hx.
Qed.

End Deps.

(* ------------------------------------------------------------------ files and packages *)
Definition target_reached (rf_file : str) (df : dfile) : Prop :=
  rf_file = fl_path df \/ In rf_file (fl_deps df).

Lemma deps_reach path pkg a x : In x (fa_imports a) -> target_reached x (mk_file path pkg a).
Proof.
  intros Hin. unfold target_reached, mk_file. cbn [fl_path fl_deps].
  destruct (str_eqb x path) eqn:E; [left; apply str_eqb_eq; exact E|right].
  apply in_deps_of; [exact Hin|]. intros ->. rewrite str_eqb_refl in E. discriminate.
Qed.

Lemma link_file_deps df df' : link_file df = Ok df' -> fl_deps df' = fl_deps df.
Proof. unfold link_file. intros H. apply obind_ok in H. destruct H as (ss & _ & H). inversion H. reflexivity. Qed.

Section DepsFiles.
Variables snake camel screaming : str -> str.

(* where the references of the declarations of a source file must be reachable from *)
Definition refs_reach (ev : env) (refs : list ref) (path : str) (D : list dfile) : Prop :=
  forall rf, In rf refs -> exists t df, resolve ev rf = Ok t /\ In df D /\ fl_path df = path /\ target_reached (tr_file t) df.

Definition file_refs_ok (ev : env) (f : jfile) (D : list dfile) : Prop :=
  forall e, In e (jf_elements f) ->
    refs_reach ev (main_refs e) (main_proto_path f) D /\
    refs_reach ev (service_refs e) (sub_proto_path f (b "service")) D /\
    refs_reach ev (topic_refs e) (sub_proto_path f (b "topic")) D.

Lemma service_refs_used e els : In e els -> service_refs e <> [] -> flat_map elem_services els <> [].
Proof.
  intros Hin Hne. destruct e; try (exfalso; apply Hne; reflexivity).
  intros Hnil. assert (Hs : In s (flat_map elem_services els)) by (apply in_flat_map; exists (EService s); split; [exact Hin|left; reflexivity]).
  rewrite Hnil in Hs. destruct Hs.
Qed.
Lemma topic_refs_used e els : In e els -> topic_refs e <> [] -> flat_map elem_topics els <> [].
Proof.
  intros Hin Hne. destruct e; try (exfalso; apply Hne; reflexivity).
  intros Hnil. assert (Hs : In t (flat_map elem_topics els)) by (apply in_flat_map; exists (ETopic t); split; [exact Hin|left; reflexivity]).
  rewrite Hnil in Hs. destruct Hs.
Qed.

Lemma cv_file_refs exports f D im :
  import_map (jf_imports f) [] = Ok im ->
  cv_file snake camel screaming exports f = Ok D ->
  file_refs_ok (mkEnv (j5s_pkg f) im exports) f D.
Proof.
  unfold cv_file. intros Him H. rewrite Him in H. cbn [obind] in H.
  apply obind_ok in H. destruct H as ([[m s] t] & E & H). inversion H. subst D. clear H.
  set (ev := mkEnv (j5s_pkg f) im exports) in *.
  destruct (cv_elements_imports snake camel screaming ev _ _ _ _ _ _ _ _ E) as (_ & _ & _ & I4).
  destruct (J5sSubPkgAux_used snake camel screaming _ _ _ _ _ _ _ _ _ E) as [Us Ut]. cbn [facc_nil fa_used orb] in Us, Ut.
  intros e He. destruct (I4 e He) as (Rm & Rs & Rt). split; [|split].
  - intros rf Hrf. destruct (Rm rf Hrf) as (tr & Hres & Hin). eexists tr, _. split; [exact Hres|].
    split; [left; reflexivity|]. split; [reflexivity|apply deps_reach; exact Hin].
  - intros rf Hrf. destruct (Rs rf Hrf) as (tr & Hres & Hin).
    assert (Hu : fa_used s = true).
    { rewrite Us. pose proof (service_refs_used e _ He) as Hne.
      destruct (flat_map elem_services (jf_elements f)); [exfalso; apply Hne; [intros Hn; rewrite Hn in Hrf; destruct Hrf|reflexivity]|reflexivity]. }
    eexists tr, _. split; [exact Hres|]. split; [right; apply in_or_app; left; rewrite Hu; left; reflexivity|].
    split; [reflexivity|apply deps_reach; exact Hin].
  - intros rf Hrf. destruct (Rt rf Hrf) as (tr & Hres & Hin).
    assert (Hu : fa_used t = true).
    { rewrite Ut. pose proof (topic_refs_used e _ He) as Hne.
      destruct (flat_map elem_topics (jf_elements f)); [exfalso; apply Hne; [intros Hn; rewrite Hn in Hrf; destruct Hrf|reflexivity]|reflexivity]. }
    eexists tr, _. split; [exact Hres|]. split; [right; apply in_or_app; right; rewrite Hu; left; reflexivity|].
    split; [reflexivity|apply deps_reach; exact Hin].
Qed.

Lemma refs_reach_link ev refs path D D' :
  link_files D = Ok D' -> refs_reach ev refs path D -> refs_reach ev refs path D'.
Proof.
  intros Hl H rf Hrf. destruct (H rf Hrf) as (t & df & Hres & Hin & Hp & Ht).
  destruct (link_files_of _ _ _ Hl Hin) as (df' & Hin' & Hl'). exists t, df'.
  split; [exact Hres|]. split; [exact Hin'|]. split; [rewrite (link_file_path _ _ Hl'); exact Hp|].
  unfold target_reached in *. rewrite (link_file_path _ _ Hl'), (link_file_deps _ _ Hl'). exact Ht.
Qed.

Lemma refs_reach_incl ev refs path D D' : incl D D' -> refs_reach ev refs path D -> refs_reach ev refs path D'.
Proof.
  intros Hi H rf Hrf. destruct (H rf Hrf) as (t & df & Hres & Hin & Hp & Ht). exists t, df. auto.
Qed.

(* whatever compiles: every reference of every declaration of the package resolves, and the file
   defining the target is the generated file the declaration goes to or one of its dependencies *)
Theorem compile_refs_imported bd pkg D :
  compile_package snake camel screaming bd pkg = Ok D ->
  forall f im, In (BJ f) bd -> j5s_pkg f = pkg -> import_map (jf_imports f) [] = Ok im ->
  file_refs_ok (mkEnv (j5s_pkg f) im (pkg_exports camel bd)) f D.
Proof.
  intros HD f im Hin Hp Him.
  destruct (compile_package_inv snake camel screaming _ _ _ HD) as (fs & Efs & _ & El & _).
  unfold convert_package in Efs. destruct (pkg_files bd pkg) as [|x0 r0] eqn:Epf; [discriminate|].
  rewrite <- Epf in Efs. destruct (cv_files_split snake camel screaming _ _ _ Efs) as [I1 _].
  destruct (I1 f (in_pkg_files _ _ _ Hin Hp)) as (Df & Hc & Hi).
  pose proof (cv_file_refs _ _ _ _ Him Hc) as Hok.
  intros e He. destruct (Hok e He) as (A & B & C).
  repeat split; eapply refs_reach_link; try exact El; eapply refs_reach_incl; try exact Hi; assumption.
Qed.

End DepsFiles.

(* CmpbBytesProofs.v — C14 over concrete outputs (model/CmpbBytes.v): two runs that differ in the package listing, the
   file listing, every map-iteration order, the fuels, the history of earlier CompilePackage calls and protobuf's Range
   order return the same list of (file name, descriptor, printed tokens).
   Pieces: (1) a bundle is only read through find_pkg, and spec_pkg is invariant under permuting each package's file
   list (bundle_equiv); (2) flat_bundle / is_local_of under permutations of the two listings; (3) spec_link is
   extensional in the lookup; (4) composition with compile_and_link_spec for each run; (5) reorder with two Range orders
   gives Range-equivalent printer descriptors (CmpbPrintBridgeProofs.dfile_equiv), hence equal tokens. *)
From Coq Require Import String List Arith NArith ZArith Bool Lia Permutation Sorted.
From J5V.lib Require Import Outcome Strcase.
From J5V.model Require Import Desc J5sAst J5sWalk J5sConvert CmpbOrder CmpbInstance CmpbBytes.
From J5V.model Require ProtoPrintLit ProtoPrint ProtoPrintFile.
From J5V.proofs Require Import CmpbOrderProofs CmpbComposeProofs CmpbLinkTotalProofs.
From J5V.proofs Require CmpbPrintBridgeProofs.
Import ListNotations.
Module BR := CmpbPrintBridgeProofs.

(* ------------------------------------------------------------------ small list facts *)
Lemma existsb_perm {A} (g : A -> bool) l1 l2 : Permutation l1 l2 -> existsb g l1 = existsb g l2.
Proof.
  induction 1 as [|x l l' _ IH|x y l|l l' l'' _ IH1 _ IH2]; cbn [existsb].
  - reflexivity.
  - rewrite IH. reflexivity.
  - destruct (g x), (g y); reflexivity.
  - congruence.
Qed.
Lemma fst_snd_eq {A B} : forall (l1 l2 : list (A * B)), map fst l1 = map fst l2 -> map snd l1 = map snd l2 -> l1 = l2.
Proof.
  induction l1 as [|[a x] r IH]; intros [|[c y] s] H1 H2; cbn [map fst snd] in *; try discriminate; [reflexivity|].
  inversion H1; inversion H2; subst. f_equal. apply IH; assumption.
Qed.

(* ------------------------------------------------------------------ (1) bundles read through find_pkg *)
Section BundleEquiv.
  Context {F D : Type}.
  Variable convert : env -> @srcfile F -> bytes -> D.

  (* the same packages, each with a permutation of the same files *)
  Definition bundle_equiv (b1 b2 : @bundle F) : Prop :=
    forall n, match find_pkg n b1, find_pkg n b2 with
              | Some f1, Some f2 => Permutation f1 f2
              | None, None => True
              | _, _ => False
              end.
  Lemma bundle_equiv_sym b1 b2 : bundle_equiv b1 b2 -> bundle_equiv b2 b1.
  Proof.
    intros H n. specialize (H n). destruct (find_pkg n b1), (find_pkg n b2); try exact H. apply Permutation_sym. exact H.
  Qed.

  Lemma valid_pkg_perm (f1 f2 : list (@srcfile F)) : Permutation f1 f2 -> valid_pkg f1 -> valid_pkg f2.
  Proof.
    intros Hp [A B]. split.
    - apply (Permutation_NoDup (Permutation_map fst (all_exports_perm _ _ Hp))). exact A.
    - apply (Permutation_NoDup (concat_map_perm f_outputs _ _ Hp)). exact B.
  Qed.
  Lemma valid_equiv b1 b2 : bundle_equiv b1 b2 -> valid b1 -> valid b2.
  Proof.
    intros He Hv n fs H. specialize (He n). rewrite H in He.
    destruct (find_pkg n b1) as [f1|] eqn:E; [|contradiction].
    apply (valid_pkg_perm f1 fs He). apply (Hv n). exact E.
  Qed.

  Lemma spec_exports_equiv b1 b2 : bundle_equiv b1 b2 -> valid b1 -> forall d, spec_exports b1 d = spec_exports b2 d.
  Proof.
    intros He Hv d. unfold spec_exports. specialize (He d).
    destruct (find_pkg d b1) as [f1|] eqn:E1; destruct (find_pkg d b2) as [f2|] eqn:E2; try contradiction; [|reflexivity].
    apply collect_exports_perm; [apply (Hv d); exact E1|exact He].
  Qed.

  (* what a package IS does not depend on the order in which the bundle holds its files *)
  Theorem spec_pkg_equiv b1 b2 : bundle_equiv b1 b2 -> valid b1 -> forall n, spec_pkg convert b1 n = spec_pkg convert b2 n.
  Proof.
    intros He Hv n. unfold spec_pkg. pose proof (He n) as Hn.
    destruct (find_pkg n b1) as [f1|] eqn:E1; destruct (find_pkg n b2) as [f2|] eqn:E2; try contradiction; [|reflexivity].
    assert (Hv1 : valid_pkg f1) by (apply (Hv n); exact E1).
    assert (Eown : collect_exports f1 = collect_exports f2) by (apply collect_exports_perm; assumption).
    assert (Edn : dep_names n f1 = dep_names n f2) by (unfold dep_names; rewrite (collect_deps_perm n f1 f2 Hn); reflexivity).
    assert (Eds : map (fun d => (d, spec_exports b1 d)) (dep_names n f1) = map (fun d => (d, spec_exports b2 d)) (dep_names n f2)).
    { rewrite Edn. apply List.map_ext. intro d. rewrite (spec_exports_equiv b1 b2 He Hv d). reflexivity. }
    cbv zeta. rewrite Eown, Eds. f_equal.
    apply set_all_perm; [apply keys_sorted_nil| |apply concat_map_perm; exact Hn].
    rewrite outputs_keys. exact (proj2 Hv1).
  Qed.
End BundleEquiv.

(* ------------------------------------------------------------------ (2) the two listings *)
Lemma find_pkg_flat {F} (pkgs : list bytes) (files : list (@srcfile F)) n :
  find_pkg n (flat_bundle pkgs files) = if existsb (beqb n) pkgs then Some (filter (in_package n) files) else None.
Proof.
  unfold flat_bundle. induction pkgs as [|p r IH]; cbn [map find_pkg existsb]; [reflexivity|].
  destruct (beqb n p) eqn:E; cbn [orb]; [|exact IH].
  apply beqb_eq in E. subst p. reflexivity.
Qed.

(* ListPackages and the file listing in any order: the same bundle up to the order of each package's files *)
Lemma flat_bundle_equiv {F} pkgs1 pkgs2 (files1 files2 : list (@srcfile F)) :
  Permutation pkgs1 pkgs2 -> Permutation files1 files2 -> bundle_equiv (flat_bundle pkgs1 files1) (flat_bundle pkgs2 files2).
Proof.
  intros Hp Hf n. rewrite !find_pkg_flat, (existsb_perm (beqb n) _ _ Hp).
  destruct (existsb (beqb n) pkgs2); [|exact I]. apply filter_perm. exact Hf.
Qed.

(* hasAPrefix over localPrefixes: whether a file is local does not depend on the package listing order *)
Lemma is_local_of_perm pkgs1 pkgs2 path : Permutation pkgs1 pkgs2 -> is_local_of pkgs1 path = is_local_of pkgs2 path.
Proof.
  intro Hp. unfold is_local_of, has_a_prefix, local_prefixes. apply existsb_perm. apply Permutation_map. exact Hp.
Qed.

(* ------------------------------------------------------------------ (3) linking is extensional in findFileByPath *)
Section LinkExt.
  Context {D L : Type}.
  Variable lk1 lk2 : bytes -> option D.
  Variable deps_of : D -> list bytes.
  Variable link1 : D -> list L -> L.
  Hypothesis Hext : forall n, lk1 n = lk2 n.

  Lemma spec_link_ext : forall f n, spec_link lk1 deps_of link1 f n = spec_link lk2 deps_of link1 f n.
  Proof.
    induction f as [|f IH]; intro n; cbn [spec_link]; [reflexivity|].
    rewrite Hext. destruct (lk2 n) as [d|]; [|reflexivity].
    assert (E : forall ds,
      fold_right (fun dep acc => match spec_link lk1 deps_of link1 f dep, acc with Some l, Some ls => Some (l :: ls) | _, _ => None end) (Some []) ds
      = fold_right (fun dep acc => match spec_link lk2 deps_of link1 f dep, acc with Some l, Some ls => Some (l :: ls) | _, _ => None end) (Some []) ds).
    { induction ds as [|x r IHr]; cbn [fold_right]; [reflexivity|]. rewrite IH, IHr. reflexivity. }
    rewrite E. reflexivity.
  Qed.
  Lemma spec_list_ext f ds : spec_list lk1 deps_of link1 f ds = spec_list lk2 deps_of link1 f ds.
  Proof.
    unfold spec_list. induction ds as [|x r IHr]; cbn [fold_right]; [reflexivity|]. rewrite spec_link_ext, IHr. reflexivity.
  Qed.
End LinkExt.

(* ------------------------------------------------------------------ (4) CompilePackage of two runs *)
Section Runs.
  Variable bd : J5sAst.bundle.
  Variable exts : list Desc.dfile.
  Variable pkgs : list bytes.
  Notation b0 := (flat_bundle pkgs (src_files bd)).
  Notation conv := (cmpa_convert bd).

  Lemma run_bundle_equiv r : run_ok pkgs bd r -> bundle_equiv b0 (flat_bundle (r_pkgs r) (r_files r)).
  Proof.
    intros (Hp & Hf & _). apply flat_bundle_equiv; apply Permutation_sym; assumption.
  Qed.

  (* one run against the reference: names and linked files as the canonical listing determines them *)
  Lemma compile_run_spec r n out : valid b0 -> run_ok pkgs bd r -> compile_run bd exts r n = Some out ->
    map fst out = map fst (p_files (spec_pkg conv b0 n))
    /\ exists f, spec_list (spec_lookup conv split_owner (is_local_of pkgs) (c_ext_file exts) b0) c_deps_of c_link1 f
                           (map fst (p_files (spec_pkg conv b0 n))) = Some (map snd out).
  Proof.
    intros Hv Hr H. pose proof (run_bundle_equiv r Hr) as He.
    destruct Hr as (Hp & Hf & P1 & P2 & P3 & _).
    assert (Hvr : valid (flat_bundle (r_pkgs r) (r_files r))) by (apply (valid_equiv _ _ He); exact Hv).
    unfold compile_run in H.
    set (br := flat_bundle (r_pkgs r) (r_files r)) in *.
    set (h := compile_link_seq _ _ _ _ _ _ _ _ _ _ _ _ _ _ _) in H.
    destruct (compile_and_link conv (r_lf r) (r_rd r) (r_rf r) split_owner (is_local_of (r_pkgs r)) (c_ext_file exts)
                c_deps_of c_link1 (r_fuel r) (r_lfuel r) br (fst h) (snd h) n) as [[[pc lc] o]|] eqn:E; [|discriminate].
    inversion H; subst o. clear H.
    assert (Hok : both_ok conv split_owner (is_local_of (r_pkgs r)) (c_ext_file exts) c_deps_of c_link1 br (fst h) (snd h)).
    { apply compile_link_seq_ok; try assumption. apply both_ok_nil. }
    destruct (compile_and_link_spec conv split_owner (is_local_of (r_pkgs r)) (c_ext_file exts) c_deps_of c_link1
                (r_lf r) (r_rd r) (r_rf r) P1 P2 P3 br Hvr _ _ _ _ _ _ _ _ Hok E) as (_ & En & f & Es).
    assert (Esp : forall q, spec_pkg conv br q = spec_pkg conv b0 q).
    { intro q. symmetry. apply spec_pkg_equiv; assumption. }
    rewrite Esp in En, Es. split; [exact En|]. exists f. rewrite <- Es. apply spec_list_ext.
    intro p. unfold spec_lookup. rewrite (is_local_of_perm _ _ p Hp), Esp. reflexivity.
  Qed.

  (* CompilePackage: package listing, file listing, map orders, fuels, histories - the same linked files *)
  Theorem compile_run_deterministic r1 r2 n out1 out2 : valid b0 -> run_ok pkgs bd r1 -> run_ok pkgs bd r2 ->
    compile_run bd exts r1 n = Some out1 -> compile_run bd exts r2 n = Some out2 -> out1 = out2.
  Proof.
    intros Hv H1 H2 E1 E2.
    destruct (compile_run_spec r1 n out1 Hv H1 E1) as (N1 & f1 & S1).
    destruct (compile_run_spec r2 n out2 Hv H2 E2) as (N2 & f2 & S2).
    apply fst_snd_eq; [congruence|]. exact (spec_list_functional _ _ _ _ _ _ _ _ S1 S2).
  Qed.
End Runs.

(* ------------------------------------------------------------------ (4b) every run returns *)
(* the hypotheses of compile_package_linked_total move along bundle_equiv and along an extensionally equal is_local *)
Section Transfer.
  Context {F D : Type}.
  Variable convert : env -> @srcfile F -> bytes -> D.
  Variable owner : bytes -> bytes.
  Variable loc1 loc2 : bytes -> bool.
  Variable ext_file : bytes -> option D.
  Variable deps_of : D -> list bytes.
  Variable b1 b2 : @bundle F.
  Hypothesis He : bundle_equiv b1 b2.
  Hypothesis Hv : valid b1.
  Hypothesis Hloc : forall p, loc1 p = loc2 p.

  Lemma find_pkg_equiv n f2 : find_pkg n b2 = Some f2 -> exists f1, find_pkg n b1 = Some f1 /\ Permutation f1 f2.
  Proof.
    intro H. pose proof (He n) as Hn. rewrite H in Hn. destruct (find_pkg n b1) as [f1|]; [|contradiction]. eauto.
  Qed.
  Lemma find_pkg_present n : find_pkg n b1 <> None -> find_pkg n b2 <> None.
  Proof.
    intro H. pose proof (He n) as Hn. destruct (find_pkg n b1); [|congruence]. destruct (find_pkg n b2); [discriminate|contradiction].
  Qed.
  Lemma dep_names_perm n (f1 f2 : list (@srcfile F)) : Permutation f1 f2 -> dep_names n f1 = dep_names n f2.
  Proof. intro Hp. unfold dep_names. rewrite (collect_deps_perm n f1 f2 Hp). reflexivity. Qed.

  Lemma well_founded_deps_equiv rank : well_founded_deps b1 rank -> well_founded_deps b2 rank.
  Proof.
    intros Hw n f2 H d Hd. destruct (find_pkg_equiv n f2 H) as (f1 & E1 & Hp).
    rewrite <- (dep_names_perm n f1 f2 Hp) in Hd. destruct (Hw n f1 E1 d Hd) as [A B].
    split; [apply find_pkg_present; exact A|exact B].
  Qed.
  Lemma spec_lookup_equiv p :
    spec_lookup convert owner loc2 ext_file b2 p = spec_lookup convert owner loc1 ext_file b1 p.
  Proof. unfold spec_lookup. rewrite <- Hloc, (spec_pkg_equiv convert b1 b2 He Hv). reflexivity. Qed.
  Lemma owner_ok_equiv : owner_ok convert owner loc1 b1 -> owner_ok convert owner loc2 b2.
  Proof.
    intros Ho q o d H. rewrite <- (spec_pkg_equiv convert b1 b2 He Hv) in H. rewrite <- Hloc. exact (Ho q o d H).
  Qed.
  Lemma imports_wf_equiv frank :
    imports_wf convert owner loc1 ext_file deps_of b1 frank -> imports_wf convert owner loc2 ext_file deps_of b2 frank.
  Proof.
    intros [Hw Hx]. split.
    - intros q f2 o d Hf H dep Hdep. destruct (find_pkg_equiv q f2 Hf) as (f1 & E1 & Hp).
      rewrite <- (spec_pkg_equiv convert b1 b2 He Hv) in H.
      destruct (Hw q f1 o d E1 H dep Hdep) as (A & B & C). rewrite spec_lookup_equiv, <- Hloc, <- (dep_names_perm q f1 f2 Hp).
      split; [exact A|split; [exact B|exact C]].
    - intros n d Hl Hd dep Hdep. rewrite <- Hloc in Hl. destruct (Hx n d Hl Hd dep Hdep) as (A & B & C).
      rewrite <- Hloc. split; [exact A|split; [exact B|exact C]].
  Qed.
End Transfer.

Section RunsTotal.
  Variable bd : J5sAst.bundle.
  Variable exts : list Desc.dfile.
  Variable pkgs : list bytes.
  Notation b0 := (flat_bundle pkgs (src_files bd)).
  Notation conv := (cmpa_convert bd).

  (* the run with the canonical listings, identity orders, no history *)
  Definition ref_run (fuel lfuel : nat) : run :=
    mkRun pkgs (src_files bd) (fun _ l => l) (fun _ l => l) (fun _ l => l) fuel lfuel [] (fun l => l).
  Lemma ref_run_ok fuel lfuel : run_ok pkgs bd (ref_run fuel lfuel).
  Proof. unfold run_ok, perm_fun. cbn. repeat split; intros; apply Permutation_refl. Qed.

  (* CompilePackage returns in EVERY run, and returns the same linked files *)
  Theorem compile_run_total rank frank n :
    valid b0 -> well_founded_deps b0 rank -> owner_ok conv split_owner (is_local_of pkgs) b0 ->
    imports_wf conv split_owner (is_local_of pkgs) (c_ext_file exts) c_deps_of b0 frank ->
    find_pkg n b0 <> None ->
    exists out, forall r, run_ok pkgs bd r -> (rank n < r_fuel r)%nat ->
      (forall o, In o (map fst (p_files (spec_pkg conv b0 n))) -> (frank o < r_lfuel r)%nat) ->
      compile_run bd exts r n = Some out.
  Proof.
    intros Hv Hw Ho Hi Hf.
    assert (Hevery : forall r, run_ok pkgs bd r -> (rank n < r_fuel r)%nat ->
      (forall o, In o (map fst (p_files (spec_pkg conv b0 n))) -> (frank o < r_lfuel r)%nat) ->
      exists out, compile_run bd exts r n = Some out).
    { intros r Hr Hfu Hlf. pose proof (run_bundle_equiv bd pkgs r Hr) as He.
      destruct Hr as (Hp & Hfl & P1 & P2 & P3 & _).
      set (br := flat_bundle (r_pkgs r) (r_files r)) in *.
      assert (Hloc : forall p, is_local_of pkgs p = is_local_of (r_pkgs r) p).
      { intro p. apply is_local_of_perm. apply Permutation_sym. exact Hp. }
      destruct (compile_package_linked_total conv split_owner (is_local_of (r_pkgs r)) (c_ext_file exts) c_deps_of c_link1
                  br rank frank (valid_equiv _ _ He Hv) (well_founded_deps_equiv _ _ He rank Hw)
                  (owner_ok_equiv conv split_owner _ _ _ _ He Hv Hloc Ho)
                  (imports_wf_equiv conv split_owner _ _ (c_ext_file exts) c_deps_of _ _ He Hv Hloc frank Hi)
                  n (find_pkg_present _ _ He n Hf)) as [out H].
      specialize (H (r_lf r) (r_rd r) (r_rf r) P1 P2 P3 (r_fuel r) (r_lfuel r) (r_earlier r) Hfu).
      destruct H as (pc & lc & E).
      - intros o Hin. apply Hlf. rewrite (spec_pkg_equiv conv _ _ He Hv). exact Hin.
      - exists out. unfold compile_run. fold br. cbv zeta in E. rewrite E. reflexivity. }
    set (lf0 := S (list_max (map frank (map fst (p_files (spec_pkg conv b0 n)))))).
    assert (Hl0 : forall o, In o (map fst (p_files (spec_pkg conv b0 n))) -> (frank o < lf0)%nat).
    { intros o Hin. unfold lf0. pose proof (proj1 (list_max_le (map frank (map fst (p_files (spec_pkg conv b0 n)))) _) (le_n _)) as Hall.
      rewrite Forall_forall in Hall. specialize (Hall (frank o) (in_map frank _ _ Hin)). lia. }
    destruct (Hevery (ref_run (S (rank n)) lf0) (ref_run_ok _ _) (Nat.lt_succ_diag_r _) Hl0) as [out0 E0].
    exists out0. intros r Hr Hfu Hlf. destruct (Hevery r Hr Hfu Hlf) as [out E].
    rewrite E. f_equal. exact (compile_run_deterministic bd exts pkgs r (ref_run (S (rank n)) lf0) n out out0 Hv Hr (ref_run_ok _ _) E E0).
  Qed.
End RunsTotal.

(* ------------------------------------------------------------------ (4c) any state of the PackageSet *)
Section TransferCaches.
  Context {F D L : Type}.
  Variable convert : env -> @srcfile F -> bytes -> D.
  Variable owner : bytes -> bytes.
  Variable loc1 loc2 : bytes -> bool.
  Variable ext_file : bytes -> option D.
  Variable deps_of : D -> list bytes.
  Variable link1 : D -> list L -> L.
  Variable b1 b2 : @bundle F.
  Hypothesis He : bundle_equiv b1 b2.
  Hypothesis Hv : valid b1.
  Hypothesis Hloc : forall p, loc1 p = loc2 p.

  Lemma cache_closed_equiv (c : list (bytes * @pkg D)) : cache_closed b1 c -> cache_closed b2 c.
  Proof.
    intros Hc q f2 Hp Hf d Hd. destruct (find_pkg_equiv b1 b2 He q f2 Hf) as (f1 & E1 & Hperm).
    rewrite <- (dep_names_perm q f1 f2 Hperm) in Hd. exact (Hc q f1 Hp E1 d Hd).
  Qed.
  Lemma both_ok_equiv pc lc :
    both_ok convert owner loc1 ext_file deps_of link1 b1 pc lc -> both_ok convert owner loc2 ext_file deps_of link1 b2 pc lc.
  Proof.
    intros [[S1 H1] [S2 H2]]. split; split; try assumption.
    - intros n p Hn. rewrite <- (spec_pkg_equiv convert b1 b2 He Hv). exact (H1 n p Hn).
    - intros n l Hn. destruct (H2 n l Hn) as [f Hf]. exists f. rewrite <- Hf. apply spec_link_ext.
      intro p. apply (spec_lookup_equiv convert owner loc1 loc2 ext_file b1 b2 He Hv Hloc).
  Qed.
End TransferCaches.

Section RunsAnyState.
  Variable bd : J5sAst.bundle.
  Variable exts : list Desc.dfile.
  Variable pkgs : list bytes.
  Notation b0 := (flat_bundle pkgs (src_files bd)).
  Notation conv := (cmpa_convert bd).

  (* the PackageSet may be in ANY state that holds only what loading / linking produce for this source set and is closed
     under dependencies (what every earlier call, successful or failed, leaves): the call returns the same linked files *)
  Theorem compile_from_total rank frank n :
    valid b0 -> well_founded_deps b0 rank -> owner_ok conv split_owner (is_local_of pkgs) b0 ->
    imports_wf conv split_owner (is_local_of pkgs) (c_ext_file exts) c_deps_of b0 frank ->
    find_pkg n b0 <> None ->
    exists out, forall r pc lc, run_ok pkgs bd r ->
      both_ok conv split_owner (is_local_of pkgs) (c_ext_file exts) c_deps_of c_link1 b0 pc lc -> cache_closed b0 pc ->
      (rank n < r_fuel r)%nat ->
      (forall o, In o (map fst (p_files (spec_pkg conv b0 n))) -> (frank o < r_lfuel r)%nat) ->
      compile_from bd exts r pc lc n = Some out.
  Proof.
    intros Hv Hw Ho Hi Hf.
    destruct (compile_run_total bd exts pkgs rank frank n Hv Hw Ho Hi Hf) as [out0 H0].
    exists out0. intros r pc lc Hr Hok Hcl Hfu Hlf.
    pose proof (run_bundle_equiv bd pkgs r Hr) as He.
    pose proof Hr as (Hp & Hfl & P1 & P2 & P3 & _).
    set (br := flat_bundle (r_pkgs r) (r_files r)) in *.
    assert (Hloc : forall p, is_local_of pkgs p = is_local_of (r_pkgs r) p).
    { intro p. apply is_local_of_perm. apply Permutation_sym. exact Hp. }
    destruct (compile_and_link_total_deterministic conv split_owner (is_local_of (r_pkgs r)) (c_ext_file exts) c_deps_of c_link1
                br rank frank (valid_equiv _ _ He Hv) (well_founded_deps_equiv _ _ He rank Hw)
                (owner_ok_equiv conv split_owner _ _ _ _ He Hv Hloc Ho)
                (imports_wf_equiv conv split_owner _ _ (c_ext_file exts) c_deps_of _ _ He Hv Hloc frank Hi)
                n (find_pkg_present _ _ He n Hf)) as [out H].
    assert (Hlf' : forall o, In o (map fst (p_files (spec_pkg conv br n))) -> (frank o < r_lfuel r)%nat).
    { intros o Hin. apply Hlf. rewrite (spec_pkg_equiv conv _ _ He Hv). exact Hin. }
    destruct (H (r_lf r) (r_rd r) (r_rf r) P1 P2 P3 (r_fuel r) (r_lfuel r) pc lc
                (both_ok_equiv conv split_owner _ _ (c_ext_file exts) c_deps_of c_link1 _ _ He Hv Hloc pc lc Hok)
                (cache_closed_equiv _ _ He pc Hcl) Hfu Hlf') as (pc' & lc' & E).
    (* the same [out] is what this run returns from its own empty history *)
    pose proof (H0 (mkRun (r_pkgs r) (r_files r) (r_lf r) (r_rd r) (r_rf r) (r_fuel r) (r_lfuel r) [] (r_range r))) as E0.
    unfold compile_run in E0. cbn [r_pkgs r_files r_lf r_rd r_rf r_fuel r_lfuel r_earlier compile_link_seq fst snd] in E0.
    fold br in E0.
    destruct (H (r_lf r) (r_rd r) (r_rf r) P1 P2 P3 (r_fuel r) (r_lfuel r) [] []
                (both_ok_nil conv split_owner _ (c_ext_file exts) c_deps_of c_link1 br) (cache_closed_nil br) Hfu Hlf') as (pc2 & lc2 & E2).
    rewrite E2 in E0. unfold compile_from. fold br. rewrite E.
    assert (Hr0 : run_ok pkgs bd (mkRun (r_pkgs r) (r_files r) (r_lf r) (r_rd r) (r_rf r) (r_fuel r) (r_lfuel r) [] (r_range r))).
    { unfold run_ok. cbn. destruct Hr as (A & B & C & D0 & E' & G). repeat split; assumption. }
    specialize (E0 Hr0 Hfu Hlf). exact E0.
  Qed.
End RunsAnyState.

(* ------------------------------------------------------------------ (5) Range orders *)
Definition keys_distinct (o : list PF.dopt) : Prop :=
  forall a c, In a o -> In c o -> BR.dopt_key a = BR.dopt_key c -> a = c.
Definition field_ok (f : PF.dfield) : Prop := keys_distinct (PF.f_opts f).
Definition value_ok (v : PF.dvalue) : Prop := keys_distinct (PF.v_opts v).
Definition method_ok (m : PF.dmethod) : Prop := keys_distinct (PF.m_opts m).
Fixpoint elem_ok (e : PF.delem) {struct e} : Prop :=
  match e with
  | PF.DField f => field_ok f
  | PF.DOneof _ _ _ o fs => keys_distinct o /\ Forall field_ok fs
  | PF.DMsg _ _ _ o body =>
      keys_distinct o /\ (fix go (l : list PF.delem) : Prop := match l with [] => True | x :: r => elem_ok x /\ go r end) body
  | PF.DEnum _ _ _ o vs => keys_distinct o /\ Forall value_ok vs
  | PF.DService _ _ _ o ms => keys_distinct o /\ Forall method_ok ms
  end.
Fixpoint elems_ok (l : list PF.delem) : Prop := match l with [] => True | x :: r => elem_ok x /\ elems_ok r end.
(* every option list of the descriptor holds options with pairwise different sort keys (line, index, full name): an
   options message holds at most one value per extension *)
Definition file_ok (d : PF.dfile) : Prop := Forall (fun xf => field_ok (snd xf)) (PF.d_exts d) /\ elems_ok (PF.d_body d).

Lemma elem_ok_msg k c n o body : elem_ok (PF.DMsg k c n o body) <-> keys_distinct o /\ elems_ok body.
Proof.
  cbn [elem_ok]. assert (E : forall l, (fix go (l : list PF.delem) : Prop := match l with [] => True | x :: r => elem_ok x /\ go r end) l <-> elems_ok l).
  { induction l as [|x r IH]; cbn [elems_ok]; [tauto|]. rewrite IH. tauto. }
  rewrite E. tauto.
Qed.
Lemma reorder_msg rng k c n o body :
  reorder_elem rng (PF.DMsg k c n o body) = PF.DMsg k c n (rng o) (map (reorder_elem rng) body).
Proof.
  reflexivity.
Qed.
Lemma delem_equiv_msg k1 c1 n1 o1 b1 k2 c2 n2 o2 b2 :
  BR.delem_equiv (PF.DMsg k1 c1 n1 o1 b1) (PF.DMsg k2 c2 n2 o2 b2)
  <-> k1 = k2 /\ c1 = c2 /\ n1 = n2 /\ BR.opts_equiv o1 o2 /\ BR.delems_equiv b1 b2.
Proof.
  cbn [BR.delem_equiv].
  assert (E : forall l1 l2, (fix go (l1 l2 : list PF.delem) {struct l1} : Prop :=
                               match l1, l2 with
                               | [], [] => True
                               | x :: r, y :: s => BR.delem_equiv x y /\ go r s
                               | _, _ => False
                               end) l1 l2 <-> BR.delems_equiv l1 l2).
  { induction l1 as [|x r IH]; intros [|y s]; cbn [BR.delems_equiv]; try tauto. all: rewrite IH; tauto. }
  rewrite E. tauto.
Qed.

Section Range.
  Variable rng1 rng2 : list PF.dopt -> list PF.dopt.
  Hypothesis P1 : perm_fun rng1.
  Hypothesis P2 : perm_fun rng2.

  Lemma opts_reordered o : keys_distinct o -> BR.opts_equiv (rng1 o) (rng2 o).
  Proof.
    intro Hd. split.
    - eapply perm_trans; [apply P1|apply Permutation_sym, P2].
    - intros a c Ha Hc. apply Hd; apply (Permutation_in _ (P1 o)); assumption.
  Qed.
  Lemma field_reordered f : field_ok f -> BR.field_equiv (reorder_field rng1 f) (reorder_field rng2 f).
  Proof. intro H. unfold BR.field_equiv, reorder_field. cbn. repeat split; try reflexivity; apply (opts_reordered _ H). Qed.
  Lemma value_reordered v : value_ok v -> BR.value_equiv (reorder_value rng1 v) (reorder_value rng2 v).
  Proof. intro H. unfold BR.value_equiv, reorder_value. cbn. repeat split; try reflexivity; apply (opts_reordered _ H). Qed.
  Lemma method_reordered m : method_ok m -> BR.method_equiv (reorder_method rng1 m) (reorder_method rng2 m).
  Proof. intro H. unfold BR.method_equiv, reorder_method. cbn. repeat split; try reflexivity; apply (opts_reordered _ H). Qed.
  Lemma forall2_map {A} (R : A -> A -> Prop) (g1 g2 : A -> A) (ok : A -> Prop) l :
    (forall a, ok a -> R (g1 a) (g2 a)) -> Forall ok l -> Forall2 R (map g1 l) (map g2 l).
  Proof. intros H Hl. induction Hl as [|a r Ha _ IH]; cbn [map]; constructor; [apply H; exact Ha|exact IH]. Qed.

  Lemma elem_reordered e : elem_ok e -> BR.delem_equiv (reorder_elem rng1 e) (reorder_elem rng2 e).
  Proof.
    induction e as [f|k c n o fs|k c n o body IH|k c n o vs|k c n o ms] using BR.delem_forall_ind; intro Hok.
    - cbn [reorder_elem BR.delem_equiv]. apply field_reordered. exact Hok.
    - destruct Hok as [Ho Hfs]. cbn [reorder_elem BR.delem_equiv].
      repeat split; try reflexivity; try apply (opts_reordered _ Ho). apply (forall2_map _ _ _ field_ok); [apply field_reordered|exact Hfs].
    - destruct (proj1 (elem_ok_msg _ _ _ _ _) Hok) as [Ho Hb]. rewrite !reorder_msg. apply delem_equiv_msg.
      repeat split; try reflexivity; try apply (opts_reordered _ Ho).
      clear Ho Hok. induction IH as [|x r Hx _ IHr]; cbn [map BR.delems_equiv]; [exact I|].
      cbn [elems_ok] in Hb. destruct Hb as [Hbx Hbr]. split; [apply Hx; exact Hbx|apply IHr; exact Hbr].
    - destruct Hok as [Ho Hvs]. cbn [reorder_elem BR.delem_equiv].
      repeat split; try reflexivity; try apply (opts_reordered _ Ho). apply (forall2_map _ _ _ value_ok); [apply value_reordered|exact Hvs].
    - destruct Hok as [Ho Hms]. cbn [reorder_elem BR.delem_equiv].
      repeat split; try reflexivity; try apply (opts_reordered _ Ho). apply (forall2_map _ _ _ method_ok); [apply method_reordered|exact Hms].
  Qed.

  (* the descriptor as the printer receives it under two Range orders: Range-equivalent *)
  Theorem reorder_equiv d : file_ok d -> BR.dfile_equiv (reorder rng1 d) (reorder rng2 d).
  Proof.
    intros [Hx Hb]. unfold BR.dfile_equiv, reorder. cbn [PF.d_pkg PF.d_imports PF.d_fopts PF.d_exts PF.d_body].
    repeat split; try reflexivity.
    - induction Hx as [|xf r Hxf _ IH]; cbn [map]; constructor; [|exact IH].
      cbn [fst snd]. split; [reflexivity|apply field_reordered; exact Hxf].
    - induction (PF.d_body d) as [|x r IH]; cbn [map BR.delems_equiv]; [exact I|].
      cbn [elems_ok] in Hb. destruct Hb as [Hbx Hbr]. split; [apply elem_reordered; exact Hbx|apply IH; exact Hbr].
  Qed.

  (* ... and prints the same tokens *)
  Corollary reorder_prints_the_same st d : file_ok d ->
    PF.print_file_tokens st (reorder rng1 d) = PF.print_file_tokens st (reorder rng2 d).
  Proof. intro H. apply BR.print_file_tokens_range_order_free, reorder_equiv, H. Qed.
End Range.

(* ------------------------------------------------------------------ the printer's descriptor has what the table gives *)
(* every option list of [to_print ann l] is an [a_opts] of the annotation table *)
Definition ann_ok (ann : ann_table) : Prop := forall file kind path, keys_distinct (a_opts (ann file kind path)).

Lemma mapi_from_forall {A B} (P : B -> Prop) (g : N -> A -> B) : (forall i a, P (g i a)) -> forall l i, Forall P (mapi_from g i l).
Proof. intros H. induction l as [|x r IH]; intro i; cbn [mapi_from]; constructor; [apply H|apply IH]. Qed.
Lemma elems_ok_forall l : elems_ok l <-> Forall elem_ok l.
Proof.
  induction l as [|x r IH]; cbn [elems_ok].
  - split; intro; [constructor|exact I].
  - rewrite IH. split; [intros [A B]; constructor; assumption|intro H; inversion H; subst; split; assumption].
Qed.
Lemma forall_map_filter {A B} (P : B -> Prop) (g : A -> B) (t : A -> bool) l : Forall (fun x => P (g x)) l -> Forall P (map g (filter t l)).
Proof.
  induction 1 as [|x r Hx _ IH]; cbn [filter map]; [constructor|]. destruct (t x); cbn [map]; [constructor; assumption|exact IH].
Qed.

(* induction on cmpa's message descriptors with Forall on the nested messages *)
Fixpoint dmsg_nested_ind (P : dmsg -> Prop)
  (H : forall n k fs ms es, Forall P ms -> P (Desc.DMsg n k fs ms es)) (m : dmsg) {struct m} : P m :=
  match m with
  | Desc.DMsg n k fs ms es =>
      H n k fs ms es
        ((fix go (l : list dmsg) : Forall P l :=
            match l with
            | [] => Forall_nil P
            | x :: r => Forall_cons x (dmsg_nested_ind P H x) (go r)
            end) ms)
  end.

Section Ann.
  Variable ann : ann_table.
  Hypothesis Hann : ann_ok ann.

  Lemma field_of_ok file pkgs sib mpath i f : field_ok (field_of ann file pkgs sib mpath i f).
  Proof. unfold field_ok, field_of. cbn [PF.f_opts]. apply Hann. Qed.
  Lemma enum_of_ok file mpath i e : elem_ok (enum_of ann file mpath i e).
  Proof.
    unfold enum_of. cbn [elem_ok]. split; [apply Hann|]. unfold mapi. apply mapi_from_forall.
    intros j v. unfold value_ok. cbn [PF.v_opts]. apply Hann.
  Qed.
  Lemma msg_of_ok file pkgs : forall m mpath i, elem_ok (msg_of ann file pkgs mpath i m).
  Proof.
    induction m as [name k fs ms es IH] using dmsg_nested_ind. intros mpath i.
    cbn [msg_of]. apply elem_ok_msg. split; [apply Hann|]. apply elems_ok_forall.
    apply Forall_app; split; [|apply Forall_app; split; [|apply Forall_app; split]].
    - rewrite map_map. apply (forall_map_filter elem_ok (fun x => PF.DField (snd x))).
      unfold mapi. apply mapi_from_forall. intros j f. cbn [snd elem_ok]. apply field_of_ok.
    - match goal with |- Forall _ (match ?l with _ => _ end) => destruct l eqn:El end; [constructor|].
      constructor; [|constructor]. cbn [elem_ok]. split; [apply Hann|]. rewrite <- El.
      apply (forall_map_filter field_ok snd). unfold mapi. apply mapi_from_forall. intros j f. cbn [snd]. apply field_of_ok.
    - generalize 0%N. induction IH as [|x r Hx _ IHr]; intro j; [constructor|].
      apply Forall_app. split; [destruct (is_entry x); constructor; [apply Hx|constructor]|apply IHr].
    - unfold mapi. apply mapi_from_forall. intros j e. apply enum_of_ok.
  Qed.
  Lemma service_of_ok file pkgs i s : elem_ok (service_of ann file pkgs i s).
  Proof.
    unfold service_of. cbn [elem_ok]. split; [apply Hann|]. unfold mapi. apply mapi_from_forall.
    intros j m. unfold method_ok, method_of. cbn [PF.m_opts]. apply Hann.
  Qed.

  Theorem to_print_ok l : file_ok (to_print ann l).
  Proof.
    unfold to_print. destruct (l_desc l) as [d|]; split; cbn [PF.d_exts PF.d_body]; try constructor.
    apply elems_ok_forall. apply Forall_app; split; [|apply Forall_app; split]; unfold mapi; apply mapi_from_forall; intros j x.
    - apply msg_of_ok. - apply service_of_ok. - apply enum_of_ok.
  Qed.
End Ann.

(* ------------------------------------------------------------------ the headline *)
(* Two runs of "compile package n and print every file it returns" on the same source set and dependency set -
   differing in the package listing, the file listing, the three map-iteration orders, both fuels, the history of
   earlier CompilePackage calls on their PackageSets and protobuf's Range order - that both return, return the same
   files in the same order, each with the same descriptor and the same printed tokens. *)
Theorem output_deterministic bd exts ann pkgs n r1 r2 o1 o2 :
  valid (flat_bundle pkgs (src_files bd)) -> ann_ok ann ->
  run_ok pkgs bd r1 -> run_ok pkgs bd r2 ->
  compile_and_print bd exts ann r1 n = Some o1 -> compile_and_print bd exts ann r2 n = Some o2 -> o1 = o2.
Proof.
  intros Hv Ha H1 H2 E1 E2. unfold compile_and_print in E1, E2.
  destruct (compile_run bd exts r1 n) as [out1|] eqn:C1; [|discriminate].
  destruct (compile_run bd exts r2 n) as [out2|] eqn:C2; [|discriminate].
  inversion E1; inversion E2; subst.
  rewrite (compile_run_deterministic bd exts pkgs r1 r2 n out1 out2 Hv H1 H2 C1 C2).
  unfold render. apply List.map_ext. intro x. f_equal. unfold print_linked.
  apply reorder_prints_the_same; [apply H1|apply H2|apply to_print_ok; exact Ha].
Qed.

(* TOTAL form: on a valid bundle whose package dependencies and file imports are present and acyclic (the hypotheses of
   C14_compile_package_linked_total, stated for the canonical listing) there is ONE output that EVERY run returns *)
Theorem output_total_deterministic bd exts ann pkgs rank frank n :
  valid (flat_bundle pkgs (src_files bd)) -> well_founded_deps (flat_bundle pkgs (src_files bd)) rank ->
  owner_ok (cmpa_convert bd) split_owner (is_local_of pkgs) (flat_bundle pkgs (src_files bd)) ->
  imports_wf (cmpa_convert bd) split_owner (is_local_of pkgs) (c_ext_file exts) c_deps_of (flat_bundle pkgs (src_files bd)) frank ->
  find_pkg n (flat_bundle pkgs (src_files bd)) <> None -> ann_ok ann ->
  exists o, forall r, run_ok pkgs bd r -> (rank n < r_fuel r)%nat ->
    (forall f, In f (map fst (p_files (spec_pkg (cmpa_convert bd) (flat_bundle pkgs (src_files bd)) n))) -> (frank f < r_lfuel r)%nat) ->
    compile_and_print bd exts ann r n = Some o.
Proof.
  intros Hv Hw Ho Hi Hf Ha.
  destruct (compile_run_total bd exts pkgs rank frank n Hv Hw Ho Hi Hf) as [out H].
  exists (render ann (fun l => l) out). intros r Hr Hfu Hlf. unfold compile_and_print. rewrite (H r Hr Hfu Hlf). f_equal.
  unfold render. apply List.map_ext. intro x. f_equal. unfold print_linked.
  apply reorder_prints_the_same; [apply Hr|intro l; apply Permutation_refl|apply to_print_ok; exact Ha].
Qed.

(* PER-SITE Range orders: [reorder] applies one function to every option list; a real run draws a fresh order at every
   Range call.  Relationally: ANY two descriptors obtained from the printer's descriptor by permuting each option list
   independently (BR.dfile_equiv to it) print the same tokens. *)
Lemma opts_equiv_sym_trans o o1 o2 : BR.opts_equiv o o1 -> BR.opts_equiv o o2 -> BR.opts_equiv o1 o2.
Proof.
  intros [P1 D1] [P2 D2]. split; [eapply perm_trans; [apply Permutation_sym; exact P1|exact P2]|].
  intros a c Ha Hc. apply D1; apply (Permutation_in _ (Permutation_sym P1)); assumption.
Qed.
Theorem any_range_variants_print_the_same ann l d1 d2 :
  BR.dfile_equiv (to_print ann l) d1 -> BR.dfile_equiv (to_print ann l) d2 ->
  PF.print_file_tokens (st_of ann l) d1 = PF.print_file_tokens (st_of ann l) d2.
Proof.
  intros H1 H2. rewrite <- (BR.print_file_tokens_range_order_free (st_of ann l) _ _ H1).
  apply BR.print_file_tokens_range_order_free. exact H2.
Qed.
(* [reorder rng] of the printer's descriptor is such a variant *)
Lemma reorder_is_variant ann l rng : ann_ok ann -> perm_fun rng -> BR.dfile_equiv (to_print ann l) (reorder rng (to_print ann l)).
Proof.
  intros Ha Hp.
  assert (E : reorder (fun o => o) (to_print ann l) = to_print ann l).
  { unfold reorder. destruct (to_print ann l) as [pk im fo ex bo]. cbn [PF.d_pkg PF.d_imports PF.d_fopts PF.d_exts PF.d_body]. f_equal.
    - induction ex as [|[q f] r IH]; cbn [map fst snd]; [reflexivity|]. rewrite IH. destruct f; reflexivity.
    - induction bo as [|x r IH]; cbn [map]; [reflexivity|]. rewrite IH. f_equal.
      induction x as [f|k c n o fs|k c n o body IHb|k c n o vs|k c n o ms] using BR.delem_forall_ind.
      + destruct f; reflexivity.
      + cbn [reorder_elem]. f_equal. induction fs as [|f fr IHf]; cbn [map]; [reflexivity|]. rewrite IHf. destruct f; reflexivity.
      + rewrite reorder_msg. f_equal. induction IHb as [|y s Hy _ IHs]; cbn [map]; [reflexivity|]. rewrite Hy, IHs. reflexivity.
      + cbn [reorder_elem]. f_equal. induction vs as [|v vr IHv]; cbn [map]; [reflexivity|]. rewrite IHv. destruct v; reflexivity.
      + cbn [reorder_elem]. f_equal. induction ms as [|m mr IHm]; cbn [map]; [reflexivity|]. rewrite IHm. destruct m; reflexivity. }
  rewrite <- E at 1. apply reorder_equiv; [intro o; apply Permutation_refl|exact Hp|apply to_print_ok; exact Ha].
Qed.

(* the headline with the PackageSet in ANY admissible state instead of a history of successful calls *)
Theorem output_from_any_state bd exts ann pkgs rank frank n :
  valid (flat_bundle pkgs (src_files bd)) -> well_founded_deps (flat_bundle pkgs (src_files bd)) rank ->
  owner_ok (cmpa_convert bd) split_owner (is_local_of pkgs) (flat_bundle pkgs (src_files bd)) ->
  imports_wf (cmpa_convert bd) split_owner (is_local_of pkgs) (c_ext_file exts) c_deps_of (flat_bundle pkgs (src_files bd)) frank ->
  find_pkg n (flat_bundle pkgs (src_files bd)) <> None -> ann_ok ann ->
  exists o, forall r pc lc, run_ok pkgs bd r ->
    both_ok (cmpa_convert bd) split_owner (is_local_of pkgs) (c_ext_file exts) c_deps_of c_link1 (flat_bundle pkgs (src_files bd)) pc lc ->
    cache_closed (flat_bundle pkgs (src_files bd)) pc ->
    (rank n < r_fuel r)%nat ->
    (forall f, In f (map fst (p_files (spec_pkg (cmpa_convert bd) (flat_bundle pkgs (src_files bd)) n))) -> (frank f < r_lfuel r)%nat) ->
    option_map (render ann (r_range r)) (compile_from bd exts r pc lc n) = Some o.
Proof.
  intros Hv Hw Ho Hi Hf Ha.
  destruct (compile_from_total bd exts pkgs rank frank n Hv Hw Ho Hi Hf) as [out H].
  exists (render ann (fun l => l) out). intros r pc lc Hr Hok Hcl Hfu Hlf. rewrite (H r pc lc Hr Hok Hcl Hfu Hlf).
  cbn [option_map]. f_equal. unfold render. apply List.map_ext. intro x. f_equal. unfold print_linked.
  apply reorder_prints_the_same; [apply Hr|intro l; apply Permutation_refl|apply to_print_ok; exact Ha].
Qed.

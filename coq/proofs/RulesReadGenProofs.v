(* RulesReadGenProofs.v — computed agreement between the reader model
   (RulesRead.v), the list-rule arms of the writer model, and the tables the
   translator regenerates from /repo on every run (gen/RulesGen.v). *)
From Coq Require Import String List NArith ZArith Bool.
From J5V.lib Require Import Outcome.
From J5V.model Require Import RulesDecl RulesWrite.
From J5V.gen Require Import RulesGen.
From J5V.proofs Require Import RulesGenProofs.
Import ListNotations.

Lemma writer_int_list_arms_agree :
  writer_int_list_arms = map (fun k => (k, int_larm k)) [I32; I64; U32; U64].
Proof. vm_compute. reflexivity. Qed.


(* ---- reader ---------------------------------------------------------------- *)
From J5V.model Require Import RulesRead.

(* what read_int_rules does with a constraint holding only the given rule *)
Definition model_read_arm (k : ikind) (f : rfield) : option (bool * bool * bool * bool) :=
  let c := match f with
           | RLt => Some (CInt k (Lt 5%Z) NoLb)
           | RLte => Some (CInt k (Lte 5%Z) NoLb)
           | RGt => Some (CInt k NoUb (Gt 5%Z))
           | RGte => Some (CInt k NoUb (Gte 5%Z))
           | ROtherField => None
           end in
  match read_int_rules k c with
  | Some r => Some (is_some (ir_max r), is_some (ir_min r), is_true (ir_xmax r), is_true (ir_xmin r))
  | None => None
  end.

Definition quad_eqb (a b : bool * bool * bool * bool) : bool :=
  match a, b with
  | (a1, a2, a3, a4), (b1, b2, b3, b4) => Bool.eqb a1 b1 && Bool.eqb a2 b2 && Bool.eqb a3 b3 && Bool.eqb a4 b4
  end.

Lemma reader_int_arms_agree :
  forallb (fun a => match a with
                    | (k, f, smax, smin, sxmax, sxmin) =>
                        match model_read_arm k f with
                        | Some q => quad_eqb q (smax, smin, sxmax, sxmin)
                        | None => false
                        end
                    end) reader_int_arms = true.
Proof. vm_compute. reflexivity. Qed.

Lemma reader_int_arms_cover : length reader_int_arms = 16%nat.
Proof. reflexivity. Qed.

(* the reader looks for integer list rules where the writer puts them *)
Lemma reader_int_list_arms_agree : reader_int_list_arms = writer_int_list_arms.
Proof. vm_compute. reflexivity. Qed.

(* wellKnownStringPatterns: probe read_string with each generated pattern — the
   model turns it into the generated format and drops it from the rules; the
   published id62 pattern makes the field a key:id62 *)
From J5V.gen Require Id62Gen.
Definition model_wellknown (p : str) : option str :=
  match read_string (Some (CStr None None (Some p) false)) None None None with
  | Ok (TStr (Some f) (Some (SR None None None)) None) => Some f
  | _ => None
  end.
Definition ostr_eqb (a : option str) (b : str) : bool :=
  match a with Some x => str_eqb x b | None => false end.
Lemma reader_wellknown_agree :
  forallb (fun a => ostr_eqb (model_wellknown (fst a)) (snd a)) reader_wellknown_literals = true /\
  length reader_wellknown_literals = 2%nat /\
  (* a pattern not in the table stays a pattern *)
  model_wellknown [94%N; 97%N; 36%N] = None.
Proof. repeat split; vm_compute; reflexivity. Qed.

Definition model_id62_reads_as_key : bool :=
  match read_string (Some (CStr None None (Some Id62Gen.pattern_string) false)) None None None with
  | Ok (TKey (Some KId62) None None) => true
  | _ => false
  end.
Lemma reader_id62_agree :
  reader_id62_published = model_id62_reads_as_key /\
  reader_wellknown_id62_format = [105%N; 100%N; 54%N; 50%N].   (* "id62": the format name buildFromStringProto tests for *)
Proof. split; vm_compute; reflexivity. Qed.

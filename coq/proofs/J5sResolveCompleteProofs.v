(* J5sResolveCompleteProofs.v — completeness of reference resolution: a reference that names,
   through the documented import rule, a declaration of a package with distinct exported names
   resolves to exactly that declaration (so the validity condition "every reference resolves"
   can be read declaratively). *)
From Coq Require Import String List NArith Bool Lia.
From J5V.lib Require Import Outcome Corr.
From J5V.model Require Import J5sAst Desc J5sWalk J5sLink J5sConvert J5sContract J5sValid.
From J5V.proofs Require Import J5sProofs J5sContractProofs J5sResolveProofs J5sExtProofs.
Import ListNotations.
Local Open Scope N_scope.

(* two imports that can be written with the same prefix bring in the same package *)
Definition imports_unambiguous (imports : list import) : Prop :=
  forall i1 i2 k, In i1 imports -> In i2 imports -> import_key i1 k -> import_key i2 k ->
    import_pkg i1 = import_pkg i2.

Lemma assoc_hit k v acc : assoc k ((k, v) :: acc) = Some v.
Proof. cbn. rewrite str_eqb_refl. reflexivity. Qed.

(* the alias map answers every documented prefix of an import with the package of some import
   that can be written with that prefix (the last one) *)
Lemma import_map_complete l : forall acc im k,
  import_map l acc = Ok im ->
  ((exists i, In i l /\ import_key i k) \/ (exists v, assoc k acc = Some v)) ->
  (exists i, In i l /\ import_key i k /\ assoc k im = Some (import_pkg i)) \/
  ((forall i, In i l -> ~ import_key i k) /\ assoc k im = assoc k acc).
Proof.
  induction l as [|i r IH]; intros acc im k H Hor.
  - cbn in H. inversion H. subst. right. split; [intros i []|reflexivity].
  - cbn [import_map] in H. destruct (i_path i) as [|c0 p0] eqn:Ep; [discriminate|]. rewrite <- Ep in H.
    (* what this import adds for key k, and the accumulator passed on *)
    assert (Hstep : exists acc', import_map r acc' = Ok im /\
              ((import_key i k /\ assoc k acc' = Some (import_pkg i)) \/
               (~ import_key i k /\ assoc k acc' = assoc k acc))).
    { unfold import_key, import_pkg. rewrite <- contains_slash_eq.
      destruct (contains_slash (i_path i)) eqn:Es.
      - eexists. split; [exact H|]. cbn [assoc].
        destruct (str_eqb (package_from_filename (i_path i)) k) eqn:Ek.
        + apply str_eqb_eq in Ek. left. split; [symmetry; exact Ek|reflexivity].
        + right. split; [|reflexivity]. intros Hk. rewrite Hk, str_eqb_refl in Ek. discriminate.
      - destruct (i_alias i) as [|a0 al] eqn:Ea.
        + destruct (rev (split 46 (i_path i))) as [|s1 [|wv s2]] eqn:Er; try discriminate.
          eexists. split; [exact H|]. cbn [assoc]. unfold last_but_one. rewrite Er.
          destruct (str_eqb (i_path i) k) eqn:Ek1.
          * apply str_eqb_eq in Ek1. left. split; [left; symmetry; exact Ek1|reflexivity].
          * destruct (str_eqb wv k) eqn:Ek2.
            -- apply str_eqb_eq in Ek2. left. split; [right; rewrite Ek2; reflexivity|reflexivity].
            -- right. split; [|reflexivity]. intros [Hk|Hk].
               ++ rewrite Hk, str_eqb_refl in Ek1. discriminate.
               ++ inversion Hk. subst. rewrite str_eqb_refl in Ek2. discriminate.
        + eexists. split; [exact H|]. cbn [assoc].
          destruct (str_eqb (a0 :: al) k) eqn:Ek.
          * apply str_eqb_eq in Ek. left. split; [symmetry; exact Ek|reflexivity].
          * right. split; [|reflexivity]. intros Hk. rewrite Hk, str_eqb_refl in Ek. discriminate. }
    destruct Hstep as (acc' & Hrest & Hcase).
    assert (Hor' : (exists i0, In i0 r /\ import_key i0 k) \/ (exists v, assoc k acc' = Some v) \/ True) by (right; right; exact I).
    destruct (IH acc' im k Hrest) as [(i0 & Hi0 & Hk0 & Ha0)|[Hnone Heq]].
    { destruct Hcase as [[Hk Ha]|[Hnk Ha]].
      - right. eexists. exact Ha.
      - destruct Hor as [(i0 & [<-|Hi0] & Hk0)|(v & Hv)]; [contradiction|left; eauto|right; rewrite Ha; eauto]. }
    + left. exists i0. split; [right; exact Hi0|auto].
    + destruct Hcase as [[Hk Ha]|[Hnk Ha]].
      * left. exists i. split; [left; reflexivity|]. split; [exact Hk|]. rewrite Heq. exact Ha.
      * right. split; [|rewrite Heq; exact Ha]. intros i0 [<-|Hi0]; [exact Hnk|apply Hnone; exact Hi0].
Qed.

Section Complete.
Variables (this : str) (imports : list import) (im : list (str * str)) (exports : str -> option (list typeref)).
Hypothesis Him : import_map imports [] = Ok im.
Hypothesis Hdist : forall p ex, exports p = Some ex -> J5sValid.distinct (map tr_name ex) = true.

Lemma lookup_declared p ex t :
  exports p = Some ex -> In t ex ->
  match exports p with
  | Some l => match lookup_last (tr_name t) l None with Some t0 => Ok t0 | None => Err "type not found" end
  | None => Err "package not loaded"
  end = Ok t.
Proof.
  intros He Hin. rewrite He. rewrite (lookup_last_distinct ex None t (Hdist p ex He) Hin). reflexivity.
Qed.

(* a reference without prefix, or with the file's own package: the declaration of that name *)
Theorem resolve_complete_own r ex t :
  (r_pkg r = [] \/ r_pkg r = this) -> exports this = Some ex -> In t ex -> tr_name t = r_name r ->
  resolve (mkEnv this im exports) r = Ok t.
Proof.
  intros Hown He Hin Hn. unfold resolve. cbn [ev_this ev_imports ev_exports].
  assert (Hb : (match r_pkg r with [] => true | _ => false end) || str_eqb (r_pkg r) this = true).
  { destruct Hown as [E|E]; rewrite E; [reflexivity|]. rewrite str_eqb_refl. apply orb_true_r. }
  rewrite Hb, <- Hn. apply (lookup_declared this ex t); assumption.
Qed.

(* a reference with the prefix of an import (alias, package name without version, full package
   name, package of an imported file): the declaration of that name in the imported package *)
Theorem resolve_complete_import r i ex t :
  imports_unambiguous imports ->
  r_pkg r <> [] -> r_pkg r <> this ->
  implicit_ref implicit_table (r_pkg r) (r_name r) = None ->
  implicit_ref implicit_table (import_pkg i) (r_name r) = None ->
  In i imports -> import_key i (r_pkg r) ->
  exports (import_pkg i) = Some ex -> In t ex -> tr_name t = r_name r ->
  resolve (mkEnv this im exports) r = Ok t.
Proof.
  intros Hun Hne Hnt Hi1 Hi2 Hin Hk He Ht Hn. unfold resolve. cbn [ev_this ev_imports ev_exports].
  assert (Hb : (match r_pkg r with [] => true | _ => false end) || str_eqb (r_pkg r) this = false).
  { destruct (str_eqb (r_pkg r) this) eqn:Es; [apply str_eqb_eq in Es; contradiction|].
    destruct (r_pkg r); [contradiction|reflexivity]. }
  rewrite Hb, Hi1.
  destruct (import_map_complete imports [] im (r_pkg r) Him) as [(i0 & Hi0 & Hk0 & Ha)|[Hnone _]].
  { left. exists i. auto. }
  - rewrite Ha. rewrite (Hun i0 i (r_pkg r) Hi0 Hin Hk0 Hk), Hi2, <- Hn. apply (lookup_declared (import_pkg i) ex t); assumption.
  - exfalso. exact (Hnone i Hin Hk).
Qed.

End Complete.

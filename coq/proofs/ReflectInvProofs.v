(* ReflectInvProofs.v — lemmas behind props/C18.v and props/C15.v (part 2: what a successful
   reflection guarantees).  For descriptor sets [wf_desc] (enums non-empty; the split names of
   messages, enums and real oneofs pairwise distinct; JSON names of the fields and exposed oneofs
   of a message distinct — protoc enforces the field part) every successful build yields a schema
   set in which
     - keys are distinct and no entry is an unlinked placeholder,
     - every object / oneof has pairwise distinct property names,
     - every scalar format is one the import knows,
     - every reference names an entry of the set.
   The last three are the hypotheses of the C15 round-trip theorem. *)
From Coq Require Import String List Arith NArith ZArith Bool Lia.
From J5V.lib Require Import Outcome.
From J5V.model Require Import ReflectDesc ReflectSchema Reflect ReflectSpec Export.
From J5V.proofs Require Import ReflectProofs ExportProofs.
Import ListNotations.
Local Open Scope bool_scope.

(* ---------------------------------------------------------------- small list facts *)
Lemma nodup_str_NoDup l : nodup_str l = true <-> NoDup l.
Proof.
  induction l as [|x r IH]; cbn [nodup_str]; split; intros H; try constructor; try reflexivity.
  - apply andb_prop in H as [H1 H2]. apply negb_true_iff in H1. intros Hin.
    assert (existsb (str_eqb x) r = true) by (apply existsb_exists; exists x; split; [exact Hin|apply str_eqb_refl]).
    congruence.
  - apply andb_prop in H as [_ H2]. apply IH. exact H2.
  - inversion H as [|? ? Hn Hr]; subst. apply andb_true_intro. split.
    + apply negb_true_iff. destruct (existsb (str_eqb x) r) eqn:E; [|reflexivity].
      apply existsb_exists in E as (y & Hy & He). apply str_eqb_eq in He. subst. contradiction.
    + apply IH. exact Hr.
Qed.

Lemma NoDup_app_l {A} (a b : list A) : NoDup (a ++ b) -> NoDup a.
Proof. induction a as [|x r IH]; cbn; intros H; [constructor|]. inversion H; subst. constructor; [intros Hin; apply H2; apply in_or_app; left; exact Hin|apply IH; assumption]. Qed.
Lemma NoDup_app_r {A} (a b : list A) : NoDup (a ++ b) -> NoDup b.
Proof. induction a as [|x r IH]; cbn; intros H; [exact H|]. inversion H; subst. apply IH; assumption. Qed.
Lemma NoDup_app_notin {A} (a b : list A) x : NoDup (a ++ b) -> In x a -> ~ In x b.
Proof.
  induction a as [|y r IH]; cbn; intros H Hin; [destruct Hin|]. inversion H; subst. destruct Hin as [->|Hin].
  - intros Hb. apply H2. apply in_or_app. right. exact Hb.
  - apply IH; assumption.
Qed.
Lemma NoDup_incl_cons {A} (x : A) l big : NoDup (x :: big) -> incl l big -> NoDup l -> NoDup (x :: l).
Proof. intros H Hi Hl. inversion H; subst. constructor; [intros Hin; apply H2, Hi, Hin|exact Hl]. Qed.

(* ---------------------------------------------------------------- well-formedness *)
Section Consistency.
Variable D : desc.

Definition real_oneof_keys (m : msgd) : list ref :=
  flat_map (fun o => match o with Oneof name _ syn _ _ => if syn then [] else [oneof_key m name] end) (m_oneofs m).
Definition all_keys : list ref :=
  map msg_key (d_msgs D) ++ map enum_key (d_enums D) ++ flat_map real_oneof_keys (d_msgs D).
Definition exposed_jnames (m : msgd) : list str :=
  flat_map (fun o => match o with Oneof _ j false (Some true) _ => [j] | _ => [] end) (m_oneofs m).

Definition wf_desc : Prop :=
  (forall e, In e (d_enums D) -> enum_nonempty e) /\
  NoDup all_keys /\
  (forall m, In m (d_msgs D) -> NoDup (map f_json (m_fields m) ++ exposed_jnames m)).

Hypothesis Hwf : wf_desc.

Lemma real_oneof_key_in m name j x d :
  In (Oneof name j false x d) (m_oneofs m) -> In (oneof_key m name) (real_oneof_keys m).
Proof.
  intros H. unfold real_oneof_keys. apply in_flat_map. exists (Oneof name j false x d). split; [exact H|left; reflexivity].
Qed.

Lemma wf_desc_total : wf_total D.
Proof.
  destruct Hwf as (He & Hk & _). split; [exact He|].
  intros e m Hein Hmin. unfold all_keys in Hk.
  assert (H1 : In (enum_key e) (map enum_key (d_enums D))) by (apply in_map; exact Hein).
  split.
  - intros Heq. apply NoDup_app_notin with (x := msg_key m) in Hk; [|apply in_map; exact Hmin].
    apply Hk. apply in_or_app. left. rewrite <- Heq. exact H1.
  - intros [name j syn x d] Ho Hsyn. subst syn. intros Heq.
    apply NoDup_app_r in Hk. apply NoDup_app_notin with (x := enum_key e) in Hk; [|exact H1].
    apply Hk. apply in_flat_map. exists m. split; [exact Hmin|]. rewrite Heq. eapply real_oneof_key_in; eauto.
Qed.
End Consistency.

(* ---------------------------------------------------------------- the invariant of successful builds *)
Section Inv.
Variable D : desc.
Hypothesis Hwf : wf_desc D.
Let Hwt : wf_total D := wf_desc_total D Hwf.

(* local to a root: distinct property names, importable formats *)
Definition props_wf (ps : list prop) : Prop :=
  NoDup (map p_json ps) /\ forallb (fun p => field_importable (p_schema p)) ps = true.
Definition root_wf (r : root) : Prop := props_wf (root_props r).
Definition refs_keyed (st : sset) (rs : list ref) : Prop := forall k, In k rs -> has_key st k = true.

Definition InvS (st : sset) : Prop :=
  Inv D st /\
  (forall k r, lookup st k = Some (Linked r) -> root_wf r /\ refs_keyed st (root_refs r)) /\
  NoDup (map fst st).

(* no unlinked placeholder appears that was not there before *)
Definition noplace (st st' : sset) : Prop :=
  forall k, lookup st' k = Some Placeholder -> lookup st k = Some Placeholder.
Lemma noplace_refl st : noplace st st.
Proof. intros k H. exact H. Qed.
Lemma noplace_trans a b c : noplace a b -> noplace b c -> noplace a c.
Proof. intros H1 H2 k H. apply H1, H2, H. Qed.

Lemma refs_keyed_ext st st' rs : ext st st' -> refs_keyed st rs -> refs_keyed st' rs.
Proof. intros He H k Hk. apply He, H, Hk. Qed.

Lemma InvS_nil : InvS [].
Proof. split; [apply Inv_nil|]. split; [intros k r H; discriminate|constructor]. Qed.

Lemma has_key_cons st k e k' : has_key ((k, e) :: st) k' = ref_eqb k k' || has_key st k'.
Proof. unfold has_key. rewrite lookup_cons. destruct (ref_eqb k k'); reflexivity. Qed.

(* a fresh key that is not an enum's name: placeholder or linked root *)
Lemma InvS_cons st k en :
  InvS st -> lookup st k = None -> (forall e, In e (d_enums D) -> enum_key e <> k) ->
  (match en with Placeholder => True | Linked r => root_wf r /\ refs_keyed ((k, en) :: st) (root_refs r) end) ->
  InvS ((k, en) :: st).
Proof.
  intros (H1 & H2 & H3) Hl Hk Hen. split; [apply Inv_cons_other; assumption|]. split.
  - intros k' r Hlk. rewrite lookup_cons in Hlk. destruct (ref_eqb k k') eqn:E.
    + inversion Hlk; subst en. exact Hen.
    + destruct (H2 k' r Hlk) as [Hw Hr]. split; [exact Hw|]. eapply refs_keyed_ext; [apply ext_cons|exact Hr].
  - cbn [map fst]. constructor; [apply lookup_None_notin; exact Hl|exact H3].
Qed.

Lemma InvS_cons_enum st e r :
  InvS st -> lookup st (enum_key e) = None -> (exists a b c d f, r = REnum a b c d f) ->
  InvS ((enum_key e, Linked r) :: st).
Proof.
  intros (H1 & H2 & H3) Hl (a & b & c & d & f & ->). split; [apply Inv_cons_enum; eauto 10|]. split.
  - intros k' r Hlk. rewrite lookup_cons in Hlk. destruct (ref_eqb (enum_key e) k') eqn:E.
    + inversion Hlk; subst r. split; [split; [constructor|reflexivity]|intros k2 []].
    + destruct (H2 k' r Hlk) as [Hw Hr]. split; [exact Hw|]. eapply refs_keyed_ext; [apply ext_cons|exact Hr].
  - cbn [map fst]. constructor; [apply lookup_None_notin; exact Hl|exact H3].
Qed.

Lemma InvS_update st k r :
  InvS st -> (forall e, In e (d_enums D) -> enum_key e <> k) ->
  root_wf r -> refs_keyed st (root_refs r) -> InvS (update st k (Linked r)).
Proof.
  intros (H1 & H2 & H3) Hk Hw Hr. split; [apply Inv_update_other; assumption|]. split.
  - intros k' r' Hlk. rewrite lookup_update in Hlk. destruct (ref_eqb k k') eqn:E.
    + destruct (lookup st k); [|discriminate]. inversion Hlk; subst r'. split; [exact Hw|].
      eapply refs_keyed_ext; [apply ext_update|exact Hr].
    + destruct (H2 k' r' Hlk) as [Hw' Hr']. split; [exact Hw'|]. eapply refs_keyed_ext; [apply ext_update|exact Hr'].
  - rewrite keys_update. exact H3.
Qed.

Lemma noplace_cons_linked st k r : noplace st ((k, Linked r) :: st).
Proof.
  intros k' H. rewrite lookup_cons in H. destruct (ref_eqb k k'); [discriminate|exact H].
Qed.
Lemma noplace_update_linked st st1 k r :
  noplace ((k, Placeholder) :: st) st1 -> lookup st k = None -> noplace st (update st1 k (Linked r)).
Proof.
  intros Hn Hl k' H. rewrite lookup_update in H. destruct (ref_eqb k k') eqn:E.
  - destruct (lookup st1 k); discriminate.
  - apply Hn in H. rewrite lookup_cons, E in H. exact H.
Qed.
Lemma noplace_update_same st k r : noplace st (update st k (Linked r)).
Proof.
  intros k' H. rewrite lookup_update in H. destruct (ref_eqb k k'); [destruct (lookup st k); discriminate|exact H].
Qed.

(* ---------------------------------------------------------------- the post-condition, with a result predicate *)
Definition Ps {X} (pr : X -> sset) (Q : X -> Prop) (st : sset) (o : outcome X) : Prop :=
  match o with
  | Ok x => InvS (pr x) /\ ext st (pr x) /\ noplace st (pr x) /\ Q x
  | Err _ => True
  | Panic _ => False
  | OutOfFuel => False
  end.

Lemma Ps_bind {X Y} (prx : X -> sset) (pry : Y -> sset) (Qx : X -> Prop) (Qy : Y -> Prop) st (o : outcome X) (g : X -> outcome Y) :
  Ps prx Qx st o ->
  (forall x, InvS (prx x) -> ext st (prx x) -> noplace st (prx x) -> Qx x ->
             match g x with
             | Ok y => InvS (pry y) /\ ext (prx x) (pry y) /\ noplace (prx x) (pry y) /\ Qy y
             | Err _ => True
             | _ => False
             end) ->
  Ps pry Qy st (obind o g).
Proof.
  intros Ho Hg. destruct o as [x| | |]; cbn in *; auto.
  destruct Ho as (H1 & H2 & H3 & H4). specialize (Hg x H1 H2 H3 H4).
  destruct (g x) as [y| | |]; cbn; auto. destruct Hg as (G1 & G2 & G3 & G4).
  split; [exact G1|]. split; [eapply ext_trans; eauto|]. split; [eapply noplace_trans; eauto|exact G4].
Qed.

(* ---------------------------------------------------------------- scalars, well-known types *)
Lemma rbind_ok {A B} (r : res A) (f : A -> res B) b :
  rbind r f = ROk b -> exists a, r = ROk a /\ f a = ROk b.
Proof. destruct r as [a|c]; cbn [rbind]; intros H; [eauto|discriminate]. Qed.

Lemma build_string_shape x p :
  build_string x = ROk p -> match p with PString _ _ _ | PKey _ _ _ => True | _ => False end.
Proof.
  unfold build_string. intros H.
  apply rbind_ok in H as ([[fmt1 rules] key1] & _ & H). cbn beta iota in H.
  apply rbind_ok in H as ([fmt2 fk] & _ & H). cbn beta iota in H.
  apply rbind_ok in H as (slr & _ & H). cbn beta iota zeta in H.
  match type of H with (if ?b then _ else _) = _ => destruct b end.
  - inversion H. exact I.
  - apply rbind_ok in H as (kf & _ & H). inversion H. exact I.
Qed.

Lemma build_scalar_importable k x p : build_scalar k x = ROk p -> field_importable (FScalar (Some (k, [])) p) = true.
Proof.
  destruct k; cbn [build_scalar field_importable]; intros H; try discriminate;
    try (match type of H with
         | build_string _ = _ => pose proof (build_string_shape x p H) as Hs; destruct p; try contradiction; reflexivity
         end);
    try (apply rbind_ok in H as (v & _ & H));
    inversion H; subst; reflexivity.
Qed.

Lemma wkt_schema_ok full x s :
  wkt_schema full x = ROk (Some s) -> field_importable s = true /\ field_refs s = [].
Proof.
  unfold wkt_schema.
  repeat match goal with
         | |- context [if ?b then _ else _] => destruct b
         | |- context [rbind ?r _] => destruct r as [v|c]; cbn [rbind]
         | |- context [let '(_, _) := ?v in _] => destruct v
         end; intros H; try discriminate; inversion H; subst; split; reflexivity.
Qed.
(* ---------------------------------------------------------------- fields *)
Definition Qs (x : sset * fschema) : Prop :=
  field_importable (snd x) = true /\ refs_keyed (fst x) (field_refs (snd x)).

Lemma has_key_lookup st k e : lookup st k = Some e -> has_key st k = true.
Proof. unfold has_key. intros ->. reflexivity. Qed.

Lemma build_enum_field_ps st f x : InvS st -> Ps fst Qs st (build_enum_field D st f x).
Proof.
  intros HI. unfold build_enum_field.
  destruct (f_ty f) as [|full|full]; try exact I.
  destruct (find_enum D full) as [e|] eqn:Ef; [|exact I].
  assert (He : In e (d_enums D)) by (eapply find_enum_In; eauto).
  assert (Hne : enum_nonempty e) by (apply (proj1 Hwt); exact He).
  assert (Hst1 : match (match lookup st (enum_key e) with
                        | Some _ => Ok st
                        | None => obind (build_enum e) (fun r => Ok ((enum_key e, Linked r) :: st))
                        end) with
                 | Ok st1 => InvS st1 /\ ext st st1 /\ noplace st st1 /\
                             exists a b c d g, lookup st1 (enum_key e) = Some (Linked (REnum a b c d g))
                 | Err _ => True
                 | _ => False
                 end).
  { destruct (lookup st (enum_key e)) as [en|] eqn:El.
    - split; [exact HI|]. split; [apply ext_refl|]. split; [apply noplace_refl|].
      pose proof (proj1 HI e He) as Hen. unfold enum_entry_ok in Hen. rewrite El in Hen.
      destruct en as [|[| |a b c d g]]; try contradiction. eauto 10.
    - pose proof (build_enum_shape e Hne) as Hs. destruct (build_enum e) as [r| | |]; cbn [obind]; try exact Hs.
      split; [apply InvS_cons_enum; assumption|]. split; [apply ext_cons|]. split; [apply noplace_cons_linked|].
      destruct Hs as (a & b & c & d & g & ->). rewrite lookup_cons, ref_eqb_refl. eauto 10. }
  destruct (match lookup st (enum_key e) with
            | Some _ => Ok st
            | None => obind (build_enum e) (fun r => Ok ((enum_key e, Linked r) :: st))
            end) as [st1| | |]; cbn [obind]; try exact Hst1.
  destruct Hst1 as (HI1 & He1 & Hn1 & a & b & c & d & g & Hl).
  assert (Hfin : forall rules lr, Ps fst Qs st (Ok (st1, FEnum (enum_key e) rules lr None))).
  { intros rules lr. unfold Ps, Qs. cbn [fst snd field_refs field_importable].
    split; [exact HI1|]. split; [exact He1|]. split; [exact Hn1|]. split; [reflexivity|].
    intros k Hk. destruct Hk as [<-|[]]. eapply has_key_lookup; eauto. }
  rewrite Hl. destruct (x_vty x); cbn [obind]; try apply Hfin.
  match goal with |- context [lift ?r] => destruct r as [v|cls] end; cbn [lift obind]; [apply Hfin|exact I].
Qed.

Definition Qr (x : sset * root) : Prop := root_wf (snd x) /\ refs_keyed (fst x) (root_refs (snd x)).

Section Level2.
Variable n : nat.
Variable rec : sset -> msgd -> outcome (sset * root).
Hypothesis Hrec : forall st m, In m (d_msgs D) -> InvS st -> unvisited D st < n -> Ps fst Qr st (rec st m).

Lemma build_message_field_ps st f x :
  InvS st -> unvisited D st <= n -> Ps fst Qs st (build_message_field D rec st f x).
Proof.
  intros HI HU. unfold build_message_field.
  destruct (f_ty f) as [|full|full]; try exact I.
  destruct (wkt_schema full x) as [[s|]|cls] eqn:Ew; cbn [lift obind]; try exact I.
  - destruct (wkt_schema_ok full x s Ew) as [Hi Hr]. unfold Ps, Qs. cbn [fst snd].
    split; [exact HI|]. split; [apply ext_refl|]. split; [apply noplace_refl|]. split; [exact Hi|].
    rewrite Hr. intros k [].
  - destruct (has_prefix s_google_protobuf full); [exact I|].
    destruct (find_msg D full) as [m|] eqn:Ef; [|exact I].
    assert (Hm : In m (d_msgs D)) by (eapply find_msg_In; eauto).
    assert (Hapart : forall e, In e (d_enums D) -> enum_key e <> msg_key m) by (intros e He; apply (msg_key_apart D Hwt); assumption).
    assert (Hres : forall st2 s, InvS st2 -> ext st st2 -> noplace st st2 -> has_key st2 (msg_key m) = true ->
                                 (exists fl lr, s = FObject (msg_key m) fl None None \/ s = FOneof (msg_key m) None lr None) ->
                                 Ps fst Qs st (Ok (st2, s))).
    { intros st2 s H1 H2 H3 H4 (fl & lr & [->| ->]); unfold Ps, Qs; cbn [fst snd field_refs field_importable];
        (split; [exact H1|]; split; [exact H2|]; split; [exact H3|]; split; [reflexivity|];
         intros k Hk; destruct Hk as [<-|[]]; exact H4). }
    destruct (lookup st (msg_key m)) as [en|] eqn:El; cbn [obind].
    + apply Hres; try assumption; try apply ext_refl; try apply noplace_refl; [eapply has_key_lookup; eauto|].
      destruct (is_oneof_wrapper m); [exists false; eexists; right; reflexivity|eexists; exists None; left; reflexivity].
    + assert (Hk : has_key st (msg_key m) = false) by (unfold has_key; rewrite El; reflexivity).
      assert (HI' : InvS ((msg_key m, Placeholder) :: st)) by (apply InvS_cons; auto).
      assert (HU' : unvisited D ((msg_key m, Placeholder) :: st) < n)
        by (pose proof (unvisited_cons D st m Placeholder Hm Hk); lia).
      pose proof (Hrec _ m Hm HI' HU') as Hr.
      destruct (rec ((msg_key m, Placeholder) :: st) m) as [[st1 r]| | |]; cbn [obind Ps fst] in *; try exact Hr.
      destruct Hr as (HI1 & He1 & Hn1 & Hw & Hrk). cbn [fst snd] in *.
      apply Hres.
      * apply InvS_update; assumption.
      * eapply ext_trans; [apply ext_cons|]. eapply ext_trans; [exact He1|apply ext_update].
      * eapply noplace_update_linked; eauto.
      * apply ext_update. apply He1. unfold has_key. rewrite lookup_cons, ref_eqb_refl. reflexivity.
      * destruct (is_oneof_wrapper m); [exists false; eexists; right; reflexivity|eexists; exists None; left; reflexivity].
Qed.

Lemma build_schema_ps st f x :
  InvS st -> unvisited D st <= n -> Ps fst Qs st (build_schema D rec st f x).
Proof.
  intros HI HU. unfold build_schema.
  destruct (f_kind f) eqn:Ek;
    try (destruct (build_scalar _ x) as [p|cls] eqn:Eb; cbn [lift obind]; [|exact I];
         unfold Ps, Qs; cbn [fst snd field_refs];
         split; [exact HI|]; split; [apply ext_refl|]; split; [apply noplace_refl|];
         split; [eapply build_scalar_importable; eauto|intros k []]).
  - apply build_enum_field_ps; exact HI.
  - apply build_message_field_ps; assumption.
Qed.

(* a property built for field f: its JSON name and path are the field's *)
Definition Qp (f : field) (x : sset * prop) : Prop :=
  p_json (snd x) = f_json f /\ field_importable (p_schema (snd x)) = true /\
  refs_keyed (fst x) (field_refs (p_schema (snd x))).

Lemma build_field_prop_ps st f :
  InvS st -> unvisited D st <= n -> Ps fst (Qp f) st (build_field_prop D rec st f).
Proof.
  intros HI HU. unfold build_field_prop.
  assert (Hk : forall x (mk : fschema -> prop),
             (forall s, p_json (mk s) = f_json f) ->
             (forall s, field_importable (p_schema (mk s)) = field_importable s) ->
             (forall s, field_refs (p_schema (mk s)) = field_refs s) ->
             Ps fst (Qp f) st (obind (build_schema D rec st f x) (fun '(st1, s) => Ok (st1, mk s)))).
  { intros x mk H1 H2 H3. eapply Ps_bind; [apply build_schema_ps; assumption|].
    intros [st1 s] G1 G2 G3 [G4 G5]. cbn [fst snd] in *. unfold Qp. cbn [fst snd].
    split; [exact G1|]. split; [apply ext_refl|]. split; [apply noplace_refl|].
    split; [apply H1|]. split; [rewrite H2; exact G4|rewrite H3; exact G5]. }
  destruct (f_card f) as [| | |kk].
  - apply Hk; intros; reflexivity.
  - apply Hk; intros; reflexivity.
  - destruct (x_vty (field_exts f)); cbn; apply Hk; intros; reflexivity.
  - destruct (negb (kind_eqb kk KString)); [exact I|].
    destruct (x_vty (field_exts f)); cbn; apply Hk; intros; reflexivity.
Qed.
End Level2.
End Inv.

(* ReflectInvProofs.v — lemmas behind props/C18.v and props/C15.v (part 2: what a successful
   reflection guarantees).  For descriptor sets [wf_desc] (enums non-empty; the split names of
   messages, enums and real oneofs pairwise distinct; JSON names of the fields and exposed oneofs
   of a message distinct — protoc enforces the field part) every successful build yields a schema
   set in which
     - keys are distinct and no entry is an unlinked placeholder,
     - every object / oneof has pairwise distinct property names,
     - every scalar format is one the import knows,
     - every reference names an entry of the set.
   The last three are the hypotheses of the C15 round-trip theorem. *)
From Coq Require Import String List Arith NArith ZArith Bool Lia Permutation.
From J5V.lib Require Import Outcome.
From J5V.model Require Import ReflectDesc ReflectSchema Reflect ReflectSpec Export.
From J5V.proofs Require Import ReflectProofs ExportProofs.
Import ListNotations.
Local Open Scope bool_scope.

(* ---------------------------------------------------------------- small list facts *)
Lemma nodup_str_NoDup l : nodup_str l = true <-> NoDup l.
Proof.
  induction l as [|x r IH]; cbn [nodup_str]; split; intros H; try constructor; try reflexivity.
  - apply andb_prop in H as [H1 H2]. apply negb_true_iff in H1. intros Hin.
    assert (existsb (str_eqb x) r = true) by (apply existsb_exists; exists x; split; [exact Hin|apply str_eqb_refl]).
    congruence.
  - apply andb_prop in H as [_ H2]. apply IH. exact H2.
  - inversion H as [|? ? Hn Hr]; subst. apply andb_true_intro. split.
    + apply negb_true_iff. destruct (existsb (str_eqb x) r) eqn:E; [|reflexivity].
      apply existsb_exists in E as (y & Hy & He). apply str_eqb_eq in He. subst. contradiction.
    + apply IH. exact Hr.
Qed.

Lemma NoDup_app_l {A} (a b : list A) : NoDup (a ++ b) -> NoDup a.
Proof. induction a as [|x r IH]; cbn; intros H; [constructor|]. inversion H; subst. constructor; [intros Hin; apply H2; apply in_or_app; left; exact Hin|apply IH; assumption]. Qed.
Lemma NoDup_app_r {A} (a b : list A) : NoDup (a ++ b) -> NoDup b.
Proof. induction a as [|x r IH]; cbn; intros H; [exact H|]. inversion H; subst. apply IH; assumption. Qed.
Lemma NoDup_app_notin {A} (a b : list A) x : NoDup (a ++ b) -> In x a -> ~ In x b.
Proof.
  induction a as [|y r IH]; cbn; intros H Hin; [destruct Hin|]. inversion H; subst. destruct Hin as [->|Hin].
  - intros Hb. apply H2. apply in_or_app. right. exact Hb.
  - apply IH; assumption.
Qed.
Lemma NoDup_incl_cons {A} (x : A) l big : NoDup (x :: big) -> incl l big -> NoDup l -> NoDup (x :: l).
Proof. intros H Hi Hl. inversion H; subst. constructor; [intros Hin; apply H2, Hi, Hin|exact Hl]. Qed.

(* ---------------------------------------------------------------- well-formedness *)
Section Consistency.
Variable D : desc.

Definition real_oneof_keys (m : msgd) : list ref :=
  flat_map (fun o => match o with Oneof name _ syn _ _ => if syn then [] else [oneof_key m name] end) (m_oneofs m).
Definition all_keys : list ref :=
  map msg_key (d_msgs D) ++ map enum_key (d_enums D) ++ flat_map real_oneof_keys (d_msgs D).
Definition exposed_jnames (m : msgd) : list str :=
  flat_map (fun o => match o with Oneof _ j false (Some true) _ => [j] | _ => [] end) (m_oneofs m).

(* what the totality and the C15 guarantees need: enums non-empty, the "_"-joined keys distinct *)
Definition wf_keys : Prop :=
  (forall e, In e (d_enums D) -> enum_nonempty e) /\
  NoDup all_keys.
(* what property-name uniqueness needs on top: JSON names of the fields and of the exposed oneofs of
   a message distinct (protoc checks the fields among themselves, not against the oneof names) *)
Definition json_ok : Prop :=
  forall m, In m (d_msgs D) -> NoDup (map f_json (m_fields m) ++ exposed_jnames m).
Definition wf_desc : Prop := wf_keys /\ json_ok.

Hypothesis Hwf : wf_keys.

Lemma real_oneof_key_in m name j x d :
  In (Oneof name j false x d) (m_oneofs m) -> In (oneof_key m name) (real_oneof_keys m).
Proof.
  intros H. unfold real_oneof_keys. apply in_flat_map. exists (Oneof name j false x d). split; [exact H|left; reflexivity].
Qed.

Lemma wf_desc_total : wf_total D.
Proof.
  destruct Hwf as (He & Hk). split; [exact He|].
  intros e m Hein Hmin. unfold all_keys in Hk.
  assert (H1 : In (enum_key e) (map enum_key (d_enums D))) by (apply in_map; exact Hein).
  split.
  - intros Heq. apply NoDup_app_notin with (x := msg_key m) in Hk; [|apply in_map; exact Hmin].
    apply Hk. apply in_or_app. left. rewrite <- Heq. exact H1.
  - intros [name j syn x d] Ho Hsyn. subst syn. intros Heq.
    apply NoDup_app_r in Hk. apply NoDup_app_notin with (x := enum_key e) in Hk; [|exact H1].
    apply Hk. apply in_flat_map. exists m. split; [exact Hmin|]. rewrite Heq. eapply real_oneof_key_in; eauto.
Qed.
End Consistency.

(* ---------------------------------------------------------------- the invariant of successful builds *)
Section Inv.
Variable D : desc.
Hypothesis Hwf : wf_keys D.
Let Hwt : wf_total D := wf_desc_total D Hwf.

(* local to a root: distinct property names, importable formats *)
Definition props_wf (ps : list prop) : Prop :=
  (json_ok D -> NoDup (map p_json ps)) /\ forallb (fun p => field_importable (p_schema p)) ps = true.
(* a linked root: the names are distinct whatever the descriptors say (the reader checks them, fix 07ed85e) *)
Definition root_wf (r : root) : Prop :=
  NoDup (map p_json (root_props r)) /\ forallb (fun p => field_importable (p_schema p)) (root_props r) = true.
Definition refs_keyed (st : sset) (rs : list ref) : Prop := forall k, In k rs -> has_key st k = true.

Definition InvS (st : sset) : Prop :=
  Inv D st /\
  (forall k r, lookup st k = Some (Linked r) -> root_wf r /\ refs_keyed st (root_refs r)) /\
  NoDup (map fst st).

(* no unlinked placeholder appears that was not there before *)
Definition noplace (st st' : sset) : Prop :=
  forall k, lookup st' k = Some Placeholder -> lookup st k = Some Placeholder.
Lemma noplace_refl st : noplace st st.
Proof. intros k H. exact H. Qed.
Lemma noplace_trans a b c : noplace a b -> noplace b c -> noplace a c.
Proof. intros H1 H2 k H. apply H1, H2, H. Qed.

Lemma refs_keyed_ext st st' rs : ext st st' -> refs_keyed st rs -> refs_keyed st' rs.
Proof. intros He H k Hk. apply He, H, Hk. Qed.

Lemma InvS_nil : InvS [].
Proof. split; [apply Inv_nil|]. split; [intros k r H; discriminate|constructor]. Qed.

Lemma has_key_cons st k e k' : has_key ((k, e) :: st) k' = ref_eqb k k' || has_key st k'.
Proof. unfold has_key. rewrite lookup_cons. destruct (ref_eqb k k'); reflexivity. Qed.

(* a fresh key that is not an enum's name: placeholder or linked root *)
Lemma InvS_cons st k en :
  InvS st -> lookup st k = None -> (forall e, In e (d_enums D) -> enum_key e <> k) ->
  (match en with Placeholder => True | Linked r => root_wf r /\ refs_keyed ((k, en) :: st) (root_refs r) end) ->
  InvS ((k, en) :: st).
Proof.
  intros (H1 & H2 & H3) Hl Hk Hen. split; [apply Inv_cons_other; assumption|]. split.
  - intros k' r Hlk. rewrite lookup_cons in Hlk. destruct (ref_eqb k k') eqn:E.
    + inversion Hlk; subst en. exact Hen.
    + destruct (H2 k' r Hlk) as [Hw Hr]. split; [exact Hw|]. eapply refs_keyed_ext; [apply ext_cons|exact Hr].
  - cbn [map fst]. constructor; [apply lookup_None_notin; exact Hl|exact H3].
Qed.

Lemma InvS_cons_enum st e r :
  InvS st -> lookup st (enum_key e) = None -> (exists a b c d f, r = REnum a b c d f) ->
  InvS ((enum_key e, Linked r) :: st).
Proof.
  intros (H1 & H2 & H3) Hl (a & b & c & d & f & ->). split; [apply Inv_cons_enum; eauto 10|]. split.
  - intros k' r Hlk. rewrite lookup_cons in Hlk. destruct (ref_eqb (enum_key e) k') eqn:E.
    + inversion Hlk; subst r. split; [split; [constructor|reflexivity]|intros k2 []].
    + destruct (H2 k' r Hlk) as [Hw Hr]. split; [exact Hw|]. eapply refs_keyed_ext; [apply ext_cons|exact Hr].
  - cbn [map fst]. constructor; [apply lookup_None_notin; exact Hl|exact H3].
Qed.

Lemma InvS_update st k r :
  InvS st -> (forall e, In e (d_enums D) -> enum_key e <> k) ->
  root_wf r -> refs_keyed st (root_refs r) -> InvS (update st k (Linked r)).
Proof.
  intros (H1 & H2 & H3) Hk Hw Hr. split; [apply Inv_update_other; assumption|]. split.
  - intros k' r' Hlk. rewrite lookup_update in Hlk. destruct (ref_eqb k k') eqn:E.
    + destruct (lookup st k); [|discriminate]. inversion Hlk; subst r'. split; [exact Hw|].
      eapply refs_keyed_ext; [apply ext_update|exact Hr].
    + destruct (H2 k' r' Hlk) as [Hw' Hr']. split; [exact Hw'|]. eapply refs_keyed_ext; [apply ext_update|exact Hr'].
  - rewrite keys_update. exact H3.
Qed.

Lemma noplace_cons_linked st k r : noplace st ((k, Linked r) :: st).
Proof.
  intros k' H. rewrite lookup_cons in H. destruct (ref_eqb k k'); [discriminate|exact H].
Qed.
Lemma noplace_update_linked st st1 k r :
  noplace ((k, Placeholder) :: st) st1 -> lookup st k = None -> noplace st (update st1 k (Linked r)).
Proof.
  intros Hn Hl k' H. rewrite lookup_update in H. destruct (ref_eqb k k') eqn:E.
  - destruct (lookup st1 k); discriminate.
  - apply Hn in H. rewrite lookup_cons, E in H. exact H.
Qed.
Lemma noplace_update_same st k r : noplace st (update st k (Linked r)).
Proof.
  intros k' H. rewrite lookup_update in H. destruct (ref_eqb k k'); [destruct (lookup st k); discriminate|exact H].
Qed.

(* ---------------------------------------------------------------- the post-condition, with a result predicate *)
Definition Ps {X} (pr : X -> sset) (Q : X -> Prop) (st : sset) (o : outcome X) : Prop :=
  match o with
  | Ok x => InvS (pr x) /\ ext st (pr x) /\ noplace st (pr x) /\ Q x
  | Err _ => True
  | Panic _ => False
  | OutOfFuel => False
  end.

Lemma Ps_bind {X Y} (prx : X -> sset) (pry : Y -> sset) (Qx : X -> Prop) (Qy : Y -> Prop) st (o : outcome X) (g : X -> outcome Y) :
  Ps prx Qx st o ->
  (forall x, InvS (prx x) -> ext st (prx x) -> noplace st (prx x) -> Qx x ->
             match g x with
             | Ok y => InvS (pry y) /\ ext (prx x) (pry y) /\ noplace (prx x) (pry y) /\ Qy y
             | Err _ => True
             | _ => False
             end) ->
  Ps pry Qy st (obind o g).
Proof.
  intros Ho Hg. destruct o as [x| | |]; cbn in *; auto.
  destruct Ho as (H1 & H2 & H3 & H4). specialize (Hg x H1 H2 H3 H4).
  destruct (g x) as [y| | |]; cbn; auto. destruct Hg as (G1 & G2 & G3 & G4).
  split; [exact G1|]. split; [eapply ext_trans; eauto|]. split; [eapply noplace_trans; eauto|exact G4].
Qed.

(* ---------------------------------------------------------------- scalars, well-known types *)
Lemma rbind_ok {A B} (r : res A) (f : A -> res B) b :
  rbind r f = ROk b -> exists a, r = ROk a /\ f a = ROk b.
Proof. destruct r as [a|c]; cbn [rbind]; intros H; [eauto|discriminate]. Qed.

Lemma build_string_shape x p :
  build_string x = ROk p -> match p with PString _ _ _ | PKey _ _ _ => True | _ => False end.
Proof.
  unfold build_string. intros H.
  apply rbind_ok in H as ([[fmt1 rules] key1] & _ & H). cbn beta iota in H.
  apply rbind_ok in H as ([fmt2 fk] & _ & H). cbn beta iota in H.
  apply rbind_ok in H as (slr & _ & H). cbn beta iota zeta in H.
  match type of H with (if ?b then _ else _) = _ => destruct b end.
  - inversion H. exact I.
  - apply rbind_ok in H as (kf & _ & H). inversion H. exact I.
Qed.

Lemma build_scalar_importable k x p : build_scalar k x = ROk p -> field_importable (FScalar (Some (k, [])) p) = true.
Proof.
  destruct k; cbn [build_scalar field_importable]; intros H; try discriminate;
    try (match type of H with
         | build_string _ = _ => pose proof (build_string_shape x p H) as Hs; destruct p; try contradiction; reflexivity
         end);
    try (apply rbind_ok in H as (v & _ & H));
    inversion H; subst; reflexivity.
Qed.

Lemma wkt_schema_ok full x s :
  wkt_schema full x = ROk (Some s) -> field_importable s = true /\ field_refs s = [].
Proof.
  unfold wkt_schema.
  repeat match goal with
         | |- context [if ?b then _ else _] => destruct b
         | |- context [rbind ?r _] => destruct r as [v|c]; cbn [rbind]
         | |- context [let '(_, _) := ?v in _] => destruct v
         end; intros H; try discriminate; inversion H; subst; split; reflexivity.
Qed.
(* ---------------------------------------------------------------- fields *)
Definition Qs (x : sset * fschema) : Prop :=
  field_importable (snd x) = true /\ refs_keyed (fst x) (field_refs (snd x)).

Lemma has_key_lookup st k e : lookup st k = Some e -> has_key st k = true.
Proof. unfold has_key. intros ->. reflexivity. Qed.

Lemma build_enum_field_ps st f x : InvS st -> Ps fst Qs st (build_enum_field D st f x).
Proof.
  intros HI. unfold build_enum_field.
  destruct (f_ty f) as [|full|full]; try exact I.
  destruct (find_enum D full) as [e|] eqn:Ef; [|exact I].
  assert (He : In e (d_enums D)) by (eapply find_enum_In; eauto).
  assert (Hne : enum_nonempty e) by (apply (proj1 Hwt); exact He).
  assert (Hst1 : match enum_ref st e with
                 | Ok st1 => InvS st1 /\ ext st st1 /\ noplace st st1 /\
                             exists a b c d g, lookup st1 (enum_key e) = Some (Linked (REnum a b c d g))
                 | Err _ => True
                 | _ => False
                 end).
  { pose proof (enum_ref_shape st e Hne) as Hsh.
    destruct (enum_ref st e) as [st1| | |] eqn:Er; try exact Hsh.
    destruct Hsh as (He1 & _ & Hl).
    destruct (enum_ref_inv st e st1 Er) as [[-> _]|(El & r & Eb & ->)].
    - split; [exact HI|]. split; [apply ext_refl|]. split; [apply noplace_refl|exact Hl].
    - pose proof (build_enum_shape e Hne) as Hs. rewrite Eb in Hs.
      split; [apply InvS_cons_enum; assumption|]. split; [apply ext_cons|]. split; [apply noplace_cons_linked|exact Hl]. }
  destruct (enum_ref st e) as [st1| | |]; cbn [obind]; try exact Hst1.
  destruct Hst1 as (HI1 & He1 & Hn1 & a & b & c & d & g & Hl).
  assert (Hfin : forall rules lr, Ps fst Qs st (Ok (st1, FEnum (enum_key e) rules lr None))).
  { intros rules lr. unfold Ps, Qs. cbn [fst snd field_refs field_importable].
    split; [exact HI1|]. split; [exact He1|]. split; [exact Hn1|]. split; [reflexivity|].
    intros k Hk. destruct Hk as [<-|[]]. eapply has_key_lookup; eauto. }
  rewrite Hl. destruct (x_vty x); cbn [obind]; try apply Hfin.
  match goal with |- context [lift ?r] => destruct r as [v|cls] end; cbn [lift obind]; [apply Hfin|exact I].
Qed.

Definition Qr (x : sset * root) : Prop := root_wf (snd x) /\ refs_keyed (fst x) (root_refs (snd x)).

Section Level2.
Variable n : nat.
Variable rec : sset -> msgd -> outcome (sset * root).
Hypothesis Hrec : forall st m, In m (d_msgs D) -> InvS st -> unvisited D st < n -> Ps fst Qr st (rec st m).

Lemma build_message_field_ps st f x :
  InvS st -> unvisited D st <= n -> Ps fst Qs st (build_message_field D rec st f x).
Proof.
  intros HI HU. unfold build_message_field.
  destruct (f_ty f) as [|full|full]; try exact I.
  destruct (wkt_schema full x) as [[s|]|cls] eqn:Ew; cbn [lift obind]; try exact I.
  - destruct (wkt_schema_ok full x s Ew) as [Hi Hr]. unfold Ps, Qs. cbn [fst snd].
    split; [exact HI|]. split; [apply ext_refl|]. split; [apply noplace_refl|]. split; [exact Hi|].
    rewrite Hr. intros k [].
  - destruct (has_prefix s_google_protobuf full); [exact I|].
    destruct (find_msg D full) as [m|] eqn:Ef; [|exact I].
    assert (Hm : In m (d_msgs D)) by (eapply find_msg_In; eauto).
    assert (Hapart : forall e, In e (d_enums D) -> enum_key e <> msg_key m) by (intros e He; apply (msg_key_apart D Hwt); assumption).
    assert (Hres : forall st2 s, InvS st2 -> ext st st2 -> noplace st st2 -> has_key st2 (msg_key m) = true ->
                                 (exists fl lr, s = FObject (msg_key m) fl None None \/ s = FOneof (msg_key m) None lr None) ->
                                 Ps fst Qs st (Ok (st2, s))).
    { intros st2 s H1 H2 H3 H4 (fl & lr & [->| ->]); unfold Ps, Qs; cbn [fst snd field_refs field_importable];
        (split; [exact H1|]; split; [exact H2|]; split; [exact H3|]; split; [reflexivity|];
         intros k Hk; destruct Hk as [<-|[]]; exact H4). }
    destruct (lookup st (msg_key m)) as [en|] eqn:El; [destruct (is_enum_entry en)|]; cbn [obind].
    + exact I.
    + apply Hres; try assumption; try apply ext_refl; try apply noplace_refl; [eapply has_key_lookup; eauto|].
      destruct (is_oneof_wrapper m); [exists false; eexists; right; reflexivity|eexists; exists None; left; reflexivity].
    + assert (Hk : has_key st (msg_key m) = false) by (unfold has_key; rewrite El; reflexivity).
      assert (HI' : InvS ((msg_key m, Placeholder) :: st)) by (apply InvS_cons; auto).
      assert (HU' : unvisited D ((msg_key m, Placeholder) :: st) < n)
        by (pose proof (unvisited_cons D st m Placeholder Hm Hk); lia).
      pose proof (Hrec _ m Hm HI' HU') as Hr.
      destruct (rec ((msg_key m, Placeholder) :: st) m) as [[st1 r]| | |]; cbn [obind Ps fst] in *; try exact Hr.
      destruct Hr as (HI1 & He1 & Hn1 & Hw & Hrk). cbn [fst snd] in *.
      apply Hres.
      * apply InvS_update; assumption.
      * eapply ext_trans; [apply ext_cons|]. eapply ext_trans; [exact He1|apply ext_update].
      * eapply noplace_update_linked; eauto.
      * apply ext_update. apply He1. unfold has_key. rewrite lookup_cons, ref_eqb_refl. reflexivity.
      * destruct (is_oneof_wrapper m); [exists false; eexists; right; reflexivity|eexists; exists None; left; reflexivity].
Qed.

Lemma build_schema_ps st f x :
  InvS st -> unvisited D st <= n -> Ps fst Qs st (build_schema D rec st f x).
Proof.
  intros HI HU. unfold build_schema.
  destruct (f_kind f) eqn:Ek;
    try (destruct (build_scalar _ x) as [p|cls] eqn:Eb; cbn [lift obind]; [|exact I];
         unfold Ps, Qs; cbn [fst snd field_refs];
         split; [exact HI|]; split; [apply ext_refl|]; split; [apply noplace_refl|];
         split; [eapply build_scalar_importable; eauto|intros k []]).
  - apply build_enum_field_ps; exact HI.
  - apply build_message_field_ps; assumption.
Qed.

(* a property built for field f: its JSON name and path are the field's *)
Definition Qp (f : field) (x : sset * prop) : Prop :=
  p_json (snd x) = f_json f /\ field_importable (p_schema (snd x)) = true /\
  refs_keyed (fst x) (field_refs (p_schema (snd x))).

Lemma build_field_prop_ps st f :
  InvS st -> unvisited D st <= n -> Ps fst (Qp f) st (build_field_prop D rec st f).
Proof.
  intros HI HU. unfold build_field_prop.
  assert (Hk : forall x (mk : fschema -> prop),
             (forall s, p_json (mk s) = f_json f) ->
             (forall s, field_importable (p_schema (mk s)) = field_importable s) ->
             (forall s, field_refs (p_schema (mk s)) = field_refs s) ->
             Ps fst (Qp f) st (obind (build_schema D rec st f x) (fun '(st1, s) => Ok (st1, mk s)))).
  { intros x mk H1 H2 H3. eapply Ps_bind; [apply build_schema_ps; assumption|].
    intros [st1 s] G1 G2 G3 [G4 G5]. cbn [fst snd] in *. unfold Qp. cbn [fst snd].
    split; [exact G1|]. split; [apply ext_refl|]. split; [apply noplace_refl|].
    split; [apply H1|]. split; [rewrite H2; exact G4|rewrite H3; exact G5]. }
  destruct (f_card f) as [| | |kk].
  - apply Hk; intros; reflexivity.
  - apply Hk; intros; reflexivity.
  - destruct (x_vty (field_exts f)); cbn; apply Hk; intros; reflexivity.
  - destruct (negb (kind_eqb kk KString)); [exact I|].
    destruct (x_vty (field_exts f)); cbn; apply Hk; intros; reflexivity.
Qed.
End Level2.
End Inv.

(* ---------------------------------------------------------------- the field loop *)
Section Loop.
Variable D : desc.
Hypothesis Hwf : wf_keys D.
Let Hwt : wf_total D := wf_desc_total D Hwf.
Variable n : nat.
Variable rec : sset -> msgd -> outcome (sset * root).
Hypothesis Hrec : forall st m, In m (d_msgs D) -> InvS D st -> unvisited D st < n -> Ps D fst Qr st (rec st m).

Definition props_refs (ps : list prop) : list ref := flat_map (fun p => field_refs (p_schema p)) ps.
Definition props_importable (ps : list prop) : bool := forallb (fun p => field_importable (p_schema p)) ps.

(* an exposed-oneof record in a state *)
Definition ex_wf (st : sset) (e : exposed) : Prop :=
  p_schema (ex_prop e) = FOneof (ex_key e) None None None /\ has_key st (ex_key e) = true /\
  props_importable (ex_props e) = true /\ refs_keyed st (props_refs (ex_props e)).

Lemma ex_wf_ext st st' e : ext st st' -> ex_wf st e -> ex_wf st' e.
Proof.
  intros He (H1 & H2 & H3 & H4). split; [exact H1|]. split; [apply He; exact H2|]. split; [exact H3|].
  eapply refs_keyed_ext; eauto.
Qed.
Lemma Forall_ex_wf_ext st st' exs : ext st st' -> Forall (ex_wf st) exs -> Forall (ex_wf st') exs.
Proof. intros He H. eapply Forall_impl; [|exact H]. intros e. apply ex_wf_ext. exact He. Qed.

Definition bump (e : exposed) (p : prop) : exposed :=
  {| ex_idx := ex_idx e; ex_key := ex_key e; ex_prop := ex_prop e; ex_pending := false; ex_props := ex_props e ++ [p] |}.

Lemma add_to_exposed_split exs idx p exs1 pending :
  add_to_exposed exs idx p = Some (exs1, pending) ->
  exists l1 e l2, exs = l1 ++ e :: l2 /\ exs1 = l1 ++ bump e p :: l2 /\
                  pending = (if ex_pending e then Some (ex_prop e) else None).
Proof.
  revert exs1 pending. induction exs as [|e r IH]; intros exs1 pending H; cbn [add_to_exposed] in H; [discriminate|].
  destruct (N.eqb (ex_idx e) idx).
  - inversion H; subst. exists [], e, r. repeat split.
  - destruct (add_to_exposed r idx p) as [[r' o]|] eqn:E; [|discriminate]. inversion H; subst.
    destruct (IH r' pending eq_refl) as (l1 & e0 & l2 & H1 & H2 & H3). exists (e :: l1), e0, l2.
    subst. repeat split.
Qed.

Lemma props_importable_app a b : props_importable (a ++ b) = props_importable a && props_importable b.
Proof. unfold props_importable. apply forallb_app. Qed.
Lemma props_refs_app a b : props_refs (a ++ b) = props_refs a ++ props_refs b.
Proof. unfold props_refs. apply flat_map_app. Qed.

Definition Ql (x : sset * list exposed * list prop) : Prop :=
  props_importable (snd x) = true /\ refs_keyed (pr3 x) (props_refs (snd x)) /\ Forall (ex_wf (pr3 x)) (snd (fst x)).

Lemma fields_loop_ps m fs : forall st exs,
  InvS D st -> unvisited D st <= n -> Forall (ex_wf st) exs -> Ps D pr3 Ql st (fields_loop D rec m st exs fs).
Proof.
  induction fs as [|f r IH]; intros st exs HI HU Hex; cbn [fields_loop].
  - unfold Ps, Ql, pr3. cbn [fst snd]. split; [exact HI|]. split; [apply ext_refl|]. split; [apply noplace_refl|].
    split; [reflexivity|]. split; [intros k []|exact Hex].
  - eapply Ps_bind; [apply (build_field_prop_ps D Hwf n rec Hrec); assumption|].
    intros [st1 p] HI1 He1 Hn1 (Hj & Hi & Hr). cbn [fst snd] in *.
    assert (HU1 : unvisited D st1 <= n) by (pose proof (unvisited_ext D _ _ He1); lia).
    assert (Hex1 : Forall (ex_wf st1) exs) by (eapply Forall_ex_wf_ext; eauto).
    (* prepend a property whose schema is importable and whose refs are keyed in st1 *)
    assert (Hcons : forall exs' q,
               Forall (ex_wf st1) exs' -> field_importable (p_schema q) = true -> refs_keyed st1 (field_refs (p_schema q)) ->
               match obind (fields_loop D rec m st1 exs' r) (fun '(st2, exs2, ps) => Ok (st2, exs2, q :: ps)) with
               | Ok y => InvS D (pr3 y) /\ ext st1 (pr3 y) /\ noplace st1 (pr3 y) /\ Ql y
               | Err _ => True
               | _ => False
               end).
    { intros exs' q Hex' Hqi Hqr. pose proof (IH st1 exs' HI1 HU1 Hex') as H.
      destruct (fields_loop D rec m st1 exs' r) as [[[st2 exs2] ps]| | |]; cbn [obind]; try exact H.
      unfold Ps, Ql, pr3 in *. cbn [fst snd] in *. destruct H as (G1 & G2 & G3 & G4 & G5 & G6).
      split; [exact G1|]. split; [exact G2|]. split; [exact G3|].
      split; [cbn [props_importable forallb]; rewrite Hqi; exact G4|].
      split; [|exact G6]. cbn [props_refs flat_map]. intros k Hk. apply in_app_or in Hk as [Hk|Hk].
      - apply G2. apply Hqr. exact Hk.
      - apply G5. exact Hk. }
    assert (Hdirect := Hcons exs p Hex1 Hi Hr).
    destruct (f_card f); try exact Hdirect;
      (destruct (f_oneof f) as [idx|]; [|exact Hdirect];
       destruct (oneof_is_synthetic m idx); [exact Hdirect|];
       destruct (add_to_exposed exs idx p) as [[exs1 pending]|] eqn:Ea; [|exact Hdirect]).
    all: destruct (add_to_exposed_split _ _ _ _ _ Ea) as (l1 & e & l2 & E1 & E2 & E3).
    all: assert (Hex2 : Forall (ex_wf st1) exs1)
        by (subst exs exs1; apply Forall_app in Hex1 as [Ha Hb]; inversion Hb as [|? ? He Hl2]; subst;
            apply Forall_app; split; [exact Ha|]; constructor; [|exact Hl2];
            destruct He as (W1 & W2 & W3 & W4); unfold ex_wf, bump; cbn [ex_prop ex_key ex_props];
            split; [exact W1|]; split; [exact W2|]; split;
            [rewrite props_importable_app, W3; cbn [props_importable forallb]; rewrite Hi; reflexivity|];
            rewrite props_refs_app; cbn [props_refs flat_map]; rewrite app_nil_r;
            intros k Hk; apply in_app_or in Hk as [Hk|Hk]; [apply W4; exact Hk|apply Hr; exact Hk]).
    all: assert (He : ex_wf st1 e) by (subst exs; apply Forall_app in Hex1 as [_ Hb]; inversion Hb; assumption).
    all: destruct pending as [pp|].
    all: try (assert (Hpp : pp = ex_prop e) by (destruct (ex_pending e); inversion E3; reflexivity); subst pp;
              destruct He as (W1 & W2 & _ & _);
              apply Hcons; [exact Hex2|rewrite W1; reflexivity|rewrite W1; intros k [<-|[]]; exact W2]).
    all: pose proof (IH st1 exs1 HI1 HU1 Hex2) as H;
         destruct (fields_loop D rec m st1 exs1 r) as [[[st2 exs2] ps]| | |]; cbn [obind]; exact H.
Qed.
End Loop.

(* ---------------------------------------------------------------- property names of a message *)
Section Names.
Variable D : desc.
Variable rec : sset -> msgd -> outcome (sset * root).

Lemma build_field_prop_json st f st1 p : build_field_prop D rec st f = Ok (st1, p) -> p_json p = f_json f.
Proof.
  unfold build_field_prop. intros H.
  destruct (f_card f) as [| | |kk].
  - destruct (build_schema D rec st f (field_exts f)) as [[a b]| | |]; cbn [obind] in H; try discriminate. inversion H; reflexivity.
  - destruct (build_schema D rec st f (field_exts f)) as [[a b]| | |]; cbn [obind] in H; try discriminate. inversion H; reflexivity.
  - destruct (x_vty (field_exts f)); cbn in H;
      match type of H with obind ?o _ = _ => destruct o as [[a b]| | |]; cbn [obind] in H; try discriminate end; inversion H; reflexivity.
  - destruct (negb (kind_eqb kk KString)); [discriminate|].
    destruct (x_vty (field_exts f)); cbn in H;
      match type of H with obind ?o _ = _ => destruct o as [[a b]| | |]; cbn [obind] in H; try discriminate end; inversion H; reflexivity.
Qed.

(* JSON names of the pending exposed oneofs *)
Definition pn (exs : list exposed) : list str := map (fun e => p_json (ex_prop e)) (filter ex_pending exs).
Lemma pn_app a b : pn (a ++ b) = pn a ++ pn b.
Proof. unfold pn. rewrite filter_app, map_app. reflexivity. Qed.

Definition members_ok (J : list str) (exs : list exposed) : Prop :=
  Forall (fun e => NoDup (map p_json (ex_props e) ++ J)) exs.

Lemma NoDup_remove_mid {A} (a : list A) x b : NoDup (a ++ x :: b) -> NoDup (a ++ b).
Proof. apply NoDup_remove_1. Qed.

Lemma members_ok_tail x J exs : members_ok (x :: J) exs -> members_ok J exs.
Proof.
  intros H. eapply Forall_impl; [|exact H]. intros e He. apply NoDup_remove_mid in He. exact He.
Qed.

Lemma incl_app_app {A} (a b c d : list A) : incl a c -> incl b d -> incl (a ++ b) (c ++ d).
Proof. intros H1 H2 x Hx. apply in_app_or in Hx as [Hx|Hx]; apply in_or_app; [left; apply H1|right; apply H2]; exact Hx. Qed.

Lemma fields_loop_names m fs : forall st exs st2 exs2 ps,
  fields_loop D rec m st exs fs = Ok (st2, exs2, ps) ->
  NoDup (map f_json fs ++ pn exs) -> members_ok (map f_json fs) exs ->
  NoDup (map p_json ps ++ pn exs2) /\ incl (map p_json ps ++ pn exs2) (map f_json fs ++ pn exs) /\
  Forall (fun e => NoDup (map p_json (ex_props e))) exs2.
Proof.
  induction fs as [|f r IH]; intros st exs st2 exs2 ps H Hnd Hmem; cbn [fields_loop] in H.
  - inversion H; subst. cbn [map app] in *. split; [exact Hnd|]. split; [apply incl_refl|].
    eapply Forall_impl; [|exact Hmem]. intros e He. cbn beta in He. rewrite app_nil_r in He. exact He.
  - destruct (build_field_prop D rec st f) as [[st1 p]| | |] eqn:Eb; cbn [obind] in H; try discriminate.
    pose proof (build_field_prop_json _ _ _ _ Eb) as Hj.
    cbn [map app] in Hnd. cbn [map] in Hmem.
    assert (Hnd_r : NoDup (map f_json r ++ pn exs)) by (inversion Hnd; assumption).
    assert (Hnotin : ~ In (f_json f) (map f_json r ++ pn exs)) by (inversion Hnd; assumption).
    assert (Hmem_r : members_ok (map f_json r) exs) by (eapply members_ok_tail; eauto).
    (* the property of f is emitted directly *)
    assert (Hdirect : obind (fields_loop D rec m st1 exs r) (fun '(st2, exs2, ps) => Ok (st2, exs2, p :: ps)) = Ok (st2, exs2, ps) ->
              NoDup (map p_json ps ++ pn exs2) /\ incl (map p_json ps ++ pn exs2) (f_json f :: map f_json r ++ pn exs) /\
              Forall (fun e => NoDup (map p_json (ex_props e))) exs2).
    { intros H'. destruct (fields_loop D rec m st1 exs r) as [[[a b] c]| | |] eqn:E; cbn [obind] in H'; try discriminate.
      inversion H'; subst. destruct (IH _ _ _ _ _ E Hnd_r Hmem_r) as (I1 & I2 & I3).
      cbn [map app]. rewrite Hj. split; [|split; [|exact I3]].
      - constructor; [intros Hin; apply Hnotin; apply I2; exact Hin|exact I1].
      - intros x [<-|Hx]; [left; reflexivity|right; apply I2; exact Hx]. }
    destruct (f_card f); try (apply Hdirect; exact H);
      (destruct (f_oneof f) as [idx|]; [|apply Hdirect; exact H];
       destruct (oneof_is_synthetic m idx); [apply Hdirect; exact H|];
       destruct (add_to_exposed exs idx p) as [[exs1 pending]|] eqn:Ea; [|apply Hdirect; exact H]).
    all: destruct (add_to_exposed_split _ _ _ _ _ Ea) as (l1 & e & l2 & E1 & E2 & E3).
    all: destruct (fields_loop D rec m st1 exs1 r) as [[[a b] c]| | |] eqn:E; cbn [obind] in H; try discriminate.
    all: inversion H; subst a b ps; clear H.
    all: assert (Hpn1 : pn exs1 = pn l1 ++ pn l2)
        by (subst exs1; rewrite pn_app; unfold pn at 2; cbn [filter bump ex_pending]; reflexivity).
    all: assert (Hpn0 : pn exs = pn l1 ++ (if ex_pending e then [p_json (ex_prop e)] else []) ++ pn l2)
        by (subst exs; rewrite pn_app; unfold pn at 2; cbn [filter]; destruct (ex_pending e); reflexivity).
    all: assert (Hmem1 : members_ok (map f_json r) exs1)
        by (subst exs exs1; unfold members_ok in *; apply Forall_app in Hmem as [Ha Hb]; inversion Hb as [|? ? He Hl2]; subst;
            apply Forall_app; split;
            [eapply Forall_impl; [|exact Ha]; intros e0 He0; apply NoDup_remove_mid in He0; exact He0|];
            constructor;
            [unfold bump; cbn [ex_props]; rewrite map_app, <- app_assoc; cbn [map app]; rewrite Hj; exact He
            |eapply Forall_impl; [|exact Hl2]; intros e0 He0; apply NoDup_remove_mid in He0; exact He0]).
    all: assert (Hsub : incl (map f_json r ++ pn exs1) (map f_json r ++ pn exs))
        by (apply incl_app_app; [apply incl_refl|]; rewrite Hpn1, Hpn0; intros x Hx; apply in_app_or in Hx as [Hx|Hx];
            apply in_or_app; [left; exact Hx|right; apply in_or_app; right; exact Hx]).
    all: assert (Hnd1 : NoDup (map f_json r ++ pn exs1))
        by (rewrite Hpn1; rewrite Hpn0 in Hnd_r; destruct (ex_pending e); cbn [app] in Hnd_r;
            [rewrite app_assoc in Hnd_r; apply NoDup_remove_mid in Hnd_r; rewrite <- app_assoc in Hnd_r; exact Hnd_r|exact Hnd_r]).
    all: destruct (IH _ _ _ _ _ E Hnd1 Hmem1) as (I1 & I2 & I3).
    all: destruct pending as [pp|].
    all: try (split; [exact I1|]; split; [|exact I3]; intros x Hx; right; apply Hsub, I2; exact Hx).
    all: assert (Hpend : ex_pending e = true /\ pp = ex_prop e) by (destruct (ex_pending e); inversion E3; split; reflexivity).
    all: destruct Hpend as [Hpe ->]; rewrite Hpe in Hpn0; cbn [app] in Hpn0.
    all: cbn [map app]; split; [|split; [|exact I3]].
    all: try (constructor; [|exact I1]; intros Hin; apply I2 in Hin; rewrite Hpn1 in Hin;
              rewrite Hpn0 in Hnd_r; rewrite app_assoc in Hnd_r; apply NoDup_remove_2 in Hnd_r;
              apply Hnd_r; rewrite <- app_assoc; exact Hin).
    all: intros x [<-|Hx]; [right; apply in_or_app; right; rewrite Hpn0; apply in_or_app; right; left; reflexivity
                           |right; apply Hsub, I2; exact Hx].
Qed.
End Names.

(* ---------------------------------------------------------------- messageProperties, the root, the recursion *)
Section Build.
Variable D : desc.
Hypothesis Hwf : wf_keys D.
Let Hwt : wf_total D := wf_desc_total D Hwf.

Definition exposed_of (os : list oneofd) : list str :=
  flat_map (fun o => match o with Oneof _ j false (Some true) _ => [j] | _ => [] end) os.

Lemma register_oneofs_ps m : In m (d_msgs D) -> forall os idx st,
  (forall o, In o os -> In o (m_oneofs m)) -> InvS D st ->
  match register_oneofs m st idx os with
  | ROk (st1, exs) => InvS D st1 /\ ext st st1 /\ noplace st st1 /\ Forall (ex_wf st1) exs /\
                      pn exs = exposed_of os /\ Forall (fun e => ex_props e = []) exs
  | RErr _ => True
  end.
Proof.
  intros Hm. induction os as [|[name jname syn ext0 d] r IH]; intros idx st Hsub HI; cbn [register_oneofs].
  - split; [exact HI|]. split; [apply ext_refl|]. split; [apply noplace_refl|]. repeat split; constructor.
  - assert (Hr : forall o, In o r -> In o (m_oneofs m)) by (intros o Ho; apply Hsub; right; exact Ho).
    cbn [exposed_of flat_map].
    destruct syn; [cbn [app]; apply IH; assumption|].
    destruct ext0 as [[|]|]; try (cbn [app]; apply IH; assumption).
    destruct (lookup st (oneof_key m name)) eqn:El; [exact I|].
    set (k := oneof_key m name). fold k in El.
    set (st1 := (k, Linked (ROneof (snd k) d [])) :: st).
    assert (HI1 : InvS D st1).
    { apply InvS_cons; [exact HI|exact El| |].
      - intros e He. eapply (oneof_key_apart D Hwt); eauto. apply Hsub. left. reflexivity.
      - split; [split; [constructor|reflexivity]|intros k2 []]. }
    pose proof (IH (N.succ idx) st1 Hr HI1) as H.
    destruct (register_oneofs m st1 (N.succ idx) r) as [[st2 exs]|]; cbn [rbind]; [|exact I].
    destruct H as (H1 & H2 & H3 & H4 & H5 & H6).
    split; [exact H1|]. split; [eapply ext_trans; [apply ext_cons|exact H2]|].
    split; [eapply noplace_trans; [apply noplace_cons_linked|exact H3]|].
    split; [|split].
    + constructor; [|exact H4]. unfold ex_wf. cbn [ex_prop ex_key ex_props p_schema].
      split; [reflexivity|]. split; [|split; [reflexivity|intros k2 []]].
      apply H2. unfold has_key, st1. rewrite lookup_cons, ref_eqb_refl. reflexivity.
    + unfold pn. cbn [filter ex_pending map ex_prop p_json app]. fold (pn exs). rewrite H5. reflexivity.
    + constructor; [reflexivity|exact H6].
Qed.

Lemma finish_oneofs_ps m : In m (d_msgs D) -> forall exs st,
  exs_named m exs -> Forall (ex_wf st) exs -> Forall (fun e => NoDup (map p_json (ex_props e))) exs ->
  InvS D st -> InvS D (finish_oneofs st exs) /\ ext st (finish_oneofs st exs) /\ noplace st (finish_oneofs st exs).
Proof.
  intros Hm. unfold finish_oneofs. induction exs as [|e r IH]; intros st Hnm Hex Hnd HI; cbn [fold_left].
  - split; [exact HI|]. split; [apply ext_refl|apply noplace_refl].
  - assert (Hnm' : exs_named m r) by (intros e' He'; apply Hnm; right; exact He').
    inversion Hex as [|? ? He Hex']; subst. inversion Hnd as [|? ? Hn Hnd']; subst.
    destruct (lookup st (ex_key e)) as [[|[| nm dd ps|]]|] eqn:El; try (apply IH; assumption).
    destruct (Hnm e (or_introl eq_refl)) as (name & j & x & d & Hin & Hkey).
    destruct He as (W1 & W2 & W3 & W4).
    set (st1 := update st (ex_key e) (Linked (ROneof nm dd (ex_props e)))).
    assert (HI1 : InvS D st1).
    { apply InvS_update; [exact HI| | |].
      - intros en Hen. rewrite Hkey. eapply (oneof_key_apart D Hwt); eauto.
      - split; [exact Hn|exact W3].
      - exact W4. }
    assert (He1 : ext st st1) by apply ext_update.
    destruct (IH st1 Hnm' (Forall_ex_wf_ext _ _ _ He1 Hex') Hnd' HI1) as (G1 & G2 & G3).
    split; [exact G1|]. split; [eapply ext_trans; eauto|]. eapply noplace_trans; [apply noplace_update_same|exact G3].
Qed.

Section Level3.
Variable n : nat.
Variable rec : sset -> msgd -> outcome (sset * root).
Hypothesis Hrec : forall st m, In m (d_msgs D) -> InvS D st -> unvisited D st < n -> Ps D fst Qr st (rec st m).

Definition Qm (x : sset * list prop) : Prop := props_wf D (snd x) /\ refs_keyed (fst x) (props_refs (snd x)).

Lemma exposed_of_jnames m : exposed_of (m_oneofs m) = exposed_jnames m.
Proof. reflexivity. Qed.

Lemma message_properties_ps st m :
  In m (d_msgs D) -> InvS D st -> unvisited D st <= n -> Ps D fst Qm st (message_properties D rec st m).
Proof.
  intros Hm HI HU. unfold message_properties.
  pose proof (register_oneofs_ps m Hm (m_oneofs m) 0%N st (fun o H => H) HI) as Hreg.
  destruct (register_oneofs m st 0 (m_oneofs m)) as [[st1 exs]|cls] eqn:Ereg; cbn [lift obind]; [|exact I].
  destruct Hreg as (HI1 & He1 & Hn1 & Hex & Hpn & Hempty).
  assert (Hnamed : exs_named m exs) by (eapply register_oneofs_named; [|exact Ereg]; auto).
  assert (HU1 : unvisited D st1 <= n) by (pose proof (unvisited_ext D _ _ He1); lia).
  pose proof (fields_loop_ps D Hwf n rec Hrec m (m_fields m) st1 exs HI1 HU1 Hex) as Hf.
  destruct (fields_loop D rec m st1 exs (m_fields m)) as [[[st2 exs2] ps]| | |] eqn:Ef; cbn [obind]; try exact Hf.
  unfold Ps, Ql, pr3 in Hf. cbn [fst snd] in Hf. destruct Hf as (HI2 & He2 & Hn2 & Hpi & Hpr & Hex2).
  destruct (existsb ex_pending exs2) eqn:Epend; [exact I|]. destruct (exs_names_ok exs2) eqn:Enames; cbn [negb]; [|exact I].
  assert (Hnamed2 : exs_named m exs2) by (eapply fields_loop_named; eauto).
  (* names, when the JSON names of the message are distinct *)
  assert (Hnames : json_ok D -> NoDup (map p_json ps) /\ Forall (fun e => NoDup (map p_json (ex_props e))) exs2).
  { intros Hj. pose proof (Hj m Hm) as Hjson.
    assert (Hnd0 : NoDup (map f_json (m_fields m) ++ pn exs)) by (rewrite Hpn, exposed_of_jnames; exact Hjson).
    assert (Hmem0 : members_ok (map f_json (m_fields m)) exs).
    { unfold members_ok. eapply Forall_impl; [|exact Hempty]. intros e He. cbn beta in He. rewrite He. cbn [map app].
      eapply NoDup_app_l; eauto. }
    destruct (fields_loop_names D rec m (m_fields m) st1 exs st2 exs2 ps Ef Hnd0 Hmem0) as (N1 & _ & N3).
    assert (Hpn2 : pn exs2 = []).
    { unfold pn. assert (filter ex_pending exs2 = []) as ->; [|reflexivity].
      clear -Epend. induction exs2 as [|e r IH]; [reflexivity|]. cbn [existsb filter] in *.
      apply orb_false_iff in Epend as [E1 E2]. rewrite E1. apply IH. exact E2. }
    rewrite Hpn2, app_nil_r in N1. split; [exact N1|exact N3]. }
  (* the members of every exposed oneof: distinct because messageProperties checks them *)
  assert (N3 : Forall (fun e => NoDup (map p_json (ex_props e))) exs2).
  { apply Forall_forall. intros e He. apply nodup_str_NoDup.
    unfold exs_names_ok in Enames. exact (proj1 (forallb_forall _ _) Enames e He). }
  destruct (finish_oneofs_ps m Hm exs2 st2 Hnamed2 Hex2 N3 HI2) as (F1 & F2 & F3).
  unfold Ps, Qm. cbn [fst snd].
  split; [exact F1|]. split; [eapply ext_trans; [exact He1|]; eapply ext_trans; [exact He2|exact F2]|].
  split; [eapply noplace_trans; [exact Hn1|]; eapply noplace_trans; [exact Hn2|exact F3]|].
  split; [split; [intros Hj; exact (proj1 (Hnames Hj))|exact Hpi]|]. eapply refs_keyed_ext; [exact F2|exact Hpr].
Qed.

Lemma build_root_ps st m :
  In m (d_msgs D) -> InvS D st -> unvisited D st <= n -> Ps D fst Qr st (build_root D rec st m).
Proof.
  intros Hm HI HU. unfold build_root.
  eapply Ps_bind; [apply message_properties_ps; assumption|].
  intros [st1 ps] HI1 He1 Hn1 [Hw Hr]. cbn [fst snd] in *.
  assert (Hfin : forall r, root_props r = ps -> NoDup (map p_json ps) ->
             match Ok (st1, r) : outcome (sset * root) with
             | Ok y => InvS D (fst y) /\ ext st1 (fst y) /\ noplace st1 (fst y) /\ Qr y
             | Err _ => True
             | _ => False
             end).
  { intros r Hp Hnd. cbn [fst]. split; [exact HI1|]. split; [apply ext_refl|]. split; [apply noplace_refl|].
    unfold Qr, root_wf, root_refs. cbn [fst snd]. rewrite Hp. split; [split; [exact Hnd|exact (proj2 Hw)]|exact Hr]. }
  destruct (props_valid ps) eqn:Ev; cbn [negb]; [|exact I].
  (* the names of the message's own properties: distinct because the reader checks them *)
  assert (Hnd : NoDup (map p_json ps)).
  { unfold props_valid in Ev. apply andb_true_iff in Ev as [_ Ev]. apply nodup_str_NoDup. exact Ev. }
  destruct (is_oneof_wrapper m); [apply Hfin; [reflexivity|exact Hnd]|].
  pose proof (flatten_cycle_fuel st1 (msg_key m) ps) as Hfc.
  destruct (flatten_cycle st1 (msg_key m) ps) as [[|]|]; [exact I| |contradiction].
  destruct (find_psm D m) as [ent|cls]; cbn [lift obind]; [apply Hfin; [reflexivity|exact Hnd]|exact I].
Qed.
End Level3.

Lemma build_msg_ps : forall fuel st m,
  In m (d_msgs D) -> InvS D st -> unvisited D st < fuel -> Ps D fst Qr st (build_msg D fuel st m).
Proof.
  induction fuel as [|fuel IH]; intros st m Hm HI HU; [lia|].
  cbn [build_msg]. apply build_root_ps with (n := fuel); [exact IH|assumption|assumption|lia].
Qed.

Lemma message_schema_ps fuel st m :
  In m (d_msgs D) -> InvS D st -> unvisited D st < fuel -> Ps D fst (fun _ => True) st (message_schema D fuel st m).
Proof.
  intros Hm HI HU. unfold message_schema.
  destruct (lookup st (msg_key m)) as [[|r]|] eqn:El.
  - exact I.
  - unfold Ps. cbn [fst]. split; [exact HI|]. split; [apply ext_refl|]. split; [apply noplace_refl|exact I].
  - assert (Hk : has_key st (msg_key m) = false) by (unfold has_key; rewrite El; reflexivity).
    assert (Hapart : forall e, In e (d_enums D) -> enum_key e <> msg_key m) by (intros e He; apply (msg_key_apart D Hwt); assumption).
    assert (HI' : InvS D ((msg_key m, Placeholder) :: st)) by (apply InvS_cons; auto).
    assert (HU' : unvisited D ((msg_key m, Placeholder) :: st) < fuel)
      by (pose proof (unvisited_cons D st m Placeholder Hm Hk); lia).
    pose proof (build_msg_ps fuel _ m Hm HI' HU') as Hr.
    destruct (build_msg D fuel ((msg_key m, Placeholder) :: st) m) as [[st1 r]| | |]; cbn [obind]; try exact Hr.
    unfold Ps, Qr in *. cbn [fst snd] in *. destruct Hr as (HI1 & He1 & Hn1 & Hw & Hrk).
    split; [apply InvS_update; assumption|].
    split; [eapply ext_trans; [apply ext_cons|]; eapply ext_trans; [exact He1|apply ext_update]|].
    split; [eapply noplace_update_linked; eauto|exact I].
Qed.

Definition good_final (o : outcome sset) : Prop :=
  match o with
  | Ok st => InvS D st /\ forall k, lookup st k <> Some Placeholder
  | Err _ => True
  | _ => False
  end.

Lemma messages_loop_ps fuel : length (d_msgs D) < fuel -> forall ms st,
  InvS D st -> (forall k, lookup st k <> Some Placeholder) -> good_final (messages_loop D fuel st ms).
Proof.
  intros Hf. induction ms as [|full r IH]; intros st HI Hnp; cbn [messages_loop]; [split; assumption|].
  destruct (find_msg D full) as [m|] eqn:Ef; [|exact I].
  assert (Hm : In m (d_msgs D)) by (eapply find_msg_In; eauto).
  assert (HU : unvisited D st < fuel) by (pose proof (unvisited_le_msgs D st); lia).
  pose proof (message_schema_ps fuel st m Hm HI HU) as H.
  destruct (message_schema D fuel st m) as [[st1 r1]| | |]; cbn [obind]; try exact H.
  unfold Ps in H. cbn [fst] in H. destruct H as (H1 & H2 & H3 & _).
  apply IH; [exact H1|]. intros k Hk. apply H3 in Hk. apply (Hnp k Hk).
Qed.

Lemma enums_loop_ps : forall es st,
  InvS D st -> (forall k, lookup st k <> Some Placeholder) -> good_final (enums_loop D st es).
Proof.
  induction es as [|full r IH]; intros st HI Hnp; cbn [enums_loop]; [split; assumption|].
  destruct (find_enum D full) as [e|] eqn:Ef; [|exact I].
  assert (He : In e (d_enums D)) by (eapply find_enum_In; eauto).
  destruct (lookup st (enum_key e)) eqn:El; [apply IH; assumption|].
  pose proof (build_enum_shape e (proj1 Hwt e He)) as Hs.
  destruct (build_enum e) as [root| | |]; cbn [obind]; try exact Hs.
  apply IH; [apply InvS_cons_enum; assumption|].
  intros k Hk. rewrite lookup_cons in Hk. destruct (ref_eqb (enum_key e) k); [discriminate|apply (Hnp k Hk)].
Qed.

Theorem reflect_final fs : good_final (reflect D fs).
Proof.
  unfold reflect, reflect_files. destruct (collect fs) as [ms es].
  assert (Hsz : length (d_msgs D) < size D) by (unfold size; lia).
  pose proof (messages_loop_ps (size D) Hsz ms [] (InvS_nil D) (fun k H => ltac:(discriminate))) as H.
  destruct (messages_loop D (size D) [] ms) as [st| | |]; cbn [obind]; try exact H.
  destruct H as [H1 H2]. apply enums_loop_ps; assumption.
Qed.

(* ---------------------------------------------------------------- what a successful reflection guarantees *)
Lemma keys_distinct_NoDup st : NoDup (map fst st) -> keys_distinct st = true.
Proof.
  induction st as [|[k e] r IH]; intros H; cbn [keys_distinct]; [reflexivity|].
  cbn [map fst] in H. inversion H as [|? ? Hn Hr]; subst. rewrite (IH Hr), andb_true_r.
  apply negb_true_iff. destruct (existsb (fun ke => ref_eqb (fst ke) k) r) eqn:E; [|reflexivity].
  apply existsb_exists in E as ([k2 e2] & Hin & He). cbn [fst] in He. apply ref_eqb_eq in He. subst k2.
  exfalso. apply Hn. apply (in_map fst) in Hin. exact Hin.
Qed.

Theorem reflect_ok_guarantees fs S :
  reflect D fs = Ok S ->
  keys_distinct S = true /\ set_importable S = true /\ set_closed S = true /\
  (forall k r, lookup S k = Some (Linked r) -> names_unique_b (root_props r) = true) /\
  (forall k, lookup S k <> Some Placeholder).
Proof.
  intros HS. pose proof (reflect_final fs) as H. rewrite HS in H. destruct H as [(H1 & H2 & H3) Hnp].
  assert (Hlinked : forall k e, In (k, e) S -> exists r, e = Linked r /\ root_wf r /\ refs_keyed S (root_refs r)).
  { intros k e Hin. pose proof (lookup_In S H3 k e Hin) as Hl. destruct e as [|r]; [exfalso; apply (Hnp k Hl)|].
    exists r. split; [reflexivity|]. apply (H2 k r Hl). }
  split; [apply keys_distinct_NoDup; exact H3|]. split; [|split; [|split; [|exact Hnp]]].
  - unfold set_importable. apply forallb_forall. intros [k e] Hin. destruct (Hlinked k e Hin) as (r & -> & [_ Hi] & _). exact Hi.
  - unfold set_closed, refs_resolved. apply forallb_forall. intros [k e] Hin.
    destruct (Hlinked k e Hin) as (r & -> & _ & Hr). cbn [snd]. apply forallb_forall. intros k2 Hk2.
    specialize (Hr k2 Hk2). unfold has_key in Hr. destruct (lookup S k2) as [[|r2]|] eqn:E; try discriminate; [|reflexivity].
    exfalso. apply (Hnp k2 E).
  - intros k r Hl. destruct (H2 k r Hl) as [[Hn _] _]. apply nodup_str_NoDup. exact Hn.
Qed.
End Build.

(* ---------------------------------------------------------------- C15 for reflected sets *)
Definition linked_entries (st : sset) : list (ref * root) :=
  flat_map (fun ke => match snd ke with Linked r => [(fst ke, r)] | Placeholder => [] end) st.

Lemma lookup_Some_In st k e : lookup st k = Some e -> In (k, e) st.
Proof.
  induction st as [|[k0 e0] r IH]; cbn [lookup]; intros H; [discriminate|].
  destruct (ref_eqb k0 k) eqn:E.
  - apply ref_eqb_eq in E. subst. inversion H; subst. left. reflexivity.
  - right. apply IH. exact H.
Qed.

Lemma all_linked_entries st :
  (forall k, lookup st k <> Some Placeholder) -> NoDup (map fst st) ->
  map fst (linked_entries st) = map fst st /\
  export_set st = Ok (export_entries (linked_entries st)) /\
  (forall k r, In (k, r) (linked_entries st) <-> In (k, Linked r) st).
Proof.
  induction st as [|[k e] rest IH]; intros Hnp Hnd.
  - split; [reflexivity|]. split; [reflexivity|]. intros k r; split; intros [].
  - cbn [map fst] in Hnd. inversion Hnd as [|? ? Hnot Hnd']; subst.
    assert (Hnp' : forall k0, lookup rest k0 <> Some Placeholder).
    { intros k0 H0. apply (Hnp k0). cbn [lookup]. destruct (ref_eqb k k0) eqn:E; [|exact H0].
      apply ref_eqb_eq in E. subst k0. exfalso. apply Hnot. apply lookup_Some_In in H0. apply (in_map fst) in H0. exact H0. }
    destruct (IH Hnp' Hnd') as (I1 & I2 & I3).
    destruct e as [|r].
    + exfalso. apply (Hnp k). cbn [lookup]. rewrite ref_eqb_refl. reflexivity.
    + cbn [linked_entries flat_map snd fst app map]. fold (linked_entries rest). split; [rewrite I1; reflexivity|]. split.
      { cbn [export_set]. rewrite I2. reflexivity. }
      intros k0 r0. split.
      { intros [H|H]; [inversion H; subst; left; reflexivity|right; apply I3; exact H]. }
      { intros [H|H]; [inversion H; subst; left; reflexivity|right; apply I3; exact H]. }
Qed.

(* the entries of a reflected set satisfy what the round-trip theorems assume *)
Lemma reflect_entries_ok D fs S :
  wf_keys D -> reflect D fs = Ok S ->
  export_set S = Ok (export_entries (linked_entries S)) /\
  NoDup (map fst (linked_entries S)) /\ all_importable (linked_entries S) /\ closed (linked_entries S).
Proof.
  intros Hwf HS.
  destruct (reflect_ok_guarantees D Hwf fs S HS) as (Hkd & Himp & Hcl & _ & Hnp).
  pose proof (reflect_final D Hwf fs) as Hfin. rewrite HS in Hfin. destruct Hfin as [(_ & _ & Hnd) _].
  destruct (all_linked_entries S Hnp Hnd) as (E1 & E2 & E3).
  set (L := linked_entries S) in *.
  split; [exact E2|]. split; [rewrite E1; exact Hnd|]. split.
  - intros k r Hin. apply E3 in Hin. unfold set_importable in Himp.
    apply (proj1 (forallb_forall _ _) Himp (k, Linked r) Hin).
  - intros k Hk. unfold entry_refs in Hk. apply in_flat_map in Hk as ([k0 r0] & Hin0 & Hr). cbn [snd] in Hr.
    apply E3 in Hin0. unfold set_closed, refs_resolved in Hcl.
    pose proof (proj1 (forallb_forall _ _) Hcl (k0, Linked r0) Hin0) as H. cbn [snd] in H.
    pose proof (proj1 (forallb_forall _ _) H k Hr) as H2.
    cbn beta in H2. destruct (lookup S k) as [[|r2]|] eqn:El; try discriminate H2.
    rewrite E1. apply lookup_Some_In in El. apply (in_map fst) in El. exact El.
Qed.

Theorem reflect_export_import_roundtrip D fs S :
  wf_keys D -> reflect D fs = Ok S ->
  exists X, export_set S = Ok X /\
  exists S', import_api X = ROk S' /\
    (forall k x, In (k, x) X -> exists r', lookup S' k = Some (Linked r') /\ export_root r' = x) /\
    (forall k, ~ In k (map fst X) -> lookup S' k = None) /\
    refs_resolved S' = true.
Proof.
  intros Hwf HS. destruct (reflect_entries_ok D fs S Hwf HS) as (E2 & HndL & HimpL & HclL).
  exists (export_entries (linked_entries S)). split; [exact E2|].
  apply (export_import_roundtrip_perm (linked_entries S) _ (Permutation_refl _) HndL HimpL HclL).
Qed.

(* ---------------------------------------------------------------- a decision procedure for wf_desc *)
Fixpoint nodup_refs (l : list ref) : bool :=
  match l with
  | [] => true
  | x :: r => negb (existsb (ref_eqb x) r) && nodup_refs r
  end.
Lemma nodup_refs_NoDup l : nodup_refs l = true -> NoDup l.
Proof.
  induction l as [|x r IH]; cbn [nodup_refs]; intros H; [constructor|].
  apply andb_prop in H as [H1 H2]. apply negb_true_iff in H1. constructor; [|apply IH; exact H2].
  intros Hin. assert (existsb (ref_eqb x) r = true) by (apply existsb_exists; exists x; split; [exact Hin|apply ref_eqb_refl]).
  congruence.
Qed.
Definition wf_desc_b (D : desc) : bool :=
  forallb (fun e => match e with Enum _ _ _ values _ _ => match values with [] => false | _ => true end end) (d_enums D)
  && nodup_refs (all_keys D)
  && forallb (fun m => nodup_str (map f_json (m_fields m) ++ exposed_jnames m)) (d_msgs D).
Lemma wf_desc_b_sound D : wf_desc_b D = true -> wf_desc D.
Proof.
  unfold wf_desc_b. intros H. apply andb_prop in H as [H H3]. apply andb_prop in H as [H1 H2].
  split; [split|].
  - intros e He. pose proof (proj1 (forallb_forall _ _) H1 e He) as Hx. destruct e as [a b c values d f].
    cbn [enum_nonempty]. destruct values; [discriminate|intros Hc; discriminate].
  - apply nodup_refs_NoDup. exact H2.
  - intros m Hm. apply nodup_str_NoDup. apply (proj1 (forallb_forall _ _) H3 m Hm).
Qed.

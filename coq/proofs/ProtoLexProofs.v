(* ProtoLexProofs.v — the character level of C05: the lexer of model/ProtoLex.v reads every layout of a token
   list (model/ProtoLayout.v: the token texts separated by whitespace and // comments, each token followed
   by a byte that ends it) back as exactly those tokens. *)
From Coq Require Import List Arith NArith Bool Lia ZifyN ZifyNat ZifyBool.
From J5V.model Require Import ProtoPrintLit ProtoPrint ProtoLex ProtoLayout.
From J5V.proofs Require Import ProtoPrintLitProofs.
Import ListNotations.
Local Open Scope N_scope.
Local Open Scope bool_scope.

(* ---------- every round consumes at least one byte -------------------------------------------- *)
Lemma span_ident_split : forall s p rest, span_ident s = (p, rest) -> s = p ++ rest.
Proof.
  induction s as [|c r IH]; intros p rest E; cbn [span_ident] in E; [injection E as <- <-; reflexivity|].
  destruct (is_ident_char c); [|injection E as <- <-; reflexivity].
  destruct (span_ident r) as [p' rest'] eqn:E'. injection E as <- <-. cbn [app]. f_equal. exact (IH _ _ eq_refl).
Qed.

Lemma read_number_split : forall s a p rest, read_number a s = (p, rest) -> s = p ++ rest.
Proof.
  induction s as [|c r IH]; intros a p rest E; cbn [read_number] in E; [injection E as <- <-; reflexivity|].
  destruct (is_sign c && negb a); [injection E as <- <-; reflexivity|].
  destruct (is_num_char c); [|injection E as <- <-; reflexivity].
  destruct (read_number (is_exp c) r) as [p' rest'] eqn:E'. injection E as <- <-. cbn [app]. f_equal. exact (IH _ _ _ E').
Qed.

Lemma split_len {A} (s p rest : list A) : s = p ++ rest -> (length rest <= length s)%nat.
Proof. intros ->. rewrite app_length. lia. Qed.

Lemma skip_line_len : forall s rest, skip_line s = Some rest -> (length rest <= length s)%nat.
Proof.
  induction s as [|c r IH]; intros rest E; cbn [skip_line] in E; [injection E as <-; cbn; lia|].
  destruct (c =? 10); [injection E as <-; lia|]. destruct (c =? 0); [discriminate|].
  specialize (IH _ E). cbn [length]. lia.
Qed.

Lemma skip_block_len : forall s rest, skip_block s = Some rest -> (length rest <= length s)%nat.
Proof.
  induction s as [|c r IH]; intros rest E; cbn [skip_block] in E; [discriminate|].
  destruct (c =? 0); [discriminate|].
  destruct (c =? 42).
  - destruct r as [|d r']; [specialize (IH _ E); cbn [length] in *; lia|].
    destruct (d =? 47) eqn:Ed.
    + apply N.eqb_eq in Ed. subst d. injection E as <-. cbn [length]. lia.
    + assert (E' : skip_block (d :: r') = Some rest).
      { destruct d as [|q]; [exact E|]. do 6 (destruct q as [q|q|]; try exact E). all: try exact E. discriminate Ed. }
      specialize (IH _ E'). cbn [length] in *. lia.
  - specialize (IH _ E). cbn [length]. lia.
Qed.

Lemma lex_body_len : forall s k v rest, lex_body k s = Some (v, rest) -> (length rest <= length s)%nat.
Proof.
  induction s as [|c r IH]; intros k v rest E; cbn [lex_body] in E; [discriminate|].
  destruct k as [|k]; [|specialize (IH _ _ _ E); cbn [length]; lia].
  destruct (c =? 34); [injection E as <- <-; cbn [length]; lia|].
  destruct (lex_step (c :: r)) as [[out n]|]; [|discriminate].
  destruct (lex_body (Nat.pred n) r) as [[v' rest']|] eqn:E'; [|discriminate].
  injection E as <- <-. specialize (IH _ _ _ E'). cbn [length]. lia.
Qed.

Lemma read_string_len s raw rest : read_string s = Some (raw, rest) -> (length rest < length s)%nat.
Proof.
  unfold read_string, lex_string_lit. destruct s as [|c r]; [discriminate|].
  destruct (c =? 34); [|discriminate].
  destruct (lex_body 0 r) as [[v rest']|] eqn:E; [|discriminate]. intro H. injection H as _ <-.
  apply lex_body_len in E. cbn [length]. lia.
Qed.

Lemma lex_one_shrinks s ot rest : lex_one s = Some (ot, rest) -> (length rest < length s)%nat.
Proof.
  unfold lex_one. destruct s as [|c r]; [discriminate|]. cbn [length].
  destruct (is_ws c); [intro H; injection H as _ <-; lia|].
  destruct (c =? 46).
  { destruct r as [|d r']; [intro H; injection H as _ <-; cbn; lia|].
    destruct (is_digit d); [|intro H; injection H as _ <-; lia].
    destruct (read_number false (d :: r')) as [p rest'] eqn:E. destruct (float_ok (c :: p)); [|discriminate].
    intro H. injection H as _ <-. apply read_number_split in E. apply split_len in E. lia. }
  destruct (is_ident_start c).
  { destruct (span_ident r) as [p rest'] eqn:E. intro H. injection H as _ <-.
    apply span_ident_split in E. apply split_len in E. lia. }
  destruct (is_digit c).
  { destruct (read_number false r) as [p rest'] eqn:E. destruct (num_ok (c :: p)); [|discriminate].
    intro H. injection H as _ <-. apply read_number_split in E. apply split_len in E. lia. }
  destruct (c =? 34).
  { destruct (read_string (c :: r)) as [[raw rest']|] eqn:E; [|discriminate]. intro H. injection H as _ <-.
    apply read_string_len in E. cbn [length] in E. lia. }
  destruct (c =? 39); [discriminate|].
  destruct (c =? 47).
  { destruct r as [|d r']; [intro H; injection H as _ <-; cbn; lia|].
    destruct (d =? 47) eqn:E1.
    - apply N.eqb_eq in E1. subst d. destruct (skip_line r') as [rest'|] eqn:E; [|discriminate].
      intro H. injection H as _ <-. apply skip_line_len in E. cbn [length]. lia.
    - destruct (d =? 42) eqn:E2.
      + apply N.eqb_eq in E2. subst d. destruct (skip_block r') as [rest'|] eqn:E; [|discriminate].
        intro H. injection H as _ <-. apply skip_block_len in E. cbn [length]. lia.
      + assert (Hd : match d with 47 => false | 42 => false | _ => true end = true).
        { destruct d as [|q]; [reflexivity|]. do 6 (destruct q as [q|q|]; try reflexivity); discriminate. }
        destruct d as [|q]; [intro H; injection H as _ <-; cbn [length]; lia|].
        do 6 (destruct q as [q|q|]; try (intro H; injection H as _ <-; cbn [length]; lia)); discriminate. }
  destruct ((c <? 32) || (c =? 127)); [discriminate|].
  destruct (is_punct c); [|discriminate]. intro H. injection H as _ <-. lia.
Qed.

(* ---------- fuel ---------------------------------------------------------------------------- *)
Definition push (ot : option rtok) (o : option (list rtok)) : option (list rtok) :=
  match o with Some ts => Some (match ot with Some t => t :: ts | None => ts end) | None => None end.

Lemma lex_fuel : forall f1 f2 s, (length s < f1)%nat -> (length s < f2)%nat -> lex f1 s = lex f2 s.
Proof.
  induction f1 as [|f1 IH]; intros f2 s H1 H2; [lia|]. destruct f2 as [|f2]; [lia|].
  cbn [lex]. destruct s as [|c r]; [reflexivity|].
  destruct (lex_one (c :: r)) as [[ot rest]|] eqn:E; [|reflexivity].
  apply lex_one_shrinks in E. rewrite (IH f2 rest) by lia. reflexivity.
Qed.

Lemma lex_text_step s : s <> [] ->
  lex_text s = match lex_one s with Some (ot, rest) => push ot (lex_text rest) | None => None end.
Proof.
  intro Hs. unfold lex_text at 1. cbn [lex]. destruct s as [|c r]; [contradiction|].
  destruct (lex_one (c :: r)) as [[ot rest]|] eqn:E; [|reflexivity].
  apply lex_one_shrinks in E. unfold lex_text, push. rewrite (lex_fuel (length (c :: r)) (S (length rest)) rest) by lia.
  reflexivity.
Qed.

Lemma push_none o : push None o = o.
Proof. destruct o; reflexivity. Qed.

Lemma lex_text_nil : lex_text [] = Some [].
Proof. reflexivity. Qed.

(* ---------- separators ------------------------------------------------------------------------ *)
Lemma lex_ws c r : is_ws c = true -> lex_text (c :: r) = lex_text r.
Proof.
  intro H. rewrite lex_text_step by discriminate. unfold lex_one. rewrite H. apply push_none.
Qed.

Lemma lex_line_comment r :
  lex_text (47 :: 47 :: r) = match skip_line r with Some rest => lex_text rest | None => None end.
Proof.
  rewrite lex_text_step by discriminate.
  change (lex_one (47 :: 47 :: r)) with (match skip_line r with Some rest => Some (@None rtok, rest) | None => None end).
  destruct (skip_line r); [apply push_none|reflexivity].
Qed.

Lemma lex_nul r : lex_text (0 :: r) = None.
Proof. rewrite lex_text_step by discriminate. reflexivity. Qed.

Lemma eat_sep_lex : forall s,
  lex_text s = lex_text (eat_sep false s)
  /\ match skip_line s with Some rest => lex_text rest | None => None end = lex_text (eat_sep true s).
Proof.
  induction s as [|c r [IH1 IH2]]; [split; reflexivity|]. split.
  - cbn [eat_sep]. destruct (is_ws c) eqn:Ew; [rewrite lex_ws by exact Ew; exact IH1|].
    destruct (N.eq_dec c 47) as [->|Hc].
    + destruct r as [|d r']; [reflexivity|].
      destruct (N.eq_dec d 47) as [->|Hd].
      * rewrite lex_line_comment. (* IH2 speaks of 47 :: r' *)
        cbn [skip_line eat_sep] in IH2. exact IH2.
      * replace (match 47 with 47 => match d :: r' with 47 :: r'0 => eat_sep true r'0 | _ => 47 :: d :: r' end | _ => 47 :: d :: r' end)
          with (47 :: d :: r'); [reflexivity|].
        destruct d as [|q]; [reflexivity|]. do 6 (destruct q as [q|q|]; try reflexivity). contradiction Hd; reflexivity.
    + replace (match c with 47 => match r with 47 :: r' => eat_sep true r' | _ => c :: r end | _ => c :: r end) with (c :: r); [reflexivity|].
      destruct c as [|q]; [reflexivity|]. do 6 (destruct q as [q|q|]; try reflexivity). contradiction Hc; reflexivity.
  - cbn [skip_line eat_sep]. destruct (c =? 10) eqn:E10.
    + apply N.eqb_eq in E10. subst c. rewrite lex_ws by reflexivity. exact IH1.
    + destruct (c =? 0) eqn:E0; [apply N.eqb_eq in E0; subst c; symmetry; apply lex_nul|exact IH2].
Qed.

Lemma lex_eat s : lex_text s = lex_text (eat_sep false s).
Proof. exact (proj1 (eat_sep_lex s)). Qed.

(* ---------- tokens ----------------------------------------------------------------------------- *)
Lemma strip_prefix_app : forall p s rest, strip_prefix p s = Some rest -> s = p ++ rest.
Proof.
  induction p as [|a p IH]; intros s rest E; cbn [strip_prefix] in E; [injection E as <-; reflexivity|].
  destruct s as [|b s']; [discriminate|]. destruct (a =? b) eqn:Eab; [|discriminate].
  apply N.eqb_eq in Eab. subst b. cbn [app]. f_equal. exact (IH _ _ E).
Qed.

Lemma span_ident_app : forall p rest, forallb is_ident_char p = true -> head_is is_ident_char rest = false ->
  span_ident (p ++ rest) = (p, rest).
Proof.
  induction p as [|c p IH]; intros rest Hp Hr.
  - cbn [app]. destruct rest as [|d r]; [reflexivity|]. cbn [head_is] in Hr. cbn [span_ident]. rewrite Hr. reflexivity.
  - cbn [forallb] in Hp. apply andb_true_iff in Hp as [Hc Hp]. cbn [app span_ident]. rewrite Hc, (IH rest Hp Hr). reflexivity.
Qed.

Lemma read_number_app : forall p a rest, snd (read_number a p) = [] -> head_is is_num_char rest = false ->
  read_number a (p ++ rest) = (p, rest).
Proof.
  induction p as [|c p IH]; intros a rest Hp Hr.
  - cbn [app]. destruct rest as [|d r]; [reflexivity|]. cbn [head_is] in Hr. cbn [read_number].
    assert (Hs : is_sign d = false) by (unfold is_num_char in Hr; repeat (apply orb_false_iff in Hr as [Hr ?]); assumption).
    rewrite Hs, Hr. reflexivity.
  - cbn [read_number] in Hp. cbn [app read_number].
    destruct (is_sign c && negb a); [discriminate Hp|].
    destruct (is_num_char c); [|discriminate Hp].
    destruct (read_number (is_exp c) p) as [p' rest'] eqn:E. cbn [snd] in Hp. subst rest'.
    rewrite (IH (is_exp c) rest); [reflexivity|rewrite E; reflexivity|exact Hr].
Qed.

Lemma ident_start_class c : is_ident_start c = true ->
  is_ws c = false /\ (c =? 46) = false.
Proof. unfold is_ident_start, is_ws. lia. Qed.

Lemma digit_class c : is_digit c = true ->
  is_ws c = false /\ (c =? 46) = false /\ is_ident_start c = false.
Proof. unfold is_digit, is_ident_start, is_ws. lia. Qed.

Lemma lex_ident_text s rest : is_ident s = true -> head_is is_ident_char rest = false ->
  lex_text (s ++ rest) = push (Some (RId s)) (lex_text rest).
Proof.
  intros Hs Hr. destruct s as [|c p]; [discriminate|]. cbn [is_ident] in Hs. apply andb_true_iff in Hs as [Hc Hp].
  rewrite lex_text_step by discriminate. cbn [app]. unfold lex_one.
  destruct (ident_start_class c Hc) as [E1 E2]. rewrite E1, E2, Hc, (span_ident_app p rest Hp Hr). reflexivity.
Qed.

Lemma lex_number_text s rest : number_lit s = true -> head_is is_num_char rest = false ->
  lex_text (s ++ rest) = push (Some (RNum s)) (lex_text rest).
Proof.
  intros Hs Hr. destruct s as [|c p]; [discriminate|]. cbn [number_lit] in Hs.
  apply andb_true_iff in Hs as [Hs Hp]. apply andb_true_iff in Hs as [Hc Hn].
  rewrite lex_text_step by discriminate. cbn [app]. unfold lex_one.
  destruct (digit_class c Hc) as (E1 & E2 & E3). rewrite E1, E2, E3, Hc.
  assert (Hsnd : snd (read_number false p) = []) by (destruct (read_number false p) as [x [|y l]]; [reflexivity|discriminate]).
  rewrite (read_number_app p false rest Hsnd Hr), Hn. reflexivity.
Qed.

Lemma lex_sym c rest : is_punct c = true -> (c =? 46) = false -> (c =? 47) = false ->
  lex_text (c :: rest) = push (Some (RSym c)) (lex_text rest).
Proof.
  intros Hp H46 H47. rewrite lex_text_step by discriminate. unfold lex_one.
  assert (H : is_ws c = false /\ is_ident_start c = false /\ is_digit c = false /\ (c =? 34) = false /\ (c =? 39) = false
              /\ ((c <? 32) || (c =? 127)) = false).
  { unfold is_punct in Hp. unfold is_ws, is_ident_start, is_digit. lia. }
  destruct H as (A & B & C & D & E & F). rewrite A, H46, B, C, D, E, H47, F, Hp. reflexivity.
Qed.

Lemma lex_dot rest : head_is is_digit rest = false -> lex_text (46 :: rest) = push (Some (RSym 46)) (lex_text rest).
Proof.
  intro Hr. rewrite lex_text_step by discriminate. unfold lex_one.
  change (is_ws 46) with false. change (46 =? 46) with true. cbv iota.
  destruct rest as [|d r]; [reflexivity|]. cbn [head_is] in Hr. rewrite Hr. reflexivity.
Qed.

Lemma firstn_app_exact {A} (a b : list A) : firstn (length (a ++ b) - length b) (a ++ b) = a.
Proof.
  rewrite app_length, Nat.add_sub. rewrite firstn_app, Nat.sub_diag, firstn_all. cbn [firstn]. apply app_nil_r.
Qed.

Lemma forallb_lt256 v : forallb (fun b => b <? 256) v = true -> Forall (fun b => b < 256) v.
Proof. rewrite forallb_forall, Forall_forall. intros H x Hx. specialize (H x Hx). lia. Qed.

Lemma bytes_eqb_true : forall a b, bytes_eqb a b = true -> a = b.
Proof.
  induction a as [|x a IH]; intros [|y b] H; cbn [bytes_eqb] in H; try discriminate; [reflexivity|].
  apply andb_true_iff in H as [H1 H2]. apply N.eqb_eq in H1. subst y. f_equal. exact (IH b H2).
Qed.

Lemma lex_string_text s rest : canonical_string s = true ->
  lex_text (s ++ rest) = push (Some (RStr s)) (lex_text rest).
Proof.
  unfold canonical_string. destruct (parse_string_lit s) as [v|] eqn:Ev; [|discriminate]. intro H.
  apply andb_true_iff in H as [Hb He]. apply bytes_eqb_true in He. apply forallb_lt256 in Hb.
  pose proof (lex_print_string v rest Hb) as L. rewrite He in L.
  assert (Hs : exists r, s = 34 :: r) by (rewrite <- He; unfold print_string_lit; eexists; reflexivity).
  destruct Hs as [r ->]. rewrite lex_text_step by discriminate. cbn [app]. unfold lex_one.
  change (is_ws 34) with false. change (34 =? 46) with false. change (is_ident_start 34) with false.
  change (is_digit 34) with false. change (34 =? 34) with true. cbv iota.
  change (34 :: r ++ rest) with ((34 :: r) ++ rest). unfold read_string. rewrite L, firstn_app_exact. reflexivity.
Qed.

Lemma push_push t u o : push (Some t) (push (Some u) o) = option_map (app [t; u]) o.
Proof. destruct o; reflexivity. Qed.
Lemma push_one t o : push (Some t) o = option_map (app [t]) o.
Proof. destruct o; reflexivity. Qed.

Lemma classify_neg s r : classify_lit s = LNegId r \/ classify_lit s = LNegNum r -> s = 45 :: r.
Proof.
  unfold classify_lit. destruct s as [|c r']; [intros [H|H]; discriminate|].
  destruct (c =? 34); [intros [H|H]; discriminate|]. destruct (c =? 45) eqn:E; [|intros [H|H]; discriminate].
  apply N.eqb_eq in E. subst c. destruct (head_is is_ident_start r'); intros [H|H]; try discriminate; injection H as <-; reflexivity.
Qed.

Theorem lex_tok t rest : tok_ok t = true -> boundary t rest = true ->
  lex_text (tok_text t ++ rest) = option_map (app (rtoks_of t)) (lex_text rest).
Proof.
  intros Hok Hb.
  destruct t as [s|s| | | | | | | | | | | | | |c|c]; cbn [tok_ok] in Hok; try discriminate Hok;
    cbn [tok_text rtoks_of punct_char boundary] in *.
  - rewrite <- push_one. apply lex_ident_text; [exact Hok|]. apply negb_true_iff. exact Hb.
  - destruct (classify_lit s) as [|r|r|] eqn:Ec.
    + rewrite <- push_one. apply lex_string_text. exact Hok.
    + pose proof (classify_neg s r (or_introl Ec)) as ->. cbn [app]. rewrite lex_sym by reflexivity.
      rewrite lex_ident_text; [apply push_push|exact Hok|apply negb_true_iff; exact Hb].
    + pose proof (classify_neg s r (or_intror Ec)) as ->. cbn [app]. rewrite lex_sym by reflexivity.
      rewrite lex_number_text; [apply push_push|exact Hok|apply negb_true_iff; exact Hb].
    + rewrite <- push_one. apply lex_number_text; [exact Hok|apply negb_true_iff; exact Hb].
  - rewrite <- push_one. apply lex_sym; reflexivity.
  - rewrite <- push_one. apply lex_sym; reflexivity.
  - rewrite <- push_one. apply lex_sym; reflexivity.
  - rewrite <- push_one. apply lex_sym; reflexivity.
  - rewrite <- push_one. apply lex_sym; reflexivity.
  - rewrite <- push_one. apply lex_sym; reflexivity.
  - rewrite <- push_one. apply lex_sym; reflexivity.
  - rewrite <- push_one. apply lex_sym; reflexivity.
  - rewrite <- push_one. apply lex_sym; reflexivity.
  - rewrite <- push_one. apply lex_sym; reflexivity.
  - rewrite <- push_one. apply lex_sym; reflexivity.
  - rewrite <- push_one. apply lex_sym; reflexivity.
  - rewrite <- push_one. apply lex_dot. apply negb_true_iff. exact Hb.
Qed.

(* ---------- a layout lexes to the raw tokens of its tokens ------------------------------------------- *)
Theorem lex_layout : forall toks s, is_layout toks s = true -> lex_text s = Some (flat_map rtoks_of toks).
Proof.
  induction toks as [|t ts IH]; intros s H; cbn [is_layout] in H.
  - rewrite lex_eat. destruct (eat_sep false s); [reflexivity|discriminate].
  - destruct (strip_prefix (tok_text t) (eat_sep false s)) as [rest|] eqn:E; [|discriminate].
    apply andb_true_iff in H as [H Hl]. apply andb_true_iff in H as [Hok Hb].
    rewrite lex_eat, (strip_prefix_app _ _ _ E), (lex_tok t rest Hok Hb), (IH rest Hl). reflexivity.
Qed.

(* ---------- and coalesce gives the tokens back ---------------------------------------------------------- *)
Lemma sym_token_punct t c : punct_char t = Some c -> sym_token c = Some t /\ (c =? 45) = false.
Proof. destruct t; cbn [punct_char]; intro H; try discriminate; injection H as <-; split; reflexivity. Qed.

Lemma coalesce_raw t rs : tok_ok t = true -> coalesce (rtoks_of t ++ rs) = option_map (cons t) (coalesce rs).
Proof.
  intro Hok.
  destruct t as [s|s| | | | | | | | | | | | | |c|c]; cbn [tok_ok] in Hok; try discriminate Hok; cbn [rtoks_of];
    try (match goal with |- context [punct_char ?t] =>
           destruct (sym_token_punct t _ eq_refl) as [E1 E2]; cbn [punct_char app coalesce]; rewrite E2, E1;
           destruct (coalesce rs); reflexivity end).
  - reflexivity.
  - destruct (classify_lit s) as [|r|r|] eqn:Ec; cbn [app coalesce].
    + reflexivity.
    + pose proof (classify_neg s r (or_introl Ec)) as ->. change (45 =? 45) with true. cbv iota. reflexivity.
    + pose proof (classify_neg s r (or_intror Ec)) as ->. change (45 =? 45) with true. cbv iota. reflexivity.
    + reflexivity.
Qed.

Lemma coalesce_layout : forall toks, forallb tok_ok toks = true -> coalesce (flat_map rtoks_of toks) = Some toks.
Proof.
  induction toks as [|t ts IH]; intro H; [reflexivity|]. cbn [forallb] in H. apply andb_true_iff in H as [Ht Hts].
  cbn [flat_map]. rewrite (coalesce_raw t _ Ht), (IH Hts). reflexivity.
Qed.

Lemma is_layout_ok : forall toks s, is_layout toks s = true -> forallb tok_ok toks = true.
Proof.
  induction toks as [|t ts IH]; intros s H; [reflexivity|]. cbn [is_layout] in H.
  destruct (strip_prefix (tok_text t) (eat_sep false s)) as [rest|]; [|discriminate].
  apply andb_true_iff in H as [H Hl]. apply andb_true_iff in H as [Hok _]. cbn [forallb]. rewrite Hok, (IH rest Hl). reflexivity.
Qed.

(* THE character-level statement: whatever the separators are, the text scans to exactly the tokens *)
Theorem scan_layout toks s : is_layout toks s = true -> scan_text s = Some toks.
Proof.
  intro H. unfold scan_text. rewrite (lex_layout toks s H). apply coalesce_layout. exact (is_layout_ok toks s H).
Qed.

(* ---------- non-vacuity: one space after every token is a layout ----------------------------------------- *)
Lemma eat_sep_tok t rest : tok_ok t = true -> eat_sep false (tok_text t ++ rest) = tok_text t ++ rest.
Proof.
  intro Hok. assert (H : exists c r, tok_text t = c :: r /\ is_ws c = false /\ c <> 47).
  { destruct t as [s|s| | | | | | | | | | | | | |c|c]; cbn [tok_ok] in Hok; try discriminate Hok; cbn [tok_text punct_char];
      try (eexists; eexists; split; [reflexivity|split; [reflexivity|discriminate]]).
    - destruct s as [|c p]; [discriminate|]. cbn [is_ident] in Hok. apply andb_true_iff in Hok as [Hc _].
      exists c, p. split; [reflexivity|]. unfold is_ident_start in Hc. unfold is_ws. split; lia.
    - destruct s as [|c p].
      + cbn in Hok. discriminate.
      + exists c, p. split; [reflexivity|]. unfold classify_lit in Hok.
        destruct (c =? 34) eqn:E34; [apply N.eqb_eq in E34; subst c; split; [reflexivity|discriminate]|].
        destruct (c =? 45) eqn:E45; [apply N.eqb_eq in E45; subst c; split; [reflexivity|discriminate]|].
        cbn [number_lit] in Hok. apply andb_true_iff in Hok as [Hok _]. apply andb_true_iff in Hok as [Hc _].
        unfold is_digit in Hc. unfold is_ws. split; lia. }
  destruct H as (c & r & -> & Hw & H47). cbn [app eat_sep]. rewrite Hw.
  destruct c as [|q]; [reflexivity|]. do 6 (destruct q as [q|q|]; try reflexivity). contradiction H47; reflexivity.
Qed.

Lemma strip_prefix_self : forall p s, strip_prefix p (p ++ s) = Some s.
Proof. induction p as [|a p IH]; intro s; [reflexivity|]. cbn [app strip_prefix]. rewrite N.eqb_refl. apply IH. Qed.

Lemma boundary_space t r : boundary t (32 :: r) = true.
Proof. destruct t as [s|s| | | | | | | | | | | | | |c|c]; cbn [boundary head_is]; try reflexivity. destruct (classify_lit s); reflexivity. Qed.

Theorem spaced_is_layout : forall toks, forallb tok_ok toks = true -> is_layout toks (spaced toks) = true.
Proof.
  induction toks as [|t ts IH]; intro H; [reflexivity|]. cbn [forallb] in H. apply andb_true_iff in H as [Ht Hts].
  unfold spaced. cbn [flat_map is_layout]. rewrite <- app_assoc. rewrite (eat_sep_tok t _ Ht), strip_prefix_self.
  cbn [app]. rewrite Ht, boundary_space. cbn [andb].
  (* the space is eaten by the next round *)
  fold (spaced ts). destruct ts as [|t' ts'].
  - reflexivity.
  - cbn [is_layout] in IH |- *. change (eat_sep false (32 :: spaced (t' :: ts'))) with (eat_sep false (spaced (t' :: ts'))). exact (IH Hts).
Qed.

(* J5sProofs.v — lemmas about the j5s compiler model (J5sWalk.v, J5sConvert.v):
   agreement with the tables regenerated from the Go source, and the per-field part of
   the C02 contract / the C13 prefix-preservation facts. *)
From Coq Require Import String List NArith Bool Lia ZifyN ZifyNat ZifyBool.
From J5V.lib Require Import Outcome Corr.
From J5V.model Require Import J5sAst Desc J5sWalk J5sConvert.
From J5V.gen Require ImportsGen.
Import ListNotations.
Local Open Scope N_scope.

(* ------------------------------------------------------------------ translator agreement *)
Local Open Scope string_scope.
Definition model_import_constants : list (string * list N) := [
  ("bufValidateImport", imp_validate);
  ("googleApiAnnotationsImport", imp_http);
  ("googleApiHttpBodyImport", imp_httpbody);
  ("googleProtoEmptyImport", imp_empty);
  ("googleProtoEmptyType", tn_empty);
  ("j5AnyImport", imp_any);
  ("j5DateImport", imp_date);
  ("j5DecimalImport", imp_decimal);
  ("j5ExtImport", imp_ext);
  ("j5ListAnnotationsImport", imp_list);
  ("messagingAnnotationsImport", imp_messaging);
  ("messagingReqResImport", b "j5/messaging/v1/reqres.proto");
  ("messagingUpsertImport", b "j5/messaging/v1/upsert.proto");
  ("pbTimestamp", imp_timestamp);
  ("psmStateImport", b "j5/state/v1/metadata.proto")
].

(* the constants of imports.go the model uses have the values the model assumes (constants the
   model does not use may come and go) *)
Fixpoint const_lookup (k : string) (l : list (string * list N)) : option (list N) :=
  match l with
  | [] => None
  | (a, v) :: r => if String.eqb a k then Some v else const_lookup k r
  end.
Definition const_agrees (kv : string * list N) : bool :=
  match const_lookup (fst kv) ImportsGen.import_constants with
  | Some v => str_eqb v (snd kv)
  | None => false
  end.
Lemma import_constants_agree : forallb const_agrees model_import_constants = true.
Proof. vm_compute. reflexivity. Qed.

(* implicitImports of imports.go is the model's table *)
Lemma implicit_table_agrees : implicit_table = ImportsGen.implicit_imports.
Proof. vm_compute. reflexivity. Qed.

(* per scalar field type: the buildField arm, the proto type constant, and the format arm *)
Definition type_const (t : ptype) : string :=
  match t with
  | TDouble => "TYPE_DOUBLE" | TFloat => "TYPE_FLOAT" | TInt64 => "TYPE_INT64"
  | TUint64 => "TYPE_UINT64" | TInt32 => "TYPE_INT32" | TUint32 => "TYPE_UINT32"
  | TBool => "TYPE_BOOL" | TString => "TYPE_STRING" | TBytes => "TYPE_BYTES"
  | TMessage => "TYPE_MESSAGE" | TEnum => "TYPE_ENUM"
  end.

Definition arm_of_scalar (s : scalar) : string :=
  match s with
  | SString => "Field_String_" | SBool => "Field_Bool" | SBytes => "Field_Bytes"
  | SInt _ => "Field_Integer" | SFloat _ => "Field_Float" | STimestamp => "Field_Timestamp"
  | SDate => "Field_Date" | SDecimal => "Field_Decimal" | SKey _ => "Field_Key" | SAny => "Field_Any"
  end.

Definition format_of_scalar (s : scalar) : option string :=
  match s with
  | SInt I32 => Some "IntegerField_FORMAT_INT32" | SInt I64 => Some "IntegerField_FORMAT_INT64"
  | SInt U32 => Some "IntegerField_FORMAT_UINT32" | SInt U64 => Some "IntegerField_FORMAT_UINT64"
  | SFloat F32 => Some "FloatField_FORMAT_FLOAT32" | SFloat F64 => Some "FloatField_FORMAT_FLOAT64"
  | _ => None
  end.

Definition all_scalars : list scalar :=
  [SString; SBool; SBytes; SInt I32; SInt I64; SInt U32; SInt U64; SFloat F32; SFloat F64;
   STimestamp; SDate; SDecimal; SKey KNone; SKey KInformal; SKey KId62; SKey KUuid; SKey KCustom; SAny].

Definition arm_t := (string * list string * list string * list (list N) * bool)%type.
Fixpoint find_arm (n : string) (l : list arm_t) : option arm_t :=
  match l with
  | [] => None
  | (a, ts, is, ns, e) :: r => if String.eqb a n then Some (a, ts, is, ns, e) else find_arm n r
  end.
Fixpoint sassoc {A} (k : string) (l : list (string * A)) : option A :=
  match l with
  | [] => None
  | (a, v) :: r => if String.eqb a k then Some v else sassoc k r
  end.
Definition mem_string (s : string) (l : list string) : bool := existsb (String.eqb s) l.
Definition mem_str (s : list N) (l : list (list N)) : bool := existsb (str_eqb s) l.

(* the import paths an arm may ensure: its ensureImport constants, plus the j5 ext import
   when it calls setJ5Ext *)
Definition arm_imports (a : arm_t) : list (list N) :=
  let '(_, _, is, _, e) := a in
  (if e then [imp_ext] else []) ++
  flat_map (fun c => match sassoc c ImportsGen.import_constants with Some v => [v] | None => [] end) is.

Definition check_scalar (s : scalar) : bool :=
  match find_arm (arm_of_scalar s) ImportsGen.field_arms with
  | None => false
  | Some a =>
      let '(_, ts, _, ns, _) := a in
      let c := scalar_core s in
      mem_string (type_const (fc_type c)) ts &&
      match format_of_scalar s with
      | Some f => match sassoc f ImportsGen.format_arms with
                  | Some t => String.eqb t (type_const (fc_type c))
                  | None => false
                  end
      | None => match ts with [_] => true | _ => false end
      end &&
      match fc_tname c with [] => true | tn => mem_str tn ns end &&
      forallb (fun i => mem_str i (arm_imports a)) (fc_imports c)
  end.

(* every scalar field type has a buildField arm that assigns the model's proto type (for
   integer/float: per format), type name and only imports the arm ensures *)
Lemma scalar_table_agrees : forallb check_scalar all_scalars = true.
Proof. vm_compute. reflexivity. Qed.

(* object / oneof / enum arms: message vs enum type; array and map arms: repeated label *)
Definition check_ref_arms : bool :=
  match find_arm "Field_Object" ImportsGen.field_arms,
        find_arm "Field_Oneof" ImportsGen.field_arms,
        find_arm "Field_Enum" ImportsGen.field_arms,
        find_arm "Field_Map" ImportsGen.property_arms,
        find_arm "Field_Array" ImportsGen.property_arms with
  | Some (_, [to], _, _, _), Some (_, [tn], _, _, _), Some (_, [te], _, _, _),
    Some (_, tm, _, _, _), Some (_, ta, _, _, _) =>
      String.eqb to "TYPE_MESSAGE" && String.eqb tn "TYPE_MESSAGE" && String.eqb te "TYPE_ENUM" &&
      mem_string "LABEL_REPEATED" tm && mem_string "TYPE_MESSAGE" tm && mem_string "TYPE_STRING" tm &&
      mem_string "LABEL_REPEATED" ta
  | _, _, _, _, _ => false
  end.
Lemma ref_arms_agree : check_ref_arms = true.
Proof. vm_compute. reflexivity. Qed.
Local Close Scope string_scope.

(* ------------------------------------------------------------------ strings *)
Lemma str_eqb_refl s : str_eqb s s = true.
Proof. induction s as [|c r IH]; cbn; [reflexivity|]. rewrite N.eqb_refl. exact IH. Qed.

Lemma str_eqb_eq x y : str_eqb x y = true <-> x = y.
Proof.
  split.
  - revert y. induction x as [|c r IH]; destruct y as [|d s]; cbn; intros H; try discriminate; [reflexivity|].
    apply andb_true_iff in H. destruct H as [H1 H2]. apply N.eqb_eq in H1. subst d.
    f_equal. apply IH. exact H2.
  - intros ->. apply str_eqb_refl.
Qed.

(* ------------------------------------------------------------------ outcome *)
Lemma obind_ok {A B} (o : outcome A) (f : A -> outcome B) (v : B) :
  obind o f = Ok v -> exists a, o = Ok a /\ f a = Ok v.
Proof. destruct o; cbn; intros H; try discriminate. eexists; split; [reflexivity|exact H]. Qed.

(* ------------------------------------------------------------------ numbering *)
Lemma number_from_app n a c :
  number_from n (a ++ c) = number_from n a ++ number_from (n + N.of_nat (length a)) c.
Proof.
  revert n. induction a as [|p r IH]; intros n; cbn [app number_from length].
  - cbn. rewrite N.add_0_r. reflexivity.
  - rewrite IH.
    replace (n + N.of_nat (S (length r))) with (N.succ n + N.of_nat (length r)) by lia.
    reflexivity.
Qed.

(* mapProperties: appending a declared property keeps every earlier (number, property) pair *)
Lemma map_properties_snoc virt decl p :
  map_properties virt (decl ++ [p]) =
  map_properties virt decl ++ [(1 + N.of_nat (length virt + length decl), p)].
Proof.
  unfold map_properties. rewrite app_assoc, number_from_app. cbn. rewrite app_length. reflexivity.
Qed.

Lemma number_from_nth n l i p :
  nth_error l i = Some p -> nth_error (number_from n l) i = Some (n + N.of_nat i, p).
Proof.
  revert n i. induction l as [|q r IH]; intros n i H; destruct i; cbn in *; try discriminate.
  - inversion H. subst. f_equal. f_equal. lia.
  - rewrite (IH (N.succ n) i H). f_equal. f_equal. lia.
Qed.

(* field number = 1-based position after the virtual-prepended properties *)
Lemma map_properties_number virt decl i p :
  nth_error decl i = Some p ->
  nth_error (map_properties virt decl) (length virt + i) = Some (1 + N.of_nat (length virt + i), p).
Proof.
  intros H. unfold map_properties. apply number_from_nth.
  rewrite nth_error_app2 by lia. replace (length virt + i - length virt)%nat with i by lia. exact H.
Qed.

(* CodecEncDecProofs.v — lemmas behind props/C01.v: every scalar printer is inverted by the
   reading arm of scalarReflectFromGo (all values of the documented domain), and the
   structural round trip decode_tree (tree of encode m) = m' with m' equivalent to m. *)
From Coq Require Import String List Arith NArith ZArith Bool Lia ZifyN ZifyNat ZifyBool.
From J5V.lib Require Import Outcome Json JsonPrint Base64 Civil Decimal.
From J5V.model Require Import CodecTypes CodecEnc CodecEncSpec CodecEncDec.
From J5V.proofs Require Import CodecEncProofs.
Import ListNotations.
Local Open Scope N_scope.
Local Open Scope bool_scope.
Arguments Nat.sub : simpl never.

(* ================================================================ scalars *)
(* the documented domain of each scalar kind, on the value shapes of CodecTypes *)
Definition rep_scalar (k : scalar_kind) (v : pval) : Prop :=
  match k, v with
  | KInt32, VInt z => (-2147483648 <= z <= 2147483647)%Z
  | KInt64, VInt z => (-9223372036854775808 <= z <= 9223372036854775807)%Z
  | KUint32, VInt z => (0 <= z <= 4294967295)%Z
  | KUint64, VInt z => (0 <= z <= 18446744073709551615)%Z
  | KFloat32, VFloat b => float_finite true b = true
  | KFloat64, VFloat b => float_finite false b = true
  | KBool, VBool _ => True
  | KString, VStr s | KKey, VStr s => valid_utf8 s = true
  | KBytes, VBytes s => Forall is_byte s
  | KDate, VMsg m =>
      exists y mo d, m = [(1, VInt y); (2, VInt mo); (3, VInt d)] /\
                     (1 <= y <= 9999 /\ 1 <= mo <= 12 /\ 1 <= d <= days_in mo y)%Z
  | KDecimal, VMsg m => exists s s', m = [(1, VStr s)] /\ dec_normalise s = Some s' /\ valid_utf8 s = true
  | KTimestamp, VMsg m => exists s ns, VMsg m = mk_timestamp s ns /\ ts_range s ns
  | _, _ => False
  end.

(* what the decoded value is allowed to differ in: the decimal text is normalised *)
Definition scalar_equiv (k : scalar_kind) (v v' : pval) : Prop :=
  match k with
  | KDecimal => exists s s', v = VMsg [(1, VStr s)] /\ dec_normalise s = Some s' /\ v' = mk_decimal s'
  | _ => v' = v
  end.

Lemma print_Z_not_empty z : print_Z z <> [].
Proof.
  destruct z as [|p|p]; cbn [print_Z]; try discriminate. apply digits_of_nonempty.
Qed.

Lemma parse_N_print_nat z : (0 <= z)%Z -> parse_N (print_Z z) = Some (Z.to_N z).
Proof.
  intros H. destruct z as [|p|p]; [reflexivity| |lia]. cbn [print_Z]. rewrite parse_N_digits. reflexivity.
Qed.

Section ScalarRT.
  Variable fmt_float : bool -> N -> bytes.
  Variable parse_float : bool -> bytes -> option N.
  Variable parse_time : bytes -> option (Z * Z).

  (* the assumed law of strconv (exercised on every run against the real functions) *)
  Definition float_roundtrip : Prop :=
    forall is32 bits, float_finite is32 bits = true -> parse_float is32 (fmt_float is32 bits) = Some bits.
  (* time.Parse(time.RFC3339, _) begins with the fast path modelled by parse_rfc3339 *)
  Definition time_parse_extends : Prop :=
    forall s r, parse_rfc3339 s = Some r -> parse_time s = Some r.

  Hypothesis Hfloat_ok : float_text_ok fmt_float.
  Hypothesis Hfloat_rt : float_roundtrip.
  Hypothesis Htime : time_parse_extends.

  Notation dec_scalar := (dec_scalar parse_float parse_time).

  Lemma mk_timestamp_fields s ns m : VMsg m = mk_timestamp s ns -> zfield 1 m = s /\ zfield 2 m = ns.
  Proof.
    unfold mk_timestamp, wkt_fields. intros [= ->]. cbn [filter snd is_zero negb].
    destruct (Z.eqb s 0) eqn:Es; destruct (Z.eqb ns 0) eqn:En; cbn [negb]; unfold zfield; cbn; lia.
  Qed.

  Lemma field_int_mk_timestamp s ns m : VMsg m = mk_timestamp s ns ->
    field_int 1 m = Ok s /\ field_int 2 m = Ok ns.
  Proof.
    unfold mk_timestamp, wkt_fields. intros [= ->]. cbn [filter snd is_zero negb].
    destruct (Z.eqb s 0) eqn:Es; destruct (Z.eqb ns 0) eqn:En; cbn [negb]; unfold field_int; cbn;
      split; f_equal; lia.
  Qed.

  Theorem scalar_roundtrip k v : rep_scalar k v ->
    exists J, (exists txt, enc_scalar fmt_float k v = Ok txt /\ txt = print J) /\ wfb J = true /\
              is_container J = false /\ J <> JNull /\
              exists v', dec_scalar k J = Ok (Some v') /\ scalar_equiv k v v'.
  Proof.
    intros Hr. destruct k, v; cbn [rep_scalar] in Hr; try contradiction.
    - (* int32 *) exists (JNum (print_Z z)). split; [eexists; split; reflexivity|].
      split; [apply print_Z_valid_number|]. split; [reflexivity|]. split; [discriminate|].
      exists (VInt z). split; [|reflexivity]. cbn [CodecEncDec.dec_scalar dec_int]. unfold parse_signed.
      rewrite parse_print_Z. unfold in_rangeZ.
      replace ((-9223372036854775808 <=? z)%Z && (z <=? 9223372036854775807)%Z) with true by lia.
      replace ((-2147483648 <=? z)%Z && (z <=? 2147483647)%Z) with true by lia. reflexivity.
    - (* int64 *) exists (JStr (print_Z z)). destruct (print_plain_str _ (print_Z_plain z)) as [Hp Hw].
      split; [eexists; split; [reflexivity|symmetry; exact Hp]|]. split; [exact Hw|]. split; [reflexivity|]. split; [discriminate|].
      exists (VInt z). split; [|reflexivity]. cbn [CodecEncDec.dec_scalar dec_int]. unfold parse_signed.
      rewrite parse_print_Z. unfold in_rangeZ.
      replace ((-9223372036854775808 <=? z)%Z && (z <=? 9223372036854775807)%Z) with true by lia. reflexivity.
    - (* uint32 *) exists (JNum (print_Z z)). split; [eexists; split; reflexivity|].
      split; [apply print_Z_valid_number|]. split; [reflexivity|]. split; [discriminate|].
      exists (VInt z). split; [|reflexivity]. cbn [CodecEncDec.dec_scalar dec_int]. unfold parse_signed.
      rewrite parse_print_Z. unfold in_rangeZ.
      replace ((-9223372036854775808 <=? z)%Z && (z <=? 9223372036854775807)%Z) with true by lia.
      replace ((0 <=? z)%Z && (z <=? 4294967295)%Z) with true by lia. reflexivity.
    - (* uint64 *) exists (JStr (print_Z z)). destruct (print_plain_str _ (print_Z_plain z)) as [Hp Hw].
      split; [eexists; split; [reflexivity|symmetry; exact Hp]|]. split; [exact Hw|]. split; [reflexivity|]. split; [discriminate|].
      exists (VInt z). split; [|reflexivity]. cbn [CodecEncDec.dec_scalar dec_int]. unfold parse_unsigned.
      rewrite parse_N_print_nat by lia. rewrite Z2N.id by lia. unfold max_u64.
      replace (z <=? 18446744073709551615)%Z with true by lia. reflexivity.
    - (* float32 *) exists (JNum (fmt_float true bits)).
      split. { eexists. split; [reflexivity|]. cbn [print]. unfold enc_float, float_is_nan, float_is_inf.
               unfold float_finite in Hr. destruct (float_exp_all_ones true bits); [discriminate|]. reflexivity. }
      split; [cbn [wfb]; apply Hfloat_ok; exact Hr|]. split; [reflexivity|]. split; [discriminate|].
      exists (VFloat bits). split; [|reflexivity]. cbn [CodecEncDec.dec_scalar dec_float]. rewrite Hfloat_rt by exact Hr. reflexivity.
    - (* float64 *) exists (JNum (fmt_float false bits)).
      split. { eexists. split; [reflexivity|]. cbn [print]. unfold enc_float, float_is_nan, float_is_inf.
               unfold float_finite in Hr. destruct (float_exp_all_ones false bits); [discriminate|]. reflexivity. }
      split; [cbn [wfb]; apply Hfloat_ok; exact Hr|]. split; [reflexivity|]. split; [discriminate|].
      exists (VFloat bits). split; [|reflexivity]. cbn [CodecEncDec.dec_scalar dec_float]. rewrite Hfloat_rt by exact Hr. reflexivity.
    - (* bool *) exists (JBool b). split; [eexists; split; [reflexivity|destruct b; reflexivity]|].
      split; [reflexivity|]. split; [reflexivity|]. split; [discriminate|]. exists (VBool b). split; reflexivity.
    - (* string *) exists (JStr s). split; [eexists; split; [cbn [CodecEnc.enc_scalar]; rewrite escape_spec, Hr; reflexivity|reflexivity]|].
      split; [exact Hr|]. split; [reflexivity|]. split; [discriminate|]. exists (VStr s). split; reflexivity.
    - (* bytes *) exists (JStr (b64_encode s)).
      assert (Hpl : Forall plain (b64_encode s)).
      { pose proof (b64_encode_chars s Hr) as H. eapply Forall_impl; [|exact H]. unfold b64_out_char, plain. intros; lia. }
      destruct (print_plain_str _ Hpl) as [Hp Hw].
      split; [eexists; split; [cbn [CodecEnc.enc_scalar]; rewrite escape_spec; cbn [wfb] in Hw; rewrite Hw; reflexivity|reflexivity]|].
      split; [exact Hw|]. split; [reflexivity|]. split; [discriminate|].
      exists (VBytes s). split; [|reflexivity]. cbn [CodecEncDec.dec_scalar]. rewrite b64_lenient_encode by exact Hr. reflexivity.
    - (* key *) exists (JStr s). split; [eexists; split; [cbn [CodecEnc.enc_scalar]; rewrite escape_spec, Hr; reflexivity|reflexivity]|].
      split; [exact Hr|]. split; [reflexivity|]. split; [discriminate|]. exists (VStr s). split; reflexivity.
    - (* date *) destruct Hr as (y & mo & d & -> & Hy & Hmo & Hd).
      pose proof (days_in_le mo y) as Hdi.
      destruct (date_string_shape y mo d ltac:(lia) ltac:(lia) ltac:(lia)) as (a & b & c & Hds & _ & _ & _ & Hdig & _).
      assert (Hpl : Forall plain (date_string y mo d)).
      { rewrite Hds. rewrite !forallb_app in Hdig. apply andb_true_iff in Hdig as [Ha Hbc]. apply andb_true_iff in Hbc as [Hb Hc].
        repeat (apply Forall_app; split); try (apply digits_plain; assumption); repeat constructor; unfold plain; lia. }
      destruct (print_plain_str _ Hpl) as [Hp Hw].
      exists (JStr (date_string y mo d)).
      split. { eexists. split; [|reflexivity]. cbn [CodecEnc.enc_scalar]. unfold field_int. cbn [msg_get N.eqb Pos.eqb obind].
               rewrite escape_spec. cbn [wfb] in Hw. rewrite Hw. reflexivity. }
      split; [exact Hw|]. split; [reflexivity|]. split; [discriminate|].
      exists (VMsg [(1, VInt y); (2, VInt mo); (3, VInt d)]). split; [|reflexivity].
      cbn [CodecEncDec.dec_scalar]. rewrite date_roundtrip by lia. f_equal. f_equal.
      unfold mk_date, wkt_fields. cbn [filter snd is_zero].
      replace (Z.eqb y 0) with false by lia. replace (Z.eqb mo 0) with false by lia. replace (Z.eqb d 0) with false by lia.
      reflexivity.
    - (* decimal *) destruct Hr as (s & s' & -> & Hn & Hv).
      exists (JStr s). split; [eexists; split; [cbn [CodecEnc.enc_scalar]; unfold field_bytes; cbn [msg_get N.eqb Pos.eqb obind]; rewrite escape_spec, Hv; reflexivity|reflexivity]|].
      split; [exact Hv|]. split; [reflexivity|]. split; [discriminate|].
      exists (mk_decimal s'). split; [cbn [CodecEncDec.dec_scalar]; rewrite Hn; reflexivity|].
      exists s, s'. repeat split; assumption.
    - (* timestamp *) destruct Hr as (s & ns & Hm & Hrange).
      destruct (field_int_mk_timestamp s ns fields Hm) as [H1 H2].
      pose proof (parse_format_rfc3339 s ns Hrange) as Hpf.
      set (t := format_rfc3339nano s ns) in *.
      assert (Hpl : Forall plain t).
      { (* every character of a formatted instant is a digit, '-', ':', '.', 'T' or 'Z' *)
        pose proof (format_rfc3339_chars s ns Hrange) as Hc. eapply Forall_impl; [|exact Hc].
        intros c [Hd|[->|[->|[->|[->| ->]]]]]; unfold plain; try lia. unfold is_digit in Hd. lia. }
      destruct (print_plain_str _ Hpl) as [Hp Hw].
      exists (JStr t). split; [eexists; split; [cbn [CodecEnc.enc_scalar]; rewrite H1; cbn [obind]; rewrite H2; cbn [obind]; fold t; rewrite escape_spec; cbn [wfb] in Hw; rewrite Hw; reflexivity|reflexivity]|].
      split; [exact Hw|]. split; [reflexivity|]. split; [discriminate|].
      exists (mk_timestamp s ns). split; [|cbn [scalar_equiv]; rewrite Hm; reflexivity].
      cbn [CodecEncDec.dec_scalar]. rewrite (Htime _ _ Hpf). reflexivity.
  Qed.
End ScalarRT.
